(* C17 -- executable model of the vector individuals of vita
   (src/kernel/ga/i_ga.cc, i_de.cc, primitive.h, problem.cc,
   individual.tcc:set_older_age), definitions only.

   Randomness is an oracle stream of draws consumed in source order.  A draw
   records what hook H1 logs: the kind, the bounds the C++ passed to
   random::between / random::boolean, and the value returned.  A model
   function ACCEPTS a draw only if
     * its kind and bounds are the ones the model itself requests at that
       point (same order, same parameters as the C++), and
     * the value honours the contract of the C++ function (H_draws):
         between<int>(lo,hi)    : lo <= v < hi
         between<double>(lo,hi) : lo <= v <= hi   (closed at the top: libstdc++'s
                                  uniform_real_distribution may round up to hi)
         boolean(p)             : p = 0 -> false,  p = 1 -> true
   otherwise the result is [None].  So "[f ... ds = Some r]" reads "ds is a valid
   draw stream for this call and r is the result"; theorems quantify over all
   streams. *)
From Coq Require Import ZArith List Bool.
From VV Require Import Base.F64.
Import ListNotations.
Local Open Scope Z_scope.

Inductive draw :=
| DInt (lo hi v : Z)             (* kind 'i' *)
| DReal (lo hi v : f64)          (* kind 'r' *)
| DBool (p : f64) (v : bool).    (* kind 'b' *)

Definition same_bits (a b : f64) : bool := F64.to_bits a =? F64.to_bits b.
Definition f64_one : f64 := F64.of_Z 1.

Definition next_int (lo hi : Z) (ds : list draw) : option (Z * list draw) :=
  match ds with
  | DInt lo' hi' v :: r =>
      if (lo =? lo') && (hi =? hi') && (lo <=? v) && (v <? hi) then Some (v, r) else None
  | _ => None
  end.

Definition next_real (lo hi : f64) (ds : list draw) : option (f64 * list draw) :=
  match ds with
  | DReal lo' hi' v :: r =>
      if same_bits lo lo' && same_bits hi hi' && F64.leb lo v && F64.leb v hi then Some (v, r) else None
  | _ => None
  end.

Definition bool_contract (p : f64) (b : bool) : bool :=
  if F64.eqb p F64.zero then negb b else if F64.eqb p f64_one then b else true.

Definition next_bool (p : f64) (ds : list draw) : option (bool * list draw) :=
  match ds with
  | DBool p' b :: r => if same_bits p p' && bool_contract p b then Some (b, r) else None
  | _ => None
  end.

(* symbol_set::roulette_terminal(c): random::sup(sum of weights); a ga/de
   problem has exactly one terminal (weight 100) per category, which every
   slot in [0,100) selects. *)
Definition roulette (ds : list draw) : option (Z * list draw) := next_int 0 100 ds.

(* ------------------------------------------------------------ i_ga *)
Record iga := mk_iga { ga_genome : list Z; ga_age : Z }.

(* i_ga::i_ga(const problem &p): std::generate over the genome, position n
   gets static_cast<int>(p.sset.roulette_terminal(n).init());  init() is
   random::in(range_) = between<int>(lo, hi) converted to double and back
   (exact for 32-bit integers). *)
Fixpoint ga_create_genome (ranges : list (Z * Z)) (ds : list draw) : option (list Z * list draw) :=
  match ranges with
  | [] => Some ([], ds)
  | (lo, hi) :: rs =>
      match roulette ds with None => None | Some (_, ds1) =>
      match next_int lo hi ds1 with None => None | Some (v, ds2) =>
      match ga_create_genome rs ds2 with None => None | Some (g, ds3) =>
      Some (v :: g, ds3) end end end
  end.

Definition ga_create (ranges : list (Z * Z)) (ds : list draw) : option (iga * list draw) :=
  match ranges with
  | [] => None                                   (* Expects(parameters()) *)
  | _ => match ga_create_genome ranges ds with
         | None => None
         | Some (g, ds') => Some (mk_iga g 0, ds')
         end
  end.

(* unsigned i_ga::mutation(double pgm, const problem &prb): for every
   position, boolean(pgm); when true a new value is drawn and stored (the
   counter moves only if the value changed).  Returns genome and counter. *)
Fixpoint ga_mut_genome (pgm : f64) (ranges : list (Z * Z)) (g : list Z) (ds : list draw)
  : option (list Z * Z * list draw) :=
  match ranges, g with
  | [], [] => Some ([], 0, ds)
  | (lo, hi) :: rs, x :: xs =>
      match next_bool pgm ds with None => None | Some (b, ds1) =>
      if b then
        match roulette ds1 with None => None | Some (_, ds2) =>
        match next_int lo hi ds2 with None => None | Some (v, ds3) =>
        match ga_mut_genome pgm rs xs ds3 with None => None | Some (g', n, ds4) =>
        Some (v :: g', (if v =? x then n else n + 1), ds4) end end end
      else
        match ga_mut_genome pgm rs xs ds1 with None => None | Some (g', n, ds4) =>
        Some (x :: g', n, ds4) end
      end
  | _, _ => None                                 (* genome and problem disagree on the length *)
  end.

Definition ga_mutation (pgm : f64) (ranges : list (Z * Z)) (x : iga) (ds : list draw)
  : option (iga * Z * list draw) :=
  match ga_mut_genome pgm ranges (ga_genome x) ds with
  | None => None
  | Some (g, n, ds') => Some (mk_iga g (ga_age x), n, ds')
  end.

(* the loop  for (i = cut1; i < cut2; ++i) ret.genome_[i] = lhs[i]  on ret = rhs *)
Fixpoint splice_from (i c1 c2 : Z) (l r : list Z) : list Z :=
  match l, r with
  | x :: l', y :: r' => (if (c1 <=? i) && (i <? c2) then x else y) :: splice_from (i + 1) c1 c2 l' r'
  | _, _ => []
  end.

(* void set_older_age(unsigned rhs_age) { if (age() < rhs_age) age_ = rhs_age; } *)
Definition set_older_age (age rhs_age : Z) : Z := if age <? rhs_age then rhs_age else age.

(* i_ga crossover(const i_ga &lhs, const i_ga &rhs):
     cut1 = random::sup(ps - 1);  cut2 = random::between(cut1 + 1, ps);
   ps < 2 makes the first request empty (Expects(min < sup)): [None]. *)
Definition ga_crossover (lhs rhs : iga) (ds : list draw) : option (iga * list draw) :=
  let ps := Z.of_nat (length (ga_genome lhs)) in
  if negb (Nat.eqb (length (ga_genome lhs)) (length (ga_genome rhs))) then None
  else if ps <? 2 then None
  else
    match next_int 0 (ps - 1) ds with None => None | Some (cut1, ds1) =>
    match next_int (cut1 + 1) ps ds1 with None => None | Some (cut2, ds2) =>
    Some (mk_iga (splice_from 0 cut1 cut2 (ga_genome lhs) (ga_genome rhs))
                 (set_older_age (ga_age rhs) (ga_age lhs)), ds2)
    end end.

(* the cuts a crossover used (for the statement of the segment theorem) *)
Definition ga_cuts (lhs : iga) (ds : list draw) : option (Z * Z) :=
  let ps := Z.of_nat (length (ga_genome lhs)) in
  match next_int 0 (ps - 1) ds with None => None | Some (cut1, ds1) =>
  match next_int (cut1 + 1) ps ds1 with None => None | Some (cut2, _) => Some (cut1, cut2) end end.

Definition in_range_b (ranges : list (Z * Z)) (g : list Z) : bool :=
  Nat.eqb (length ranges) (length g) &&
  forallb (fun '((lo, hi), v) => (lo <=? v) && (v <? hi)) (combine ranges g).

(* ------------------------------------------------------------ i_de *)
Record ide := mk_ide { de_genome : list f64; de_age : Z }.

Fixpoint de_create_genome (ranges : list (f64 * f64)) (ds : list draw) : option (list f64 * list draw) :=
  match ranges with
  | [] => Some ([], ds)
  | (lo, hi) :: rs =>
      match roulette ds with None => None | Some (_, ds1) =>
      match next_real lo hi ds1 with None => None | Some (v, ds2) =>
      match de_create_genome rs ds2 with None => None | Some (g, ds3) =>
      Some (v :: g, ds3) end end end
  end.

Definition de_create (ranges : list (f64 * f64)) (ds : list draw) : option (ide * list draw) :=
  match ranges with
  | [] => None
  | _ => match de_create_genome ranges ds with
         | None => None
         | Some (g, ds') => Some (mk_ide g 0, ds')
         end
  end.

(* ret[i] += rf * (a[i] - b[i])  on ret = c *)
Definition mutant (rf av bv cv : f64) : f64 := F64.add cv (F64.mul rf (F64.sub av bv)).

(* for (i = 0; i < ps - 1; ++i)
     if (random::boolean(p)) ret[i] += rf * (a[i] - b[i]); else ret[i] = operator[](i);
   ret[ps - 1] += rf * (a[ps - 1] - b[ps - 1]); *)
Fixpoint de_cross_genome (p rf : f64) (t a b c : list f64) (ds : list draw) {struct t}
  : option (list f64 * list draw) :=
  match t, a, b, c with
  | [_], [av], [bv], [cv] => Some ([mutant rf av bv cv], ds)
  | tv :: t', av :: a', bv :: b', cv :: c' =>
      match next_bool p ds with None => None | Some (bit, ds1) =>
      match de_cross_genome p rf t' a' b' c' ds1 with None => None | Some (g, ds2) =>
      Some ((if bit then mutant rf av bv cv else tv) :: g, ds2) end end
  | _, _, _, _ => None
  end.

(* i_de i_de::crossover(double p, const range_t<double> &f, a, b, c) const
     rf = random::in(f);  ...;  ret.set_older_age(std::max({age(), a.age(), b.age()})); *)
Definition de_crossover (p flo fhi : f64) (t a b c : ide) (ds : list draw) : option (ide * list draw) :=
  match next_real flo fhi ds with None => None | Some (rf, ds1) =>
  match de_cross_genome p rf (de_genome t) (de_genome a) (de_genome b) (de_genome c) ds1 with
  | None => None
  | Some (g, ds2) =>
      Some (mk_ide g (set_older_age (de_age c) (Z.max (de_age t) (Z.max (de_age a) (de_age b)))), ds2)
  end end.

(* the dither factor a crossover used *)
Definition de_factor (flo fhi : f64) (ds : list draw) : option f64 :=
  match next_real flo fhi ds with None => None | Some (rf, _) => Some rf end.

Definition in_box_b (ranges : list (f64 * f64)) (g : list f64) : bool :=
  Nat.eqb (length ranges) (length g) &&
  forallb (fun '((lo, hi), v) => F64.leb lo v && F64.leb v hi) (combine ranges g).

(* ------------------------------------------------------------ the pinned tree
   On the pinned tree random::between<double>(min, sup) was
     std::uniform_real_distribution<double> d(min, sup);  return d(engine);
   which libstdc++ evaluates as  u * (sup - min) + min  for a canonical u in
   [0,1).  When sup - min overflows the result is inf (or NaN for u = 0):
   outside the declared interval.  (Repaired: sampled at half scale.) *)
Definition between_real_pinned (lo hi u : f64) : f64 := F64.add (F64.mul u (F64.sub hi lo)) lo.

(* ------------------------------------------------------------ the remaining public members of i_ga / i_de
   (i_ga.h, i_de.h, individual.h).  Modelled here: size()/parameters(), empty(), operator[] const (read),
   operator[] (write through the returned reference), begin()..end() / operator std::vector (the gene list),
   operator==, inc_age(), i_de::operator=(const std::vector<double> &).
   NOT here: signature()/hash() (C03), distance() (not part of this property), load/save (C11), graphviz/operator<<
   (output only), is_valid() (about the signature).
   A write through operator[] / a non-const iterator / operator= stores whatever the caller passes: keeping the gene
   inside its interval is the CALLER's duty (ga_set_in_range needs lo <= v < hi; C17_ga_set_can_leave_range). *)
Definition ga_size (x : iga) : Z := Z.of_nat (length (ga_genome x)).
Definition ga_empty (x : iga) : bool := ga_size x =? 0.

(* value_type operator[](std::size_t i) const { Expects(i < parameters()); return genome_[i]; } *)
Definition ga_get (x : iga) (i : nat) : option Z := nth_error (ga_genome x) i.

Fixpoint list_set {A : Type} (l : list A) (i : nat) (v : A) : option (list A) :=
  match l, i with
  | [], _ => None
  | _ :: r, O => Some (v :: r)
  | y :: r, S k => match list_set r k v with None => None | Some r' => Some (y :: r') end
  end.

(* x[i] = v  through  value_type &operator[](std::size_t i) *)
Definition ga_set (x : iga) (i : nat) (v : Z) : option iga :=
  match list_set (ga_genome x) i v with
  | None => None
  | Some g => Some (mk_iga g (ga_age x))
  end.

(* void inc_age() { ++age_; }   age_ is unsigned (32 bits) *)
Definition inc_age (age : Z) : Z := (age + 1) mod 4294967296.
Definition ga_inc_age (x : iga) : iga := mk_iga (ga_genome x) (inc_age (ga_age x)).

Fixpoint list_eqb {A : Type} (eqb : A -> A -> bool) (l r : list A) : bool :=
  match l, r with
  | [], [] => true
  | a :: l', b :: r' => eqb a b && list_eqb eqb l' r'
  | _, _ => false
  end.
(* bool i_ga::operator==(const i_ga &x) const: genome_ == x.genome_ *)
Definition ga_eqb (x y : iga) : bool := list_eqb Z.eqb (ga_genome x) (ga_genome y).

Definition de_size (x : ide) : Z := Z.of_nat (length (de_genome x)).
Definition de_get (x : ide) (i : nat) : option f64 := nth_error (de_genome x) i.
Definition de_set (x : ide) (i : nat) (v : f64) : option ide :=
  match list_set (de_genome x) i v with
  | None => None
  | Some g => Some (mk_ide g (de_age x))
  end.
Definition de_inc_age (x : ide) : ide := mk_ide (de_genome x) (inc_age (de_age x)).
(* i_de &operator=(const std::vector<double> &v) { Expects(v.size() == parameters()); genome_ = v; return *this; } *)
Definition de_assign (x : ide) (v : list f64) : option ide :=
  if Nat.eqb (length v) (length (de_genome x)) then Some (mk_ide v (de_age x)) else None.
(* bool operator==(const i_de &, const i_de &): std::equal over the genes with double == (so -0 == +0, NaN != NaN) *)
Definition de_eqb (x y : ide) : bool := list_eqb F64.eqb (de_genome x) (de_genome y).
