(* C17 (round 2) -- a seeded run is a run of the stream-driven model on the trace it produced. *)
From Coq Require Import ZArith List Bool Lia ZifyBool.
From VV Require Import Base.F64 Rng.RngDefs Rng.RngProofs Rng.DistDefs Rng.DistProofs Rng.DistRealProofs Ga.GaDefs Ga.GaProofs Ga.GaSeededDefs.
Import ListNotations.
Local Open Scope Z_scope.

Lemma same_bits_refl : forall x, same_bits x x = true.
Proof. intro. unfold same_bits. apply Z.eqb_refl. Qed.

Lemma between_real_wf : forall lo hi st, wf st -> wf (snd (between_real lo hi st)).
Proof.
  intros lo hi st Hw. unfold between_real, uniform_real.
  pose proof (canonical_wf st Hw) as H. destruct (F64.is_finite (F64.sub hi lo)); destruct (canonical st) as [u st']; exact H.
Qed.

Lemma boolean_wf : forall p st, wf st -> wf (snd (boolean p st)).
Proof.
  intros p st Hw. unfold boolean. pose proof (canonical_wf st Hw) as H. destruct (canonical st) as [u st']. exact H.
Qed.

Section Refines.
Variable fuel : nat.

Lemma e_int_ref : forall lo hi st v st' tr rest, wf st ->
  e_int fuel lo hi st = Some (v, st', tr) -> next_int lo hi (tr ++ rest) = Some (v, rest) /\ wf st'.
Proof.
  intros lo hi st v st' tr rest Hw H. unfold e_int in H.
  destruct (between_int fuel lo hi st) as [[v0 st0]|] eqn:E; [|discriminate H]. injection H as <- <- <-.
  apply between_int_range in E; [|exact Hw]. destruct E as [E Hw']. split; [|exact Hw'].
  cbn [app next_int]. replace ((lo =? lo) && (hi =? hi) && (lo <=? v0) && (v0 <? hi)) with true by lia. reflexivity.
Qed.

Lemma e_real_ref : forall lo hi st v st' tr rest, wf st ->
  e_real lo hi st = Some (v, st', tr) -> next_real lo hi (tr ++ rest) = Some (v, rest) /\ wf st'.
Proof.
  intros lo hi st v st' tr rest Hw H. unfold e_real in H.
  pose proof (between_real_wf lo hi st Hw) as Hw'. destruct (between_real lo hi st) as [v0 st0]. cbn [snd] in Hw'.
  destruct (F64.leb lo v0 && F64.leb v0 hi) eqn:E; [|discriminate H]. injection H as <- <- <-.
  split; [|exact Hw']. cbn [app next_real]. rewrite !same_bits_refl. cbn [andb].
  apply andb_prop in E. destruct E as [E1 E2]. rewrite E1, E2. reflexivity.
Qed.

Lemma e_bool_ref : forall p st b st' tr rest, wf st ->
  e_bool p st = Some (b, st', tr) -> next_bool p (tr ++ rest) = Some (b, rest) /\ wf st'.
Proof.
  intros p st b st' tr rest Hw H. unfold e_bool in H.
  pose proof (boolean_wf p st Hw) as Hw'. destruct (boolean p st) as [b0 st0]. cbn [snd] in Hw'.
  destruct (bool_contract p b0) eqn:E; [|discriminate H]. injection H as <- <- <-.
  split; [|exact Hw']. cbn [app next_bool]. rewrite same_bits_refl, E. reflexivity.
Qed.

Lemma sga_create_genome_ref : forall ranges st g st' tr rest, wf st ->
  sga_create_genome fuel ranges st = Some (g, st', tr) -> ga_create_genome ranges (tr ++ rest) = Some (g, rest) /\ wf st'.
Proof.
  induction ranges as [|[lo hi] rs IH]; intros st g st' tr rest Hw H; cbn [sga_create_genome] in H.
  - injection H as <- <- <-. split; [reflexivity|exact Hw].
  - unfold e_roulette in H.
    destruct (e_int fuel 0 100 st) as [[[w st1] t1]|] eqn:E1; [|discriminate H].
    destruct (e_int fuel lo hi st1) as [[[v st2] t2]|] eqn:E2; [|discriminate H].
    destruct (sga_create_genome fuel rs st2) as [[[g' st3] t3]|] eqn:E3; [|discriminate H].
    injection H as <- <- <-.
    destruct (e_int_ref _ _ _ _ _ _ (t2 ++ t3 ++ rest) Hw E1) as [R1 W1].
    destruct (e_int_ref _ _ _ _ _ _ (t3 ++ rest) W1 E2) as [R2 W2].
    destruct (IH _ _ _ _ rest W2 E3) as [R3 W3]. split; [|exact W3].
    cbn [ga_create_genome]. unfold roulette. rewrite <- !app_assoc. rewrite R1, R2, R3. reflexivity.
Qed.

Lemma sga_create_ref : forall ranges st x st' tr rest, wf st ->
  sga_create fuel ranges st = Some (x, st', tr) -> ga_create ranges (tr ++ rest) = Some (x, rest) /\ wf st'.
Proof.
  intros ranges st x st' tr rest Hw H. unfold sga_create in H. destruct ranges as [|r rs]; [discriminate H|].
  destruct (sga_create_genome fuel (r :: rs) st) as [[[g st1] t1]|] eqn:E; [|discriminate H]. injection H as <- <- <-.
  destruct (sga_create_genome_ref _ _ _ _ _ rest Hw E) as [R W]. split; [|exact W]. unfold ga_create. rewrite R. reflexivity.
Qed.

Lemma sga_mut_genome_ref : forall pgm ranges g st g' n st' tr rest, wf st ->
  sga_mut_genome fuel pgm ranges g st = Some ((g', n), st', tr) ->
  ga_mut_genome pgm ranges g (tr ++ rest) = Some (g', n, rest) /\ wf st'.
Proof.
  intros pgm ranges. induction ranges as [|[lo hi] rs IH]; intros g st g' n st' tr rest Hw H; destruct g as [|x xs];
    cbn [sga_mut_genome] in H; try discriminate H.
  - injection H as <- <- <- <-. split; [reflexivity|exact Hw].
  - destruct (e_bool pgm st) as [[[b st1] t1]|] eqn:Eb; [|discriminate H]. destruct b.
    + unfold e_roulette in H.
      destruct (e_int fuel 0 100 st1) as [[[w st2] t2]|] eqn:E1; [|discriminate H].
      destruct (e_int fuel lo hi st2) as [[[v st3] t3]|] eqn:E2; [|discriminate H].
      destruct (sga_mut_genome fuel pgm rs xs st3) as [[[[g2 n2] st4] t4]|] eqn:E3; [|discriminate H].
      injection H as <- <- <- <-.
      destruct (e_bool_ref _ _ _ _ _ (t2 ++ t3 ++ t4 ++ rest) Hw Eb) as [R0 W0].
      destruct (e_int_ref _ _ _ _ _ _ (t3 ++ t4 ++ rest) W0 E1) as [R1 W1].
      destruct (e_int_ref _ _ _ _ _ _ (t4 ++ rest) W1 E2) as [R2 W2].
      destruct (IH _ _ _ _ _ _ rest W2 E3) as [R3 W3]. split; [|exact W3].
      cbn [ga_mut_genome]. unfold roulette. rewrite <- !app_assoc. rewrite R0, R1, R2, R3. reflexivity.
    + destruct (sga_mut_genome fuel pgm rs xs st1) as [[[[g2 n2] st4] t4]|] eqn:E3; [|discriminate H].
      injection H as <- <- <- <-.
      destruct (e_bool_ref _ _ _ _ _ (t4 ++ rest) Hw Eb) as [R0 W0].
      destruct (IH _ _ _ _ _ _ rest W0 E3) as [R3 W3]. split; [|exact W3].
      cbn [ga_mut_genome]. rewrite <- !app_assoc. rewrite R0, R3. reflexivity.
Qed.

Lemma sga_mutation_ref : forall pgm ranges x st y n st' tr rest, wf st ->
  sga_mutation fuel pgm ranges x st = Some ((y, n), st', tr) ->
  ga_mutation pgm ranges x (tr ++ rest) = Some (y, n, rest) /\ wf st'.
Proof.
  intros pgm ranges x st y n st' tr rest Hw H. unfold sga_mutation in H.
  destruct (sga_mut_genome fuel pgm ranges (ga_genome x) st) as [[[[g n2] st1] t1]|] eqn:E; [|discriminate H].
  injection H as <- <- <- <-. destruct (sga_mut_genome_ref _ _ _ _ _ _ _ _ rest Hw E) as [R W]. split; [|exact W].
  unfold ga_mutation. rewrite R. reflexivity.
Qed.

Lemma sga_crossover_ref : forall l r st child st' tr rest, wf st ->
  sga_crossover fuel l r st = Some (child, st', tr) -> ga_crossover l r (tr ++ rest) = Some (child, rest) /\ wf st'.
Proof.
  intros l r st child st' tr rest Hw H. unfold sga_crossover in H. unfold ga_crossover.
  destruct (negb (Nat.eqb (length (ga_genome l)) (length (ga_genome r)))); [discriminate H|].
  destruct (Z.of_nat (length (ga_genome l)) <? 2); [discriminate H|].
  destruct (e_int fuel 0 (Z.of_nat (length (ga_genome l)) - 1) st) as [[[c1 st1] t1]|] eqn:E1; [|discriminate H].
  destruct (e_int fuel (c1 + 1) (Z.of_nat (length (ga_genome l))) st1) as [[[c2 st2] t2]|] eqn:E2; [|discriminate H].
  injection H as <- <- <-.
  destruct (e_int_ref _ _ _ _ _ _ (t2 ++ rest) Hw E1) as [R1 W1].
  destruct (e_int_ref _ _ _ _ _ _ rest W1 E2) as [R2 W2]. split; [|exact W2].
  rewrite <- app_assoc. rewrite R1, R2. reflexivity.
Qed.

Lemma sde_create_genome_ref : forall ranges st g st' tr rest, wf st ->
  sde_create_genome fuel ranges st = Some (g, st', tr) -> de_create_genome ranges (tr ++ rest) = Some (g, rest) /\ wf st'.
Proof.
  induction ranges as [|[lo hi] rs IH]; intros st g st' tr rest Hw H; cbn [sde_create_genome] in H.
  - injection H as <- <- <-. split; [reflexivity|exact Hw].
  - unfold e_roulette in H.
    destruct (e_int fuel 0 100 st) as [[[w st1] t1]|] eqn:E1; [|discriminate H].
    destruct (e_real lo hi st1) as [[[v st2] t2]|] eqn:E2; [|discriminate H].
    destruct (sde_create_genome fuel rs st2) as [[[g' st3] t3]|] eqn:E3; [|discriminate H].
    injection H as <- <- <-.
    destruct (e_int_ref _ _ _ _ _ _ (t2 ++ t3 ++ rest) Hw E1) as [R1 W1].
    destruct (e_real_ref _ _ _ _ _ _ (t3 ++ rest) W1 E2) as [R2 W2].
    destruct (IH _ _ _ _ rest W2 E3) as [R3 W3]. split; [|exact W3].
    cbn [de_create_genome]. unfold roulette. rewrite <- !app_assoc. rewrite R1, R2, R3. reflexivity.
Qed.

Lemma sde_create_ref : forall ranges st x st' tr rest, wf st ->
  sde_create fuel ranges st = Some (x, st', tr) -> de_create ranges (tr ++ rest) = Some (x, rest) /\ wf st'.
Proof.
  intros ranges st x st' tr rest Hw H. unfold sde_create in H. destruct ranges as [|r rs]; [discriminate H|].
  destruct (sde_create_genome fuel (r :: rs) st) as [[[g st1] t1]|] eqn:E; [|discriminate H]. injection H as <- <- <-.
  destruct (sde_create_genome_ref _ _ _ _ _ rest Hw E) as [R W]. split; [|exact W]. unfold de_create. rewrite R. reflexivity.
Qed.

Lemma sdcg_nil_a : forall p rf t b c st, sde_cross_genome p rf t [] b c st = None.
Proof. intros. destruct t as [|? [|? ?]]; reflexivity. Qed.
Lemma sdcg_nil_b : forall p rf t a c st, sde_cross_genome p rf t a [] c st = None.
Proof. intros. destruct t as [|? [|? ?]], a as [|? [|? ?]]; reflexivity. Qed.
Lemma sdcg_nil_c : forall p rf t a b st, sde_cross_genome p rf t a b [] st = None.
Proof. intros. destruct t as [|? [|? ?]], a as [|? [|? ?]], b as [|? [|? ?]]; reflexivity. Qed.
Lemma sdcg_cons2 : forall p rf tv tv2 t av a bv b cv c st,
  sde_cross_genome p rf (tv :: tv2 :: t) (av :: a) (bv :: b) (cv :: c) st =
  match e_bool p st with None => None | Some (bit, st1, t1) =>
  match sde_cross_genome p rf (tv2 :: t) a b c st1 with None => None | Some (g, st2, t2) =>
  Some ((if bit then mutant rf av bv cv else tv) :: g, st2, t1 ++ t2) end end.
Proof. reflexivity. Qed.
Lemma sdcg_last : forall p rf tv av a bv b cv c st g st' tr,
  sde_cross_genome p rf [tv] (av :: a) (bv :: b) (cv :: c) st = Some (g, st', tr) ->
  a = [] /\ b = [] /\ c = [] /\ g = [mutant rf av bv cv] /\ st' = st /\ tr = [].
Proof.
  intros. destruct a as [|? ?], b as [|? ?], c as [|? ?]; cbn [sde_cross_genome] in H; try discriminate H;
    try (destruct (e_bool p st) as [[[? ?] ?]|]; discriminate H).
  injection H as <- <- <-. repeat split; reflexivity.
Qed.

Lemma sde_cross_genome_ref : forall p rf t a b c st g st' tr rest, wf st ->
  sde_cross_genome p rf t a b c st = Some (g, st', tr) ->
  de_cross_genome p rf t a b c (tr ++ rest) = Some (g, rest) /\ wf st'.
Proof.
  intros p rf t. induction t as [|tv t IH]; intros a b c st g st' tr rest Hw H; [discriminate H|].
  destruct a as [|av a]; [rewrite sdcg_nil_a in H; discriminate H|].
  destruct b as [|bv b]; [rewrite sdcg_nil_b in H; discriminate H|].
  destruct c as [|cv c]; [rewrite sdcg_nil_c in H; discriminate H|].
  destruct t as [|tv2 t].
  - apply sdcg_last in H. destruct H as (-> & -> & -> & -> & -> & ->). split; [reflexivity|exact Hw].
  - rewrite sdcg_cons2 in H.
    destruct (e_bool p st) as [[[bit st1] t1]|] eqn:Eb; [|discriminate H].
    destruct (sde_cross_genome p rf (tv2 :: t) a b c st1) as [[[g2 st2] t2]|] eqn:E; [|discriminate H].
    injection H as <- <- <-.
    destruct (e_bool_ref _ _ _ _ _ (t2 ++ rest) Hw Eb) as [R0 W0].
    destruct (IH _ _ _ _ _ _ _ rest W0 E) as [R1 W1]. split; [|exact W1].
    rewrite dcg_cons2. rewrite <- app_assoc. rewrite R0, R1. reflexivity.
Qed.

Lemma sde_crossover_ref : forall p flo fhi t a b c st trial st' tr rest, wf st ->
  sde_crossover p flo fhi t a b c st = Some (trial, st', tr) ->
  de_crossover p flo fhi t a b c (tr ++ rest) = Some (trial, rest) /\ wf st'.
Proof.
  intros p flo fhi t a b c st trial st' tr rest Hw H. unfold sde_crossover in H.
  destruct (e_real flo fhi st) as [[[rf st1] t1]|] eqn:E1; [|discriminate H].
  destruct (sde_cross_genome p rf (de_genome t) (de_genome a) (de_genome b) (de_genome c) st1) as [[[g st2] t2]|] eqn:E2;
    [|discriminate H].
  injection H as <- <- <-.
  destruct (e_real_ref _ _ _ _ _ _ (t2 ++ rest) Hw E1) as [R1 W1].
  destruct (sde_cross_genome_ref _ _ _ _ _ _ _ _ _ _ rest W1 E2) as [R2 W2]. split; [|exact W2].
  unfold de_crossover. rewrite <- app_assoc. rewrite R1, R2. reflexivity.
Qed.

End Refines.

(* in a seeded run the boolean contract needs no check: std::bernoulli_distribution honours it for every state *)
Lemma e_bool_never_refuses : forall p st, wf st -> exists b st' tr, e_bool p st = Some (b, st', tr).
Proof.
  intros p st Hw. unfold e_bool.
  destruct (Rng.DistRealProofs.boolean_contract p st Hw) as [H0 H1].
  destruct (boolean p st) as [b st']. cbn [fst] in *.
  assert (E : bool_contract p b = true).
  { unfold bool_contract. destruct (F64.eqb p F64.zero) eqn:E0.
    - rewrite (H0 eq_refl). reflexivity.
    - unfold f64_one. destruct (F64.eqb p (F64.of_Z 1)) eqn:E1; [exact (H1 eq_refl)|reflexivity]. }
  rewrite E. eauto.
Qed.

(* nor do the real draws, for every finite lo < hi: between<double> stays in [lo, hi] on both of its branches *)
Lemma e_real_never_refuses : forall lo hi st, wf st ->
  F64.is_finite lo = true -> F64.is_finite hi = true -> F64.ltb lo hi = true ->
  exists v st' tr, e_real lo hi st = Some (v, st', tr) /\ F64.leb lo v = true /\ F64.leb v hi = true /\ F64.is_finite v = true.
Proof.
  intros lo hi st Hw Flo Fhi Hlt. unfold e_real.
  destruct (Rng.DistRealProofs.between_real_contract_all lo hi st Hw Flo Fhi Hlt) as (A & B & C).
  destruct (between_real lo hi st) as [v st']. cbn [fst] in *. rewrite A, B. cbn [andb]. eauto 8.
Qed.
