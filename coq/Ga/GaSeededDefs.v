(* C17 (round 2) -- the vector-individual operators run FROM A SEED: the draws are produced by
   the modelled engine + libstdc++ distributions of coq/Rng (RngDefs.v, DistDefs.v) instead of
   being read from a log.  Each function mirrors its stream-driven twin of GaDefs.v draw for
   draw and also returns the trace of draws it made; GaSeededProofs.v shows that the twin
   accepts exactly that trace and returns the same individual, so every theorem of
   Properties_C17.v applies to seeded runs.  Definitions only.

   The contract of the real-valued and boolean draws (lo <= v <= hi, boolean(0)=false,
   boolean(1)=true) is still CHECKED here (None when violated); for integers it is a theorem
   (Dist_C07.v). *)
From Coq Require Import ZArith List Bool.
From VV Require Import Base.F64 Rng.RngDefs Rng.DistDefs Ga.GaDefs.
Import ListNotations.
Local Open Scope Z_scope.

Section Seeded.
Variable fuel : nat.

Definition E (A : Type) := state -> option (A * state * list draw).

Definition e_int (lo hi : Z) : E Z := fun st =>
  match between_int fuel lo hi st with
  | Some (v, st') => Some (v, st', [DInt lo hi v])
  | None => None
  end.

Definition e_real (lo hi : f64) : E f64 := fun st =>
  let '(v, st') := between_real lo hi st in
  if F64.leb lo v && F64.leb v hi then Some (v, st', [DReal lo hi v]) else None.

Definition e_bool (p : f64) : E bool := fun st =>
  let '(b, st') := boolean p st in
  if bool_contract p b then Some (b, st', [DBool p b]) else None.

Definition e_roulette : E Z := e_int 0 100.

Fixpoint sga_create_genome (ranges : list (Z * Z)) : E (list Z) := fun st =>
  match ranges with
  | [] => Some ([], st, [])
  | (lo, hi) :: rs =>
      match e_roulette st with None => None | Some (_, st1, t1) =>
      match e_int lo hi st1 with None => None | Some (v, st2, t2) =>
      match sga_create_genome rs st2 with None => None | Some (g, st3, t3) =>
      Some (v :: g, st3, t1 ++ t2 ++ t3) end end end
  end.

Definition sga_create (ranges : list (Z * Z)) : E iga := fun st =>
  match ranges with
  | [] => None
  | _ => match sga_create_genome ranges st with
         | None => None
         | Some (g, st', t) => Some (mk_iga g 0, st', t)
         end
  end.

Fixpoint sga_mut_genome (pgm : f64) (ranges : list (Z * Z)) (g : list Z) : E (list Z * Z) := fun st =>
  match ranges, g with
  | [], [] => Some (([], 0), st, [])
  | (lo, hi) :: rs, x :: xs =>
      match e_bool pgm st with None => None | Some (b, st1, t1) =>
      if b then
        match e_roulette st1 with None => None | Some (_, st2, t2) =>
        match e_int lo hi st2 with None => None | Some (v, st3, t3) =>
        match sga_mut_genome pgm rs xs st3 with None => None | Some ((g', n), st4, t4) =>
        Some ((v :: g', (if v =? x then n else n + 1)), st4, t1 ++ t2 ++ t3 ++ t4) end end end
      else
        match sga_mut_genome pgm rs xs st1 with None => None | Some ((g', n), st4, t4) =>
        Some ((x :: g', n), st4, t1 ++ t4) end
      end
  | _, _ => None
  end.

Definition sga_mutation (pgm : f64) (ranges : list (Z * Z)) (x : iga) : E (iga * Z) := fun st =>
  match sga_mut_genome pgm ranges (ga_genome x) st with
  | None => None
  | Some ((g, n), st', t) => Some ((mk_iga g (ga_age x), n), st', t)
  end.

Definition sga_crossover (lhs rhs : iga) : E iga := fun st =>
  let ps := Z.of_nat (length (ga_genome lhs)) in
  if negb (Nat.eqb (length (ga_genome lhs)) (length (ga_genome rhs))) then None
  else if ps <? 2 then None
  else
    match e_int 0 (ps - 1) st with None => None | Some (cut1, st1, t1) =>
    match e_int (cut1 + 1) ps st1 with None => None | Some (cut2, st2, t2) =>
    Some (mk_iga (splice_from 0 cut1 cut2 (ga_genome lhs) (ga_genome rhs))
                 (set_older_age (ga_age rhs) (ga_age lhs)), st2, t1 ++ t2)
    end end.

Fixpoint sde_create_genome (ranges : list (f64 * f64)) : E (list f64) := fun st =>
  match ranges with
  | [] => Some ([], st, [])
  | (lo, hi) :: rs =>
      match e_roulette st with None => None | Some (_, st1, t1) =>
      match e_real lo hi st1 with None => None | Some (v, st2, t2) =>
      match sde_create_genome rs st2 with None => None | Some (g, st3, t3) =>
      Some (v :: g, st3, t1 ++ t2 ++ t3) end end end
  end.

Definition sde_create (ranges : list (f64 * f64)) : E ide := fun st =>
  match ranges with
  | [] => None
  | _ => match sde_create_genome ranges st with
         | None => None
         | Some (g, st', t) => Some (mk_ide g 0, st', t)
         end
  end.

Fixpoint sde_cross_genome (p rf : f64) (t a b c : list f64) {struct t} : E (list f64) := fun st =>
  match t, a, b, c with
  | [_], [av], [bv], [cv] => Some ([mutant rf av bv cv], st, [])
  | tv :: t', av :: a', bv :: b', cv :: c' =>
      match e_bool p st with None => None | Some (bit, st1, t1) =>
      match sde_cross_genome p rf t' a' b' c' st1 with None => None | Some (g, st2, t2) =>
      Some ((if bit then mutant rf av bv cv else tv) :: g, st2, t1 ++ t2) end end
  | _, _, _, _ => None
  end.

Definition sde_crossover (p flo fhi : f64) (t a b c : ide) : E ide := fun st =>
  match e_real flo fhi st with None => None | Some (rf, st1, t1) =>
  match sde_cross_genome p rf (de_genome t) (de_genome a) (de_genome b) (de_genome c) st1 with
  | None => None
  | Some (g, st2, t2) =>
      Some (mk_ide g (set_older_age (de_age c) (Z.max (de_age t) (Z.max (de_age a) (de_age b)))), st2, t1 ++ t2)
  end end.

End Seeded.
