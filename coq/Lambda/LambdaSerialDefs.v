(* C08 -- serialize::save / serialize::lambda::load of the lambda models
   (lambda_f.cc, lambda_f.tcc, detail/lambda_f.h class_names, matrix.tcc,
   distribution.tcc) at TOKEN level: what operator<< writes separated by
   white space / what operator>> and getline read back.  The text of an
   individual (i_mep::save / load, property C11) is one opaque token [TI];
   decimal and "%.16e" text of numbers is C11's codec (H_17digits), here a
   number is a token.  Definitions only. *)
From Coq Require Import ZArith List Bool.
From VV Require Import Base.F64 Lambda.LambdaDefs.
Import ListNotations.
Local Open Scope Z_scope.

Section Serial.
Variable ind : Type.

Inductive tok :=
| TS (s : Z)          (* a word / a line: SERIALIZE_ID or a class name *)
| TN (n : Z)          (* an integer *)
| TF (f : f64)        (* a floating point number *)
| TI (i : ind).       (* the saved individual *)

(* SERIALIZE_IDs *)
Definition ID_REG := 0.       (* "REG_LAMBDA_F" *)
Definition ID_TEAM_REG := 1.  (* "TEAM_REG_LAMBDA_F" *)
Definition ID_DYN := 2.       (* "DYN_SLOT_LAMBDA_F" *)
Definition ID_GAUSS := 3.     (* "GAUSSIAN_LAMBDA_F" *)
Definition ID_BIN := 4.       (* "BINARY_LAMBDA_F" *)
Definition ID_TEAM_DYN := 5.  (* "TEAM_" + ... *)
Definition ID_TEAM_GAUSS := 6.
Definition ID_TEAM_BIN := 7.

(* distribution<double>: count mean min max m2, seen.size(), (key value)* *)
Record sdist := { sd_count : Z; sd_mean : f64; sd_min : f64; sd_max : f64; sd_m2 : f64;
                  sd_seen : list (f64 * Z) }.
(* dyn_slot: matrix (cols rows data...), slot_class (rows values), dataset_size *)
Record sdyn := { sy_cols : Z; sy_rows : Z; sy_data : list Z; sy_cls : list Z; sy_dsize : Z }.

Inductive ckind := KDyn | KGauss | KBin.
Inductive core :=
| CDyn (i : ind) (d : sdyn)
| CGauss (i : ind) (g : list sdist)
| CBin (i : ind).
Definition kind_of (c : core) : ckind :=
  match c with CDyn _ _ => KDyn | CGauss _ _ => KGauss | CBin _ => KBin end.

Inductive smodel :=
| MReg (i : ind)
| MTeamReg (l : list ind)
| MCore (c : core) (names : list Z)
| MTeam (k : ckind) (classes : Z) (members : list core) (names : list Z).

(* ---------------------------------------------------------------- save *)
Definition save_seen (p : f64 * Z) : list tok := [TF (fst p); TN (snd p)].
Definition save_dist (d : sdist) : list tok :=
  [TN (sd_count d); TF (sd_mean d); TF (sd_min d); TF (sd_max d); TF (sd_m2 d);
   TN (Z.of_nat (length (sd_seen d)))] ++ flat_map save_seen (sd_seen d).
Definition save_dyn (d : sdyn) : list tok :=
  [TN (sy_cols d); TN (sy_rows d)] ++ map TN (sy_data d) ++ map TN (sy_cls d) ++ [TN (sy_dsize d)].
(* class_names<true>::save: names_.size() then one name per line *)
Definition save_names (names : list Z) : list tok := TN (Z.of_nat (length names)) :: map TS names.
(* L<T, S, false>::save (the components of a team never store the names) *)
Definition save_core (c : core) : list tok :=
  match c with
  | CDyn i d => TI i :: save_dyn d
  | CGauss i g => TI i :: TN (Z.of_nat (length g)) :: flat_map save_dist g
  | CBin i => [TI i]
  end.
Definition id_of_kind (k : ckind) : Z := match k with KDyn => ID_DYN | KGauss => ID_GAUSS | KBin => ID_BIN end.
Definition team_id_of_kind (k : ckind) : Z :=
  match k with KDyn => ID_TEAM_DYN | KGauss => ID_TEAM_GAUSS | KBin => ID_TEAM_BIN end.

(* serialize::save(out, l): out << l->serialize_id() << '\n'; l->save(out) *)
Definition save_model (m : smodel) : list tok :=
  match m with
  | MReg i => [TS ID_REG; TI i]
  | MTeamReg l => TS ID_TEAM_REG :: TN (Z.of_nat (length l)) :: map TI l
  | MCore c names => TS (id_of_kind (kind_of c)) :: save_core c ++ save_names names
  | MTeam k classes members names =>
      TS (team_id_of_kind k) :: TN classes :: TN (Z.of_nat (length members)) ::
      flat_map save_core members ++ save_names names
  end.

(* ---------------------------------------------------------------- load *)
Definition parser (A : Type) := list tok -> option (A * list tok).

Definition p_nat : parser nat :=
  fun ts => match ts with TN n :: r => if 0 <=? n then Some (Z.to_nat n, r) else None | _ => None end.
Definition p_Z : parser Z := fun ts => match ts with TN n :: r => Some (n, r) | _ => None end.
Definition p_F : parser f64 := fun ts => match ts with TF f :: r => Some (f, r) | _ => None end.
Definition p_S : parser Z := fun ts => match ts with TS s :: r => Some (s, r) | _ => None end.
Definition p_I : parser ind := fun ts => match ts with TI i :: r => Some (i, r) | _ => None end.

Fixpoint p_rep {A} (p : parser A) (n : nat) : parser (list A) :=
  fun ts => match n with
            | O => Some ([], ts)
            | S k => match p ts with
                     | Some (x, r) => match p_rep p k r with Some (l, r') => Some (x :: l, r') | None => None end
                     | None => None
                     end
            end.

Definition p_seen : parser (f64 * Z) :=
  fun ts => match p_F ts with
            | Some (k, r) => match p_Z r with Some (v, r') => Some ((k, v), r') | None => None end
            | None => None
            end.

(* distribution::load *)
Definition p_dist : parser sdist :=
  fun ts =>
    match p_Z ts with Some (c, r1) =>
    match p_F r1 with Some (m, r2) =>
    match p_F r2 with Some (mn, r3) =>
    match p_F r3 with Some (mx, r4) =>
    match p_F r4 with Some (m2, r5) =>
    match p_nat r5 with Some (n, r6) =>
    match p_rep p_seen n r6 with Some (s, r7) =>
      Some ({| sd_count := c; sd_mean := m; sd_min := mn; sd_max := mx; sd_m2 := m2; sd_seen := s |}, r7)
    | None => None end | None => None end | None => None end | None => None end
    | None => None end | None => None end | None => None end.

(* matrix::load (cols, rows, cols * rows values), then rows() slot classes, then dataset_size *)
Definition p_dyn : parser sdyn :=
  fun ts =>
    match p_nat ts with Some (cs, r1) =>
    match p_nat r1 with Some (rs, r2) =>
    match p_rep p_Z (cs * rs) r2 with Some (data, r3) =>
    match p_rep p_Z rs r3 with Some (cls, r4) =>
    match p_Z r4 with Some (ds, r5) =>
      Some ({| sy_cols := Z.of_nat cs; sy_rows := Z.of_nat rs; sy_data := data; sy_cls := cls; sy_dsize := ds |}, r5)
    | None => None end | None => None end | None => None end | None => None end | None => None end.

(* class_names<true>::load: if (!(in >> n) || !n) return false; then n lines *)
Definition p_names : parser (list Z) :=
  fun ts => match p_nat ts with
            | Some (O, _) => None
            | Some (n, r) => p_rep p_S n r
            | None => None
            end.

Definition p_core (k : ckind) : parser core :=
  fun ts =>
    match p_I ts with
    | Some (i, r) =>
        match k with
        | KDyn => match p_dyn r with Some (d, r') => Some (CDyn i d, r') | None => None end
        | KGauss => match p_nat r with
                    | Some (n, r1) => match p_rep p_dist n r1 with
                                      | Some (g, r') => Some (CGauss i g, r')
                                      | None => None
                                      end
                    | None => None
                    end
        | KBin => Some (CBin i, r)
        end
    | None => None
    end.

Definition p_named_core (k : ckind) : parser smodel :=
  fun ts => match p_core k ts with
            | Some (c, r) => match p_names r with Some (ns, r') => Some (MCore c ns, r') | None => None end
            | None => None
            end.

Definition p_team (k : ckind) : parser smodel :=
  fun ts =>
    match p_Z ts with Some (classes, r1) =>
    match p_nat r1 with Some (n, r2) =>
    match p_rep (p_core k) n r2 with Some (ms, r3) =>
    match p_names r3 with Some (ns, r4) => Some (MTeam k classes ms ns, r4)
    | None => None end | None => None end | None => None end | None => None end.

(* serialize::lambda::load: read the id, dispatch through the factory *)
Definition load_model : parser smodel :=
  fun ts =>
    match p_S ts with
    | Some (id, r) =>
        if id =? ID_REG then match p_I r with Some (i, r') => Some (MReg i, r') | None => None end
        else if id =? ID_TEAM_REG then
          (* if (!(in >> n) || !n) throw *)
          match p_nat r with
          | Some (O, _) => None
          | Some (n, r1) => match p_rep p_I n r1 with Some (l, r') => Some (MTeamReg l, r') | None => None end
          | None => None
          end
        else if id =? ID_DYN then p_named_core KDyn r
        else if id =? ID_GAUSS then p_named_core KGauss r
        else if id =? ID_BIN then p_named_core KBin r
        else if id =? ID_TEAM_DYN then p_team KDyn r
        else if id =? ID_TEAM_GAUSS then p_team KGauss r
        else if id =? ID_TEAM_BIN then p_team KBin r
        else None                      (* unknown id: nullptr *)
    | None => None
    end.

(* ------------------------------------------------- what a model predicts *)
Fixpoint chunk {A} (n : nat) (rows : nat) (l : list A) : list (list A) :=
  match rows with
  | O => []
  | S r => firstn n l :: chunk n r (skipn n l)
  end.
Definition dyn_of_sdyn (d : sdyn) : dyn_model :=
  {| dm_ns := Z.to_nat (sy_rows d); dm_classes := Z.to_nat (sy_cols d);
     dm_matrix := chunk (Z.to_nat (sy_cols d)) (Z.to_nat (sy_rows d)) (sy_data d);
     dm_slot_class := map Z.to_nat (sy_cls d) |}.
Definition dist_of_sdist (d : sdist) : dist :=
  {| d_count := sd_count d; d_mean := sd_mean d; d_m2 := sd_m2 d |}.

Variable libm_atan : f64 -> f64.
Variable libm_exp : f64 -> f64.
Variable run : ind -> out.      (* the program's output on the query (oracle) *)

Definition core_tag (c : core) : option (nat * f64) :=
  match c with
  | CDyn i d => dyn_tag libm_atan (dyn_of_sdyn d) (run i)
  | CGauss i g => Some (gauss_tag libm_exp (map dist_of_sdist g) (run i))
  | CBin i => Some (binary_tag (run i))
  end.

Fixpoint all_some {A} (l : list (option A)) : option (list A) :=
  match l with
  | [] => Some []
  | Some x :: r => match all_some r with Some t => Some (x :: t) | None => None end
  | None :: _ => None
  end.

Inductive answer := AValue (o : out) | ATag (t : nat * f64) | AUndefined.

(* operator() / tag() of the (loaded) model; teams of classifiers: wta *)
Definition spredict (m : smodel) : answer :=
  match m with
  | MReg i => AValue (run i)
  | MTeamReg l => AValue (team_eval (map run l))
  | MCore c _ => match core_tag c with Some t => ATag t | None => AUndefined end
  | MTeam _ _ ms _ => match all_some (map core_tag ms) with
                      | Some tags => match wta tags with Some t => ATag t | None => AUndefined end
                      | None => AUndefined
                      end
  end.

End Serial.
