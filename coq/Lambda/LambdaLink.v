(* C08 -- where the precondition "a program output is never NaN" comes from:
   property C13 (Prims/RealProofs.v, imported read-only): every well-typed
   program over the shipped primitives, run on good (finite-or-undefined)
   inputs, returns an undefined value or a FINITE double. *)
From Coq Require Import ZArith List Bool.
From Flocq Require Import IEEE754.BinarySingleNaN.
From VV Require Import Base.F64 Base.Values Interp.Strategy Mep.Genome Prims.RealDefs Prims.RealProofs.
From VV Require Import Lambda.LambdaDefs Lambda.LambdaFloat.

(* what the lambda code sees of a real-category result:
   has_value(res) ? lexical_cast<D_DOUBLE>(res) : <undefined> *)
Definition out_of_value (v : value) : out :=
  match v with VDouble f => Some f | _ => None end.

Definition out_ok (o : out) : Prop :=
  match o with Some x => is_finite x = true | None => True end.

Lemma out_ok_not_nan : forall o, out_ok o -> match o with Some x => is_nan x = false | None => True end.
Proof. intros [x|] H; auto. destruct x; simpl in *; try discriminate; auto. Qed.

Lemma shipped_program_output_ok : forall lm, sincos_finite lm -> exp_unit lm ->
  forall kc vars t, wt lm kc vars t -> kc (root_cat t) = KReal ->
  exists v, run_tree vars t = Val v /\ out_ok (out_of_value v).
Proof.
  intros lm H1 H2 kc vars t W K.
  destruct (program_closed_both lm H1 H2 kc vars t W) as [[v [E G]] _].
  exists v. split; auto. rewrite K in G. unfold good, goodb in G.
  destruct v; simpl; auto.
Qed.

(* consequence for the binary scheme: on the output of a shipped program the
   sureness is >= 0 *)
Lemma binary_sureness_nonneg_shipped : forall lm, sincos_finite lm -> exp_unit lm ->
  forall kc vars t, wt lm kc vars t -> kc (root_cat t) = KReal ->
  exists v, run_tree vars t = Val v /\
            F64.leb F64.zero (snd (binary_tag (out_of_value v))) = true.
Proof.
  intros lm H1 H2 kc vars t W K.
  destruct (shipped_program_output_ok lm H1 H2 kc vars t W K) as (v & E & O).
  exists v. split; auto. apply binary_sureness_nonneg. apply out_ok_not_nan. exact O.
Qed.
