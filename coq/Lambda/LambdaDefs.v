(* C08 -- executable model of the "lambda" model objects of vita
     kernel/gp/detail/lambda_f.h    reg_lambda_f_storage (object identity part)
     kernel/gp/src/lambda_f.tcc     team regression, dyn_slot, gaussian, binary, team wta / mv
     utility/discretization.h      sigmoid_01, discretization
     kernel/distribution.tcc       add / update_variance / mean / variance
     kernel/gp/src/model_metric.cc accuracy_metric
     kernel/gp/src/evaluator.tcc   dyn_slot / gaussian / binary evaluators
   Definitions only (no proofs), so that it still extracts when a proof breaks.

   The output of a program on an example is NOT modelled here (that is property
   C01): it enters as an oracle.  [out] is what the C++ code sees after
   `has_value(res) ? lexical_cast<D_DOUBLE>(res) : <void>`. *)
From Coq Require Import ZArith List Bool.
From Flocq Require Import Core IEEE754.BinarySingleNaN.
From VV Require Import Base.F64.
Import ListNotations.
Local Open Scope Z_scope.

Definition out := option f64.        (* None = std::monostate (undefined) *)

(* ------------------------------------------------------------------ *)
(** * 1. Object identities: reg_lambda_f_storage<T, true, false>        *)
(* ------------------------------------------------------------------ *)
(* A core object holds an individual [o_ind] and an interpreter whose
   program pointer designates the stored individual of the object at address
   [o_tgt].  Addresses are indices in the heap and are never reused; a
   destroyed object is [None]. *)
Section Heap.
Variable ind : Type.

Record obj := { o_ind : ind; o_tgt : nat }.

(* what the special member functions do with the interpreter:
   [Reseat]     the code of detail/lambda_f.h: `int_(src_interpreter<T>(&ind_))`
   [Memberwise] what the compiler-generated members would do (copy the pointer);
                kept to show (Refuted_C08.v) that the property needs the re-seat *)
Inductive policy := Reseat | Memberwise.

Definition heap := list (option obj).

Definition lookup (h : heap) (a : nat) : option obj :=
  match nth_error h a with Some (Some o) => Some o | _ => None end.

Fixpoint set_nth {A} (l : list A) (n : nat) (x : A) : list A :=
  match l, n with
  | [], _ => []
  | _ :: t, O => x :: t
  | y :: t, S k => y :: set_nth t k x
  end.

(* explicit reg_lambda_f_storage(const T &ind) : ind_(ind), int_(&ind_) *)
Definition h_new (h : heap) (i : ind) : heap * nat :=
  (h ++ [Some {| o_ind := i; o_tgt := length h |}], length h).

(* reg_lambda_f_storage(const reg_lambda_f_storage &rls)
     : ind_(rls.ind_), int_(src_interpreter<T>(&ind_))
   (there is no move constructor: a move is this copy) *)
Definition h_copy (p : policy) (h : heap) (src : nat) : option (heap * nat) :=
  match lookup h src with
  | Some o =>
      let self := length h in
      Some (h ++ [Some {| o_ind := o_ind o;
                          o_tgt := match p with Reseat => self | Memberwise => o_tgt o end |}], self)
  | None => None
  end.

(* operator=: if (this != &rhs) { ind_ = rhs.ind_; int_ = src_interpreter<T>(&ind_); } *)
Definition h_assign (p : policy) (h : heap) (dst src : nat) : option heap :=
  match lookup h dst, lookup h src with
  | Some _, Some os =>
      if Nat.eqb dst src then Some h
      else Some (set_nth h dst (Some {| o_ind := o_ind os;
                                        o_tgt := match p with Reseat => dst | Memberwise => o_tgt os end |}))
  | _, _ => None
  end.

Definition h_destroy (h : heap) (a : nat) : option heap :=
  match lookup h a with Some _ => Some (set_nth h a None) | None => None end.

(* run(): int_.run(args) -- dereferences the interpreter's program pointer.
   [None] = the pointer designates a destroyed object (use after free). *)
Definition h_target (h : heap) (a : nat) : option ind :=
  match lookup h a with
  | Some o => match lookup h (o_tgt o) with Some t => Some (o_ind t) | None => None end
  | None => None
  end.

(* A model object (reg_lambda_f<i_mep>, reg_lambda_f<team<i_mep>>, or a
   classifier, which has a reg_lambda_f member `lambda_`) is one heap object:
   [ind] is what it stores (for a team: the list of member programs, each
   member core being copied / assigned by the same special member functions
   through std::vector).  [st_models] maps the slot names used by a history
   to addresses; [st_vec] is a std::vector<Model> holding some of the slots,
   in order: relocation changes the address of a slot, not its name. *)
Record state := { st_heap : heap; st_models : list (option nat); st_vec : list nat }.

Definition init : state := {| st_heap := []; st_models := []; st_vec := [] |}.

Definition model_core (s : state) (m : nat) : option nat :=
  match nth_error (st_models s) m with Some (Some c) => Some c | _ => None end.

Inductive op :=
| MNew (i : ind)            (* construct from an individual / a team *)
| MCopy (src : nat)         (* copy construction into a new slot *)
| MMove (src : nat)         (* move construction into a new slot, then the moved-from source is deleted *)
| MAssign (dst src : nat)   (* assignment  dst = src *)
| MDestroy (m : nat)        (* delete *)
| VPush (src : nat)         (* v.reserve(v.capacity() + 1); v.push_back of src: every element is relocated *)
| VErase (k : nat).         (* v.erase(v.begin() + k): the tail is shifted by assignment, the last destroyed *)

Definition add_model (s : state) (h : heap) (c : nat) : state :=
  {| st_heap := h; st_models := st_models s ++ [Some c]; st_vec := st_vec s |}.

Definition in_vec (s : state) (m : nat) : bool := existsb (Nat.eqb m) (st_vec s).

Definition m_copy (p : policy) (s : state) (src : nat) : option state :=
  match model_core s src with
  | Some c => match h_copy p (st_heap s) c with
              | Some (h, a) => Some (add_model s h a)
              | None => None
              end
  | None => None
  end.

Definition m_assign (p : policy) (s : state) (dst src : nat) : option state :=
  match model_core s dst, model_core s src with
  | Some cd, Some cs =>
      match h_assign p (st_heap s) cd cs with
      | Some h => Some {| st_heap := h; st_models := st_models s; st_vec := st_vec s |}
      | None => None
      end
  | _, _ => None
  end.

Definition m_destroy (s : state) (m : nat) : option state :=
  match model_core s m with
  | Some c =>
      match h_destroy (st_heap s) c with
      | Some h => Some {| st_heap := h; st_models := set_nth (st_models s) m None; st_vec := st_vec s |}
      | None => None
      end
  | None => None
  end.

(* relocation of one vector element: copy-construct in the new storage, destroy the old one *)
Definition m_relocate (p : policy) (s : state) (m : nat) : option state :=
  match model_core s m with
  | Some c =>
      match h_copy p (st_heap s) c with
      | Some (h1, a) =>
          match h_destroy h1 c with
          | Some h2 => Some {| st_heap := h2; st_models := set_nth (st_models s) m (Some a); st_vec := st_vec s |}
          | None => None
          end
      | None => None
      end
  | None => None
  end.

Fixpoint m_relocate_all (p : policy) (s : state) (ms : list nat) : option state :=
  match ms with
  | [] => Some s
  | m :: r => match m_relocate p s m with Some s1 => m_relocate_all p s1 r | None => None end
  end.

(* shift left by assignment: v[j] = v[j+1] for the tail *)
Fixpoint m_shift (p : policy) (s : state) (tail : list nat) : option state :=
  match tail with
  | a :: ((b :: _) as r) => match m_assign p s a b with Some s1 => m_shift p s1 r | None => None end
  | _ => Some s
  end.

Definition step (p : policy) (s : state) (o : op) : option state :=
  match o with
  | MNew i => let '(h, a) := h_new (st_heap s) i in Some (add_model s h a)
  | MCopy src => m_copy p s src
  | MMove src =>
      (* the storage class has no move constructor: the core is copied
         (re-seated); the moved-from model is then destroyed *)
      if in_vec s src then None else
      match m_copy p s src with Some s1 => m_destroy s1 src | None => None end
  | MAssign dst src => m_assign p s dst src
  | MDestroy m => if in_vec s m then None else m_destroy s m
  | VPush src =>
      (* the new storage is filled from the old elements, the old ones are
         destroyed; the pushed value is copied from the (relocated) source *)
      match m_relocate_all p s (st_vec s) with
      | Some s1 =>
          match m_copy p s1 src with
          | Some s2 => Some {| st_heap := st_heap s2; st_models := st_models s2;
                               st_vec := st_vec s2 ++ [length (st_models s1)] |}
          | None => None
          end
      | None => None
      end
  | VErase k =>
      match skipn k (st_vec s) with
      | [] => None
      | tail =>
          match m_shift p s tail with
          | Some s1 =>
              match m_destroy s1 (last tail O) with
              | Some s2 => Some {| st_heap := st_heap s2; st_models := st_models s2;
                                   st_vec := removelast (st_vec s2) |}
              | None => None
              end
          | None => None
          end
      end
  end.

Fixpoint run_ops (p : policy) (s : state) (os : list op) : option state :=
  match os with
  | [] => Some s
  | o :: r => match step p s o with Some s1 => run_ops p s1 r | None => None end
  end.

(* what the model in slot [m] runs when asked for a prediction: the
   individual its interpreter designates; [None] = the slot is dead or the
   interpreter designates a destroyed object *)
Definition model_program (s : state) (m : nat) : option ind :=
  match model_core s m with Some c => h_target (st_heap s) c | None => None end.

(** ** value semantics (the specification the object model refines):
    a model is just the value it stores, copies duplicate values *)
Record vstate := { v_models : list (option ind); v_vec : list nat }.
Definition vinit : vstate := {| v_models := []; v_vec := [] |}.
Definition v_get (s : vstate) (m : nat) : option ind :=
  match nth_error (v_models s) m with Some (Some l) => Some l | _ => None end.

Definition v_assign (s : vstate) (dst src : nat) : option vstate :=
  match v_get s dst, v_get s src with
  | Some _, Some l => Some {| v_models := set_nth (v_models s) dst (Some l); v_vec := v_vec s |}
  | _, _ => None
  end.

Definition v_destroy (s : vstate) (m : nat) : option vstate :=
  match v_get s m with
  | Some _ => Some {| v_models := set_nth (v_models s) m None; v_vec := v_vec s |}
  | None => None
  end.

Definition v_copy (s : vstate) (src : nat) : option vstate :=
  match v_get s src with
  | Some l => Some {| v_models := v_models s ++ [Some l]; v_vec := v_vec s |}
  | None => None
  end.

Fixpoint v_shift (s : vstate) (tail : list nat) : option vstate :=
  match tail with
  | a :: ((b :: _) as r) => match v_assign s a b with Some s1 => v_shift s1 r | None => None end
  | _ => Some s
  end.

Definition all_live (s : vstate) (ms : list nat) : bool :=
  forallb (fun m => match v_get s m with Some _ => true | None => false end) ms.

Definition vstep (s : vstate) (o : op) : option vstate :=
  match o with
  | MNew i => Some {| v_models := v_models s ++ [Some i]; v_vec := v_vec s |}
  | MCopy src => v_copy s src
  | MMove src =>
      if existsb (Nat.eqb src) (v_vec s) then None else
      match v_copy s src with Some s1 => v_destroy s1 src | None => None end
  | MAssign dst src => v_assign s dst src
  | MDestroy m => if existsb (Nat.eqb m) (v_vec s) then None else v_destroy s m
  | VPush src =>
      match v_copy s src with
      | Some s1 => Some {| v_models := v_models s1; v_vec := v_vec s1 ++ [length (v_models s)] |}
      | None => None
      end
  | VErase k =>
      match skipn k (v_vec s) with
      | [] => None
      | tail =>
          match v_shift s tail with
          | Some s1 =>
              match v_destroy s1 (last tail O) with
              | Some s2 => Some {| v_models := v_models s2; v_vec := removelast (v_vec s2) |}
              | None => None
              end
          | None => None
          end
      end
  end.

Fixpoint vrun (s : vstate) (os : list op) : option vstate :=
  match os with
  | [] => Some s
  | o :: r => match vstep s o with Some s1 => vrun s1 r | None => None end
  end.

(* the slots held by the vector are alive and distinct (what a history may assume) *)
Definition vec_ok (s : vstate) : bool :=
  all_live s (v_vec s).

End Heap.

Arguments MNew {ind}. Arguments MCopy {ind}. Arguments MMove {ind}. Arguments MAssign {ind}.
Arguments MDestroy {ind}. Arguments VPush {ind}. Arguments VErase {ind}.
Arguments init {ind}. Arguments vinit {ind}.

(* ------------------------------------------------------------------ *)
(** * 2. binary64 helpers                                              *)
(* ------------------------------------------------------------------ *)
Module L.
Definition fma : f64 -> f64 -> f64 -> f64 :=
  @BinarySingleNaN.Bfma 53 1024 prec_gt_0_53 prec_lt_emax_53 mode_NE.
Definition one : f64 := F64.of_bits 4607182418800017408.        (* 0x3ff0000000000000 *)
Definition half : f64 := F64.of_bits 4602678819172646912.       (* 0x3fe0000000000000 *)
Definition inv_pi : f64 := F64.of_bits 4599405781057060292.     (* the literal 0.31830988618 *)
Definition two_eps : f64 := F64.of_bits 4377498837804122112.    (* 2.0 * DBL_EPSILON = 2^-51 *)
Definition cut : f64 := F64.of_bits 4711630319722168320.        (* 10000000.0 *)
Definition ncut : f64 := F64.of_bits 13935002356576944128.      (* -10000000.0 *)
(* issmall(v): std::abs(v) < 2.0 * epsilon *)
Definition issmall (v : f64) : bool := F64.ltb (F64.abs v) two_eps.
(* static_cast<std::size_t>(double): truncation; undefined when the truncated
   value is not representable *)
Definition to_size_t (x : f64) : option Z :=
  match F64.to_Z_trunc x with
  | Some z => if (0 <=? z) && (z <? 2 ^ 64) then Some z else None
  | None => None
  end.
(* k increments of a double counter starting from [c]  (`++err`, `++count`) *)
Fixpoint count_up (c : f64) (k : nat) : f64 :=
  match k with O => c | S k' => count_up (F64.add c one) k' end.
End L.

(* ------------------------------------------------------------------ *)
(** * 3. team regression: basic_reg_lambda_f<team<T>>::eval            *)
(* ------------------------------------------------------------------ *)
(* for each member: if (has_value(res)) avg += (cast(res) - avg) / ++count; *)
Definition mean_step (st : f64 * f64) (o : out) : f64 * f64 :=
  match o with
  | None => st
  | Some x => let '(avg, count) := st in
              let c := F64.add count L.one in
              (F64.add avg (F64.div (F64.sub x avg) c), c)
  end.
Definition team_eval (outs : list out) : out :=
  let '(avg, count) := fold_left mean_step outs (F64.zero, F64.zero) in
  if F64.gtb count F64.zero then Some avg else None.

(* the "documented" reading: running mean of the defined outputs *)
Definition defined (outs : list out) : list f64 :=
  flat_map (fun o => match o with Some x => [x] | None => [] end) outs.
Fixpoint running_mean_from (avg count : f64) (xs : list f64) : f64 :=
  match xs with
  | [] => avg
  | x :: r => let c := F64.add count L.one in
              running_mean_from (F64.add avg (F64.div (F64.sub x avg) c)) c r
  end.
Definition running_mean (xs : list f64) : f64 := running_mean_from F64.zero F64.zero xs.

(* ------------------------------------------------------------------ *)
(** * 4. discretization.h                                              *)
(* ------------------------------------------------------------------ *)
Section Libm.
Variable libm_atan : f64 -> f64.
Variable libm_exp : f64 -> f64.

(* std::fma(std::atan(x), 0.31830988618, 0.5) *)
Definition sigmoid_01 (x : f64) : f64 := L.fma (libm_atan x) L.inv_pi L.half.

(* discretization(x, Target(0), max):
   static_cast<size_t>(std::round(std::fma(double(max - 0), sigmoid_01(x), double(0)))) *)
Definition discretization (x : f64) (max : Z) : option Z :=
  L.to_size_t (F64.round_half_away (L.fma (F64.of_Z max) (sigmoid_01 x) (F64.of_Z 0))).

(* ------------------------------------------------------------------ *)
(** * 5. dyn_slot                                                      *)
(* ------------------------------------------------------------------ *)
(* basic_dyn_slot_lambda_f::slot; ns = slot_matrix_.rows() *)
Definition slot (ns : nat) (o : out) : option nat :=
  let last_slot := (ns - 1)%nat in
  match o with
  | None => Some last_slot
  | Some val =>
      match discretization val (Z.of_nat last_slot) with
      | Some where_ => Some (if Z.of_nat ns <=? where_ then last_slot else Z.to_nat where_)
      | None => None            (* the conversion is undefined (NaN) *)
      end
  end.

Definition row := list Z.
Definition matrix := list row.

Definition cell (m : matrix) (i j : nat) : Z := nth j (nth i m []) 0.

Definition inc_cell (m : matrix) (i j : nat) : option matrix :=
  match nth_error m i with
  | Some r => match nth_error r j with
              | Some c => Some (set_nth m i (set_nth r j (c + 1)))
              | None => None
              end
  | None => None
  end.

(* first loop of fill_matrix: ++slot_matrix_(slot(example), label(example)) *)
Fixpoint fill_counts (ns : nat) (m : matrix) (train : list (out * nat)) : option matrix :=
  match train with
  | [] => Some m
  | (o, lab) :: r =>
      match slot ns o with
      | Some s => match inc_cell m s lab with Some m1 => fill_counts ns m1 r | None => None end
      | None => None
      end
  end.

(* for (j = 1; j < cols; ++j) if (m(i,j) >= m(i,best)) best = j;   over one row *)
Fixpoint best_from (r : row) (best j : nat) (todo : list Z) : nat :=
  match todo with
  | [] => best
  | c :: t => best_from r (if nth best r 0 <=? c then j else best) (S j) t
  end.
Definition best_class (r : row) : nat := best_from r 0 1 (tl r).

(* slot_class_[i] = m(i,best) ? best : unknown        (unknown = classes) *)
Definition raw_class (classes : nat) (r : row) : nat :=
  let b := best_class r in if nth b r 0 =? 0 then classes else b.

(* third loop, in place, left to right; [prev] = slot_class_[i-1] after its own update *)
Fixpoint fix_unknown (unknown : nat) (prev : option nat) (l : list nat) : list nat :=
  match l with
  | [] => []
  | c :: t =>
      let c' :=
        if Nat.eqb c unknown then
          match prev with
          | Some p => if negb (Nat.eqb p unknown) then p
                      else match t with
                           | n :: _ => if negb (Nat.eqb n unknown) then n else O
                           | [] => O
                           end
          | None => match t with
                    | n :: _ => if negb (Nat.eqb n unknown) then n else O
                    | [] => O
                    end
          end
        else c in
      c' :: fix_unknown unknown (Some c') t
  end.

Record dyn_model := { dm_ns : nat; dm_classes : nat; dm_matrix : matrix; dm_slot_class : list nat }.

Definition zero_matrix (ns classes : nat) : matrix := repeat (repeat 0 classes) ns.

(* constructor: slot_matrix_(classes * x_slot, classes); fill_matrix(d, x_slot) *)
Definition dyn_build (classes x_slot : nat) (train : list (out * nat)) : option dyn_model :=
  let ns := (classes * x_slot)%nat in
  match fill_counts ns (zero_matrix ns classes) train with
  | Some m => Some {| dm_ns := ns; dm_classes := classes; dm_matrix := m;
                      dm_slot_class := fix_unknown classes None (map (raw_class classes) m) |}
  | None => None
  end.

Definition row_total (r : row) : Z := fold_left Z.add r 0.

(* tag(): {slot_class_[s], !total ? 0.5 : double(ok) / total} *)
Definition dyn_tag (d : dyn_model) (o : out) : option (nat * f64) :=
  match slot (dm_ns d) o with
  | Some s =>
      let r := nth s (dm_matrix d) [] in
      let total := row_total r in
      let lab := nth s (dm_slot_class d) O in
      let ok := nth lab r 0 in
      Some (lab, if total =? 0 then L.half else F64.div (F64.of_Z ok) (F64.of_Z total))
  | None => None
  end.

(* ------------------------------------------------------------------ *)
(** * 6. distribution<double> and gaussian                             *)
(* ------------------------------------------------------------------ *)
Record dist := { d_count : Z; d_mean : f64; d_m2 : f64 }.
Definition dist0 : dist := {| d_count := 0; d_mean := F64.zero; d_m2 := F64.zero |}.

(* add(): NaN ignored; first value sets mean_; ++count_; update_variance(v) *)
Definition dist_add (d : dist) (v : f64) : dist :=
  if F64.is_nan v then d
  else
    let mean0 := if d_count d =? 0 then v else d_mean d in
    let count := d_count d + 1 in
    let c1 := F64.of_Z count in
    let delta := F64.sub v mean0 in
    let mean1 := F64.add mean0 (F64.div delta c1) in
    let t := F64.mul delta (F64.sub v mean1) in
    {| d_count := count; d_mean := mean1;
       d_m2 := if 1 <? count then F64.add (d_m2 d) t else t |}.
Definition dist_mean (d : dist) : f64 := d_mean d.
Definition dist_variance (d : dist) : f64 := F64.div (d_m2 d) (F64.of_Z (d_count d)).

(* fill_vector: val = has_value ? cast : 0.0, clamped to +-1e7 *)
Definition clamp_cut (v : f64) : f64 :=
  if F64.gtb v L.cut then L.cut else if F64.ltb v L.ncut then L.ncut else v.
Definition out_or_zero (o : out) : f64 := match o with Some x => x | None => F64.zero end.

Fixpoint gauss_fill (g : list dist) (train : list (out * nat)) : option (list dist) :=
  match train with
  | [] => Some g
  | (o, lab) :: r =>
      match nth_error g lab with
      | Some d => gauss_fill (set_nth g lab (dist_add d (clamp_cut (out_or_zero o)))) r
      | None => None
      end
  end.
Definition gauss_build (classes : nat) (train : list (out * nat)) : option (list dist) :=
  gauss_fill (repeat dist0 classes) train.

(* one iteration of the loop of tag() *)
Definition gauss_p (x mean variance : f64) : f64 :=
  let distance := F64.abs (F64.sub x mean) in
  if L.issmall variance then (if L.issmall distance then L.one else F64.zero)
  else libm_exp (F64.div (F64.mul (F64.neg distance) distance) variance).

Fixpoint gauss_loop (x : f64) (stats : list (f64 * f64)) (i : nat) (acc : f64 * f64 * nat) : f64 * f64 * nat :=
  match stats with
  | [] => acc
  | (mean, variance) :: r =>
      let '(val_, sum_, cls) := acc in
      let p := gauss_p x mean variance in
      let '(val1, cls1) := if F64.gtb p val_ then (p, i) else (val_, cls) in
      gauss_loop x r (S i) (val1, F64.add sum_ p, cls1)
  end.

(* tag() over the per-class (mean, variance) *)
Definition gauss_tag_stats (stats : list (f64 * f64)) (o : out) : nat * f64 :=
  let x := out_or_zero o in
  let '(val_, sum_, cls) := gauss_loop x stats O (F64.zero, F64.zero, O) in
  (cls, if F64.gtb sum_ F64.zero then F64.div val_ sum_ else F64.zero).

Definition gauss_stats (g : list dist) : list (f64 * f64) :=
  map (fun d => (dist_mean d, dist_variance d)) g.
Definition gauss_tag (g : list dist) (o : out) : nat * f64 := gauss_tag_stats (gauss_stats g) o.

(* ------------------------------------------------------------------ *)
(** * 7. binary, team wta / mv                                         *)
(* ------------------------------------------------------------------ *)
Definition binary_tag (o : out) : nat * f64 :=
  let val := out_or_zero o in ((if F64.gtb val F64.zero then 1 else 0)%nat, F64.abs val).

(* wta: best = team_[0].tag; for i >= 1: if (res.sureness > best.sureness) best = res *)
Definition wta (tags : list (nat * f64)) : option (nat * f64) :=
  match tags with
  | [] => None                       (* team_[0] on an empty team *)
  | t0 :: r => Some (fold_left (fun best res => if F64.gtb (snd res) (snd best) then res else best) r t0)
  end.

Fixpoint inc_nth (l : list Z) (n : nat) : option (list Z) :=
  match l, n with
  | [], _ => None
  | c :: t, O => Some (c + 1 :: t)
  | c :: t, S k => match inc_nth t k with Some t' => Some (c :: t') | None => None end
  end.
Fixpoint votes_of (votes : list Z) (labels : list nat) : option (list Z) :=
  match labels with
  | [] => Some votes
  | l :: r => match inc_nth votes l with Some v => votes_of v r | None => None end
  end.
(* for (i = 1; i < classes; ++i) if (votes[i] > votes[max]) max = i *)
Fixpoint argmax_from (votes : list Z) (mx i : nat) (todo : list Z) : nat :=
  match todo with
  | [] => mx
  | c :: t => argmax_from votes (if nth mx votes 0 <? c then i else mx) (S i) t
  end.
Definition mv (classes : nat) (tags : list (nat * f64)) : option (nat * f64) :=
  match votes_of (repeat 0 classes) (map fst tags) with
  | Some votes =>
      let mx := argmax_from votes 0 1 (tl votes) in
      Some (mx, F64.div (F64.of_Z (nth mx votes 0)) (F64.of_Z (Z.of_nat (length tags))))
  | None => None                     (* ++votes[label] out of range *)
  end.

(* ------------------------------------------------------------------ *)
(** * 8. accuracy_metric and the evaluators                            *)
(* ------------------------------------------------------------------ *)
(* classification: pairs (predicted label, label of the example) *)
Definition n_ok (pl : list (nat * nat)) : nat :=
  length (filter (fun p => Nat.eqb (fst p) (snd p)) pl).
Definition n_bad (pl : list (nat * nat)) : nat :=
  length (filter (fun p => negb (Nat.eqb (fst p) (snd p))) pl).
Definition accuracy_class (pl : list (nat * nat)) : f64 :=
  F64.div (F64.of_Z (Z.of_nat (n_ok pl))) (F64.of_Z (Z.of_nat (length pl))).
(* regression: pairs (model output, numeric label) *)
Definition reg_ok (p : out * f64) : bool :=
  match fst p with Some x => L.issmall (F64.sub x (snd p)) | None => false end.
Definition accuracy_reg (pl : list (out * f64)) : f64 :=
  F64.div (F64.of_Z (Z.of_nat (length (filter reg_ok pl)))) (F64.of_Z (Z.of_nat (length pl))).

(* dyn_slot_evaluator / binary_evaluator: err counted in a double, fitness -err *)
Definition count_eval (pl : list (nat * nat)) : f64 :=
  F64.neg (fold_left (fun err p => if Nat.eqb (fst p) (snd p) then err else F64.add err L.one) pl F64.zero).

(* gaussian_evaluator: triples (predicted label, sureness, label) *)
Definition gauss_eval (classes : nat) (pl : list (nat * f64 * nat)) : f64 :=
  let scale := F64.of_Z (Z.of_nat classes - 1) in
  fold_left (fun d p => let '(l, s, lab) := p in
                        if Nat.eqb l lab then F64.add d (F64.div (F64.sub s L.one) scale)
                        else F64.sub d L.one) pl F64.zero.

End Libm.
