(* C08 -- distribution<double>::add / update_variance (Welford) in binary64:
   the running mean stays between the old mean and the new value, hence
   delta * (val - mean_new) >= 0 and m2 is a sum of non-negative terms:
   variance() is NaN (empty class) or >= 0 (possibly +inf) for EVERY training
   set.  This discharges the hypothesis of the gaussian confidence theorem. *)
From Coq Require Import ZArith Reals Lra Lia Bool List.
From Flocq Require Import Core IEEE754.BinarySingleNaN Plus_error Mult_error Relative.
From VV Require Import Base.F64 Lambda.LambdaDefs Lambda.LambdaProofs Lambda.LambdaFloat.
Import ListNotations.
Local Open Scope R_scope.

Local Instance p53w : Prec_gt_0 53 := prec_gt_0_53.
Local Existing Instance valid_fexp64.

Notation fmt := (generic_format radix2 fexp64).

Lemma fmt_B2R : forall x : f64, fmt (B2R x).
Proof. intros. apply generic_format_B2R. Qed.

Lemma RN_fmt : forall x, fmt x -> RN x = x.
Proof. intros. apply round_generic; auto with typeclass_instances. Qed.

Lemma RN_opp : forall x, RN (- x) = - RN x.
Proof. intros. apply (round_NE_opp radix2 fexp64 x). Qed.

Lemma RN_nonneg : forall x, 0 <= x -> 0 <= RN x.
Proof. intros. rewrite <- RN_0. apply RN_mono. auto. Qed.

Lemma RN_nonpos : forall x, x <= 0 -> RN x <= 0.
Proof. intros. rewrite <- RN_0. apply RN_mono. auto. Qed.

Lemma fmt_bpow : forall e, (-1074 <= e <= 1023)%Z -> fmt (bpow radix2 e).
Proof.
  intros e H. apply generic_format_bpow. unfold SpecFloat.fexp, SpecFloat.emin. lia.
Qed.

(* the heart: s = x - m >= 0 with x, m doubles; c >= 2 (or s = 0):
   RN (RN s / c) <= s, i.e. the increment of the mean never overshoots *)
Lemma key_increment : forall x m c, fmt x -> fmt m -> m <= x ->
  (2 <= c \/ (x = m /\ 1 <= c)) ->
  0 <= RN (RN (x - m) / c) <= x - m.
Proof.
  intros x m c Fx Fm Hle Hc.
  set (s := x - m). assert (Hs : 0 <= s) by (unfold s; lra).
  assert (Hc1 : 1 <= c) by (destruct Hc; lra).
  assert (Hd0 : 0 <= RN s) by (apply RN_nonneg; auto).
  assert (Hq0 : 0 <= RN s / c).
  { apply Rmult_le_pos; auto. left. apply Rinv_0_lt_compat. lra. }
  split; [apply RN_nonneg; auto|].
  destruct (Rle_dec s (bpow radix2 (-1021))) as [Hsmall|Hbig].
  - (* the difference is exact *)
    assert (Fs : fmt s).
    { unfold s. replace (x - m) with (x + - m) by ring.
      apply (FLT_format_plus_small radix2 (-1074) 53); auto.
      - apply generic_format_opp; auto.
      - replace (x + - m) with s by (unfold s; ring). rewrite Rabs_pos_eq; auto. }
    rewrite (RN_fmt s Fs). rewrite <- (RN_fmt s Fs) at 2. apply RN_mono.
    apply Rmult_le_reg_r with c; [lra|]. unfold Rdiv. rewrite Rmult_assoc, Rinv_l by lra. nra.
  - assert (Hb : bpow radix2 (-1021) < s) by lra.
    destruct Hc as [Hc|[Hc _]]; [|exfalso; unfold s in Hb; subst; rewrite Rminus_diag_eq in Hb by auto;
                                   pose proof (bpow_gt_0 radix2 (-1021)); lra].
    set (d := RN s) in *.
    assert (Hdb : bpow radix2 (-1021) <= d).
    { unfold d. rewrite <- (RN_fmt (bpow radix2 (-1021))) by (apply fmt_bpow; lia). apply RN_mono. lra. }
    assert (Fd : fmt d) by (apply generic_format_round; auto with typeclass_instances).
    assert (Fh : fmt (d * bpow radix2 (-1))).
    { apply (mult_bpow_exact_FLT radix2 (-1074) 53); auto.
      assert (-1020 <= mag radix2 d)%Z; [|lia].
      apply mag_ge_bpow. rewrite Rabs_pos_eq by lra. exact Hdb. }
    assert (Hrel : d <= s + / 2 * bpow radix2 (-52) * s).
    { pose proof (relative_error_N_FLT radix2 (-1074) 53 ltac:(lia) (fun t => negb (Z.even t)) s) as R.
      change (round radix2 (FLT_exp (-1074) 53) (Znearest (fun t : Z => negb (Z.even t))) s) with d in R.
      rewrite (Rabs_pos_eq s) in R by auto.
      assert (bpow radix2 (-1074 + 53 - 1) <= s).
      { apply Rle_trans with (bpow radix2 (-1021)); [apply bpow_le; lia|lra]. }
      specialize (R H). apply Rabs_le_inv in R. simpl Z.add in R. lra. }
    assert (Hhalf : d * bpow radix2 (-1) = d / 2).
    { change (bpow radix2 (-1)) with (/ 2). lra. }
    apply Rle_trans with (d / 2).
    + rewrite <- (RN_fmt (d / 2)) by (rewrite <- Hhalf; auto). apply RN_mono.
      unfold Rdiv. apply Rmult_le_compat_l; [lra|]. apply Rinv_le_contravar; lra.
    + assert (bpow radix2 (-52) <= 1).
      { change 1 with (bpow radix2 0). apply bpow_le. lia. }
      nra.
Qed.

(* mean_new = RN (m + RN (RN (x - m) / c)) lies between m and x *)
Lemma mean_between : forall x m c, fmt x -> fmt m -> (2 <= c \/ (x = m /\ 1 <= c)) ->
  let m1 := RN (m + RN (RN (x - m) / c)) in
  (m <= x -> m <= m1 <= x) /\ (x <= m -> x <= m1 <= m).
Proof.
  intros x m c Fx Fm Hc m1. split; intro Hle.
  - destruct (key_increment x m c Fx Fm Hle Hc) as [A B]. unfold m1. split.
    + pose proof (RN_mono m (m + RN (RN (x - m) / c)) ltac:(lra)) as K. rewrite (RN_fmt m Fm) in K. exact K.
    + pose proof (RN_mono (m + RN (RN (x - m) / c)) x ltac:(lra)) as K. rewrite (RN_fmt x Fx) in K. exact K.
  - assert (Hc' : 2 <= c \/ (m = x /\ 1 <= c)) by (destruct Hc as [?|[? ?]]; [left|right]; auto).
    destruct (key_increment m x c Fm Fx Hle Hc') as [A B].
    assert (E : RN (RN (x - m) / c) = - RN (RN (m - x) / c)).
    { replace (x - m) with (- (m - x)) by ring. rewrite RN_opp.
      replace (- RN (m - x) / c) with (- (RN (m - x) / c)) by (unfold Rdiv; ring). apply RN_opp. }
    unfold m1. rewrite E. split.
    + pose proof (RN_mono x (m + - RN (RN (m - x) / c)) ltac:(lra)) as K. rewrite (RN_fmt x Fx) in K. exact K.
    + pose proof (RN_mono (m + - RN (RN (m - x) / c)) m ltac:(lra)) as K. rewrite (RN_fmt m Fm) in K. exact K.
Qed.

(* delta * (x - mean_new) >= 0 *)
Lemma welford_term_nonneg : forall x m c, fmt x -> fmt m -> (2 <= c \/ (x = m /\ 1 <= c)) ->
  0 <= RN (x - m) * RN (x - RN (m + RN (RN (x - m) / c))).
Proof.
  intros x m c Fx Fm Hc. destruct (mean_between x m c Fx Fm Hc) as [U D].
  destruct (Rle_dec m x) as [H|H].
  - destruct (U H) as [A B]. apply Rmult_le_pos; apply RN_nonneg; lra.
  - assert (H' : x <= m) by lra. destruct (D H') as [A B].
    assert (RN (x - m) <= 0) by (apply RN_nonpos; lra).
    assert (RN (x - RN (m + RN (RN (x - m) / c))) <= 0) by (apply RN_nonpos; lra).
    nra.
Qed.

(* ------------------------------------------------------------------ *)
(** * the binary64 operations on bounded finite operands                *)
(* ------------------------------------------------------------------ *)
Lemma RN_abs_le : forall y B, fmt B -> Rabs y <= B -> Rabs (RN y) <= B.
Proof. intros. apply abs_round_le_generic; auto with typeclass_instances. Qed.

Definition big : R := bpow radix2 100.
Lemma big_fmt : fmt big.
Proof. apply fmt_bpow. lia. Qed.
Lemma big_lt_bmax : big < bpow radix2 1024.
Proof. apply bpow_lt. lia. Qed.

Lemma sub_ok : forall a b : f64, is_finite a = true -> is_finite b = true ->
  Rabs (B2R a - B2R b) <= big ->
  is_finite (F64.sub a b) = true /\ B2R (F64.sub a b) = RN (B2R a - B2R b).
Proof.
  intros a b Fa Fb Hb.
  pose proof (Bminus_correct 53 1024 prec_gt_0_53 prec_lt_emax_53 mode_NE a b Fa Fb) as H.
  fold (F64.sub a b) in H. pose proof (RN_abs_le _ _ big_fmt Hb). pose proof big_lt_bmax.
  rewrite Rlt_bool_true in H by lra. destruct H as (A & F & _). auto.
Qed.

Lemma add_ok : forall a b : f64, is_finite a = true -> is_finite b = true ->
  Rabs (B2R a + B2R b) <= big ->
  is_finite (F64.add a b) = true /\ B2R (F64.add a b) = RN (B2R a + B2R b).
Proof.
  intros a b Fa Fb Hb.
  pose proof (Bplus_correct 53 1024 prec_gt_0_53 prec_lt_emax_53 mode_NE a b Fa Fb) as H.
  fold (F64.add a b) in H. pose proof (RN_abs_le _ _ big_fmt Hb). pose proof big_lt_bmax.
  rewrite Rlt_bool_true in H by lra. destruct H as (A & F & _). auto.
Qed.

Lemma mul_ok : forall a b : f64, is_finite a = true -> is_finite b = true ->
  Rabs (B2R a * B2R b) <= big ->
  is_finite (F64.mul a b) = true /\ B2R (F64.mul a b) = RN (B2R a * B2R b).
Proof.
  intros a b Fa Fb Hb.
  pose proof (Bmult_correct 53 1024 prec_gt_0_53 prec_lt_emax_53 mode_NE a b) as H.
  fold (F64.mul a b) in H. pose proof (RN_abs_le _ _ big_fmt Hb). pose proof big_lt_bmax.
  rewrite Rlt_bool_true in H by lra. destruct H as (A & F & _). rewrite Fa, Fb in F. auto.
Qed.

Lemma div_ok : forall a b : f64, is_finite a = true -> B2R b <> 0 ->
  Rabs (B2R a / B2R b) <= big ->
  is_finite (F64.div a b) = true /\ B2R (F64.div a b) = RN (B2R a / B2R b).
Proof.
  intros a b Fa Nb Hb.
  pose proof (Bdiv_correct 53 1024 prec_gt_0_53 prec_lt_emax_53 mode_NE a b Nb) as H.
  fold (F64.div a b) in H. pose proof (RN_abs_le _ _ big_fmt Hb). pose proof big_lt_bmax.
  rewrite Rlt_bool_true in H by lra. destruct H as (A & F & _). rewrite Fa in F. auto.
Qed.

(* the clamp value 1e7 *)
Definition Cr : R := B2R L.cut.

Lemma Cr_bounds : 0 < Cr <= bpow radix2 24.
Proof.
  unfold Cr. remember L.cut as o eqn:E. vm_compute in E. subst o. simpl. unfold F2R. simpl. lra.
Qed.

Lemma cut_finite : is_finite L.cut = true.
Proof. vm_compute. reflexivity. Qed.

Lemma ncut_B2R : B2R L.ncut = - Cr /\ is_finite L.ncut = true.
Proof.
  unfold Cr. remember L.cut as o eqn:E. vm_compute in E. subst o.
  remember L.ncut as o eqn:E. vm_compute in E. subst o. simpl. unfold F2R. simpl. split; [lra|reflexivity].
Qed.

Lemma RN_2 : RN 2 = 2.
Proof. apply RN_fmt. change 2 with (bpow radix2 1). apply fmt_bpow. lia. Qed.

(* one update of the running statistics *)
Lemma welford_step : forall (v mean : f64) n,
  is_finite v = true -> is_finite mean = true ->
  Rabs (B2R v) <= Cr -> Rabs (B2R mean) <= Cr ->
  (1 <= n <= 2 ^ 64)%Z -> ((2 <= n)%Z \/ B2R v = B2R mean) ->
  let c1 := F64.of_Z n in
  let delta := F64.sub v mean in
  let mean1 := F64.add mean (F64.div delta c1) in
  let t := F64.mul delta (F64.sub v mean1) in
  is_finite mean1 = true /\ Rabs (B2R mean1) <= Cr /\ is_finite t = true /\ 0 <= B2R t.
Proof.
  intros v mean n Fv Fm Bv Bm Hn Hc c1 delta mean1 t.
  pose proof Cr_bounds as [C0 C24].
  assert (P25 : bpow radix2 24 + bpow radix2 24 = bpow radix2 25) by (simpl; lra).
  assert (P100 : bpow radix2 25 * bpow radix2 25 <= big) by (unfold big; rewrite <- bpow_plus; apply bpow_le; lia).
  assert (B25 : bpow radix2 25 <= big) by (apply bpow_le; lia).
  assert (F25 : fmt (bpow radix2 25)) by (apply fmt_bpow; lia).
  set (x := B2R v) in *. set (m := B2R mean) in *.
  apply Rabs_le_inv in Bv. apply Rabs_le_inv in Bm.
  (* c1 *)
  destruct (of_Z_correct n) as [Fc Ec]; [lia|]. fold c1 in Fc, Ec.
  assert (Hc1 : 1 <= B2R c1) by (apply of_Z_pos; lia).
  assert (Hcc : 2 <= B2R c1 \/ (x = m /\ 1 <= B2R c1)).
  { destruct Hc as [Hc|Hc]; [left|right; auto].
    rewrite Ec, <- RN_2. apply RN_mono. apply IZR_le. lia. }
  (* delta *)
  assert (Hxm : Rabs (x - m) <= bpow radix2 25) by (apply Rabs_le; lra).
  destruct (sub_ok v mean Fv Fm) as [Fd Ed]; [fold x m; lra|]. fold delta x m in Fd, Ed.
  assert (Bd : Rabs (B2R delta) <= bpow radix2 25) by (rewrite Ed; apply RN_abs_le; auto).
  (* delta / c1 *)
  assert (Bq0 : Rabs (B2R delta / B2R c1) <= bpow radix2 25).
  { unfold Rdiv. rewrite Rabs_mult. rewrite (Rabs_pos_eq (/ B2R c1)) by (left; apply Rinv_0_lt_compat; lra).
    apply Rle_trans with (Rabs (B2R delta) * 1); [|lra].
    apply Rmult_le_compat_l; [apply Rabs_pos|]. rewrite <- Rinv_1. apply Rinv_le_contravar; lra. }
  destruct (div_ok delta c1 Fd) as [Fq Eq]; [lra|lra|].
  assert (Bq : Rabs (B2R (F64.div delta c1)) <= bpow radix2 25) by (rewrite Eq; apply RN_abs_le; auto).
  (* mean1 *)
  pose proof (mean_between x m (B2R c1) (fmt_B2R v) (fmt_B2R mean) Hcc) as [U D].
  assert (Bs : Rabs (m + B2R (F64.div delta c1)) <= big).
  { apply Rle_trans with (bpow radix2 24 + bpow radix2 25).
    - apply Rle_trans with (Rabs m + Rabs (B2R (F64.div delta c1))); [apply Rabs_triang|].
      apply Rplus_le_compat; auto. apply Rabs_le. lra.
    - apply Rle_trans with (bpow radix2 26); [simpl; lra|apply bpow_le; lia]. }
  destruct (add_ok mean (F64.div delta c1) Fm Fq Bs) as [Fm1 Em1]. fold mean1 m in Fm1, Em1.
  rewrite Eq, Ed in Em1.
  assert (Bm1 : Rabs (B2R mean1) <= Cr).
  { rewrite Em1. apply Rabs_le. destruct (Rle_dec m x) as [H|H].
    - destruct (U H). lra.
    - destruct (D ltac:(lra)). lra. }
  split; auto. split; auto.
  (* x - mean1 *)
  apply Rabs_le_inv in Bm1.
  assert (Hxm1 : Rabs (x - B2R mean1) <= bpow radix2 25) by (apply Rabs_le; lra).
  destruct (sub_ok v mean1 Fv Fm1) as [Fe Ee]; [fold x; lra|]. fold x in Ee.
  assert (Be : Rabs (B2R (F64.sub v mean1)) <= bpow radix2 25) by (rewrite Ee; apply RN_abs_le; auto).
  (* t *)
  assert (Bt : Rabs (B2R delta * B2R (F64.sub v mean1)) <= big).
  { rewrite Rabs_mult. apply Rle_trans with (bpow radix2 25 * bpow radix2 25); auto.
    apply Rmult_le_compat; auto; apply Rabs_pos. }
  destruct (mul_ok delta (F64.sub v mean1) Fd Fe Bt) as [Ft Et]. fold t in Ft, Et.
  split; auto. rewrite Et. apply RN_nonneg. rewrite Ed, Ee, Em1.
  apply welford_term_nonneg; auto; apply fmt_B2R.
Qed.

(* ------------------------------------------------------------------ *)
(** * invariant of distribution<double> under add()                    *)
(* ------------------------------------------------------------------ *)
Definition Dinv (n : Z) (d : dist) : Prop :=
  (0 <= d_count d <= n)%Z /\
  is_finite (d_mean d) = true /\ Rabs (B2R (d_mean d)) <= Cr /\
  is_nan (d_m2 d) = false /\ 0 <= ext (d_m2 d) /\
  (d_count d = 0%Z -> d_m2 d = F64.zero).

Lemma Dinv_mono : forall n n' d, (n <= n')%Z -> Dinv n d -> Dinv n' d.
Proof. intros n n' d H (A & B). split; auto. lia. Qed.

Lemma Dinv_dist0 : Dinv 0 dist0.
Proof.
  pose proof Cr_bounds. unfold Dinv, dist0; simpl. repeat split; auto; try lia; try lra.
  rewrite Rabs_R0. lra.
Qed.

(* what fill_vector feeds to add(): NaN, or a finite value within +-1e7 *)
Definition clamped (v : f64) : Prop :=
  is_nan v = true \/ (is_finite v = true /\ Rabs (B2R v) <= Cr).

Lemma clamp_cut_clamped : forall v, clamped (clamp_cut v).
Proof.
  intros v. unfold clamp_cut, clamped. pose proof Cr_bounds as [C0 _]. destruct ncut_B2R as [En Fn].
  assert (Nc : is_nan L.cut = false) by (vm_compute; reflexivity).
  assert (Nn : is_nan L.ncut = false) by (vm_compute; reflexivity).
  assert (Ec : ext L.cut = Cr) by (rewrite ext_finite; [reflexivity|apply cut_finite]).
  assert (Enc : ext L.ncut = - Cr) by (rewrite ext_finite; auto).
  destruct (is_nan v) eqn:N.
  - left. unfold F64.gtb, F64.ltb. rewrite !cmp_nan by auto. exact N.
  - right. destruct (F64.gtb v L.cut) eqn:G.
    + split; [apply cut_finite|]. fold Cr. rewrite Rabs_pos_eq; lra.
    + destruct (F64.ltb v L.ncut) eqn:Lt.
      * split; auto. rewrite En, Rabs_Ropp, Rabs_pos_eq; lra.
      * apply gtb_false_le in G; auto.
        assert (Lt' : ~ ext v < ext L.ncut).
        { intro K. apply ltb_ext in K; auto. congruence. }
        rewrite Ec in G. rewrite Enc in Lt'.
        pose proof bmax_gt_1. pose proof Cr_bounds as [_ C24].
        assert (bpow radix2 24 < bmax) by (apply bpow_lt; lia).
        assert (Fv : is_finite v = true).
        { clear - N G Lt' H H0 C24 C0. destruct v as [s|[|]| |s mm e Hb]; try reflexivity; try discriminate;
            cbn [ext] in G, Lt'; lra. }
        split; auto. rewrite <- (ext_finite v Fv). apply Rabs_le. lra.
Qed.

Lemma dist_add_inv : forall n d v, Dinv n d -> (n + 1 <= 2 ^ 64)%Z -> clamped v -> Dinv (n + 1) (dist_add d v).
Proof.
  intros n d v I Hn Cv. unfold dist_add, F64.is_nan.
  destruct Cv as [Nv|[Fv Bv]].
  - rewrite Nv. apply Dinv_mono with n; auto. lia.
  - assert (Nv : is_nan v = false) by (destruct v; simpl in *; try discriminate; auto). rewrite Nv.
    destruct I as (Hc & Fm & Bm & Nm2 & Pm2 & Z0).
    set (mean0 := if (d_count d =? 0)%Z then v else d_mean d).
    assert (Fm0 : is_finite mean0 = true) by (subst mean0; destruct (d_count d =? 0)%Z; auto).
    assert (Bm0 : Rabs (B2R mean0) <= Cr) by (subst mean0; destruct (d_count d =? 0)%Z; auto).
    assert (Hcc : (2 <= d_count d + 1)%Z \/ B2R v = B2R mean0).
    { subst mean0. destruct (d_count d =? 0)%Z eqn:E; [right; reflexivity|left].
      apply Z.eqb_neq in E. lia. }
    destruct (welford_step v mean0 (d_count d + 1) Fv Fm0 Bv Bm0 ltac:(lia) Hcc) as (F1 & B1 & Ft & Pt).
    cbv zeta in F1, B1, Ft, Pt.
    unfold Dinv. cbn [d_count d_mean d_m2]. split; [clear - Hc; lia|]. split; [exact F1|]. split; [exact B1|].
    set (t := F64.mul (F64.sub v mean0)
                (F64.sub v (F64.add mean0 (F64.div (F64.sub v mean0) (F64.of_Z (d_count d + 1)))))) in *.
    assert (Nt : is_nan t = false) by (destruct t; simpl in *; try discriminate; auto).
    assert (Et : 0 <= ext t) by (rewrite ext_finite; auto).
    destruct (1 <? d_count d + 1)%Z.
    + destruct (add_mono (d_m2 d) t Nm2 Ft Pm2 Et) as (A & B & _).
      split; [exact A|]. split; [lra|]. intro K; clear - K Hc; lia.
    + split; [exact Nt|]. split; [exact Et|]. intro K; clear - K Hc; lia.
Qed.

Lemma Dinv_var_ok : forall n d, Dinv n d -> (n <= 2 ^ 64)%Z -> var_ok (dist_variance d).
Proof.
  intros n d (Hc & Fm & Bm & Nm2 & Pm2 & Z0) Hn. unfold var_ok, dist_variance.
  destruct (Z.eq_dec (d_count d) 0) as [E|E].
  - left. rewrite E, (Z0 E). vm_compute. reflexivity.
  - right. set (c := F64.of_Z (d_count d)).
    destruct (of_Z_correct (d_count d)) as [Fc Ec]; [lia|]. fold c in Fc, Ec.
    assert (Pc : 1 <= B2R c) by (apply of_Z_pos; lia).
    destruct (is_finite (d_m2 d)) eqn:F2.
    + rewrite (ext_finite _ F2) in Pm2.
      assert (Q : 0 <= B2R (d_m2 d) / B2R c <= B2R (d_m2 d)).
      { split.
        - apply Rmult_le_pos; auto. left. apply Rinv_0_lt_compat. lra.
        - apply Rmult_le_reg_r with (B2R c); [lra|]. unfold Rdiv. rewrite Rmult_assoc, Rinv_l by lra. nra. }
      pose proof (Bdiv_correct 53 1024 prec_gt_0_53 prec_lt_emax_53 mode_NE (d_m2 d) c ltac:(lra)) as H.
      fold (F64.div (d_m2 d) c) in H.
      assert (B : 0 <= RN (B2R (d_m2 d) / B2R c) <= B2R (d_m2 d)).
      { split; [apply RN_nonneg; lra|]. rewrite <- (RN_B2R (d_m2 d)) at 2. apply RN_mono. lra. }
      pose proof (B2R_bounds (d_m2 d)) as Bb. unfold bmax in Bb.
      rewrite Rlt_bool_true in H by (rewrite Rabs_pos_eq; lra).
      destruct H as (A & F & _). rewrite F2 in F.
      apply leb_ext; [reflexivity|destruct (F64.div (d_m2 d) c); simpl in *; try discriminate; auto|].
      rewrite ext_zero, (ext_finite _ F), A. lra.
    + (* m2 overflowed to +inf: inf / count = +inf *)
      pose proof bmax_gt_1.
      assert (Sc : Bsign c = false).
      { apply pos_sign_false; [destruct c; simpl in *; try discriminate; auto|rewrite ext_finite; auto; lra]. }
      destruct (d_m2 d) as [s|[|]| |s mm e Hb]; simpl in *; try discriminate; try lra.
      destruct c as [sc|sc| |sc mc ec Hbc]; simpl in *; try discriminate; try lra.
      subst sc. reflexivity.
Qed.

Lemma gauss_fill_inv : forall train g g' n,
  Forall (Dinv n) g -> (n + Z.of_nat (length train) <= 2 ^ 64)%Z ->
  gauss_fill g train = Some g' -> Forall (Dinv (n + Z.of_nat (length train))) g'.
Proof.
  induction train as [|[o lab] r IH]; intros g g' n HF Hn H; simpl in H.
  - inversion H; subst. simpl. rewrite Z.add_0_r. exact HF.
  - destruct (nth_error g lab) as [d|] eqn:E; [|discriminate].
    simpl length in *. rewrite Nat2Z.inj_succ in *.
    replace (n + Z.succ (Z.of_nat (length r)))%Z with ((n + 1) + Z.of_nat (length r))%Z by lia.
    eapply IH; [|lia|exact H].
    apply Forall_set_nth.
    + eapply Forall_impl; [|exact HF]. intros a Ha. apply Dinv_mono with n; auto. lia.
    + apply dist_add_inv; [|lia|apply clamp_cut_clamped].
      rewrite Forall_forall in HF. apply HF. eapply nth_error_In; eauto.
Qed.

(* every class variance of every training set is NaN (empty class) or >= 0 *)
Lemma gauss_build_var_ok : forall classes train g, (Z.of_nat (length train) <= 2 ^ 64)%Z ->
  gauss_build classes train = Some g -> Forall (fun mv => var_ok (snd mv)) (gauss_stats g).
Proof.
  intros classes train g Hn H. unfold gauss_build in H.
  assert (H0 : Forall (Dinv 0) (repeat dist0 classes)).
  { apply Forall_forall. intros d Hd. apply repeat_spec in Hd. subst. apply Dinv_dist0. }
  pose proof (gauss_fill_inv train _ _ 0%Z H0 ltac:(lia) H) as HF.
  unfold gauss_stats. apply Forall_forall. intros mv Hin. apply in_map_iff in Hin.
  destruct Hin as [d [<- Hd]]. simpl. rewrite Forall_forall in HF.
  eapply Dinv_var_ok; [apply HF; exact Hd|lia].
Qed.

(* the full theorem: the gaussian confidence is in [0,1] for every training
   set and every query *)
Theorem gaussian_confidence_01 : forall libm_exp : f64 -> f64,
  (forall x : f64, is_nan x = true -> is_nan (libm_exp x) = true) ->
  (forall x : f64, F64.leb x F64.zero = true -> le01 (libm_exp x)) ->
  forall classes train g o, (Z.of_nat (length train) <= 2 ^ 64)%Z ->
  gauss_build classes train = Some g -> le01 (snd (gauss_tag libm_exp g o)).
Proof.
  intros e E1 E2 classes train g o Hn H. unfold gauss_tag.
  apply gaussian_confidence_01_stats; auto. eapply gauss_build_var_ok; eauto.
Qed.
