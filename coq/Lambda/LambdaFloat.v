(* C08 -- binary64 part: confidences are in [0,1], orders, counters.
   Doubles are viewed as extended reals ([ext]: +-inf sit at +-2^1024, beyond
   every finite double); Flocq's correctness theorems give the rest. *)
From Coq Require Import ZArith Reals Lra Lia Bool List.
From Flocq Require Import Core IEEE754.BinarySingleNaN.
From VV Require Import Base.F64 Lambda.LambdaDefs Lambda.LambdaProofs.
Import ListNotations.
Local Open Scope R_scope.

Local Instance p53 : Prec_gt_0 53 := prec_gt_0_53.
Local Instance p53e : Prec_lt_emax 53 1024 := prec_lt_emax_53.

Notation fexp64 := (SpecFloat.fexp 53 1024).
Notation RN := (round radix2 fexp64 (round_mode mode_NE)).
Definition bmax : R := bpow radix2 1024.

Lemma valid_fexp64 : Valid_exp fexp64.
Proof. apply (fexp_correct 53 1024). exact prec_gt_0_53. Qed.
Local Existing Instance valid_fexp64.

Lemma bmax_gt_1 : 1 < bmax.
Proof. unfold bmax. change 1 with (bpow radix2 0). apply bpow_lt. lia. Qed.

Lemma RN_mono : forall x y, x <= y -> RN x <= RN y.
Proof. intros. apply round_le; auto with typeclass_instances. Qed.

Lemma RN_B2R : forall x : f64, RN (B2R x) = B2R x.
Proof. intros. apply round_generic; auto with typeclass_instances. apply generic_format_B2R. Qed.

Lemma RN_0 : RN 0 = 0.
Proof. apply round_0; auto with typeclass_instances. Qed.

Lemma RN_1 : RN 1 = 1.
Proof.
  apply round_generic; auto with typeclass_instances.
  change 1 with (bpow radix2 0). apply generic_format_bpow. vm_compute. discriminate.
Qed.

(* ------------------------------------------------------------------ *)
(** * extended-real view and the comparisons                            *)
(* ------------------------------------------------------------------ *)
Definition ext (x : f64) : R :=
  match x with
  | B754_infinity false => bmax
  | B754_infinity true => - bmax
  | B754_nan => 0
  | _ => B2R x
  end.

Lemma B2R_bounds : forall x : f64, - bmax < B2R x < bmax.
Proof. intros x. pose proof (abs_B2R_lt_emax 53 1024 x) as HB. fold bmax in HB. apply Rabs_def2 in HB. lra. Qed.

Lemma ext_finite : forall x : f64, is_finite x = true -> ext x = B2R x.
Proof. destruct x as [s|s| |s m e H]; simpl; try discriminate; auto. Qed.

Lemma ext_bounds : forall x : f64, - bmax <= ext x <= bmax.
Proof.
  intros x. pose proof bmax_gt_1.
  destruct x as [s|[|]| |s m e Hb]; simpl; try lra.
  pose proof (B2R_bounds (B754_finite s m e Hb)). simpl in *. lra.
Qed.

Lemma cmp_ext : forall x y : f64, is_nan x = false -> is_nan y = false ->
  F64.cmp x y = Some (Rcompare (ext x) (ext y)).
Proof.
  intros x y Hx Hy. pose proof bmax_gt_1 as B1.
  destruct (is_finite x) eqn:Fx, (is_finite y) eqn:Fy.
  - rewrite !ext_finite by auto. apply Bcompare_correct; auto.
  - destruct y as [s|[|]| |s m e H]; try discriminate; rewrite (ext_finite x) by auto;
      pose proof (B2R_bounds x);
      destruct x as [sx|sx| |sx mx ex Hx']; try discriminate; unfold F64.cmp, Bcompare; simpl B2SF; cbn [SpecFloat.SFcompare];
      simpl ext; f_equal; symmetry; try (apply Rcompare_Gt; simpl in *; lra); try (apply Rcompare_Lt; simpl in *; lra).
  - destruct x as [s|[|]| |s m e H]; try discriminate; rewrite (ext_finite y) by auto;
      pose proof (B2R_bounds y);
      destruct y as [sy|sy| |sy my ey Hy']; try discriminate; unfold F64.cmp, Bcompare; simpl B2SF; cbn [SpecFloat.SFcompare];
      simpl ext; f_equal; symmetry; try (apply Rcompare_Gt; simpl in *; lra); try (apply Rcompare_Lt; simpl in *; lra).
  - destruct x as [s|[|]| |s m e H]; try discriminate; destruct y as [sy|[|]| |sy my ey Hy']; try discriminate;
      unfold F64.cmp, Bcompare; simpl; f_equal; symmetry;
      try (apply Rcompare_Eq; lra); try (apply Rcompare_Gt; lra); try (apply Rcompare_Lt; lra).
Qed.

Lemma cmp_nan : forall x y : f64, is_nan x = true \/ is_nan y = true -> F64.cmp x y = None.
Proof.
  intros x y [H|H]; [destruct x; try discriminate; reflexivity|].
  destruct y; try discriminate. destruct x; reflexivity.
Qed.

Lemma ltb_ext : forall x y : f64, is_nan x = false -> is_nan y = false ->
  (F64.ltb x y = true <-> ext x < ext y).
Proof.
  intros x y Hx Hy. unfold F64.ltb. rewrite (cmp_ext x y Hx Hy).
  destruct (Rcompare_spec (ext x) (ext y)); split; intro; try discriminate; try lra; auto.
Qed.

Lemma leb_ext : forall x y : f64, is_nan x = false -> is_nan y = false ->
  (F64.leb x y = true <-> ext x <= ext y).
Proof.
  intros x y Hx Hy. unfold F64.leb. rewrite (cmp_ext x y Hx Hy).
  destruct (Rcompare_spec (ext x) (ext y)); split; intro; try discriminate; try lra; auto.
Qed.

Lemma ltb_true_nonnan : forall x y : f64, F64.ltb x y = true -> is_nan x = false /\ is_nan y = false.
Proof.
  intros x y H. destruct (is_nan x) eqn:Hx; [unfold F64.ltb in H; rewrite cmp_nan in H; auto; discriminate|].
  destruct (is_nan y) eqn:Hy; [unfold F64.ltb in H; rewrite cmp_nan in H; auto; discriminate|]. auto.
Qed.

Lemma leb_true_nonnan : forall x y : f64, F64.leb x y = true -> is_nan x = false /\ is_nan y = false.
Proof.
  intros x y H. destruct (is_nan x) eqn:Hx; [unfold F64.leb in H; rewrite cmp_nan in H; auto; discriminate|].
  destruct (is_nan y) eqn:Hy; [unfold F64.leb in H; rewrite cmp_nan in H; auto; discriminate|]. auto.
Qed.

Lemma ext_zero : ext F64.zero = 0.
Proof. reflexivity. Qed.

Lemma ext_one : ext L.one = 1.
Proof.
  remember L.one as o eqn:E. vm_compute in E. subst o. simpl. unfold F2R. simpl. lra.
Qed.

(* a confidence in [0,1] *)
Definition le01 (c : f64) : Prop := F64.leb F64.zero c = true /\ F64.leb c L.one = true.

Lemma le01_ext : forall c : f64, le01 c <-> (is_nan c = false /\ 0 <= ext c <= 1).
Proof.
  intros c. unfold le01. split.
  - intros [A B]. destruct (leb_true_nonnan _ _ A) as [_ N].
    apply leb_ext in A; auto. apply leb_ext in B; auto. rewrite ext_zero in A. rewrite ext_one in B. auto.
  - intros [N [A B]]. split; apply leb_ext; auto; rewrite ?ext_zero, ?ext_one; auto.
Qed.

(* ------------------------------------------------------------------ *)
(** * integer -> double, ratios                                         *)
(* ------------------------------------------------------------------ *)
Lemma RN_pow64 : RN (bpow radix2 64) = bpow radix2 64.
Proof. apply round_generic; auto with typeclass_instances. apply generic_format_bpow. vm_compute. discriminate. Qed.

Lemma of_Z_correct : forall z, (0 <= z <= 2 ^ 64)%Z ->
  is_finite (F64.of_Z z) = true /\ B2R (F64.of_Z z) = RN (IZR z).
Proof.
  intros z Hz. unfold F64.of_Z.
  pose proof (binary_normalize_correct 53 1024 prec_gt_0_53 prec_lt_emax_53 mode_NE z 0 false) as H.
  cbv zeta in H. assert (E : F2R (Float radix2 z 0) = IZR z) by (unfold F2R; simpl; lra).
  rewrite E in H.
  assert (B : 0 <= RN (IZR z) <= bpow radix2 64).
  { split.
    - rewrite <- RN_0. apply RN_mono. apply IZR_le. lia.
    - rewrite <- RN_pow64. apply RN_mono. change (bpow radix2 64) with (IZR (2 ^ 64)). apply IZR_le. lia. }
  assert (B2 : bpow radix2 64 < bpow radix2 1024) by (apply bpow_lt; lia).
  rewrite Rlt_bool_true in H.
  - destruct H as (A & F & _). auto.
  - rewrite Rabs_pos_eq; lra.
Qed.

Lemma of_Z_mono : forall a b, (0 <= a <= b)%Z -> (b <= 2 ^ 64)%Z -> B2R (F64.of_Z a) <= B2R (F64.of_Z b).
Proof.
  intros a b H1 H2. destruct (of_Z_correct a) as [_ ->]; [lia|]. destruct (of_Z_correct b) as [_ ->]; [lia|].
  apply RN_mono. apply IZR_le. lia.
Qed.

Lemma of_Z_pos : forall b, (1 <= b <= 2 ^ 64)%Z -> 1 <= B2R (F64.of_Z b).
Proof.
  intros b H. destruct (of_Z_correct b) as [_ ->]; [lia|]. rewrite <- RN_1. apply RN_mono. apply IZR_le. lia.
Qed.

Lemma of_Z_nonneg : forall a, (0 <= a <= 2 ^ 64)%Z -> 0 <= B2R (F64.of_Z a).
Proof.
  intros a H. destruct (of_Z_correct a) as [_ ->]; [lia|]. rewrite <- RN_0. apply RN_mono. apply IZR_le. lia.
Qed.

(* x / y for finite 0 <= x <= y, 0 < y *)
Lemma div_01 : forall x y : f64, is_finite x = true -> is_finite y = true ->
  0 <= B2R x <= B2R y -> 0 < B2R y -> le01 (F64.div x y).
Proof.
  intros x y Fx Fy Hx Hy. apply le01_ext.
  pose proof (Bdiv_correct 53 1024 prec_gt_0_53 prec_lt_emax_53 mode_NE x y) as H.
  assert (Q : 0 <= B2R x / B2R y <= 1).
  { split.
    - apply Rmult_le_pos; [lra|]. left. apply Rinv_0_lt_compat. lra.
    - apply Rmult_le_reg_r with (B2R y); [lra|]. unfold Rdiv. rewrite Rmult_assoc, Rinv_l by lra. lra. }
  assert (B : 0 <= RN (B2R x / B2R y) <= 1).
  { split; [rewrite <- RN_0|rewrite <- RN_1]; apply RN_mono; lra. }
  pose proof bmax_gt_1 as B1. unfold bmax in B1.
  rewrite Rlt_bool_true in H by (rewrite Rabs_pos_eq; lra).
  destruct H as (A & F & _); [lra|]. fold (F64.div x y) in A, F.
  assert (Ff : is_finite (F64.div x y) = true) by congruence.
  split.
  - destruct (F64.div x y); simpl in *; try discriminate; auto.
  - rewrite ext_finite by auto. rewrite A. exact B.
Qed.

Lemma ratio_01 : forall ok total, (0 <= ok <= total)%Z -> (0 < total)%Z -> (total <= 2 ^ 64)%Z ->
  le01 (F64.div (F64.of_Z ok) (F64.of_Z total)).
Proof.
  intros ok total H1 H2 H3.
  destruct (of_Z_correct ok) as [F1 _]; [lia|]. destruct (of_Z_correct total) as [F2 _]; [lia|].
  apply div_01; auto.
  - split; [apply of_Z_nonneg; lia|apply of_Z_mono; lia].
  - assert (1 <= B2R (F64.of_Z total)) by (apply of_Z_pos; lia). lra.
Qed.

Lemma le01_half : le01 L.half.
Proof. split; vm_compute; reflexivity. Qed.

Lemma le01_zero : le01 F64.zero.
Proof. split; vm_compute; reflexivity. Qed.

(* ------------------------------------------------------------------ *)
(** * sums of non-negative terms                                        *)
(* ------------------------------------------------------------------ *)
Lemma finite_sign_neg : forall x : f64, is_finite x = true -> Bsign x = true -> B2R x <= 0.
Proof.
  destruct x as [s|s| |s m e Hb]; simpl; intros F S; try discriminate; try lra.
  subst s. unfold F2R. simpl. pose proof (bpow_gt_0 radix2 e).
  assert (IZR (Z.neg m) < 0) by (apply IZR_lt; lia). nra.
Qed.

Lemma B2SF_inf : forall (r : f64) s, B2SF r = SpecFloat.S754_infinity s -> r = B754_infinity s.
Proof. destruct r; simpl; intros s0 H; try discriminate. inversion H. reflexivity. Qed.

(* a (finite or +inf, >= 0) + b (finite, >= 0): no NaN, and the sum is above both *)
Lemma add_mono : forall a b : f64, is_nan a = false -> is_finite b = true ->
  0 <= ext a -> 0 <= ext b ->
  is_nan (F64.add a b) = false /\ ext a <= ext (F64.add a b) /\ ext b <= ext (F64.add a b).
Proof.
  intros a b Na Fb Ha Hb. pose proof bmax_gt_1 as B1.
  destruct (is_finite a) eqn:Fa.
  - pose proof (Bplus_correct 53 1024 prec_gt_0_53 prec_lt_emax_53 mode_NE a b Fa Fb) as H.
    fold (F64.add a b) in H. rewrite (ext_finite a Fa), (ext_finite b Fb) in *.
    destruct (Rlt_bool_spec (Rabs (RN (B2R a + B2R b))) (bpow radix2 1024)) as [L|L].
    + destruct H as (A & F & _). split; [destruct (F64.add a b); simpl in *; try discriminate; auto|].
      rewrite (ext_finite _ F), A. split.
      * rewrite <- (RN_B2R a) at 1. apply RN_mono. lra.
      * rewrite <- (RN_B2R b) at 1. apply RN_mono. lra.
    + destruct H as [A S]. unfold binary_overflow in A. simpl in A. apply B2SF_inf in A.
      assert (Sa : Bsign a = false).
      { destruct (Bsign a) eqn:Sa; auto. exfalso.
        pose proof (finite_sign_neg a Fa Sa). assert (B2R a = 0) by lra.
        replace (B2R a + B2R b) with (B2R b) in L by lra. rewrite RN_B2R in L.
        pose proof (abs_B2R_lt_emax 53 1024 b). lra. }
      rewrite A, Sa. simpl. pose proof (B2R_bounds a). pose proof (B2R_bounds b). repeat split; lra.
  - destruct a as [s|[|]| |s m e Hb']; simpl in *; try discriminate; try lra.
    destruct b as [sb|sb| |sb mb eb Hb']; simpl in *; try discriminate; repeat split; try lra;
      pose proof (B2R_bounds (B754_finite sb mb eb Hb')); simpl in *; lra.
Qed.

Lemma add_nan_l : forall a b : f64, is_nan a = true -> is_nan (F64.add a b) = true.
Proof. destruct a; try discriminate. destruct b; reflexivity. Qed.
Lemma add_nan_r : forall a b : f64, is_nan b = true -> is_nan (F64.add a b) = true.
Proof. destruct b; try discriminate. destruct a; reflexivity. Qed.

(* ------------------------------------------------------------------ *)
(** * signs of products and quotients                                  *)
(* ------------------------------------------------------------------ *)
Lemma mul_sign : forall x y : f64, is_nan (F64.mul x y) = false ->
  Bsign (F64.mul x y) = xorb (Bsign x) (Bsign y).
Proof.
  intros x y N. pose proof (Bmult_correct 53 1024 prec_gt_0_53 prec_lt_emax_53 mode_NE x y) as H.
  fold (F64.mul x y) in H.
  destruct (Rlt_bool _ _).
  - destruct H as (_ & _ & S). auto.
  - unfold binary_overflow in H. simpl in H. apply B2SF_inf in H. rewrite H. reflexivity.
Qed.

Lemma finite_B2R_nonzero : forall s m e Hb, B2R (B754_finite s m e Hb : f64) <> 0.
Proof.
  intros s m e Hb. simpl. unfold F2R. simpl. pose proof (bpow_gt_0 radix2 e).
  destruct s; simpl; [assert (IZR (Z.neg m) < 0) by (apply IZR_lt; lia)|assert (0 < IZR (Z.pos m)) by (apply IZR_lt; lia)]; nra.
Qed.

Lemma div_sign : forall x y : f64, is_nan (F64.div x y) = false ->
  Bsign (F64.div x y) = xorb (Bsign x) (Bsign y).
Proof.
  intros x y N.
  destruct y as [sy|sy| |sy my ey Hy].
  - destruct x; simpl in *; try discriminate; reflexivity.
  - destruct x; simpl in *; try discriminate; reflexivity.
  - destruct x; simpl in *; discriminate.
  - pose proof (Bdiv_correct 53 1024 prec_gt_0_53 prec_lt_emax_53 mode_NE x (B754_finite sy my ey Hy)
                  (finite_B2R_nonzero _ _ _ _)) as H.
    fold (F64.div x (B754_finite sy my ey Hy)) in H.
    destruct (Rlt_bool _ _).
    + destruct H as (_ & _ & S). auto.
    + unfold binary_overflow in H. simpl in H. apply B2SF_inf in H. rewrite H. reflexivity.
Qed.

Lemma mul_nan : forall x y : f64, is_nan x = true \/ is_nan y = true -> is_nan (F64.mul x y) = true.
Proof. intros x y [H|H]; [destruct x; try discriminate; destruct y; reflexivity|destruct y; try discriminate; destruct x; reflexivity]. Qed.
Lemma div_nan : forall x y : f64, is_nan x = true \/ is_nan y = true -> is_nan (F64.div x y) = true.
Proof. intros x y [H|H]; [destruct x; try discriminate; destruct y; reflexivity|destruct y; try discriminate; destruct x; reflexivity]. Qed.

Lemma sign_true_le_zero : forall x : f64, is_nan x = false -> Bsign x = true -> F64.leb x F64.zero = true.
Proof.
  intros x N S. apply leb_ext; auto. rewrite ext_zero.
  destruct x as [s|s| |s m e Hb]; simpl in *; try discriminate; subst; try lra.
  - pose proof bmax_gt_1. lra.
  - apply (finite_sign_neg (B754_finite true m e Hb)); reflexivity.
Qed.

Lemma pos_sign_false : forall x : f64, is_nan x = false -> 0 < ext x -> Bsign x = false.
Proof.
  intros x N P. destruct (Bsign x) eqn:S; auto. exfalso.
  apply sign_true_le_zero in S; auto. apply leb_ext in S; auto. rewrite ext_zero in S. lra.
Qed.

(* ------------------------------------------------------------------ *)
(** * |x|, issmall                                                      *)
(* ------------------------------------------------------------------ *)
Lemma ext_abs : forall x : f64, ext (F64.abs x) = Rabs (ext x).
Proof.
  pose proof bmax_gt_1.
  destruct x as [s|[|]| |s m e Hb]; simpl; rewrite ?Rabs_R0, ?Rabs_Ropp; try reflexivity;
    try (rewrite Rabs_pos_eq; lra).
  change (F2R (Float radix2 (Z.pos m) e)) with (B2R (Babs (B754_finite s m e Hb : f64))).
  rewrite B2R_Babs. reflexivity.
Qed.

Lemma is_nan_abs : forall x : f64, is_nan (F64.abs x) = is_nan x.
Proof. destruct x; reflexivity. Qed.

Lemma sign_abs : forall x : f64, Bsign (F64.abs x) = false.
Proof. destruct x; reflexivity. Qed.

Lemma two_eps_pos : 0 < ext L.two_eps.
Proof.
  remember L.two_eps as o eqn:E. vm_compute in E. subst o. simpl. apply F2R_gt_0. simpl. lia.
Qed.

Lemma not_small_pos : forall v : f64, is_nan v = false -> 0 <= ext v -> L.issmall v = false -> 0 < ext v.
Proof.
  intros v N P S. unfold L.issmall in S.
  assert (N2 : is_nan L.two_eps = false) by (vm_compute; reflexivity).
  destruct (Rlt_dec (ext (F64.abs v)) (ext L.two_eps)) as [L|L].
  - apply ltb_ext in L; [congruence|rewrite is_nan_abs; auto|auto].
  - rewrite ext_abs, Rabs_pos_eq in L by auto. pose proof two_eps_pos. lra.
Qed.

(* ------------------------------------------------------------------ *)
(** * binary                                                            *)
(* ------------------------------------------------------------------ *)
Lemma binary_label_01 : forall o, (fst (binary_tag o) < 2)%nat.
Proof. intros o. unfold binary_tag. simpl. destruct (F64.gtb _ _); lia. Qed.

Lemma binary_sureness_nonneg : forall o,
  match o with Some x => is_nan x = false | None => True end ->
  F64.leb F64.zero (snd (binary_tag o)) = true.
Proof.
  intros o H. unfold binary_tag. simpl snd. set (v := out_or_zero o).
  assert (N : is_nan v = false) by (subst v; destruct o; simpl; auto).
  apply leb_ext; [reflexivity|rewrite is_nan_abs; auto|].
  rewrite ext_zero, ext_abs. apply Rabs_pos.
Qed.

(* ------------------------------------------------------------------ *)
(** * gaussian                                                          *)
(* ------------------------------------------------------------------ *)
Lemma le01_one : le01 L.one.
Proof. split; vm_compute; reflexivity. Qed.

Lemma small_mag_finite : forall c : f64, is_nan c = false -> 0 <= ext c <= 1 -> is_finite c = true.
Proof.
  intros c N H. pose proof bmax_gt_1.
  destruct c as [s|[|]| |s m e Hb]; simpl in *; try discriminate; auto; lra.
Qed.

Section Gauss.
Variable libm_exp : f64 -> f64.
(* H_libm: the only facts assumed about exp *)
Hypothesis exp_nan : forall x : f64, is_nan x = true -> is_nan (libm_exp x) = true.
Hypothesis exp_nonpos : forall x : f64, F64.leb x F64.zero = true -> le01 (libm_exp x).

Definition P01 (p : f64) : Prop := is_nan p = true \/ le01 p.
(* what distribution::variance() returns: NaN (empty class) or a value >= 0 *)
Definition var_ok (v : f64) : Prop := is_nan v = true \/ F64.leb F64.zero v = true.

Lemma gauss_p_P01 : forall x mean variance, var_ok variance -> P01 (gauss_p libm_exp x mean variance).
Proof.
  intros x mean variance V. unfold gauss_p.
  set (d := F64.abs (F64.sub x mean)).
  destruct (L.issmall variance) eqn:S.
  - destruct (L.issmall d); right; [apply le01_one|apply le01_zero].
  - set (arg := F64.div (F64.mul (F64.neg d) d) variance).
    destruct (is_nan arg) eqn:Na; [left; apply exp_nan; auto|right].
    apply exp_nonpos. apply sign_true_le_zero; auto.
    assert (Nv : is_nan variance = false).
    { destruct (is_nan variance) eqn:E; auto. subst arg. rewrite div_nan in Na; auto. }
    assert (Nm : is_nan (F64.mul (F64.neg d) d) = false).
    { destruct (is_nan (F64.mul (F64.neg d) d)) eqn:E; auto. subst arg. rewrite div_nan in Na; auto. }
    assert (Nd : is_nan d = false).
    { destruct (is_nan d) eqn:E; auto. rewrite mul_nan in Nm; auto. }
    subst arg. rewrite div_sign by auto. rewrite mul_sign by auto.
    unfold F64.neg. rewrite Bsign_Bopp by auto. subst d. rewrite sign_abs. simpl.
    destruct V as [V|V]; [congruence|].
    apply leb_ext in V; auto. rewrite ext_zero in V.
    rewrite (pos_sign_false variance); auto. apply not_small_pos; auto.
Qed.

Definition GInv (acc : f64 * f64 * nat) : Prop :=
  let '(val, sum, _) := acc in
  is_nan sum = true \/
  (is_nan sum = false /\ is_nan val = false /\ 0 <= ext val <= 1 /\ ext val <= ext sum).

Lemma gauss_loop_inv : forall x stats i acc,
  Forall (fun mv => var_ok (snd mv)) stats -> GInv acc -> GInv (gauss_loop libm_exp x stats i acc).
Proof.
  intros x stats. induction stats as [|[mean variance] r IH]; intros i acc HF HI; simpl; auto.
  inversion HF as [|? ? Hv Hr]; subst. simpl in Hv.
  destruct acc as [[val sum] cls].
  pose proof (gauss_p_P01 x mean variance Hv) as HP.
  set (p := gauss_p libm_exp x mean variance) in *.
  destruct (F64.gtb p val) eqn:G; apply IH; auto; unfold GInv in *.
  - destruct HI as [HI|(Ns & Nv & Bv & Lv)]; [left; apply add_nan_l; auto|].
    destruct HP as [HP|HP]; [left; apply add_nan_r; auto|].
    apply le01_ext in HP. destruct HP as [Np Bp].
    destruct (add_mono sum p Ns (small_mag_finite p Np Bp)) as (A & B & C); try lra.
    right. repeat split; auto; lra.
  - destruct HI as [HI|(Ns & Nv & Bv & Lv)]; [left; apply add_nan_l; auto|].
    destruct HP as [HP|HP]; [left; apply add_nan_r; auto|].
    apply le01_ext in HP. destruct HP as [Np Bp].
    destruct (add_mono sum p Ns (small_mag_finite p Np Bp)) as (A & B & C); try lra.
    right. repeat split; auto; lra.
Qed.

(* full statement wanted (DESIGN 5.8): for ALL training sets.  What is proved
   here takes the per-class statistics with the hypothesis that every variance
   is NaN or >= 0; that Welford's m2 stays >= 0 in binary64 is not proved
   (checked at run time by the correspondence harness instead). *)
Lemma gaussian_confidence_01_stats : forall stats o,
  Forall (fun mv => var_ok (snd mv)) stats -> le01 (snd (gauss_tag_stats libm_exp stats o)).
Proof.
  intros stats o HF. unfold gauss_tag_stats.
  assert (HI : GInv (F64.zero, F64.zero, O)).
  { right. simpl. repeat split; auto; lra. }
  pose proof (gauss_loop_inv (out_or_zero o) stats O _ HF HI) as H.
  destruct (gauss_loop libm_exp (out_or_zero o) stats 0 (F64.zero, F64.zero, 0%nat)) as [[val sum] cls].
  simpl snd. unfold GInv in H.
  destruct (F64.gtb sum F64.zero) eqn:G; [|apply le01_zero].
  unfold F64.gtb in G. destruct (ltb_true_nonnan _ _ G) as [_ Ns].
  apply ltb_ext in G; auto. rewrite ext_zero in G.
  destruct H as [H|(_ & Nv & Bv & Lv)]; [congruence|].
  pose proof (small_mag_finite val Nv Bv) as Fv.
  destruct (is_finite sum) eqn:Fs.
  - apply div_01; auto; rewrite <- !ext_finite by auto; lra.
  - destruct sum as [s|[|]| |s m e Hb]; simpl in *; try discriminate; try (pose proof bmax_gt_1; lra).
    destruct val as [sv|sv| |sv mv ev Hbv]; simpl in *; try discriminate; destruct sv; split; reflexivity.
Qed.

Lemma gauss_loop_cls : forall x stats i acc,
  let c := snd (gauss_loop libm_exp x stats i acc) in
  c = snd acc \/ (i <= c < i + length stats)%nat.
Proof.
  intros x stats. induction stats as [|[mean variance] r IH]; intros i acc; simpl; auto.
  destruct acc as [[val sum] cls].
  destruct (F64.gtb _ val).
  - specialize (IH (S i) (gauss_p libm_exp x mean variance, F64.add sum (gauss_p libm_exp x mean variance), i)).
    simpl in IH. destruct IH as [IH|IH]; [right; rewrite IH; lia|right; lia].
  - specialize (IH (S i) (val, F64.add sum (gauss_p libm_exp x mean variance), cls)).
    simpl in IH. destruct IH as [IH|IH]; [left; auto|right; lia].
Qed.

Lemma gaussian_label_lt_classes : forall stats o, (0 < length stats)%nat ->
  (fst (gauss_tag_stats libm_exp stats o) < length stats)%nat.
Proof.
  intros stats o H. unfold gauss_tag_stats.
  pose proof (gauss_loop_cls (out_or_zero o) stats O (F64.zero, F64.zero, O)) as C.
  destruct (gauss_loop libm_exp (out_or_zero o) stats 0 (F64.zero, F64.zero, 0%nat)) as [[val sum] cls].
  simpl in *. lia.
Qed.

End Gauss.

Lemma gauss_fill_length : forall train g g', gauss_fill g train = Some g' -> length g' = length g.
Proof.
  induction train as [|[o lab] r IH]; intros g g' H; simpl in H.
  - inversion H; reflexivity.
  - destruct (nth_error g lab); [|discriminate]. apply IH in H. rewrite set_nth_length in H. exact H.
Qed.

Lemma gauss_build_label : forall libm_exp classes train g o, (0 < classes)%nat ->
  gauss_build classes train = Some g -> (fst (gauss_tag libm_exp g o) < classes)%nat.
Proof.
  intros e classes train g o Hc H. unfold gauss_build in H. apply gauss_fill_length in H.
  rewrite repeat_length in H. unfold gauss_tag.
  pose proof (gaussian_label_lt_classes e (gauss_stats g) o) as L.
  unfold gauss_stats in *. rewrite map_length in L. rewrite <- H. apply L. lia.
Qed.

(* ------------------------------------------------------------------ *)
(** * winner takes all                                                  *)
(* ------------------------------------------------------------------ *)
Lemma gtb_false_le : forall a b : f64, is_nan a = false -> is_nan b = false ->
  (F64.gtb a b = false <-> ext a <= ext b).
Proof.
  intros a b Na Nb. unfold F64.gtb. pose proof (ltb_ext b a Nb Na) as H.
  destruct (F64.ltb b a) eqn:E.
  - split; [discriminate|]. intro. assert (ext b < ext a) by (apply H; auto). lra.
  - split; [intros _|auto]. destruct (Rlt_dec (ext b) (ext a)) as [r|r]; [|lra]. apply H in r. discriminate.
Qed.

Lemma wta_fold_max : forall r t0 best,
  (forall t, In t (t0 :: r) -> is_nan (snd t) = false) ->
  best = fold_left (fun best res : nat * f64 => if F64.gtb (snd res) (snd best) then res else best) r t0 ->
  is_nan (snd best) = false /\ forall t, In t (t0 :: r) -> ext (snd t) <= ext (snd best).
Proof.
  induction r as [|a r IH]; intros t0 best HN Hb; simpl in Hb.
  - subst best. split; [apply HN; left; auto|]. intros t [<-|[]]. apply Rle_refl.
  - assert (Na : is_nan (snd a) = false) by (apply HN; right; left; auto).
    assert (N0 : is_nan (snd t0) = false) by (apply HN; left; auto).
    revert Hb. unfold f64 in *. destruct (F64.gtb (snd a) (snd t0)) eqn:G; intro Hb.
    + destruct (IH a best) as [A B]; [intros t Ht; apply HN; right; auto|exact Hb|].
      split; [exact A|]. intros t [<-|Ht]; [|apply B; auto].
      unfold F64.gtb in G. apply ltb_ext in G; auto.
      specialize (B a (or_introl eq_refl)). lra.
    + destruct (IH t0 best) as [A B]; [intros t [<-|Ht]; apply HN; [left|right; right]; auto|exact Hb|].
      split; [exact A|]. intros t [<-|[<-|Ht]]; [apply B; left; auto| |apply B; right; auto].
      apply gtb_false_le in G; auto. specialize (B t0 (or_introl eq_refl)). lra.
Qed.

Lemma wta_picks_max_sureness : forall tags best,
  (forall t, In t tags -> is_nan (snd t) = false) ->
  wta tags = Some best ->
  In best tags /\ forall t, In t tags -> F64.gtb (snd t) (snd best) = false.
Proof.
  intros tags best HN H. split; [apply wta_in; auto|].
  destruct tags as [|t0 r]; simpl in H; [discriminate|]. inversion H as [Hb]; clear H.
  destruct (wta_fold_max r t0 best HN (eq_sym Hb)) as [A B].
  intros t Ht. rewrite Hb. apply gtb_false_le; auto.
Qed.

(* ------------------------------------------------------------------ *)
(** * team regression: a defined member gives a defined answer          *)
(* ------------------------------------------------------------------ *)
Lemma count_step : forall c : f64, is_nan c = false -> 0 <= ext c ->
  is_nan (F64.add c L.one) = false /\ 1 <= ext (F64.add c L.one).
Proof.
  intros c N P.
  assert (F1 : is_finite L.one = true) by (vm_compute; reflexivity).
  destruct (add_mono c L.one N F1 P) as (A & _ & B); [rewrite ext_one; lra|].
  rewrite ext_one in B. auto.
Qed.

Lemma team_fold_count : forall xs avg c, is_nan c = false -> 0 <= ext c -> xs <> [] ->
  is_nan (snd (fold_left mean_step (map Some xs) (avg, c))) = false /\
  1 <= ext (snd (fold_left mean_step (map Some xs) (avg, c))).
Proof.
  induction xs as [|x r IH]; intros avg c N P H; [congruence|]. simpl.
  destruct (count_step c N P) as [A B].
  destruct r as [|y r'].
  - simpl. auto.
  - apply IH; auto; try lra. discriminate.
Qed.

Lemma team_defined_gives_value : forall outs, defined outs <> [] -> exists avg, team_eval outs = Some avg.
Proof.
  intros outs H. unfold team_eval. rewrite team_fold_defined.
  remember (fold_left mean_step (map Some (defined outs)) (F64.zero, F64.zero)) as fc eqn:E.
  assert (K : is_nan (snd fc) = false /\ 1 <= ext (snd fc)).
  { subst fc. apply team_fold_count; auto. apply Rle_refl. }
  clear E. destruct fc as [a c]. simpl in K.
  destruct K as [N P]. assert (G : F64.gtb c F64.zero = true).
  { unfold F64.gtb. apply ltb_ext; auto. change (ext F64.zero) with 0. lra. }
  rewrite G. eauto.
Qed.

(* exact layer: without rounding the recurrence is the arithmetic mean *)
Fixpoint rmean_from (avg count : R) (xs : list R) : R :=
  match xs with
  | [] => avg
  | x :: r => rmean_from (avg + (x - avg) / (count + 1)) (count + 1) r
  end.
Fixpoint rsum (xs : list R) : R := match xs with [] => 0 | x :: r => x + rsum r end.

Lemma rmean_from_spec : forall xs avg k, (0 <= k)%nat ->
  rmean_from avg (INR k) xs * INR (k + length xs) = avg * INR k + rsum xs.
Proof.
  induction xs as [|x r IH]; intros avg k _; cbn [rmean_from rsum length].
  - rewrite Nat.add_0_r. lra.
  - replace (INR k + 1) with (INR (S k)) by (rewrite S_INR; lra).
    replace (k + S (length r))%nat with (S k + length r)%nat by lia.
    rewrite (IH _ (S k)) by lia. rewrite S_INR. pose proof (pos_INR k). field. lra.
Qed.

Lemma running_mean_exact_is_arithmetic_mean : forall xs, xs <> [] ->
  rmean_from 0 0 xs = rsum xs / INR (length xs).
Proof.
  intros xs H. pose proof (rmean_from_spec xs 0 0 (Nat.le_refl _)) as E. simpl in E.
  assert (INR (length xs) <> 0) by (apply not_0_INR; destruct xs; simpl; congruence || lia).
  apply Rmult_eq_reg_r with (INR (length xs)); auto. rewrite E. field. auto.
Qed.

(* ------------------------------------------------------------------ *)
(** * confidences of dyn_slot, majority vote; accuracy                  *)
(* ------------------------------------------------------------------ *)
Lemma dyn_slot_confidence_01 : forall at_ classes x_slot train d o lab c,
  (Z.of_nat (length train) <= 2 ^ 64)%Z ->
  dyn_build at_ classes x_slot train = Some d ->
  dyn_tag at_ d o = Some (lab, c) -> le01 c.
Proof.
  intros at_ classes x_slot train d o lab c Hn Hb Ht.
  destruct (dyn_tag_shape_bounded _ _ _ _ _ _ _ _ Hb Ht) as [->|(ok & total & A & B & C & ->)]; [apply le01_half|].
  apply ratio_01; auto. lia.
Qed.

Lemma mv_confidence_01 : forall classes tags lab c, (0 < classes)%nat -> tags <> [] ->
  (Z.of_nat (length tags) <= 2 ^ 64)%Z ->
  mv classes tags = Some (lab, c) -> (lab < classes)%nat /\ le01 c.
Proof.
  intros classes tags lab c Hc Hne Hn H.
  destruct (mv_shape _ _ _ _ Hc H) as (A & v & B & ->). split; auto.
  destruct tags as [|t0 r]; [congruence|].
  apply ratio_01; auto; simpl length in *; lia.
Qed.

Lemma accuracy_is_fraction : forall pl, pl <> [] -> (Z.of_nat (length pl) <= 2 ^ 64)%Z ->
  accuracy_class pl = F64.div (F64.of_Z (Z.of_nat (n_ok pl))) (F64.of_Z (Z.of_nat (length pl))) /\
  (n_ok pl <= length pl)%nat /\ le01 (accuracy_class pl).
Proof.
  intros pl Hne Hn. split; [reflexivity|]. pose proof (n_ok_bad pl). split; [lia|].
  unfold accuracy_class. apply ratio_01; try lia. destruct pl; [congruence|simpl length; lia].
Qed.

Lemma accuracy_reg_is_fraction : forall pl, pl <> [] -> (Z.of_nat (length pl) <= 2 ^ 64)%Z ->
  le01 (accuracy_reg pl).
Proof.
  intros pl Hne Hn. unfold accuracy_reg.
  assert (length (filter reg_ok pl) <= length pl)%nat.
  { clear. induction pl; simpl; auto. destruct (reg_ok a); simpl; lia. }
  apply ratio_01; try lia. destruct pl; [congruence|simpl length; lia].
Qed.
