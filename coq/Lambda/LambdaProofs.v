(* C08 -- proofs about the combinatorial part of the model (no binary64
   reasoning here: see LambdaFloat.v): slots, slot->class table, votes,
   counting. *)
From Coq Require Import ZArith List Bool Lia Arith ZifyBool.
From VV Require Import Base.F64 Lambda.LambdaDefs.
Import ListNotations.
Local Open Scope Z_scope.

(* ------------------------------------------------------------------ *)
(** * generic list facts                                                *)
(* ------------------------------------------------------------------ *)
Lemma set_nth_length : forall A (l : list A) n x, length (set_nth l n x) = length l.
Proof. induction l as [|a l IH]; intros [|n] x; simpl; auto. Qed.

Lemma nth_error_set_nth_eq : forall A (l : list A) n x, (n < length l)%nat ->
  nth_error (set_nth l n x) n = Some x.
Proof. induction l as [|a l IH]; intros [|n] x H; simpl in *; try lia; auto. apply IH. lia. Qed.

Lemma nth_error_set_nth_neq : forall A (l : list A) n m x, n <> m ->
  nth_error (set_nth l n x) m = nth_error l m.
Proof. induction l as [|a l IH]; intros [|n] [|m] x H; simpl; auto; try congruence. Qed.

Lemma Forall_set_nth : forall A (P : A -> Prop) l n x, Forall P l -> P x -> Forall P (set_nth l n x).
Proof.
  induction l as [|a l IH]; intros [|n] x Hl Hx; simpl; auto; inversion Hl; subst; constructor; auto.
Qed.

Lemma Forall_nth_default : forall A (P : A -> Prop) l n d, Forall P l -> P d -> P (nth n l d).
Proof. induction l as [|a l IH]; intros [|n] d Hl Hd; simpl; auto; inversion Hl; subst; auto. Qed.

(* ------------------------------------------------------------------ *)
(** * slot                                                              *)
(* ------------------------------------------------------------------ *)
Lemma slot_in_range : forall libm_atan ns o s, (0 < ns)%nat ->
  slot libm_atan ns o = Some s -> (s < ns)%nat.
Proof.
  intros at_ ns o s Hns H. unfold slot in H.
  destruct o as [val|].
  - destruct (discretization at_ val (Z.of_nat (ns - 1))) as [w|]; [|discriminate].
    destruct (Z.of_nat ns <=? w) eqn:E; inversion H; subst; lia.
  - inversion H; subst; lia.
Qed.

(* the slot is the discretised value, clamped to the last slot *)
Lemma slot_is_min : forall libm_atan ns val s, (0 < ns)%nat ->
  slot libm_atan ns (Some val) = Some s ->
  exists w, discretization libm_atan val (Z.of_nat (ns - 1)) = Some w /\ 0 <= w /\
            Z.of_nat s = Z.min w (Z.of_nat (ns - 1)).
Proof.
  intros at_ ns val s Hns H. unfold slot in H.
  destruct (discretization at_ val (Z.of_nat (ns - 1))) as [w|] eqn:D; [|discriminate].
  exists w. split; auto.
  assert (0 <= w).
  { unfold discretization, L.to_size_t in D.
    destruct (F64.to_Z_trunc _) as [z|]; [|discriminate].
    destruct (0 <=? z) eqn:?; destruct (z <? 2 ^ 64) eqn:?; cbn [andb] in D; try discriminate.
    inversion D; subst; lia. }
  split; auto.
  destruct (Z.of_nat ns <=? w) eqn:E; inversion H; subst; lia.
Qed.

Lemma slot_undefined_is_last : forall libm_atan ns, slot libm_atan ns None = Some (ns - 1)%nat.
Proof. reflexivity. Qed.

(* ------------------------------------------------------------------ *)
(** * slot -> class table                                               *)
(* ------------------------------------------------------------------ *)
Lemma best_from_lt : forall r todo best j, (best < j)%nat -> (best_from r best j todo < j + length todo)%nat.
Proof.
  induction todo as [|c t IH]; intros best j H; simpl.
  - lia.
  - specialize (IH (if nth best r 0 <=? c then j else best) (S j)).
    destruct (nth best r 0 <=? c); lia.
Qed.

Lemma best_class_lt : forall r, (0 < length r)%nat -> (best_class r < length r)%nat.
Proof.
  intros r H. unfold best_class. destruct r as [|a t]; simpl in *; [lia|].
  pose proof (best_from_lt (a :: t) t 0 1)%nat. lia.
Qed.

Lemma raw_class_le : forall classes r, length r = classes -> (0 < classes)%nat -> (raw_class classes r <= classes)%nat.
Proof.
  intros classes r Hl Hc. unfold raw_class.
  destruct (nth (best_class r) r 0 =? 0); [lia|].
  pose proof (best_class_lt r). lia.
Qed.

(* the class of a known slot is an arg-max of its row, and among equal
   maxima the highest class index (the code compares with >=) *)
Lemma best_from_max : forall r todo best j,
  (best < j)%nat -> (j + length todo = length r)%nat ->
  todo = skipn j r ->
  (forall k, (k < j)%nat -> nth k r 0 <= nth best r 0) ->
  (forall k, (best < k < j)%nat -> nth k r 0 < nth best r 0) ->
  let b := best_from r best j todo in
  (forall k, (k < length r)%nat -> nth k r 0 <= nth b r 0) /\
  (forall k, (b < k < length r)%nat -> nth k r 0 < nth b r 0).
Proof.
  induction todo as [|c t IH]; intros best j Hb Hlen Hskip Hmax Htie; simpl.
  - simpl in Hlen. split; intros k Hk; [apply Hmax|apply Htie]; lia.
  - assert (Hc : c = nth j r 0).
    { clear - Hskip. revert j Hskip. induction r as [|a r IH]; intros [|j] H; simpl in *; try discriminate.
      - inversion H; auto.
      - apply IH; auto. }
    assert (Ht : t = skipn (S j) r).
    { clear - Hskip. revert j Hskip. induction r as [|a r IH]; intros [|j] H; simpl in *; try discriminate.
      - inversion H; auto.
      - apply IH; auto. }
    simpl in Hlen.
    destruct (nth best r 0 <=? c) eqn:E.
    + apply IH; [lia | lia | exact Ht | | ].
      * intros k Hk. destruct (Nat.eq_dec k j); [subst; lia|]. specialize (Hmax k). lia.
      * intros k Hk. lia.
    + apply IH; [lia | lia | exact Ht | | ].
      * intros k Hk. destruct (Nat.eq_dec k j); [subst; lia|]. apply Hmax. lia.
      * intros k Hk. destruct (Nat.eq_dec k j); [subst; lia|]. apply Htie. lia.
Qed.

Lemma best_class_is_argmax : forall r, (0 < length r)%nat ->
  (forall k, (k < length r)%nat -> nth k r 0 <= nth (best_class r) r 0) /\
  (forall k, (best_class r < k < length r)%nat -> nth k r 0 < nth (best_class r) r 0).
Proof.
  intros r H. unfold best_class. destruct r as [|a t]; simpl in H; [lia|].
  apply (best_from_max (a :: t) t 0 1)%nat; simpl; auto; try lia.
  all: intros k Hk; try lia; assert (k = 0)%nat by lia; subst; simpl; lia.
Qed.

Lemma fix_unknown_lt : forall classes l prev, (0 < classes)%nat ->
  Forall (fun c => (c <= classes)%nat) l ->
  match prev with Some p => (p < classes)%nat | None => True end ->
  Forall (fun c => (c < classes)%nat) (fix_unknown classes prev l).
Proof.
  intros classes l. induction l as [|c t IH]; intros prev Hc Hl Hp; simpl; [constructor|].
  inversion Hl as [|? ? Hc0 Ht]; subst.
  match goal with |- Forall _ (?x :: _) => set (c' := x) end.
  assert (Hc' : (c' < classes)%nat).
  { subst c'. destruct (Nat.eqb c classes) eqn:E.
    - destruct prev as [p|].
      + destruct (Nat.eqb p classes) eqn:E2; simpl; [apply Nat.eqb_eq in E2; lia|auto].
      + destruct t as [|n t']; [lia|]. inversion Ht; subst.
        destruct (Nat.eqb n classes) eqn:E3; simpl; [lia|]. apply Nat.eqb_neq in E3. lia.
    - apply Nat.eqb_neq in E. lia. }
  constructor; auto.
Qed.

Lemma fix_unknown_length : forall u l prev, length (fix_unknown u prev l) = length l.
Proof. induction l as [|c t IH]; intros prev; simpl; auto. Qed.

(* a slot that saw training examples keeps its own (arg-max) class *)
Lemma fix_unknown_known : forall u l prev i c, nth_error l i = Some c -> c <> u ->
  nth_error (fix_unknown u prev l) i = Some c.
Proof.
  induction l as [|a t IH]; intros prev [|i] c H Hc; simpl in *; try discriminate.
  - inversion H; subst. destruct (Nat.eqb c u) eqn:E; [apply Nat.eqb_eq in E; congruence|reflexivity].
  - eapply IH; eauto.
Qed.

(* dimensions of the matrix *)
Definition dims (m : matrix) (ns classes : nat) : Prop :=
  length m = ns /\ Forall (fun r => length r = classes) m.

Lemma zero_matrix_dims : forall ns classes, dims (zero_matrix ns classes) ns classes.
Proof.
  intros. unfold dims, zero_matrix. split; [apply repeat_length|].
  apply Forall_forall. intros r Hr. apply repeat_spec in Hr. subst. apply repeat_length.
Qed.

Lemma inc_cell_dims : forall m i j m' ns classes, dims m ns classes -> inc_cell m i j = Some m' -> dims m' ns classes.
Proof.
  intros m i j m' ns classes [Hl Hr] H. unfold inc_cell in H.
  destruct (nth_error m i) as [r|] eqn:E; [|discriminate].
  destruct (nth_error r j) as [c|]; [|discriminate]. inversion H; subst. split.
  - apply set_nth_length.
  - apply Forall_set_nth; auto. rewrite set_nth_length.
    rewrite Forall_forall in Hr. apply Hr. eapply nth_error_In; eauto.
Qed.

Lemma fill_counts_dims : forall at_ ns train m m' classes, dims m ns classes ->
  fill_counts at_ ns m train = Some m' -> dims m' ns classes.
Proof.
  induction train as [|[o lab] t IH]; intros m m' classes Hd H; simpl in H.
  - inversion H; subst; auto.
  - destruct (slot at_ ns o) as [s|]; [|discriminate].
    destruct (inc_cell m s lab) as [m1|] eqn:E; [|discriminate].
    eapply IH; [|eauto]. eapply inc_cell_dims; eauto.
Qed.

Lemma dyn_build_table : forall at_ classes x_slot train d, (0 < classes)%nat ->
  dyn_build at_ classes x_slot train = Some d ->
  dm_classes d = classes /\ dm_ns d = (classes * x_slot)%nat /\
  dims (dm_matrix d) (dm_ns d) classes /\
  length (dm_slot_class d) = dm_ns d /\
  Forall (fun c => (c < classes)%nat) (dm_slot_class d).
Proof.
  intros at_ classes x_slot train d Hc H. unfold dyn_build in H.
  destruct (fill_counts _ _ _ _) as [m|] eqn:E; [|discriminate]. inversion H; subst; simpl.
  pose proof (fill_counts_dims _ _ _ _ _ _ (zero_matrix_dims _ _) E) as [Hl Hr].
  repeat split; auto.
  - rewrite fix_unknown_length, map_length. auto.
  - apply fix_unknown_lt; auto. apply Forall_forall. intros c Hin. apply in_map_iff in Hin.
    destruct Hin as [r [Hr1 Hr2]]. subst. apply raw_class_le; auto.
    rewrite Forall_forall in Hr. auto.
Qed.

Lemma dyn_slot_label_lt_classes : forall at_ classes x_slot train d o lab c, (0 < classes)%nat ->
  dyn_build at_ classes x_slot train = Some d ->
  dyn_tag at_ d o = Some (lab, c) -> (lab < classes)%nat.
Proof.
  intros at_ classes x_slot train d o lab c Hc Hb Ht.
  destruct (dyn_build_table _ _ _ _ _ Hc Hb) as (_ & _ & _ & _ & HF).
  unfold dyn_tag in Ht. destruct (slot at_ (dm_ns d) o) as [s|]; [|discriminate].
  inversion Ht; subst. apply Forall_nth_default; auto.
Qed.

(* the label of a slot that saw training examples is the arg-max class of
   that slot (ties: the highest class) *)
Lemma dyn_known_slot_is_argmax : forall at_ classes x_slot train d s, (0 < classes)%nat ->
  dyn_build at_ classes x_slot train = Some d -> (s < dm_ns d)%nat ->
  let r := nth s (dm_matrix d) [] in
  let lab := nth s (dm_slot_class d) O in
  0 < nth (best_class r) r 0 ->
  lab = best_class r /\
  (forall k, (k < classes)%nat -> nth k r 0 <= nth lab r 0) /\
  (forall k, (lab < k < classes)%nat -> nth k r 0 < nth lab r 0).
Proof.
  intros at_ classes x_slot train d s Hc Hb Hs r lab Hpos.
  pose proof (dyn_build_table _ _ _ _ _ Hc Hb) as (_ & _ & [Hl Hr] & _ & _).
  unfold dyn_build in Hb. destruct (fill_counts _ _ _ _) as [m|] eqn:E; [|discriminate].
  inversion Hb; subst; simpl in *.
  assert (Hrow : nth_error m s = Some r).
  { subst r. apply nth_error_nth'. lia. }
  assert (Hlen : length r = classes).
  { rewrite Forall_forall in Hr. apply Hr. eapply nth_error_In; eauto. }
  assert (Hlab : lab = best_class r).
  { subst lab.
    assert (H1 : nth_error (map (raw_class classes) m) s = Some (raw_class classes r)).
    { rewrite nth_error_map, Hrow. reflexivity. }
    assert (H2 : raw_class classes r = best_class r).
    { unfold raw_class. destruct (nth (best_class r) r 0 =? 0) eqn:E0; [lia|reflexivity]. }
    rewrite H2 in H1.
    pose proof (best_class_lt r).
    erewrite nth_error_nth; [reflexivity|].
    apply fix_unknown_known; auto. lia. }
  split; auto. rewrite Hlab.
  destruct (best_class_is_argmax r) as [A B]; [lia|].
  rewrite <- Hlen. split; auto.
Qed.

(* ------------------------------------------------------------------ *)
(** * row totals, votes                                                 *)
(* ------------------------------------------------------------------ *)
Lemma fold_add_shift : forall l a, fold_left Z.add l a = a + fold_left Z.add l 0.
Proof. induction l as [|x l IH]; intros a; simpl; [lia|]. rewrite IH. rewrite (IH x). lia. Qed.

Lemma row_total_bounds : forall r, Forall (fun c => 0 <= c) r ->
  forall k, 0 <= nth k r 0 <= row_total r.
Proof.
  unfold row_total. induction r as [|a r IH]; intros H k; simpl.
  - destruct k; simpl; lia.
  - inversion H; subst. rewrite fold_add_shift. destruct k; simpl.
    + specialize (IH H3 O). lia.
    + specialize (IH H3 k). lia.
Qed.

Definition nonneg_matrix (m : matrix) : Prop := Forall (Forall (fun c => 0 <= c)) m.

Lemma inc_cell_nonneg : forall m i j m', nonneg_matrix m -> inc_cell m i j = Some m' -> nonneg_matrix m'.
Proof.
  intros m i j m' Hn H. unfold inc_cell in H.
  destruct (nth_error m i) as [r|] eqn:E; [|discriminate].
  destruct (nth_error r j) as [c|] eqn:E2; [|discriminate]. inversion H; subst.
  assert (Hr : Forall (fun c => 0 <= c) r).
  { unfold nonneg_matrix in Hn. rewrite Forall_forall in Hn. apply Hn. eapply nth_error_In; eauto. }
  apply Forall_set_nth; auto. apply Forall_set_nth; auto.
  rewrite Forall_forall in Hr. specialize (Hr c (nth_error_In _ _ E2)). lia.
Qed.

Lemma fill_counts_nonneg : forall at_ ns train m m', nonneg_matrix m ->
  fill_counts at_ ns m train = Some m' -> nonneg_matrix m'.
Proof.
  induction train as [|[o lab] t IH]; intros m m' Hn H; simpl in H.
  - inversion H; subst; auto.
  - destruct (slot at_ ns o) as [s|]; [|discriminate].
    destruct (inc_cell m s lab) as [m1|] eqn:E; [|discriminate].
    eapply IH; [|eauto]. eapply inc_cell_nonneg; eauto.
Qed.

Lemma zero_matrix_nonneg : forall ns classes, nonneg_matrix (zero_matrix ns classes).
Proof.
  intros. unfold nonneg_matrix, zero_matrix. apply Forall_forall. intros r Hr.
  apply repeat_spec in Hr. subst. apply Forall_forall. intros c Hc. apply repeat_spec in Hc. lia.
Qed.

Lemma dyn_build_nonneg : forall at_ classes x_slot train d,
  dyn_build at_ classes x_slot train = Some d -> nonneg_matrix (dm_matrix d).
Proof.
  intros at_ classes x_slot train d H. unfold dyn_build in H.
  destruct (fill_counts _ _ _ _) as [m|] eqn:E; [|discriminate]. inversion H; subst; simpl.
  eapply fill_counts_nonneg; [|eauto]. apply zero_matrix_nonneg.
Qed.

(* dyn_tag: the confidence is 0.5 on an empty slot, else ok/total with 0 <= ok <= total *)
Lemma dyn_tag_shape : forall at_ classes x_slot train d o lab c,
  dyn_build at_ classes x_slot train = Some d ->
  dyn_tag at_ d o = Some (lab, c) ->
  c = L.half \/ exists ok total, 0 <= ok <= total /\ 0 < total /\ c = F64.div (F64.of_Z ok) (F64.of_Z total).
Proof.
  intros at_ classes x_slot train d o lab c Hb Ht.
  pose proof (dyn_build_nonneg _ _ _ _ _ Hb) as Hn.
  unfold dyn_tag in Ht. destruct (slot at_ (dm_ns d) o) as [s|]; [|discriminate].
  inversion Ht; subst; clear Ht.
  set (r := nth s (dm_matrix d) []).
  assert (Hr : Forall (fun c => 0 <= c) r).
  { subst r. apply Forall_nth_default; auto. }
  destruct (row_total r =? 0) eqn:E; [left; reflexivity|right].
  pose proof (row_total_bounds r Hr (nth s (dm_slot_class d) 0%nat)).
  eexists _, _. split; [|split; [|reflexivity]]; lia.
Qed.

(* majority vote *)
Lemma inc_nth_length : forall l n l', inc_nth l n = Some l' -> length l' = length l.
Proof.
  induction l as [|c t IH]; intros [|n] l' H; simpl in H; try discriminate.
  - inversion H; reflexivity.
  - destruct (inc_nth t n) eqn:E; [|discriminate]. inversion H; subst. simpl. f_equal. eauto.
Qed.

Lemma inc_nth_sum : forall l n l', inc_nth l n = Some l' ->
  fold_left Z.add l' 0 = fold_left Z.add l 0 + 1 /\ (Forall (fun c => 0 <= c) l -> Forall (fun c => 0 <= c) l').
Proof.
  induction l as [|c t IH]; intros [|n] l' H; simpl in H; try discriminate.
  - inversion H; subst. simpl. rewrite (fold_add_shift t (c + 1)), (fold_add_shift t c). split; [lia|].
    intros Hf. inversion Hf; subst. constructor; auto. lia.
  - destruct (inc_nth t n) as [t'|] eqn:E; [|discriminate]. inversion H; subst. simpl.
    destruct (IH _ _ E) as [A B]. rewrite (fold_add_shift t' c), (fold_add_shift t c). split; [lia|].
    intros Hf. inversion Hf; subst. constructor; auto.
Qed.

Lemma votes_of_sum : forall labels votes votes', votes_of votes labels = Some votes' ->
  length votes' = length votes /\
  fold_left Z.add votes' 0 = fold_left Z.add votes 0 + Z.of_nat (length labels) /\
  (Forall (fun c => 0 <= c) votes -> Forall (fun c => 0 <= c) votes').
Proof.
  induction labels as [|l r IH]; intros votes votes' H; simpl in H.
  - inversion H; subst. simpl. repeat split; auto; lia.
  - destruct (inc_nth votes l) as [v|] eqn:E; [|discriminate].
    destruct (IH _ _ H) as (A & B & C). destruct (inc_nth_sum _ _ _ E) as [D F].
    rewrite (inc_nth_length _ _ _ E) in A. repeat split; auto.
    rewrite B, D. simpl length. lia.
Qed.

Lemma argmax_from_lt : forall votes todo mx i, (mx < i)%nat -> (argmax_from votes mx i todo < i + length todo)%nat.
Proof.
  induction todo as [|c t IH]; intros mx i H; simpl; [lia|].
  specialize (IH (if nth mx votes 0 <? c then i else mx) (S i)).
  destruct (nth mx votes 0 <? c); lia.
Qed.

Lemma repeat0_sum : forall n, fold_left Z.add (repeat 0 n) 0 = 0.
Proof. induction n; simpl; auto. Qed.

Lemma mv_shape : forall classes tags lab c, (0 < classes)%nat ->
  mv classes tags = Some (lab, c) ->
  (lab < classes)%nat /\
  exists v, 0 <= v <= Z.of_nat (length tags) /\ c = F64.div (F64.of_Z v) (F64.of_Z (Z.of_nat (length tags))).
Proof.
  intros classes tags lab c Hc H. unfold mv in H.
  destruct (votes_of (repeat 0 classes) (map fst tags)) as [votes|] eqn:E; [|discriminate].
  inversion H; subst; clear H.
  destruct (votes_of_sum _ _ _ E) as (A & B & C).
  rewrite repeat_length in A. rewrite repeat0_sum, map_length in B.
  assert (Hnn : Forall (fun c => 0 <= c) votes).
  { apply C. apply Forall_forall. intros x Hx. apply repeat_spec in Hx. lia. }
  split.
  - destruct votes as [|a t]; simpl in *; [lia|].
    pose proof (argmax_from_lt (a :: t) t 0 1)%nat. lia.
  - eexists. split; [|reflexivity].
    pose proof (row_total_bounds votes Hnn (argmax_from votes 0 1 (tl votes))) as Hb.
    unfold row_total in Hb. lia.
Qed.

(* wta returns one of the members' answers, and no member is strictly surer *)
Lemma wta_fold_in : forall r t0,
  In (fold_left (fun best res : nat * f64 => if F64.gtb (snd res) (snd best) then res else best) r t0) (t0 :: r).
Proof.
  induction r as [|a r IH]; intros t0; simpl; [auto|].
  destruct (F64.gtb (snd a) (snd t0)).
  - specialize (IH a). simpl in IH. tauto.
  - specialize (IH t0). simpl in IH. tauto.
Qed.

Lemma wta_in : forall tags t, wta tags = Some t -> In t tags.
Proof.
  intros [|t0 r] t H; simpl in H; [discriminate|]. inversion H; subst. apply wta_fold_in.
Qed.

(* counting *)
Lemma n_ok_bad : forall pl, (n_ok pl + n_bad pl = length pl)%nat.
Proof.
  unfold n_ok, n_bad. induction pl as [|p t IH]; simpl; [reflexivity|].
  destruct (Nat.eqb (fst p) (snd p)); simpl; lia.
Qed.

Lemma count_eval_is_count_up : forall pl,
  count_eval pl = F64.neg (L.count_up F64.zero (n_bad pl)).
Proof.
  intros pl. unfold count_eval, n_bad. f_equal. generalize F64.zero.
  induction pl as [|p t IH]; intros z; simpl; [reflexivity|].
  destruct (Nat.eqb (fst p) (snd p)); simpl; apply IH.
Qed.

(* team mean: the fold is the running mean over the defined outputs *)
Lemma team_fold_defined : forall outs avg count,
  fold_left mean_step outs (avg, count) =
  fold_left mean_step (map Some (defined outs)) (avg, count).
Proof.
  induction outs as [|o t IH]; intros avg count; simpl; [reflexivity|].
  destruct o as [x|]; simpl; apply IH.
Qed.

Lemma team_fold_running : forall xs avg count,
  fst (fold_left mean_step (map Some xs) (avg, count)) = running_mean_from avg count xs.
Proof. induction xs as [|x t IH]; intros avg count; simpl; [reflexivity|]. apply IH. Qed.

Lemma team_all_undefined : forall outs, defined outs = [] -> team_eval outs = None.
Proof.
  intros outs H. unfold team_eval. rewrite team_fold_defined, H. reflexivity.
Qed.

Lemma team_eval_value : forall outs avg, team_eval outs = Some avg -> avg = running_mean (defined outs).
Proof.
  intros outs avg H. unfold team_eval in H. rewrite team_fold_defined in H.
  pose proof (team_fold_running (defined outs) F64.zero F64.zero) as R.
  destruct (fold_left mean_step (map Some (defined outs)) (F64.zero, F64.zero)) as [a c].
  simpl in R. destruct (F64.gtb c F64.zero); inversion H; subst. reflexivity.
Qed.

(* ------------------------------------------------------------------ *)
(** * the matrix holds one count per training example                  *)
(* ------------------------------------------------------------------ *)
Definition mtotal (m : matrix) : Z := fold_right (fun r acc => row_total r + acc) 0 m.

Lemma row_total_cons : forall a r, row_total (a :: r) = a + row_total r.
Proof. intros. unfold row_total. simpl. rewrite fold_add_shift. lia. Qed.

Lemma row_total_inc : forall r j c, nth_error r j = Some c -> row_total (set_nth r j (c + 1)) = row_total r + 1.
Proof.
  induction r as [|a r IH]; intros [|j] c H; simpl in H; try discriminate.
  - inversion H; subst. simpl set_nth. rewrite !row_total_cons. lia.
  - simpl set_nth. rewrite !row_total_cons. rewrite (IH _ _ H). lia.
Qed.

Lemma inc_cell_mtotal : forall m i j m', inc_cell m i j = Some m' -> mtotal m' = mtotal m + 1.
Proof.
  intros m i j m' H. unfold inc_cell in H.
  destruct (nth_error m i) as [r|] eqn:E; [|discriminate].
  destruct (nth_error r j) as [c|] eqn:E2; [|discriminate]. inversion H; subst; clear H.
  revert i E. induction m as [|a m IH]; intros [|i] E; simpl in E; try discriminate.
  - inversion E; subst. simpl. rewrite (row_total_inc _ _ _ E2). lia.
  - simpl. rewrite (IH _ E). lia.
Qed.

Lemma fill_counts_mtotal : forall at_ ns train m m',
  fill_counts at_ ns m train = Some m' -> mtotal m' = mtotal m + Z.of_nat (length train).
Proof.
  induction train as [|[o lab] t IH]; intros m m' H; simpl in H.
  - inversion H; subst. simpl. lia.
  - destruct (slot at_ ns o) as [s|]; [|discriminate].
    destruct (inc_cell m s lab) as [m1|] eqn:E; [|discriminate].
    rewrite (IH _ _ H), (inc_cell_mtotal _ _ _ _ E). simpl length. lia.
Qed.

Lemma zero_matrix_mtotal : forall ns classes, mtotal (zero_matrix ns classes) = 0.
Proof.
  intros. unfold zero_matrix. induction ns; simpl; auto. rewrite IHns.
  unfold row_total. rewrite repeat0_sum. reflexivity.
Qed.

Lemma row_total_nonneg : forall r, Forall (fun c => 0 <= c) r -> 0 <= row_total r.
Proof. induction r as [|a r IH]; intros H; [unfold row_total; simpl; lia|]. inversion H; subst. rewrite row_total_cons. specialize (IH H3). lia. Qed.

Lemma mtotal_nonneg : forall m, nonneg_matrix m -> 0 <= mtotal m.
Proof.
  induction m as [|a m IH]; intros H; simpl; [lia|]. inversion H; subst.
  pose proof (row_total_nonneg a H2). specialize (IH H3). lia.
Qed.

Lemma row_le_mtotal : forall m s, nonneg_matrix m -> row_total (nth s m []) <= mtotal m.
Proof.
  induction m as [|a m IH]; intros s H.
  - destruct s; simpl; unfold row_total; simpl; lia.
  - inversion H; subst. pose proof (row_total_nonneg a H2). pose proof (mtotal_nonneg m H3).
    destruct s; simpl; [lia|]. specialize (IH s H3). lia.
Qed.

Lemma dyn_tag_shape_bounded : forall at_ classes x_slot train d o lab c,
  dyn_build at_ classes x_slot train = Some d ->
  dyn_tag at_ d o = Some (lab, c) ->
  c = L.half \/ exists ok total, 0 <= ok <= total /\ 0 < total /\ total <= Z.of_nat (length train) /\
                                 c = F64.div (F64.of_Z ok) (F64.of_Z total).
Proof.
  intros at_ classes x_slot train d o lab c Hb Ht.
  pose proof (dyn_build_nonneg _ _ _ _ _ Hb) as Hn.
  assert (Hm : mtotal (dm_matrix d) = Z.of_nat (length train)).
  { unfold dyn_build in Hb. destruct (fill_counts _ _ _ _) as [m|] eqn:E; [|discriminate].
    inversion Hb; subst; simpl. rewrite (fill_counts_mtotal _ _ _ _ _ E), zero_matrix_mtotal. lia. }
  unfold dyn_tag in Ht. destruct (slot at_ (dm_ns d) o) as [s|]; [|discriminate].
  inversion Ht; subst; clear Ht.
  set (r := nth s (dm_matrix d) []).
  assert (Hr : Forall (fun c => 0 <= c) r).
  { subst r. apply Forall_nth_default; auto. }
  destruct (row_total r =? 0) eqn:E; [left; reflexivity|right].
  pose proof (row_total_bounds r Hr (nth s (dm_slot_class d) 0%nat)).
  pose proof (row_le_mtotal (dm_matrix d) s Hn). fold r in H0.
  eexists _, _. split; [|split; [|split; [|reflexivity]]]; lia.
Qed.
