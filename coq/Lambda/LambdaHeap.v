(* C08 -- object identities: the pointer model of detail/lambda_f.h refines the
   value semantics for every history (forward simulation), hence no
   prediction ever goes through a dead object (target_is_self). *)
From Coq Require Import List Bool Lia Arith.
From VV Require Import Lambda.LambdaDefs Lambda.LambdaProofs.
Import ListNotations.

Arguments lookup {ind}. Arguments h_new {ind}. Arguments h_copy {ind}. Arguments h_assign {ind}.
Arguments h_destroy {ind}. Arguments h_target {ind}. Arguments o_ind {ind}. Arguments o_tgt {ind}.
Arguments Build_obj {ind}. Arguments st_heap {ind}. Arguments st_models {ind}. Arguments st_vec {ind}.
Arguments Build_state {ind}. Arguments model_core {ind}. Arguments add_model {ind}. Arguments in_vec {ind}.
Arguments m_copy {ind}. Arguments m_assign {ind}. Arguments m_destroy {ind}. Arguments m_relocate {ind}.
Arguments m_relocate_all {ind}. Arguments m_shift {ind}. Arguments step {ind}. Arguments run_ops {ind}.
Arguments model_program {ind}. Arguments v_models {ind}. Arguments v_vec {ind}. Arguments Build_vstate {ind}.
Arguments v_get {ind}. Arguments v_assign {ind}. Arguments v_destroy {ind}. Arguments v_copy {ind}.
Arguments v_shift {ind}. Arguments vstep {ind}. Arguments vrun {ind}. Arguments all_live {ind}.

Section HeapProofs.
Variable ind : Type.
Notation heapT := (heap ind).
Notation stateT := (state ind).
Notation vstateT := (vstate ind).

(* ---------------------------------------------------------------- lookup *)
Lemma lookup_lt : forall (h : heapT) a o, lookup h a = Some o -> a < length h.
Proof.
  unfold lookup. intros h a o H. destruct (nth_error h a) eqn:E; [|discriminate].
  apply nth_error_Some. congruence.
Qed.

Lemma lookup_app_l : forall (h l : heapT) a, a < length h -> lookup (h ++ l) a = lookup h a.
Proof. unfold lookup. intros. rewrite nth_error_app1; auto. Qed.

Lemma lookup_app_new : forall (h : heapT) o, lookup (h ++ [Some o]) (length h) = Some o.
Proof. unfold lookup. intros. rewrite nth_error_app2, Nat.sub_diag; auto. Qed.

Lemma lookup_app_inv : forall (h : heapT) x a o, lookup (h ++ [Some x]) a = Some o ->
  (a < length h /\ lookup h a = Some o) \/ (a = length h /\ o = x).
Proof.
  intros h x a o H. pose proof (lookup_lt _ _ _ H) as L. rewrite app_length in L. simpl in L.
  destruct (Nat.eq_dec a (length h)) as [->|N].
  - right. rewrite lookup_app_new in H. split; congruence.
  - left. assert (a < length h) by lia. rewrite lookup_app_l in H; auto.
Qed.

Lemma lookup_set_eq : forall (h : heapT) a x, a < length h ->
  lookup (set_nth h a x) a = x.
Proof.
  unfold lookup. intros. rewrite nth_error_set_nth_eq; auto. destruct x; auto.
Qed.

Lemma lookup_set_neq : forall (h : heapT) a b x, a <> b -> lookup (set_nth h a x) b = lookup h b.
Proof. unfold lookup. intros. rewrite nth_error_set_nth_neq; auto. Qed.

(* ------------------------------------------------------------- invariant *)
Definition self_tgt (h : heapT) : Prop := forall a o, lookup h a = Some o -> o_tgt o = a.

Record InvCore (st : stateT) (vs : vstateT) : Prop := {
  I_self : self_tgt (st_heap st);
  I_vec : st_vec st = v_vec vs;
  I_len : length (st_models st) = length (v_models vs);
  I_rel : forall m,
      match nth_error (st_models st) m with
      | Some (Some c) => exists o, lookup (st_heap st) c = Some o /\
                                   nth_error (v_models vs) m = Some (Some (o_ind o))
      | Some None => nth_error (v_models vs) m = Some None
      | None => True
      end;
  I_inj : forall m1 m2 c, nth_error (st_models st) m1 = Some (Some c) ->
                          nth_error (st_models st) m2 = Some (Some c) -> m1 = m2 }.

Lemma rel_live : forall st vs m i, InvCore st vs -> v_get vs m = Some i ->
  exists c o, nth_error (st_models st) m = Some (Some c) /\ lookup (st_heap st) c = Some o /\ o_ind o = i.
Proof.
  intros st vs m i I H. unfold v_get in H.
  destruct (nth_error (v_models vs) m) as [[x|]|] eqn:E; try discriminate. inversion H; subst.
  assert (L : m < length (st_models st)).
  { rewrite (I_len _ _ I). apply nth_error_Some. congruence. }
  pose proof (I_rel _ _ I m) as R.
  destruct (nth_error (st_models st) m) as [[c|]|] eqn:E2.
  - destruct R as [o [A B]]. exists c, o. repeat split; auto. congruence.
  - congruence.
  - apply nth_error_None in E2. lia.
Qed.

Lemma model_core_eq : forall (st : stateT) m c, nth_error (st_models st) m = Some (Some c) -> model_core st m = Some c.
Proof. unfold model_core. intros st m c H. rewrite H. reflexivity. Qed.

(* --------------------------------------------------------------- copying *)
Lemma sim_new : forall st vs i, InvCore st vs ->
  InvCore (add_model st (st_heap st ++ [Some (Build_obj i (length (st_heap st)))]) (length (st_heap st)))
          (Build_vstate (v_models vs ++ [Some i]) (v_vec vs)).
Proof.
  intros st vs i I. destruct I as [Hs Hv Hl Hr Hi]. constructor; simpl.
  - intros a o H. apply lookup_app_inv in H. destruct H as [[_ H]|[-> ->]]; auto.
  - auto.
  - rewrite !app_length. simpl. lia.
  - intros m. destruct (lt_dec m (length (st_models st))) as [L|L].
    + rewrite nth_error_app1 by auto. specialize (Hr m).
      destruct (nth_error (st_models st) m) as [[c|]|] eqn:E; auto.
      * destruct Hr as [o [A B]]. exists o. split.
        -- rewrite lookup_app_l; auto. eapply lookup_lt; eauto.
        -- rewrite nth_error_app1; auto. rewrite <- Hl. auto.
      * rewrite nth_error_app1; auto. rewrite <- Hl. auto.
    + destruct (Nat.eq_dec m (length (st_models st))) as [->|N].
      * rewrite nth_error_app2, Nat.sub_diag by lia. simpl.
        eexists. split; [apply lookup_app_new|]. simpl. rewrite Hl, nth_error_app2, Nat.sub_diag by lia. reflexivity.
      * assert (E : nth_error (st_models st ++ [Some (length (st_heap st))]) m = None).
        { apply nth_error_None. rewrite app_length. simpl. lia. }
        rewrite E. auto.
  - intros m1 m2 c H1 H2.
    assert (K : forall m, nth_error (st_models st ++ [Some (length (st_heap st))]) m = Some (Some c) ->
                (m < length (st_models st) /\ nth_error (st_models st) m = Some (Some c) /\ c < length (st_heap st))
                \/ (m = length (st_models st) /\ c = length (st_heap st))).
    { intros m H. destruct (lt_dec m (length (st_models st))) as [L|L].
      - left. rewrite nth_error_app1 in H by auto. repeat split; auto.
        specialize (Hr m). rewrite H in Hr. destruct Hr as [o [A _]]. eapply lookup_lt; eauto.
      - right. assert (m = length (st_models st)).
        { assert (m < length (st_models st ++ [Some (length (st_heap st))])) by (apply nth_error_Some; congruence).
          rewrite app_length in *. simpl in *. lia. }
        subst. rewrite nth_error_app2, Nat.sub_diag in H by lia. simpl in H. split; congruence. }
    destruct (K _ H1) as [[A [B C]]|[A B]], (K _ H2) as [[A' [B' C']]|[A' B']]; subst; try lia.
    eapply Hi; eauto.
Qed.

Lemma sim_copy : forall st vs src vs', InvCore st vs -> v_copy vs src = Some vs' ->
  exists st', m_copy Reseat st src = Some st' /\ InvCore st' vs'.
Proof.
  intros st vs src vs' I H. unfold v_copy in H.
  destruct (v_get vs src) as [i|] eqn:G; [|discriminate]. inversion H; subst.
  destruct (rel_live _ _ _ _ I G) as (c & o & A & B & C).
  unfold m_copy, h_copy. rewrite (model_core_eq _ _ _ A), B. eexists. split; [reflexivity|].
  subst i. apply sim_new. auto.
Qed.

(* ------------------------------------------------------------ assignment *)
Lemma sim_assign : forall st vs d s vs', InvCore st vs -> v_assign vs d s = Some vs' ->
  exists st', m_assign Reseat st d s = Some st' /\ InvCore st' vs'.
Proof.
  intros st vs d s vs' I H. unfold v_assign in H.
  destruct (v_get vs d) as [id|] eqn:Gd; [|discriminate].
  destruct (v_get vs s) as [is_|] eqn:Gs; [|discriminate]. inversion H; subst; clear H.
  destruct (rel_live _ _ _ _ I Gd) as (cd & od & Ad & Bd & Cd).
  destruct (rel_live _ _ _ _ I Gs) as (cs & os & As & Bs & Cs).
  unfold m_assign, h_assign. rewrite (model_core_eq _ _ _ Ad), (model_core_eq _ _ _ As), Bd, Bs.
  pose proof I as [Hs Hv Hl Hr Hi].
  assert (Ld : d < length (v_models vs)).
  { rewrite <- Hl. apply nth_error_Some. congruence. }
  destruct (Nat.eqb cd cs) eqn:E.
  - apply Nat.eqb_eq in E. subst cs. assert (d = s) by (eapply Hi; eauto). subst s.
    eexists. split; [reflexivity|]. constructor; simpl; auto.
    + rewrite set_nth_length. auto.
    + intros m. specialize (Hr m). destruct (Nat.eq_dec m d) as [->|N].
      * rewrite Ad in *. destruct Hr as [o [A B]]. exists o. split; auto.
        rewrite nth_error_set_nth_eq; auto. congruence.
      * rewrite nth_error_set_nth_neq; auto.
  - apply Nat.eqb_neq in E. eexists. split; [reflexivity|].
    pose proof (lookup_lt _ _ _ Bd) as Lcd.
    constructor; simpl; auto.
    + intros a o H. destruct (Nat.eq_dec a cd) as [->|N].
      * rewrite lookup_set_eq in H; auto. inversion H; subst. reflexivity.
      * rewrite lookup_set_neq in H; auto.
    + rewrite set_nth_length. auto.
    + intros m. specialize (Hr m). destruct (Nat.eq_dec m d) as [->|N].
      * rewrite Ad. eexists. split; [apply lookup_set_eq; auto|]. simpl.
        rewrite nth_error_set_nth_eq; auto. congruence.
      * rewrite nth_error_set_nth_neq; auto.
        destruct (nth_error (st_models st) m) as [[c|]|] eqn:E2; auto.
        destruct Hr as [o [A B]]. exists o. split; auto.
        rewrite lookup_set_neq; auto. intro; subst c. apply N. eapply Hi; eauto.
Qed.

(* ------------------------------------------------------------ destruction *)
Lemma sim_destroy : forall st vs m vs', InvCore st vs -> v_destroy vs m = Some vs' ->
  exists st', m_destroy st m = Some st' /\ InvCore st' vs'.
Proof.
  intros st vs m vs' I H. unfold v_destroy in H.
  destruct (v_get vs m) as [i|] eqn:G; [|discriminate]. inversion H; subst; clear H.
  destruct (rel_live _ _ _ _ I G) as (c & o & A & B & C).
  unfold m_destroy, h_destroy. rewrite (model_core_eq _ _ _ A), B.
  eexists. split; [reflexivity|].
  pose proof I as [Hs Hv Hl Hr Hi].
  pose proof (lookup_lt _ _ _ B) as Lc.
  assert (Lm : m < length (st_models st)) by (apply nth_error_Some; congruence).
  constructor; simpl; auto.
  - intros a o' H. destruct (Nat.eq_dec a c) as [->|N].
    + rewrite lookup_set_eq in H; auto. discriminate.
    + rewrite lookup_set_neq in H; auto.
  - rewrite !set_nth_length. auto.
  - intros m'. destruct (Nat.eq_dec m' m) as [->|N].
    + rewrite nth_error_set_nth_eq; auto. rewrite nth_error_set_nth_eq; auto. lia.
    + rewrite !nth_error_set_nth_neq; auto. specialize (Hr m').
      destruct (nth_error (st_models st) m') as [[c'|]|] eqn:E2; auto.
      destruct Hr as [o' [A' B']]. exists o'. split; auto.
      rewrite lookup_set_neq; auto. intro; subst c'. apply N. eapply Hi; eauto.
  - intros m1 m2 c' H1 H2.
    destruct (Nat.eq_dec m1 m) as [->|N1]; [rewrite nth_error_set_nth_eq in H1; auto; discriminate|].
    destruct (Nat.eq_dec m2 m) as [->|N2]; [rewrite nth_error_set_nth_eq in H2; auto; discriminate|].
    rewrite nth_error_set_nth_neq in H1, H2; auto. eapply Hi; eauto.
Qed.

(* ------------------------------------------------------------- relocation *)
Lemma sim_relocate : forall st vs m i, InvCore st vs -> v_get vs m = Some i ->
  exists st', m_relocate Reseat st m = Some st' /\ InvCore st' vs.
Proof.
  intros st vs m i I G.
  destruct (rel_live _ _ _ _ I G) as (c & o & A & B & C).
  pose proof I as [Hs Hv Hl Hr Hi].
  pose proof (lookup_lt _ _ _ B) as Lc.
  assert (Lm : m < length (st_models st)) by (apply nth_error_Some; congruence).
  unfold m_relocate, h_copy, h_destroy. rewrite (model_core_eq _ _ _ A), B.
  rewrite lookup_app_l, B by auto.
  eexists. split; [reflexivity|].
  set (h1 := st_heap st ++ [Some (Build_obj (o_ind o) (length (st_heap st)))]).
  assert (Lc1 : c < length h1) by (subst h1; rewrite app_length; simpl; lia).
  constructor; simpl; auto.
  - intros a o' H. destruct (Nat.eq_dec a c) as [->|N].
    + rewrite lookup_set_eq in H; auto. discriminate.
    + rewrite lookup_set_neq in H; auto. subst h1. apply lookup_app_inv in H.
      destruct H as [[_ H]|[-> ->]]; auto.
  - rewrite set_nth_length. auto.
  - intros m'. destruct (Nat.eq_dec m' m) as [->|N].
    + rewrite nth_error_set_nth_eq; auto. eexists. split.
      * rewrite lookup_set_neq by lia. subst h1. apply lookup_app_new.
      * simpl. unfold v_get in G. destruct (nth_error (v_models vs) m) as [[x|]|]; try discriminate. congruence.
    + rewrite nth_error_set_nth_neq; auto. specialize (Hr m').
      destruct (nth_error (st_models st) m') as [[c'|]|] eqn:E2; auto.
      destruct Hr as [o' [A' B']]. exists o'. split; auto.
      rewrite lookup_set_neq.
      * subst h1. rewrite lookup_app_l; auto. eapply lookup_lt; eauto.
      * intro; subst c'. apply N. eapply Hi; eauto.
  - intros m1 m2 c' H1 H2.
    assert (K : forall m', nth_error (set_nth (st_models st) m (Some (length (st_heap st)))) m' = Some (Some c') ->
                (m' = m /\ c' = length (st_heap st)) \/
                (m' <> m /\ nth_error (st_models st) m' = Some (Some c') /\ c' < length (st_heap st))).
    { intros m' H. destruct (Nat.eq_dec m' m) as [->|N].
      - left. rewrite nth_error_set_nth_eq in H; auto. split; congruence.
      - right. rewrite nth_error_set_nth_neq in H; auto. repeat split; auto.
        specialize (Hr m'). rewrite H in Hr. destruct Hr as [o' [A' _]]. eapply lookup_lt; eauto. }
    destruct (K _ H1) as [[X Y]|[X [Y Z]]], (K _ H2) as [[X' Y']|[X' [Y' Z']]]; subst; try lia.
    eapply Hi; eauto.
Qed.

Lemma sim_relocate_all : forall ms st vs, InvCore st vs ->
  (forall m, In m ms -> exists i, v_get vs m = Some i) ->
  exists st', m_relocate_all Reseat st ms = Some st' /\ InvCore st' vs /\ st_vec st' = st_vec st /\
              length (st_models st') = length (st_models st).
Proof.
  induction ms as [|m r IH]; intros st vs I L; simpl.
  - exists st. auto.
  - destruct (L m (or_introl eq_refl)) as [i G].
    destruct (sim_relocate _ _ _ _ I G) as (st1 & E1 & I1). rewrite E1.
    destruct (IH st1 vs I1) as (st2 & E2 & I2 & V2 & N2); [intros; apply L; right; auto|].
    assert (K : st_vec st1 = st_vec st /\ length (st_models st1) = length (st_models st)).
    { unfold m_relocate in E1.
      destruct (model_core st m); [|discriminate]. destruct (h_copy _ _ _) as [[? ?]|]; [|discriminate].
      destruct (h_destroy _ _); [|discriminate]. inversion E1; simpl. split; [reflexivity|apply set_nth_length]. }
    destruct K as [K1 K2].
    exists st2. split; [exact E2|]. split; [exact I2|]. split; congruence.
Qed.

Lemma sim_shift : forall tail st vs vs', InvCore st vs -> v_shift vs tail = Some vs' ->
  exists st', m_shift Reseat st tail = Some st' /\ InvCore st' vs'.
Proof.
  induction tail as [|a r IH]; intros st vs vs' I H; simpl in *.
  - inversion H; subst. eauto.
  - destruct r as [|b r'].
    + inversion H; subst. eauto.
    + destruct (v_assign vs a b) as [vs1|] eqn:E; [|discriminate].
      destruct (sim_assign _ _ _ _ _ I E) as (st1 & E1 & I1). rewrite E1.
      eapply IH; eauto.
Qed.

(* -------------------------------------------------------------- one step *)
Definition VecOk (vs : vstateT) : Prop :=
  (forall m, In m (v_vec vs) -> exists i, v_get vs m = Some i) /\ NoDup (v_vec vs).

Lemma in_vec_eq : forall st vs m, InvCore st vs -> in_vec st m = existsb (Nat.eqb m) (v_vec vs).
Proof. intros st vs m I. unfold in_vec. rewrite (I_vec _ _ I). reflexivity. Qed.

Lemma m_copy_vec : forall (st : stateT) src st', m_copy Reseat st src = Some st' ->
  st_vec st' = st_vec st /\ st_models st' = st_models st ++ [Some (length (st_heap st))].
Proof.
  intros st src st' H. unfold m_copy, h_copy in H. destruct (model_core st src); [|discriminate].
  destruct (lookup _ _); [|discriminate]. inversion H; subst. simpl. auto.
Qed.

Lemma step_sim : forall st vs o vs', InvCore st vs -> VecOk vs -> vstep vs o = Some vs' ->
  exists st', step Reseat st o = Some st' /\ InvCore st' vs'.
Proof.
  intros st vs o vs' I V H. destruct o as [i|src|src|d s|m|src|k]; cbn [vstep] in H; cbn [step].
  - inversion H; subst. unfold h_new. eexists. split; [reflexivity|]. apply sim_new; auto.
  - eapply sim_copy; eauto.
  - rewrite (in_vec_eq _ _ _ I). destruct (existsb _ _); [discriminate|].
    destruct (v_copy vs src) as [vs1|] eqn:E; [|discriminate].
    destruct (sim_copy _ _ _ _ I E) as (st1 & E1 & I1). rewrite E1.
    eapply sim_destroy; eauto.
  - eapply sim_assign; eauto.
  - rewrite (in_vec_eq _ _ _ I). destruct (existsb _ _); [discriminate|]. eapply sim_destroy; eauto.
  - destruct (v_copy vs src) as [vs1|] eqn:E; [|discriminate]. inversion H; subst; clear H.
    destruct V as [VL _].
    destruct (sim_relocate_all (st_vec st) st vs I) as (st1 & E1 & I1 & V1 & N1).
    { rewrite (I_vec _ _ I). auto. }
    rewrite E1.
    destruct (sim_copy _ _ _ _ I1 E) as (st2 & E2 & I2). rewrite E2.
    eexists. split; [reflexivity|].
    destruct I2 as [Hs Hv Hl Hr Hi]. constructor; simpl; auto.
    rewrite Hv. f_equal. f_equal. rewrite N1. apply (I_len _ _ I).
  - rewrite (I_vec _ _ I). destruct (skipn k (v_vec vs)) as [|t0 tl] eqn:S; [discriminate H|].
    destruct (v_shift vs (t0 :: tl)) as [vs1|] eqn:E; [|discriminate].
    destruct (sim_shift _ _ _ _ I E) as (st1 & E1 & I1). rewrite E1.
    destruct (v_destroy vs1 (last (t0 :: tl) 0)) as [vs2|] eqn:E2; [|discriminate].
    destruct (sim_destroy _ _ _ _ I1 E2) as (st2 & E3 & I2). rewrite E3.
    inversion H; subst; clear H. eexists. split; [reflexivity|].
    destruct I2 as [Hs Hv Hl Hr Hi]. constructor; simpl; auto. rewrite Hv. reflexivity.
Qed.

(* ------------------------------------------------ the vector bookkeeping *)
Lemma v_get_app : forall (vs : vstateT) x m i, v_get vs m = Some i ->
  v_get (Build_vstate (v_models vs ++ [x]) (v_vec vs)) m = Some i.
Proof.
  unfold v_get. simpl. intros vs x m i H.
  destruct (nth_error (v_models vs) m) as [[y|]|] eqn:E; try discriminate.
  rewrite nth_error_app1; [rewrite E; auto|]. apply nth_error_Some. congruence.
Qed.

Lemma v_get_lt : forall (vs : vstateT) m i, v_get vs m = Some i -> m < length (v_models vs).
Proof.
  unfold v_get. intros vs m i H. destruct (nth_error (v_models vs) m) eqn:E; [|discriminate].
  apply nth_error_Some. congruence.
Qed.

Lemma v_assign_live : forall (vs : vstateT) d s vs' m, v_assign vs d s = Some vs' ->
  ((exists i, v_get vs m = Some i) <-> (exists i, v_get vs' m = Some i)) /\ v_vec vs' = v_vec vs.
Proof.
  intros vs d s vs' m H. unfold v_assign in H.
  destruct (v_get vs d) as [id|] eqn:Gd; [|discriminate].
  destruct (v_get vs s) as [is_|] eqn:Gs; [|discriminate]. inversion H; subst; clear H. simpl. split; auto.
  unfold v_get at 2. simpl. destruct (Nat.eq_dec m d) as [->|N].
  - rewrite nth_error_set_nth_eq by (eapply v_get_lt; eauto). split; eauto.
  - rewrite nth_error_set_nth_neq by auto. reflexivity.
Qed.

Lemma v_shift_live : forall tail (vs vs' : vstateT) m, v_shift vs tail = Some vs' ->
  ((exists i, v_get vs m = Some i) <-> (exists i, v_get vs' m = Some i)) /\ v_vec vs' = v_vec vs.
Proof.
  induction tail as [|a r IH]; intros vs vs' m H; simpl in H.
  - inversion H; subst. tauto.
  - destruct r as [|b r'].
    + inversion H; subst. tauto.
    + destruct (v_assign vs a b) as [vs1|] eqn:E; [|discriminate].
      destruct (v_assign_live _ _ _ _ m E) as [A B]. destruct (IH _ _ m H) as [C D].
      split; [tauto|congruence].
Qed.

Lemma v_destroy_live : forall (vs : vstateT) x vs' m, v_destroy vs x = Some vs' -> m <> x ->
  (exists i, v_get vs m = Some i) -> (exists i, v_get vs' m = Some i).
Proof.
  intros vs x vs' m H N L. unfold v_destroy in H. destruct (v_get vs x); [|discriminate].
  inversion H; subst. unfold v_get. simpl. rewrite nth_error_set_nth_neq by auto. exact L.
Qed.

Lemma v_destroy_vec : forall (vs : vstateT) x vs', v_destroy vs x = Some vs' -> v_vec vs' = v_vec vs.
Proof. intros vs x vs' H. unfold v_destroy in H. destruct (v_get vs x); [|discriminate]. inversion H; reflexivity. Qed.

Lemma existsb_false_notin : forall m l, existsb (Nat.eqb m) l = false -> ~ In m l.
Proof.
  intros m l H Hin. assert (existsb (Nat.eqb m) l = true); [|congruence].
  apply existsb_exists. exists m. split; auto. apply Nat.eqb_refl.
Qed.

Lemma last_skipn : forall (l : list nat) k d, skipn k l <> [] -> last (skipn k l) d = last l d.
Proof.
  induction l as [|a l IH]; intros k d H.
  - destruct k; simpl in H; congruence.
  - destruct k; simpl in *; auto. rewrite IH; auto. destruct l; [destruct k; simpl in H; congruence|reflexivity].
Qed.

Lemma nodup_removelast : forall (l : list nat), NoDup l -> NoDup (removelast l) /\ (l <> [] -> ~ In (last l 0) (removelast l)).
Proof.
  induction l as [|a l IH]; intros H; simpl.
  - split; [constructor|congruence].
  - inversion H; subst. destruct l as [|b l'].
    + split; [constructor|]. intros _ [].
    + destruct (IH H3) as [A B]. split.
      * constructor; auto. intro Hin. apply H2. clear - Hin.
        revert Hin. generalize (b :: l'). induction l as [|x l IH]; simpl; [tauto|].
        destruct l; [simpl; tauto|]. intros [->|Hin]; [left; auto|right; auto].
      * intros _ [Heq|Hin].
        -- apply H2. rewrite Heq. clear. generalize b. induction l' as [|x l IH]; intros b0; simpl; [auto|].
           right. apply IH.
        -- apply B; [congruence|auto].
Qed.

Lemma in_removelast : forall (l : list nat) x, In x (removelast l) -> In x l.
Proof.
  induction l as [|a l IH]; intros x H; simpl in *; [tauto|].
  destruct l; [simpl in H; tauto|]. destruct H as [->|H]; [left; auto|right; apply IH; auto].
Qed.

Lemma nodup_snoc : forall (l : list nat) x, NoDup l -> ~ In x l -> NoDup (l ++ [x]).
Proof.
  induction l as [|a l IH]; intros x N H; simpl.
  - constructor; [tauto|constructor].
  - inversion N; subst. constructor.
    + intro Hin. apply in_app_or in Hin. destruct Hin as [Hin|[Heq|[]]]; [tauto|]. apply H. left. auto.
    + apply IH; auto. intro; apply H; right; auto.
Qed.

Lemma vstep_vecok : forall (vs : vstateT) o vs', VecOk vs -> vstep vs o = Some vs' -> VecOk vs'.
Proof.
  intros vs o vs' [VL VN] H. unfold VecOk. destruct o as [i|src|src|d s|m|src|k]; cbn [vstep] in H.
  - inversion H; subst. split; simpl; auto. intros m Hm. destruct (VL m Hm) as [j G]. exists j. apply v_get_app; auto.
  - unfold v_copy in H. destruct (v_get vs src) eqn:G; [|discriminate]. inversion H; subst.
    split; simpl; auto. intros m Hm. destruct (VL m Hm) as [j G']. exists j. apply v_get_app; auto.
  - destruct (existsb (Nat.eqb src) (v_vec vs)) eqn:X; [discriminate|].
    destruct (v_copy vs src) as [vs1|] eqn:E; [|discriminate].
    unfold v_copy in E. destruct (v_get vs src) eqn:G; [|discriminate]. inversion E; subst; clear E.
    rewrite (v_destroy_vec _ _ _ H). simpl. split; auto.
    intros m Hm. eapply v_destroy_live; eauto.
    + intro; subst. eapply existsb_false_notin; eauto.
    + destruct (VL m Hm) as [j G']. exists j. apply v_get_app; auto.
  - destruct (v_assign_live _ _ _ _ 0 H) as [_ Ev]. rewrite Ev. split; auto.
    intros m Hm. apply (v_assign_live _ _ _ _ m H). auto.
  - destruct (existsb (Nat.eqb m) (v_vec vs)) eqn:X; [discriminate|].
    rewrite (v_destroy_vec _ _ _ H). split; auto.
    intros m' Hm. eapply v_destroy_live; eauto. intro; subst. eapply existsb_false_notin; eauto.
  - unfold v_copy in H. destruct (v_get vs src) eqn:G; [|discriminate]. inversion H; subst; clear H. simpl. split.
    + intros m Hm. apply in_app_or in Hm. destruct Hm as [Hm|[<-|[]]].
      * destruct (VL m Hm) as [j G']. exists j. apply v_get_app; auto.
      * unfold v_get. simpl. rewrite nth_error_app2, Nat.sub_diag by lia. simpl. eauto.
    + apply nodup_snoc; auto.
      intro Hin. destruct (VL _ Hin) as [j G']. apply v_get_lt in G'. lia.
  - destruct (skipn k (v_vec vs)) as [|t0 tl] eqn:Sk; [discriminate H|].
    destruct (v_shift vs (t0 :: tl)) as [vs1|] eqn:E; [|discriminate].
    destruct (v_destroy vs1 (last (t0 :: tl) 0)) as [vs2|] eqn:E2; [|discriminate].
    inversion H; subst; clear H. simpl.
    destruct (v_shift_live _ _ _ 0 E) as [_ Ev1]. pose proof (v_destroy_vec _ _ _ E2) as Ev2.
    rewrite Ev2, Ev1.
    assert (Hl : last (t0 :: tl) 0 = last (v_vec vs) 0).
    { rewrite <- Sk. apply last_skipn. rewrite Sk. discriminate. }
    assert (Hne : v_vec vs <> []).
    { intro Z. rewrite Z in Sk. destruct k; simpl in Sk; discriminate. }
    destruct (nodup_removelast _ VN) as [A B]. split; auto.
    intros m Hm. change (exists i, v_get vs2 m = Some i). eapply v_destroy_live; [exact E2| |].
    + rewrite Hl. intro; subst. apply (B Hne); auto.
    + apply (v_shift_live _ _ _ m E). apply VL. apply in_removelast; auto.
Qed.

(* ------------------------------------------------------------ the theorem *)
Lemma run_sim : forall ops st vs vs', InvCore st vs -> VecOk vs -> vrun vs ops = Some vs' ->
  exists st', run_ops Reseat st ops = Some st' /\ InvCore st' vs'.
Proof.
  induction ops as [|o r IH]; intros st vs vs' I V H; simpl in *.
  - inversion H; subst. eauto.
  - destruct (vstep vs o) as [vs1|] eqn:E; [|discriminate].
    destruct (step_sim _ _ _ _ I V E) as (st1 & E1 & I1). rewrite E1.
    eapply IH; eauto. eapply vstep_vecok; eauto.
Qed.

Lemma init_inv : InvCore init vinit.
Proof.
  constructor; simpl; auto.
  - intros a o H. unfold lookup in H. destruct a; discriminate.
  - intros m. destruct m; simpl; auto.
  - intros m1 m2 c H. destruct m1; discriminate.
Qed.

Lemma init_vecok : VecOk vinit.
Proof. split; simpl; [tauto|constructor]. Qed.

Lemma inv_program : forall st vs m, InvCore st vs -> model_program st m = v_get vs m.
Proof.
  intros st vs m I. unfold model_program, model_core, v_get, h_target.
  pose proof (I_rel _ _ I m) as R.
  destruct (nth_error (st_models st) m) as [[c|]|] eqn:E.
  - destruct R as [o [A B]]. rewrite A. rewrite (I_self _ _ I _ _ A), A, B. reflexivity.
  - rewrite R. reflexivity.
  - apply nth_error_None in E. rewrite (I_len _ _ I) in E. apply nth_error_None in E. rewrite E. reflexivity.
Qed.

(* every history that is valid for VALUES (operations only name live models,
   erase is in range) runs in the object model without ever designating a dead
   object, and afterwards each model runs exactly the program(s) the value
   semantics says it stores; every live interpreter points at its own object *)
Theorem target_is_self : forall ops vs, vrun vinit ops = Some vs ->
  exists st : stateT, run_ops Reseat init ops = Some st /\
    (forall m, model_program st m = v_get vs m) /\
    (forall a o, lookup (st_heap st) a = Some o -> o_tgt o = a).
Proof.
  intros ops vs H. destruct (run_sim _ _ _ _ init_inv init_vecok H) as (st & E & I).
  exists st. split; auto. split; [intro m; apply inv_program; auto|apply (I_self _ _ I)].
Qed.

End HeapProofs.
