(* C08 -- round trip of the lambda (de)serialisation at token level:
   load (save m ++ rest) = (m, rest), hence predict (load (save m)) = predict m. *)
From Coq Require Import ZArith List Bool Lia.
From VV Require Import Base.F64 Lambda.LambdaDefs Lambda.LambdaSerialDefs.
Import ListNotations.
Local Open Scope Z_scope.

Section SerialProofs.
Variable ind : Type.
Notation tok := (tok ind).
Notation parser := (parser ind).

Lemma p_rep_flat : forall A (p : parser A) (sv : A -> list tok) (l : list A),
  (forall x r, In x l -> p (sv x ++ r) = Some (x, r)) ->
  forall r, p_rep ind p (length l) (flat_map sv l ++ r) = Some (l, r).
Proof.
  intros A p sv l. induction l as [|a l IH]; intros H r; simpl; [reflexivity|].
  rewrite <- app_assoc. rewrite H by (left; reflexivity).
  rewrite IH; [reflexivity|]. intros x r' Hx. apply H. right. exact Hx.
Qed.

Lemma flat_map_single : forall A B (f : A -> B) l, flat_map (fun x => [f x]) l = map f l.
Proof. induction l; simpl; congruence. Qed.

Lemma p_rep_Z : forall l r, p_rep ind (p_Z ind) (length l) (map (TN ind) l ++ r) = Some (l, r).
Proof. intros. rewrite <- flat_map_single. apply p_rep_flat. intros; reflexivity. Qed.
Lemma p_rep_S : forall l r, p_rep ind (p_S ind) (length l) (map (TS ind) l ++ r) = Some (l, r).
Proof. intros. rewrite <- flat_map_single. apply p_rep_flat. intros; reflexivity. Qed.
Lemma p_rep_I : forall l r, p_rep ind (p_I ind) (length l) (map (TI ind) l ++ r) = Some (l, r).
Proof. intros. rewrite <- flat_map_single. apply p_rep_flat. intros; reflexivity. Qed.

Lemma p_nat_of_nat : forall n r, p_nat ind (TN ind (Z.of_nat n) :: r) = Some (n, r).
Proof.
  intros. unfold p_nat. destruct (0 <=? Z.of_nat n) eqn:E; [rewrite Nat2Z.id; reflexivity|].
  apply Z.leb_gt in E. lia.
Qed.

Lemma dist_rt : forall d r, p_dist ind (save_dist ind d ++ r) = Some (d, r).
Proof.
  intros d r. unfold save_dist, p_dist. cbn [app p_Z p_F].
  rewrite p_nat_of_nat. rewrite p_rep_flat by (intros [k v] r0 _; reflexivity). destruct d; reflexivity.
Qed.

Definition wf_sdyn (d : sdyn) : Prop :=
  0 <= sy_cols d /\ 0 <= sy_rows d /\
  length (sy_data d) = (Z.to_nat (sy_cols d) * Z.to_nat (sy_rows d))%nat /\
  length (sy_cls d) = Z.to_nat (sy_rows d).

Lemma p_nat_Z : forall z r, 0 <= z -> p_nat ind (TN ind z :: r) = Some (Z.to_nat z, r).
Proof. intros. unfold p_nat. destruct (0 <=? z) eqn:E; [reflexivity|]. apply Z.leb_gt in E. lia. Qed.

Lemma dyn_rt : forall d r, wf_sdyn d -> p_dyn ind (save_dyn ind d ++ r) = Some (d, r).
Proof.
  intros [cs rs data cls ds] r (C & R & LD & LC). simpl in C, R, LD, LC.
  unfold save_dyn, p_dyn. cbn [app sy_cols sy_rows sy_data sy_cls sy_dsize].
  rewrite p_nat_Z by auto. rewrite p_nat_Z by auto.
  rewrite <- !app_assoc. rewrite <- LD. rewrite p_rep_Z. rewrite <- LC. rewrite p_rep_Z.
  cbn [app p_Z]. rewrite ?LC. rewrite !Z2Nat.id by auto. reflexivity.
Qed.

Lemma names_rt : forall ns r, ns <> [] -> p_names ind (save_names ind ns ++ r) = Some (ns, r).
Proof.
  intros ns r H. unfold save_names, p_names. cbn [app]. rewrite p_nat_of_nat.
  destruct ns as [|a t]; [congruence|]. cbn [length]. exact (p_rep_S (a :: t) r).
Qed.

Definition wf_core (c : core ind) : Prop :=
  match c with CDyn _ _ d => wf_sdyn d | _ => True end.

Lemma core_rt : forall c r, wf_core c -> p_core ind (kind_of ind c) (save_core ind c ++ r) = Some (c, r).
Proof.
  intros [i d|i g|i] r W; unfold p_core; cbn [save_core kind_of app p_I].
  - rewrite dyn_rt by exact W. reflexivity.
  - rewrite p_nat_of_nat. rewrite p_rep_flat by (intros; apply dist_rt). reflexivity.
  - reflexivity.
Qed.

Definition wf_model (m : smodel ind) : Prop :=
  match m with
  | MReg _ _ => True
  | MTeamReg _ l => l <> []
  | MCore _ c ns => wf_core c /\ ns <> []
  | MTeam _ k _ ms ns => Forall (fun c => kind_of ind c = k /\ wf_core c) ms /\ ns <> []
  end.

Theorem load_save : forall m rest, wf_model m ->
  load_model ind (save_model ind m ++ rest) = Some (m, rest).
Proof.
  intros [i|l|c ns|k cl ms ns] rest W; unfold load_model; cbn [save_model app p_S].
  - reflexivity.
  - change (ID_TEAM_REG =? ID_REG) with false. change (ID_TEAM_REG =? ID_TEAM_REG) with true. cbv iota.
    rewrite p_nat_of_nat. destruct l as [|a t]; [simpl in W; congruence|].
    pose proof (p_rep_I (a :: t) rest) as K. cbn [length] in *. rewrite K. reflexivity.
  - destruct W as [Wc Wn].
    assert (E : p_named_core ind (kind_of ind c) ((save_core ind c ++ save_names ind ns) ++ rest) = Some (MCore ind c ns, rest)).
    { unfold p_named_core. rewrite <- app_assoc, core_rt by auto. rewrite names_rt by auto. reflexivity. }
    destruct c; cbn [kind_of id_of_kind] in *; vm_compute (_ =? _); cbv iota; exact E.
  - destruct W as [Wm Wn].
    assert (E : p_team ind k (TN ind cl :: TN ind (Z.of_nat (length ms)) ::
                              (flat_map (save_core ind) ms ++ save_names ind ns) ++ rest)
                = Some (MTeam ind k cl ms ns, rest)).
    { unfold p_team. cbn [p_Z]. rewrite p_nat_of_nat. rewrite <- app_assoc.
      rewrite p_rep_flat.
      - rewrite names_rt by auto. reflexivity.
      - intros x r Hx. rewrite Forall_forall in Wm. destruct (Wm x Hx) as [K Wx]. rewrite <- K. apply core_rt; auto. }
    destruct k; cbn [team_id_of_kind]; vm_compute (_ =? _); cbv iota; exact E.
Qed.

(* the loaded model answers every query like the saved one *)
Corollary predict_load_save : forall at_ ex run m rest m' rest', wf_model m ->
  load_model ind (save_model ind m ++ rest) = Some (m', rest') ->
  rest' = rest /\ spredict ind at_ ex run m' = spredict ind at_ ex run m.
Proof.
  intros at_ ex run m rest m' rest' W H. rewrite load_save in H by auto. inversion H; subst. auto.
Qed.

End SerialProofs.

(* saving the tables of a freshly built dyn_slot model and reading them back
   gives the same tables *)
Lemma chunk_concat : forall (m : list (list Z)) n, Forall (fun r => length r = n) m ->
  chunk n (length m) (concat m) = m.
Proof.
  induction m as [|a m IH]; intros n H; simpl; [reflexivity|]. inversion H; subst.
  rewrite firstn_app, Nat.sub_diag, firstn_all. simpl. rewrite app_nil_r.
  rewrite skipn_app, Nat.sub_diag, skipn_all. simpl. rewrite IH; auto.
Qed.

Definition sdyn_of_dyn (d : dyn_model) (dsize : Z) : sdyn :=
  {| sy_cols := Z.of_nat (dm_classes d); sy_rows := Z.of_nat (dm_ns d); sy_data := concat (dm_matrix d);
     sy_cls := map Z.of_nat (dm_slot_class d); sy_dsize := dsize |}.

Lemma dyn_of_sdyn_of_dyn : forall d dsize,
  length (dm_matrix d) = dm_ns d -> Forall (fun r => length r = dm_classes d) (dm_matrix d) ->
  dyn_of_sdyn (sdyn_of_dyn d dsize) = d.
Proof.
  intros [ns cl m sc] ds H1 H2. unfold dyn_of_sdyn, sdyn_of_dyn. simpl in *. rewrite !Nat2Z.id.
  subst ns. rewrite chunk_concat by auto. f_equal.
  rewrite map_map. rewrite <- (map_id sc) at 2. apply map_ext. intros. apply Nat2Z.id.
Qed.
