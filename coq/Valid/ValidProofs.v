(* C16 -- lemmas about the model of ValidDefs.v *)
From Coq Require Import ZArith List Bool Lia Permutation ZifyBool.
From VV Require Import Valid.ValidDefs.
Import ListNotations.
Local Open Scope Z_scope.

(* ------------------------------------------------------------------ lists *)
Section ListLemmas.
Variable A : Type.
Implicit Types l : list A.

Lemma set_nth_app : forall n (x a : A) l1 l2, length l1 = n ->
  set_nth n x (l1 ++ a :: l2) = l1 ++ x :: l2.
Proof.
  intros n x a l1 l2 H. unfold set_nth. subst n.
  rewrite firstn_app, Nat.sub_diag, firstn_all. cbn [firstn]. rewrite app_nil_r.
  replace (S (length l1)) with (length (l1 ++ [a])) by (rewrite app_length; cbn; lia).
  replace (l1 ++ a :: l2) with ((l1 ++ [a]) ++ l2) by (rewrite <- app_assoc; reflexivity).
  rewrite skipn_app, skipn_all, Nat.sub_diag. reflexivity.
Qed.

Lemma set_nth_length : forall n (x : A) l, (n < length l)%nat -> length (set_nth n x l) = length l.
Proof.
  intros n x l H. unfold set_nth. rewrite app_length, firstn_length. cbn [length]. rewrite skipn_length. lia.
Qed.

Lemma nth_error_app_mid : forall l1 (a : A) l2, nth_error (l1 ++ a :: l2) (length l1) = Some a.
Proof. intros. rewrite nth_error_app2 by lia. rewrite Nat.sub_diag. reflexivity. Qed.

Lemma swap_at_perm : forall i j l l', swap_at i j l = Some l' -> Permutation l' l.
Proof.
  intros i j l l' H. unfold swap_at in H.
  destruct (nth_error l i) as [a|] eqn:Ei; [|discriminate].
  destruct (nth_error l j) as [b|] eqn:Ej; [|discriminate].
  inversion H; subst l'; clear H.
  destruct (Nat.lt_trichotomy i j) as [Hlt|[Heq|Hgt]].
  - (* i < j *)
    destruct (nth_error_split l i Ei) as (l1 & r & -> & Hl1).
    rewrite (set_nth_app i b a l1 r Hl1).
    assert (Ej' : nth_error r (j - i - 1) = Some b).
    { rewrite nth_error_app2 in Ej by lia. rewrite Hl1 in Ej.
      replace (j - i)%nat with (S (j - i - 1)) in Ej by lia. exact Ej. }
    destruct (nth_error_split r _ Ej') as (l2 & l3 & -> & Hl2).
    replace (l1 ++ b :: l2 ++ b :: l3) with ((l1 ++ b :: l2) ++ b :: l3) by (rewrite <- app_assoc; reflexivity).
    rewrite (set_nth_app j a b (l1 ++ b :: l2) l3) by (rewrite app_length; cbn [length]; lia).
    rewrite <- app_assoc. cbn [app].
    apply Permutation_app_head.
    transitivity (b :: a :: l2 ++ l3).
    + apply perm_skip. symmetry. apply Permutation_middle.
    + transitivity (a :: b :: l2 ++ l3); [apply perm_swap|].
      apply perm_skip. apply Permutation_middle.
  - subst j. rewrite Ei in Ej. inversion Ej; subst b.
    destruct (nth_error_split l i Ei) as (l1 & r & -> & Hl1).
    rewrite (set_nth_app i a a l1 r Hl1). rewrite (set_nth_app i a a l1 r Hl1). reflexivity.
  - (* j < i *)
    destruct (nth_error_split l j Ej) as (l1 & r & -> & Hl1).
    assert (Ei' : nth_error r (i - j - 1) = Some a).
    { rewrite nth_error_app2 in Ei by lia. rewrite Hl1 in Ei.
      replace (i - j)%nat with (S (i - j - 1)) in Ei by lia. exact Ei. }
    destruct (nth_error_split r _ Ei') as (l2 & l3 & -> & Hl2).
    replace (l1 ++ b :: l2 ++ a :: l3) with ((l1 ++ b :: l2) ++ a :: l3) by (rewrite <- app_assoc; reflexivity).
    rewrite (set_nth_app i b a (l1 ++ b :: l2) l3) by (rewrite app_length; cbn [length]; lia).
    rewrite <- !app_assoc. cbn [app].
    rewrite (set_nth_app j a b l1 _ Hl1).
    apply Permutation_app_head.
    transitivity (a :: b :: l2 ++ l3).
    + apply perm_skip. symmetry. apply Permutation_middle.
    + transitivity (b :: a :: l2 ++ l3); [apply perm_swap|].
      apply perm_skip. apply Permutation_middle.
Qed.

Lemma swap_at_some : forall i j l, (i < length l)%nat -> (j < length l)%nat -> exists l', swap_at i j l = Some l'.
Proof.
  intros i j l Hi Hj. unfold swap_at.
  destruct (nth_error l i) eqn:Ei; [|apply nth_error_None in Ei; lia].
  destruct (nth_error l j) eqn:Ej; [|apply nth_error_None in Ej; lia].
  eexists; reflexivity.
Qed.

(* --------------------------------------------------------- std::partition *)
Lemma scan_front_spec : forall (m L : list A) ds (L1 m1 : list A) ds1,
  scan_front m L ds = Some (L1, m1, ds1) ->
  rev L1 ++ m1 = rev L ++ m /\ (length m1 <= length m)%nat /\ (length L <= length L1)%nat.
Proof.
  induction m as [|x m IH]; intros L ds L1 m1 ds1 H; cbn [scan_front] in H.
  - inversion H; subst. auto.
  - destruct (take_bool ds) as [[b ds']|]; [|discriminate].
    destruct (negb b).
    + apply IH in H. destruct H as (H1 & H2 & H3). cbn [rev length] in *. rewrite <- app_assoc in H1. cbn [app] in H1.
      repeat split; [exact H1|lia|lia].
    + inversion H; subst. auto.
Qed.

Lemma scan_back_spec : forall (rm R : list A) ds res (R1 : list A) ds1,
  scan_back rm R ds = Some (res, R1, ds1) ->
  match res with
  | None => rev rm ++ R = R1
  | Some (y, rm2) => rev rm ++ R = rev rm2 ++ y :: R1 /\ (length rm2 < length rm)%nat
  end.
Proof.
  induction rm as [|y rm IH]; intros R ds res R1 ds1 H; cbn [scan_back] in H.
  - inversion H; subst. reflexivity.
  - destruct (take_bool ds) as [[b ds']|]; [|discriminate].
    destruct (negb b).
    + inversion H; subst. cbn [rev length]. rewrite <- app_assoc. cbn [app]. split; [reflexivity|lia].
    + apply IH in H. destruct res as [[y2 rm2]|].
      * destruct H as [H1 H2]. cbn [rev length]. rewrite <- app_assoc. cbn [app]. split; [exact H1|lia].
      * cbn [rev]. rewrite <- app_assoc. cbn [app]. exact H.
Qed.

Lemma part_loop_spec : forall fuel (m L R : list A) ds (arr : list A) p ds',
  part_loop fuel m L R ds = Some (arr, p, ds') ->
  Permutation arr (rev L ++ m ++ R) /\ (length L <= p <= length L + length m)%nat.
Proof.
  induction fuel as [|f IH]; intros m L R ds arr p ds' H; cbn [part_loop] in H; [discriminate|].
  destruct (scan_front m L ds) as [[[L1 m1] ds1]|] eqn:Esf; [|discriminate].
  apply scan_front_spec in Esf. destruct Esf as (Hsf & Hlen & HlenL).
  assert (HL1 : (length L1 + length m1 = length L + length m)%nat).
  { apply (f_equal (@length A)) in Hsf. rewrite !app_length, !rev_length in Hsf. exact Hsf. }
  destruct m1 as [|x m1].
  - inversion H; subst. rewrite app_nil_r in Hsf. cbn [length] in HL1. split.
    + rewrite app_assoc, <- Hsf. reflexivity.
    + lia.
  - destruct (scan_back (rev m1) R ds1) as [[[res R1] ds2]|] eqn:Esb; [|discriminate].
    apply scan_back_spec in Esb. rewrite rev_involutive in Esb.
    destruct res as [[y rm2]|].
    + destruct Esb as [Hsb Hlt]. rewrite rev_length in Hlt.
      apply IH in H. destruct H as [Hp Hb]. cbn [length] in *. rewrite rev_length in Hb. split.
      * rewrite Hp. cbn [rev]. rewrite <- !app_assoc. cbn [app].
        rewrite (app_assoc (rev L) m R), <- Hsf. rewrite <- app_assoc. cbn [app]. rewrite Hsb.
        apply Permutation_app_head.
        transitivity (y :: x :: rev rm2 ++ R1).
        { apply perm_skip. symmetry. apply Permutation_middle. }
        transitivity (x :: y :: rev rm2 ++ R1); [apply perm_swap|].
        apply perm_skip. apply Permutation_middle.
      * lia.
    + inversion H; subst. cbn [length] in HL1. split.
      * rewrite (app_assoc (rev L) m R), <- Hsf. rewrite <- app_assoc. cbn [app]. reflexivity.
      * lia.
Qed.

Lemma partition_bidir_spec : forall (l : list A) ds (arr : list A) p ds',
  partition_bidir l ds = Some (arr, p, ds') ->
  Permutation arr l /\ (p <= length l)%nat.
Proof.
  intros l ds arr p ds' H. unfold partition_bidir in H. apply part_loop_spec in H.
  cbn [rev app length] in H. rewrite app_nil_r in H. destruct H as [H1 H2]. split; [exact H1|lia].
Qed.

(* progress and exact consumption: one boolean draw per element *)
Definition bools (bs : list bool) : list draw := map DBool bs.

Lemma scan_front_progress : forall (m L : list A) bs rest, length bs = length m ->
  (exists L1, scan_front m L (bools bs ++ rest) = Some (L1, [], rest)) \/
  (exists L1 x m1 bs1, scan_front m L (bools bs ++ rest) = Some (L1, x :: m1, bools bs1 ++ rest)
                       /\ length bs1 = length m1 /\ (length m1 < length m)%nat).
Proof.
  induction m as [|x m IH]; intros L bs rest Hlen.
  - destruct bs; [|discriminate]. left. exists L. reflexivity.
  - destruct bs as [|b bs]; [discriminate|]. cbn [length] in Hlen. injection Hlen as Hlen.
    cbn [scan_front bools map app take_bool]. destruct b; cbn [negb].
    + right. exists L, x, m, bs. repeat split; auto.
    + destruct (IH (x :: L) bs rest Hlen) as [[L1 H]|(L1 & x1 & m1 & bs1 & H & H1 & H2)].
      * left. exists L1. exact H.
      * right. exists L1, x1, m1, bs1. repeat split; auto. cbn [length]. lia.
Qed.

Lemma scan_back_progress : forall (rm R : list A) bs rest, length bs = length rm ->
  (exists R1, scan_back rm R (bools bs ++ rest) = Some (None, R1, rest)) \/
  (exists y rm2 R1 bs2, scan_back rm R (bools bs ++ rest) = Some (Some (y, rm2), R1, bools bs2 ++ rest)
                        /\ length bs2 = length rm2 /\ (length rm2 < length rm)%nat).
Proof.
  induction rm as [|y rm IH]; intros R bs rest Hlen.
  - destruct bs; [|discriminate]. left. exists R. reflexivity.
  - destruct bs as [|b bs]; [discriminate|]. cbn [length] in Hlen. injection Hlen as Hlen.
    cbn [scan_back bools map app take_bool]. destruct b; cbn [negb].
    + destruct (IH (y :: R) bs rest Hlen) as [[R1 H]|(y1 & rm2 & R1 & bs2 & H & H1 & H2)].
      * left. exists R1. exact H.
      * right. exists y1, rm2, R1, bs2. repeat split; auto. cbn [length]. lia.
    + right. exists y, rm, R, bs. repeat split; auto.
Qed.

Lemma part_loop_progress : forall fuel (m L R : list A) bs rest, length bs = length m -> (length m < fuel)%nat ->
  exists arr p, part_loop fuel m L R (bools bs ++ rest) = Some (arr, p, rest).
Proof.
  induction fuel as [|f IH]; intros m L R bs rest Hlen Hf; [lia|].
  cbn [part_loop].
  destruct (scan_front_progress m L bs rest Hlen) as [[L1 H]|(L1 & x & m1 & bs1 & H & H1 & H2)]; rewrite H.
  - eexists _, _. reflexivity.
  - assert (Hl : length bs1 = length (rev m1)) by (rewrite rev_length; exact H1).
    destruct (scan_back_progress (rev m1) R bs1 rest Hl) as [[R1 H']|(y & rm2 & R1 & bs2 & H' & H1' & H2')]; rewrite H'.
    + eexists _, _. reflexivity.
    + rewrite rev_length in H2'.
      apply IH; [rewrite rev_length; exact H1'|rewrite rev_length; lia].
Qed.

Lemma partition_bidir_progress : forall (l : list A) bs rest, length bs = length l ->
  exists arr p, partition_bidir l (bools bs ++ rest) = Some (arr, p, rest).
Proof. intros. unfold partition_bidir. apply part_loop_progress; [assumption|lia]. Qed.
End ListLemmas.

Arguments bools : clear implicits.

(* ------------------------------------------ facts read from the source *)
(* Gen/ValidFacts.v is regenerated from holdout_validation.cc / dss.cc on every run.  The
   lemmas of this block are the ONLY place where the development looks at what was generated:
   they are proved by computation and stop checking when the source says something else
   (no clamp on the training share, a conditional clear(), another guard in shake, ...). *)
Lemma gen_early_fact : forall run, gen_holdout_early_return run = (0 <? run).
Proof. reflexivity. Qed.

Lemma gen_skip_fact : forall a p,
  gen_holdout_skip a p = Z.max (((a * ((100 - p) mod two32)) mod two64) / 100) 1.
Proof. reflexivity. Qed.

Lemma gen_fy_fact : forall a s, gen_fy_first a = a - 1 /\ gen_fy_count a s = a - s.
Proof. intros. unfold gen_fy_first, gen_fy_count. split; lia. Qed.

Lemma gen_weight_fact : forall d a, gen_weight d a = (d + a * a * a) mod two64.
Proof.
  intros. unfold gen_weight. rewrite Zmult_mod_idemp_l, Zplus_mod_idemp_r. reflexivity.
Qed.

Lemma gen_shake_skips_fact : forall g gp, gen_shake_skips g gp = (g =? 0) || negb (g mod gp =? 0).
Proof. reflexivity. Qed.

Lemma gen_clear_fact : gen_clear_steps = [GClearT; GClearV].
Proof. reflexivity. Qed.
Lemma gen_init_fact : gen_init_steps = [GResetT; GResetV; GShakeImpl; GClearBoth].
Proof. reflexivity. Qed.
Lemma gen_shake_fact : gen_shake_steps = [GIncAgeT; GIncAgeV; GShakeImpl; GClearBoth].
Proof. reflexivity. Qed.
Lemma gen_close_fact : gen_close_steps = [GMoveToValidation; GClearBoth].
Proof. reflexivity. Qed.
Lemma gen_tune_fact : forall u,
  gen_tune_dss_open u = (u =? sentinel) /\ gen_tune_perc_open u = (u =? sentinel)
  /\ gen_tune_dss_dynamic_typeid = true /\ gen_tune_perc_dynamic_typeid = true.
Proof. intros. repeat split. Qed.
Lemma gen_dflt_fact : gen_dflt_dss = 1 /\ gen_dflt_perc = 20.
Proof. split; reflexivity. Qed.
Lemma gen_holdout_tail_fact : holdout_tail_ok = true.
Proof. reflexivity. Qed.
Lemma gen_shape_fact : shape_eqb gen_shake_impl_shape modelled_shape = true.
Proof. reflexivity. Qed.

(* ------------------------------------------------------------------ model *)
Section ModelLemmas.
Variable P : Type.
Notation example := (example P).
Notation state := (state P).
Implicit Types st : state.
Implicit Types l : list example.

Definition zlenP := @zlen P.

Lemma zlen_nonneg : forall l, 0 <= zlen P l.
Proof. intros. unfold zlen. lia. Qed.

Lemma idents_perm : forall (T V T' V' : list example) ct cv ct' cv',
  Permutation (T' ++ V') (T ++ V) ->
  Permutation (idents P (mkSt T' V' ct' cv')) (idents P (mkSt T V ct cv)).
Proof. intros. unfold idents. cbn [training validation]. apply Permutation_map. assumption. Qed.


(* the interpreter of ValidDefs.v on the facts above: the functions as the source writes them *)
Lemma move_to_validation_unfold : forall st,
  move_to_validation P st = mkSt [] (validation st ++ training st) (clr_t st) (clr_v st).
Proof. intros. reflexivity. Qed.

Lemma holdout_skip_unfold : forall a p,
  holdout_skip a p = Z.max (((a * ((100 - p) mod two32)) mod two64) / 100) 1.
Proof. intros. unfold holdout_skip. apply gen_skip_fact. Qed.

Lemma holdout_init_unfold : forall c run st ds,
  holdout_init P c run st ds =
  if 0 <? run then Some (st, ds)
  else
    if zlen P (training st) =? 0 then None
    else
      if zlen P (training st) <? holdout_skip (zlen P (training st)) (perc c) then None
      else
        match fy_loop P (Z.to_nat (zlen P (training st) - holdout_skip (zlen P (training st)) (perc c)))
                (zlen P (training st) - 1) (training st) ds with
        | None => None
        | Some (l, ds') =>
            Some (mkSt (firstn (Z.to_nat (holdout_skip (zlen P (training st)) (perc c))) l)
                       (validation st ++ skipn (Z.to_nat (holdout_skip (zlen P (training st)) (perc c))) l)
                       (clr_t st) (clr_v st), ds')
        end.
Proof.
  intros c run st ds. unfold holdout_init. rewrite gen_early_fact.
  destruct (0 <? run); [reflexivity|]. rewrite gen_holdout_tail_fact. cbn [negb]. cbv zeta.
  set (a := zlen P (training st)). set (sk := holdout_skip a (perc c)).
  destruct (gen_fy_fact a sk) as [F1 F2]. rewrite F1, F2.
  assert (Ha : 0 <= a) by apply zlen_nonneg.
  assert (Hsk : 1 <= sk) by (unfold sk; rewrite holdout_skip_unfold; lia).
  replace ((0 <? a - sk) && ((a - 1 <? 0) || (a <=? a - 1))) with false by lia.
  replace (gen_fy_wraps && (sk =? 0)) with false by (destruct gen_fy_wraps; lia).
  destruct (a =? 0) eqn:E0.
  - replace ((sk <? 0) || (a <? sk)) with true by lia. reflexivity.
  - replace ((sk <? 0) || (a <? sk)) with (a <? sk) by lia. reflexivity.
Qed.

Lemma shake_impl_unfold : forall c st ds,
  shake_impl P c st ds =
  match partition_bidir (validation st ++ training st) ds with
  | None => None
  | Some (arr, p, ds') =>
      let s := zlen P (validation st ++ training st) in
      let pivot := if (p =? 0)%nat || (Z.of_nat p =? s) then tsz c s else Z.of_nat p in
      if (pivot <? 0) || (s <? pivot) then None
      else Some (mkSt (reset_age_difficulty P (skipn (Z.to_nat pivot) arr)) (firstn (Z.to_nat pivot) arr)
                      (clr_t st) (clr_v st), ds')
  end.
Proof.
  intros. unfold shake_impl. rewrite gen_shape_fact, move_to_validation_unfold. cbn [negb training validation clr_t clr_v app].
  reflexivity.
Qed.

Lemma clear_both_unfold : forall st, run_clear_steps P gen_clear_steps st = Some (clear_evaluators P st).
Proof. intros. rewrite gen_clear_fact. reflexivity. Qed.

Lemma dss_init_unfold : forall c run st ds,
  dss_init P c run st ds =
  match shake_impl P c (mkSt (reset_age_difficulty P (training st)) (reset_age_difficulty P (validation st))
                             (clr_t st) (clr_v st)) ds with
  | None => None
  | Some (st1, ds') => Some (clear_evaluators P st1, ds')
  end.
Proof.
  intros. unfold dss_init. rewrite gen_init_fact. cbn [run_gsteps run_gstep training validation clr_t clr_v].
  destruct (shake_impl P c _ ds) as [[st1 ds1]|]; [|reflexivity].
  rewrite clear_both_unfold. reflexivity.
Qed.

Lemma shake_due_unfold : forall c gen, shake_due c gen = negb (gen =? 0) && (gen mod gap c =? 0).
Proof.
  intros. unfold shake_due. rewrite gen_shake_skips_fact, negb_orb, negb_involutive. reflexivity.
Qed.

Lemma dss_shake_unfold : forall c gen st ds,
  dss_shake P c gen st ds =
  if gap c =? 0 then None
  else if negb (shake_due c gen) then Some (st, ds, false)
  else
    match shake_impl P c (mkSt (map (inc_age1 P) (training st)) (map (inc_age1 P) (validation st))
                               (clr_t st) (clr_v st)) ds with
    | None => None
    | Some (st1, ds') => Some (clear_evaluators P st1, ds', true)
    end.
Proof.
  intros. unfold dss_shake. destruct (gap c =? 0); [reflexivity|]. destruct (negb (shake_due c gen)); [reflexivity|].
  rewrite gen_shake_fact. cbn [run_gsteps run_gstep training validation clr_t clr_v].
  destruct (shake_impl P c _ ds) as [[st1 ds1]|]; [|reflexivity].
  rewrite clear_both_unfold. reflexivity.
Qed.

Lemma dss_close_unfold : forall c run st ds,
  dss_close P c run st ds = Some (clear_evaluators P (move_to_validation P st), ds).
Proof.
  intros. unfold dss_close. rewrite gen_close_fact. cbn [run_gsteps run_gstep]. rewrite clear_both_unfold. reflexivity.
Qed.

(* ----------------------------------------------------------------- hold-out *)
Lemma fy_loop_perm : forall cnt i l ds l' ds',
  fy_loop P cnt i l ds = Some (l', ds') -> Permutation l' l.
Proof.
  induction cnt as [|c IH]; intros i l ds l' ds' H; cbn [fy_loop] in H.
  - inversion H; subst. reflexivity.
  - destruct ds as [|[lo hi v|b] ds0]; try discriminate.
    destruct ((lo =? 0) && (hi =? i + 1) && (0 <=? v) && (v <? hi)); [|discriminate].
    destruct (swap_at (Z.to_nat i) (Z.to_nat v) l) as [l1|] eqn:Es; [|discriminate].
    apply IH in H. apply swap_at_perm in Es. transitivity l1; assumption.
Qed.

(* the draws hold-out setup asks for: sup(i + 1) for i = start, start - 1, ... *)
Fixpoint fy_valid (cnt : nat) (i : Z) (ds : list draw) : Prop :=
  match cnt with
  | O => True
  | S c => match ds with
           | DInt lo hi v :: ds' => lo = 0 /\ hi = i + 1 /\ 0 <= v < hi /\ fy_valid c (i - 1) ds'
           | _ => False
           end
  end.

Lemma fy_loop_progress : forall cnt i l ds,
  Z.of_nat cnt <= i + 1 -> i < zlen P l -> fy_valid cnt i ds ->
  exists l' ds', fy_loop P cnt i l ds = Some (l', ds').
Proof.
  induction cnt as [|c IH]; intros i l ds Hc Hi Hv; cbn [fy_loop].
  - eexists _, _. reflexivity.
  - cbn [fy_valid] in Hv. destruct ds as [|[lo hi v|b] ds0]; try contradiction.
    destruct Hv as (-> & -> & Hr & Hv).
    replace ((0 =? 0) && (i + 1 =? i + 1) && (0 <=? v) && (v <? i + 1)) with true by lia.
    unfold zlen in Hi.
    destruct (swap_at_some _ (Z.to_nat i) (Z.to_nat v) l) as [l1 Hs]; [lia|lia|].
    rewrite Hs. apply IH; [lia| |exact Hv].
    apply swap_at_perm in Hs. apply Permutation_length in Hs. unfold zlen. lia.
Qed.

Lemma holdout_skip_spec : forall n p, 0 <= p < 100 -> 0 <= n -> n * 100 < two64 ->
  holdout_skip n p = Z.max (n * (100 - p) / 100) 1.
Proof.
  intros n p Hp Hn Hb. rewrite holdout_skip_unfold.
  rewrite (Z.mod_small (100 - p)) by (unfold two32; lia).
  rewrite Z.mod_small by nia. reflexivity.
Qed.

Lemma holdout_skip_le : forall n p, 0 <= p < 100 -> 1 <= n -> n * 100 < two64 -> 1 <= holdout_skip n p <= n.
Proof.
  intros n p Hp Hn Hb. rewrite holdout_skip_spec by lia.
  assert (n * (100 - p) / 100 <= n).
  { apply Z.div_le_upper_bound; lia. }
  lia.
Qed.

Lemma holdout_init_later_run : forall c run st ds, 0 < run -> holdout_init P c run st ds = Some (st, ds).
Proof. intros. rewrite holdout_init_unfold. replace (0 <? run) with true by lia. reflexivity. Qed.

Lemma holdout_init_spec : forall c run st ds st' ds',
  holdout_init P c run st ds = Some (st', ds') ->
  Permutation (training st' ++ validation st') (training st ++ validation st)
  /\ clr_t st' = clr_t st /\ clr_v st' = clr_v st
  /\ (run <= 0 ->
      let n := zlen P (training st) in
      let skip := holdout_skip n (perc c) in
      1 <= skip <= n /\ zlen P (training st') = skip /\ zlen P (validation st') = zlen P (validation st) + (n - skip)).
Proof.
  intros c run st ds st' ds' H. rewrite holdout_init_unfold in H.
  destruct (0 <? run) eqn:Er.
  { inversion H; subst. repeat split; auto; intros; lia. }
  destruct (zlen P (training st) =? 0) eqn:E0; [discriminate|].
  destruct (zlen P (training st) <? holdout_skip (zlen P (training st)) (perc c)) eqn:E1; [discriminate|].
  destruct (fy_loop P _ _ (training st) ds) as [[l ds1]|] eqn:Ef; [|discriminate].
  inversion H; subst; clear H. cbn [training validation clr_t clr_v].
  apply fy_loop_perm in Ef.
  assert (Hlen : length l = length (training st)) by (apply Permutation_length; exact Ef).
  assert (Hs1 : 1 <= holdout_skip (zlen P (training st)) (perc c)) by (rewrite holdout_skip_unfold; lia).
  split; [|split; [reflexivity|split; [reflexivity|]]].
  - transitivity (l ++ validation st); [|apply Permutation_app_tail; exact Ef].
    rewrite <- (firstn_skipn (Z.to_nat (holdout_skip (zlen P (training st)) (perc c))) l) at 3.
    rewrite <- app_assoc. apply Permutation_app_head. apply Permutation_app_comm.
  - intros _. cbv zeta. split; [lia|]. split.
    + unfold zlen in *. rewrite firstn_length. lia.
    + unfold zlen in *. rewrite app_length, skipn_length. lia.
Qed.

Lemma holdout_init_progress : forall c st ds,
  let n := zlen P (training st) in
  let skip := holdout_skip n (perc c) in
  1 <= n -> skip <= n -> fy_valid (Z.to_nat (n - skip)) (n - 1) ds ->
  exists st' ds', holdout_init P c 0 st ds = Some (st', ds').
Proof.
  intros c st ds n skip Hn Hs Hv. rewrite holdout_init_unfold. fold n. fold skip.
  replace (0 <? 0) with false by lia. replace (n =? 0) with false by lia. replace (n <? skip) with false by lia.
  assert (Hs1 : 1 <= skip) by (unfold skip; rewrite holdout_skip_unfold; lia).
  destruct (fy_loop_progress (Z.to_nat (n - skip)) (n - 1) (training st) ds) as (l & ds1 & Hf); [lia|fold n; lia|exact Hv|].
  rewrite Hf. eexists _, _. reflexivity.
Qed.

(* ---------------------------------------------------------------------- dss *)
Definition fresh (e : example) : Prop := diff e = 0 /\ age e = 1.

Lemma ident_reset1 : forall e, ident P (reset1 P e) = ident P e.
Proof. reflexivity. Qed.
Lemma ident_inc_age1 : forall e, ident P (inc_age1 P e) = ident P e.
Proof. reflexivity. Qed.
Lemma ident_bump : forall f e, ident P (bump P f e) = ident P e.
Proof. reflexivity. Qed.

Lemma map_ident_reset : forall l, map (ident P) (reset_age_difficulty P l) = map (ident P) l.
Proof. intros. unfold reset_age_difficulty. rewrite map_map. apply map_ext. intros; apply ident_reset1. Qed.
Lemma map_ident_inc : forall l, map (ident P) (map (inc_age1 P) l) = map (ident P) l.
Proof. intros. rewrite map_map. apply map_ext. intros; apply ident_inc_age1. Qed.
Lemma map_ident_bump : forall f l, map (ident P) (map (bump P f) l) = map (ident P) l.
Proof. intros. rewrite map_map. apply map_ext. intros; apply ident_bump. Qed.

Lemma reset_fresh : forall l, Forall fresh (reset_age_difficulty P l).
Proof. intros. unfold reset_age_difficulty. apply Forall_forall. intros e He. apply in_map_iff in He.
  destruct He as (x & <- & _). split; reflexivity. Qed.

(* the hypothesis on the target size (H_target) *)
Definition target_ok (c : config) (n : Z) : Prop := 1 <= tsz c n < n.

(* what one call of shake_impl does: [sel] is the selected subset *)
Lemma shake_impl_spec : forall c st ds st' ds',
  shake_impl P c st ds = Some (st', ds') ->
  exists sel,
    training st' = reset_age_difficulty P sel
    /\ Permutation (validation st' ++ sel) (validation st ++ training st)
    /\ clr_t st' = clr_t st /\ clr_v st' = clr_v st
    /\ (target_ok c (population P st) -> 2 <= population P st -> sel <> [] /\ validation st' <> []).
Proof.
  intros c st ds st' ds' H. rewrite shake_impl_unfold in H. cbv zeta in H.
  destruct (partition_bidir (validation st ++ training st) ds) as [[[arr p] ds1]|] eqn:Ep; [|discriminate].
  apply partition_bidir_spec in Ep. destruct Ep as [Hperm Hp].
  set (s := zlen P (validation st ++ training st)) in *.
  set (pivot := if (p =? 0)%nat || (Z.of_nat p =? s) then tsz c s else Z.of_nat p) in *.
  destruct ((pivot <? 0) || (s <? pivot)) eqn:Eb; [discriminate|].
  inversion H; subst st' ds'; clear H. cbn [training validation clr_t clr_v app].
  exists (skipn (Z.to_nat pivot) arr).
  split; [reflexivity|]. split; [|split; [reflexivity|split; [reflexivity|]]].
  - rewrite firstn_skipn. exact Hperm.
  - intros Ht Hpop. assert (Hlen : length arr = length (validation st ++ training st)) by (apply Permutation_length; exact Hperm).
    assert (Hs : s = population P st).
    { unfold s, population, zlen. rewrite app_length. lia. }
    assert (Hpiv : 0 < pivot < s).
    { unfold pivot. destruct ((p =? 0)%nat || (Z.of_nat p =? s)) eqn:Ef.
      - unfold target_ok in Ht. rewrite <- Hs in Ht. lia.
      - unfold s, zlen in *. lia. }
    unfold s, zlen in Hpiv. split.
    + intro Hnil. apply (f_equal (@length _)) in Hnil. rewrite skipn_length in Hnil. cbn [length] in Hnil. lia.
    + intro Hnil. apply (f_equal (@length _)) in Hnil. rewrite firstn_length in Hnil. cbn [length] in Hnil. lia.
Qed.

Lemma shake_impl_progress : forall c st bs rest,
  target_ok c (population P st) -> 2 <= population P st -> Z.of_nat (length bs) = population P st ->
  exists st', shake_impl P c st (bools bs ++ rest) = Some (st', rest).
Proof.
  intros c st bs rest Ht Hpop Hbs. rewrite shake_impl_unfold. cbv zeta.
  assert (Hl : length bs = length (validation st ++ training st)).
  { unfold population, zlen in Hbs. rewrite app_length. lia. }
  destruct (partition_bidir_progress _ (validation st ++ training st) bs rest Hl) as (arr & p & Hpart).
  rewrite Hpart. pose proof (partition_bidir_spec _ _ _ _ _ _ Hpart) as [Hperm Hp].
  set (s := zlen P (validation st ++ training st)).
  assert (Hs : s = population P st).
  { unfold s, population, zlen. rewrite app_length. lia. }
  set (pivot := if (p =? 0)%nat || (Z.of_nat p =? s) then tsz c s else Z.of_nat p).
  assert (Hpiv : 0 < pivot < s).
  { unfold pivot. destruct ((p =? 0)%nat || (Z.of_nat p =? s)) eqn:Ef.
    - unfold target_ok in Ht. rewrite <- Hs in Ht. lia.
    - unfold s, zlen in *. lia. }
  replace ((pivot <? 0) || (s <? pivot)) with false by lia.
  eexists. reflexivity.
Qed.

Lemma dss_init_spec : forall c run st ds st' ds',
  dss_init P c run st ds = Some (st', ds') ->
  exists sel,
    training st' = reset_age_difficulty P sel
    /\ Permutation (validation st' ++ sel) (reset_age_difficulty P (validation st ++ training st))
    /\ clr_t st' = clr_t st + 1 /\ clr_v st' = clr_v st + 1
    /\ (target_ok c (population P st) -> 2 <= population P st -> sel <> [] /\ validation st' <> []).
Proof.
  intros c run st ds st' ds' H. rewrite dss_init_unfold in H.
  destruct (shake_impl P c _ ds) as [[st1 ds1]|] eqn:Es; [|discriminate].
  inversion H; subst st' ds'; clear H.
  apply shake_impl_spec in Es. destruct Es as (sel & H1 & H2 & H3 & H4 & H5).
  cbn [training validation clr_t clr_v clear_evaluators] in *.
  exists sel. split; [exact H1|]. split; [|split; [lia|split; [lia|]]].
  - unfold reset_age_difficulty in *. rewrite map_app. exact H2.
  - intros Ht Hpop.
    assert (Hpe : population P (mkSt (reset_age_difficulty P (training st)) (reset_age_difficulty P (validation st)) (clr_t st) (clr_v st)) = population P st).
    { unfold population, zlen, reset_age_difficulty. cbn [training validation]. rewrite !map_length. reflexivity. }
    apply H5; rewrite Hpe; assumption.
Qed.

Lemma dss_shake_spec : forall c gen st ds st' ds' r,
  dss_shake P c gen st ds = Some (st', ds', r) ->
  gap c <> 0
  /\ r = shake_due c gen
  /\ (r = false -> st' = st /\ ds' = ds)
  /\ (r = true ->
      exists sel,
        training st' = reset_age_difficulty P sel
        /\ Permutation (validation st' ++ sel) (map (inc_age1 P) (validation st ++ training st))
        /\ clr_t st' = clr_t st + 1 /\ clr_v st' = clr_v st + 1
        /\ (target_ok c (population P st) -> 2 <= population P st -> sel <> [] /\ validation st' <> [])).
Proof.
  intros c gen st ds st' ds' r H. rewrite dss_shake_unfold in H.
  destruct (gap c =? 0) eqn:Eg; [discriminate|]. split; [lia|].
  destruct (shake_due c gen) eqn:Ed; cbn [negb] in H.
  - destruct (shake_impl P c _ ds) as [[st1 ds1]|] eqn:Es; [|discriminate].
    inversion H; subst st' ds' r; clear H. split; [reflexivity|]. split; [discriminate|]. intros _.
    apply shake_impl_spec in Es. destruct Es as (sel & H1 & H2 & H3 & H4 & H5).
    cbn [training validation clr_t clr_v clear_evaluators] in *.
    exists sel. split; [exact H1|]. split; [|split; [lia|split; [lia|]]].
    + rewrite map_app. exact H2.
    + intros Ht Hpop.
      assert (Hpe : population P (mkSt (map (inc_age1 P) (training st)) (map (inc_age1 P) (validation st)) (clr_t st) (clr_v st)) = population P st).
      { unfold population, zlen. cbn [training validation]. rewrite !map_length. reflexivity. }
      apply H5; rewrite Hpe; assumption.
  - inversion H; subst. split; [reflexivity|]. split; [auto|discriminate].
Qed.

Lemma dss_shake_progress : forall c gen st bs rest,
  gap c <> 0 -> shake_due c gen = true ->
  target_ok c (population P st) -> 2 <= population P st -> Z.of_nat (length bs) = population P st ->
  exists st', dss_shake P c gen st (bools bs ++ rest) = Some (st', rest, true).
Proof.
  intros c gen st bs rest Hg Hd Ht Hpop Hbs. rewrite dss_shake_unfold. replace (gap c =? 0) with false by lia.
  rewrite Hd. cbn [negb].
  assert (Hpe : population P (mkSt (map (inc_age1 P) (training st)) (map (inc_age1 P) (validation st)) (clr_t st) (clr_v st)) = population P st).
  { unfold population, zlen. cbn [training validation]. rewrite !map_length. reflexivity. }
  destruct (shake_impl_progress c (mkSt (map (inc_age1 P) (training st)) (map (inc_age1 P) (validation st)) (clr_t st) (clr_v st))
              bs rest) as [st1 Hs].
  - rewrite Hpe. exact Ht.
  - unfold population, zlen in *. cbn [training validation]. rewrite !map_length. exact Hpop.
  - unfold population, zlen in *. cbn [training validation]. rewrite !map_length. exact Hbs.
  - rewrite Hs. eexists. reflexivity.
Qed.

Lemma dss_init_progress : forall c run st bs rest,
  target_ok c (population P st) -> 2 <= population P st -> Z.of_nat (length bs) = population P st ->
  exists st', dss_init P c run st (bools bs ++ rest) = Some (st', rest).
Proof.
  intros c run st bs rest Ht Hpop Hbs. rewrite dss_init_unfold.
  assert (Hpe : population P (mkSt (reset_age_difficulty P (training st)) (reset_age_difficulty P (validation st)) (clr_t st) (clr_v st)) = population P st).
  { unfold population, zlen, reset_age_difficulty. cbn [training validation]. rewrite !map_length. reflexivity. }
  destruct (shake_impl_progress c (mkSt (reset_age_difficulty P (training st)) (reset_age_difficulty P (validation st)) (clr_t st) (clr_v st))
              bs rest) as [st1 Hs].
  - rewrite Hpe. exact Ht.
  - unfold population, zlen, reset_age_difficulty in *. cbn [training validation]. rewrite !map_length. exact Hpop.
  - unfold population, zlen, reset_age_difficulty in *. cbn [training validation]. rewrite !map_length. exact Hbs.
  - rewrite Hs. eexists. reflexivity.
Qed.

(* --------------------------------------------------------------- one call *)
Lemma perm_idents_of : forall st st',
  Permutation (map (ident P) (training st' ++ validation st')) (map (ident P) (training st ++ validation st)) ->
  Permutation (idents P st') (idents P st).
Proof. intros. exact H. Qed.

Lemma step_conserves : forall c o st ds st' ds' r,
  step P c o st ds = Some (st', ds', r) -> Permutation (idents P st') (idents P st).
Proof.
  intros c o st ds st' ds' r H. unfold idents. destruct o as [run|run|gen|run|f g]; cbn [step] in H.
  - destruct (holdout_init P c run st ds) as [[s d]|] eqn:E; [|discriminate]. inversion H; subst.
    apply holdout_init_spec in E. destruct E as (E & _). apply Permutation_map. exact E.
  - destruct (dss_init P c run st ds) as [[s d]|] eqn:E; [|discriminate]. inversion H; subst.
    apply dss_init_spec in E. destruct E as (sel & H1 & H2 & _).
    rewrite H1, map_app, map_ident_reset, <- map_app.
    rewrite (Permutation_app_comm sel). rewrite (Permutation_map (ident P) H2).
    rewrite map_ident_reset. apply Permutation_map. apply Permutation_app_comm.
  - destruct (dss_shake P c gen st ds) as [[[s d] b]|] eqn:E; [|discriminate]. inversion H; subst.
    apply dss_shake_spec in E. destruct E as (_ & Hr & Hf & Ht). destruct b.
    + destruct (Ht eq_refl) as (sel & H1 & H2 & _).
      rewrite H1, map_app, map_ident_reset, <- map_app.
      rewrite (Permutation_app_comm sel). rewrite (Permutation_map (ident P) H2).
      rewrite map_ident_inc. apply Permutation_map. apply Permutation_app_comm.
    + destruct (Hf eq_refl) as [-> _]. reflexivity.
  - rewrite dss_close_unfold, move_to_validation_unfold in H. inversion H; subst. cbn [clear_evaluators training validation app].
    apply Permutation_map. apply Permutation_app_comm.
  - inversion H; subst. cbn [eval_step training validation]. rewrite !map_app, !map_ident_bump. reflexivity.
Qed.

Lemma idents_population : forall st st', Permutation (idents P st') (idents P st) -> population P st' = population P st.
Proof.
  intros st st' H. apply Permutation_length in H. unfold idents in H. rewrite !map_length, !app_length in H.
  unfold population, zlen. lia.
Qed.

(* the postcondition of a reshuffling call *)
Definition reshuffled (st' : state) : Prop :=
  training st' <> [] /\ validation st' <> [] /\ Forall fresh (training st').

Lemma step_reshuffles : forall c o st ds st' ds' r,
  step P c o st ds = Some (st', ds', r) -> reshuffles c o = true ->
  target_ok c (population P st) -> 2 <= population P st -> reshuffled st'.
Proof.
  intros c o st ds st' ds' r H Hre Ht Hpop. destruct o as [run|run|gen|run|f g]; cbn [step reshuffles] in *; try discriminate.
  - destruct (dss_init P c run st ds) as [[s d]|] eqn:E; [|discriminate]. inversion H; subst.
    apply dss_init_spec in E. destruct E as (sel & H1 & _ & _ & _ & H5). destruct (H5 Ht Hpop) as [Hs Hv].
    repeat split; auto.
    + rewrite H1. destruct sel; [contradiction|discriminate].
    + rewrite H1. apply reset_fresh.
  - destruct (dss_shake P c gen st ds) as [[[s d] b]|] eqn:E; [|discriminate]. inversion H; subst.
    apply dss_shake_spec in E. destruct E as (_ & Hr & _ & Htr). rewrite Hre in Hr. subst b.
    destruct (Htr eq_refl) as (sel & H1 & _ & _ & _ & H5). destruct (H5 Ht Hpop) as [Hs Hv].
    repeat split; auto.
    + rewrite H1. destruct sel; [contradiction|discriminate].
    + rewrite H1. apply reset_fresh.
Qed.

(* ------------------------------------------------------------- histories *)
Lemma run_ops_conservation : forall c ops st ds tr ds',
  run_ops P c ops st ds = Some (tr, ds') ->
  Forall (fun sr => Permutation (idents P (fst sr)) (idents P st)) tr.
Proof.
  induction ops as [|o ops IH]; intros st ds tr ds' H; cbn [run_ops] in H.
  - inversion H; subst. constructor.
  - destruct (step P c o st ds) as [[[st1 ds1] r]|] eqn:Es; [|discriminate].
    destruct (run_ops P c ops st1 ds1) as [[tr1 ds2]|] eqn:Er; [|discriminate].
    inversion H; subst; clear H.
    apply step_conserves in Es. constructor; [exact Es|].
    apply IH in Er. eapply Forall_impl; [|exact Er]. intros sr Hsr. cbn beta in *. transitivity (idents P st1); assumption.
Qed.

Lemma run_ops_reshuffles : forall c ops st ds tr ds',
  run_ops P c ops st ds = Some (tr, ds') -> target_ok c (population P st) -> 2 <= population P st ->
  Forall2 (fun o sr => reshuffles c o = true -> reshuffled (fst sr)) ops tr.
Proof.
  induction ops as [|o ops IH]; intros st ds tr ds' H Ht Hpop; cbn [run_ops] in H.
  - inversion H; subst. constructor.
  - destruct (step P c o st ds) as [[[st1 ds1] r]|] eqn:Es; [|discriminate].
    destruct (run_ops P c ops st1 ds1) as [[tr1 ds2]|] eqn:Er; [|discriminate].
    inversion H; subst; clear H. constructor.
    + cbn [fst]. intros Hre. eapply step_reshuffles; eauto.
    + pose proof (idents_population _ _ (step_conserves _ _ _ _ _ _ _ Es)) as Hpe.
      eapply IH; eauto; rewrite Hpe; assumption.
Qed.

(* results and clear() calls along a history: each call reports as dss::shake documents *)
Definition reports (c : config) (o : op) (st st' : state) (r : option bool) : Prop :=
  match o with
  | DssShake g => r = Some (shake_due c g)
                  /\ (if shake_due c g then clr_t st' = clr_t st + 1 /\ clr_v st' = clr_v st + 1 else st' = st)
  | DssInit _ | DssClose _ => r = None /\ clr_t st' = clr_t st + 1 /\ clr_v st' = clr_v st + 1
  | _ => r = None /\ clr_t st' = clr_t st /\ clr_v st' = clr_v st
  end.

Lemma step_reports : forall c o st ds st' ds' r,
  step P c o st ds = Some (st', ds', r) -> reports c o st st' r.
Proof.
  intros c o st ds st' ds' r H. destruct o as [run|run|gen|run|f g]; cbn [step reports] in *.
  - destruct (holdout_init P c run st ds) as [[s d]|] eqn:E; [|discriminate]. inversion H; subst.
    apply holdout_init_spec in E. destruct E as (_ & E1 & E2 & _). auto.
  - destruct (dss_init P c run st ds) as [[s d]|] eqn:E; [|discriminate]. inversion H; subst.
    apply dss_init_spec in E. destruct E as (sel & _ & _ & E1 & E2 & _). auto.
  - destruct (dss_shake P c gen st ds) as [[[s d] b]|] eqn:E; [|discriminate]. inversion H; subst.
    apply dss_shake_spec in E. destruct E as (_ & Hr & Hf & Ht). subst b. split; [reflexivity|].
    destruct (shake_due c gen).
    + destruct (Ht eq_refl) as (sel & _ & _ & E1 & E2 & _). auto.
    + destruct (Hf eq_refl). auto.
  - inversion H; subst. cbn. auto.
  - inversion H; subst. cbn. auto.
Qed.

Lemma dss_close_spec : forall c run st ds,
  exists st', dss_close P c run st ds = Some (st', ds)
    /\ training st' = [] /\ validation st' = validation st ++ training st
    /\ clr_t st' = clr_t st + 1 /\ clr_v st' = clr_v st + 1.
Proof. intros. rewrite dss_close_unfold. eexists. split; [reflexivity|]. repeat split. Qed.
End ModelLemmas.

(* --------------------------------------------------- target size, tuning *)
Lemma target_q_ok : forall s, 2 <= s -> 1 <= target_q s < s.
Proof.
  intros s Hs. unfold target_q.
  assert (H1 : 3 * s / 5 < s) by (apply Z.div_lt_upper_bound; lia).
  assert (H2 : 0 <= 3 * s / 5) by (apply Z.div_pos; lia).
  lia.
Qed.

Lemma tune_fixed_fills : forall vs d p,
  (vs = VsHoldout -> snd (tune_fixed vs d p) = if p =? sentinel then dflt_perc else p)
  /\ (vs = VsDss -> fst (tune_fixed vs d p) = if d =? sentinel then dflt_dss else d)
  /\ (d <> sentinel -> fst (tune_fixed vs d p) = d) /\ (p <> sentinel -> snd (tune_fixed vs d p) = p).
Proof.
  intros vs d p. unfold tune_fixed. cbn [fst snd].
  destruct (gen_tune_fact d) as (Hd & _ & Td & Tp). destruct (gen_tune_fact p) as (_ & Hp & _ & _).
  rewrite Hd, Hp, Td, Tp. cbn [andb]. repeat split.
  - intros ->. cbn [vs_eqb]. rewrite andb_true_r. reflexivity.
  - intros ->. cbn [vs_eqb]. rewrite andb_true_r. reflexivity.
  - intros H. replace (d =? sentinel) with false by lia. reflexivity.
  - intros H. replace (p =? sentinel) with false by lia. reflexivity.
Qed.

Lemma tune_keeps_user_settings : forall vs d p, d <> sentinel -> p <> sentinel -> tune_fixed vs d p = (d, p).
Proof.
  intros vs d p Hd Hp. destruct (tune_fixed_fills vs d p) as (_ & _ & A & B).
  specialize (A Hd). specialize (B Hp). destruct (tune_fixed vs d p) as [x y]. cbn [fst snd] in *. subst. reflexivity.
Qed.

Lemma tune_defaults : dflt_dss = 1 /\ dflt_perc = 20.
Proof. exact gen_dflt_fact. Qed.

(* ------------------------------------- a whole dss history is defined *)
Section HistoryDefined.
Variable P : Type.

Definition is_dss_op (o : op) : bool := match o with HoldoutInit _ => false | _ => true end.
Definition n_reshuffles (c : config) (ops : list op) : nat := length (filter (reshuffles c) ops).

Lemma step_population : forall c o (st : state P) ds st' ds' r,
  step P c o st ds = Some (st', ds', r) -> population P st' = population P st.
Proof. intros. apply idents_population. eapply step_conserves; eauto. Qed.

Lemma dss_history_defined : forall c ops (st : state P) bs,
  forallb is_dss_op ops = true -> gap c <> 0 ->
  2 <= population P st -> target_ok c (population P st) ->
  length bs = (Z.to_nat (population P st) * n_reshuffles c ops)%nat ->
  exists tr, run_ops P c ops st (bools bs) = Some (tr, []).
Proof.
  intros c ops. induction ops as [|o ops IH]; intros st bs Hd Hg Hpop Ht Hlen.
  - unfold n_reshuffles in Hlen. cbn in Hlen. rewrite Nat.mul_0_r in Hlen. destruct bs; [|discriminate].
    exists []. reflexivity.
  - cbn [forallb] in Hd. apply andb_prop in Hd. destruct Hd as [Ho Hd].
    set (n := Z.to_nat (population P st)) in *.
    assert (Hstep : exists st1 bs1 r, step P c o st (bools bs) = Some (st1, bools bs1, r)
                                      /\ length bs1 = (n * n_reshuffles c ops)%nat).
    { unfold n_reshuffles in Hlen. cbn [filter] in Hlen.
      destruct (reshuffles c o) eqn:Er.
      - cbn [length] in Hlen. rewrite Nat.mul_succ_r in Hlen.
        assert (Hsplit : bools bs = bools (firstn n bs) ++ bools (skipn n bs)).
        { unfold bools. rewrite <- map_app, firstn_skipn. reflexivity. }
        assert (Hf : Z.of_nat (length (firstn n bs)) = population P st).
        { rewrite firstn_length. unfold n in *. lia. }
        assert (Hs : length (skipn n bs) = (n * n_reshuffles c ops)%nat).
        { rewrite skipn_length. unfold n_reshuffles. lia. }
        destruct o as [run|run|gen|run|f g]; cbn [reshuffles] in Er; try discriminate.
        + destruct (dss_init_progress P c run st (firstn n bs) (bools (skipn n bs)) Ht Hpop Hf) as [st1 H1].
          exists st1, (skipn n bs), None. split; [|exact Hs]. cbn [step]. rewrite Hsplit, H1. reflexivity.
        + destruct (dss_shake_progress P c gen st (firstn n bs) (bools (skipn n bs)) Hg Er Ht Hpop Hf) as [st1 H1].
          exists st1, (skipn n bs), (Some true). split; [|exact Hs]. cbn [step]. rewrite Hsplit, H1. reflexivity.
      - fold (n_reshuffles c ops) in Hlen.
        destruct o as [run|run|gen|run|f g]; cbn [reshuffles is_dss_op] in *; try discriminate.
        + exists st, bs, (Some false). split; [|exact Hlen]. cbn [step]. rewrite dss_shake_unfold.
          replace (gap c =? 0) with false by lia. rewrite Er. reflexivity.
        + eexists _, bs, None. split; [reflexivity|exact Hlen].
        + eexists _, bs, None. split; [reflexivity|exact Hlen]. }
    destruct Hstep as (st1 & bs1 & r & Hs & Hl1).
    pose proof (step_population _ _ _ _ _ _ _ Hs) as Hpe.
    assert (H2 : 2 <= population P st1) by (rewrite Hpe; assumption).
    assert (H3 : target_ok c (population P st1)) by (rewrite Hpe; assumption).
    assert (H4 : length bs1 = (Z.to_nat (population P st1) * n_reshuffles c ops)%nat) by (rewrite Hpe; exact Hl1).
    destruct (IH st1 bs1 Hd Hg H2 H3 H4) as [tr Htr].
    exists ((st1, r) :: tr). cbn [run_ops]. rewrite Hs, Htr. reflexivity.
Qed.
End HistoryDefined.

(* ------------------------------------------- statements used by Props *)
Lemma holdout_share_thm : forall (P : Type) c run (st : state P) ds st' ds',
  holdout_init P c run st ds = Some (st', ds') -> run <= 0 ->
  0 <= perc c < 100 -> zlen P (training st) * 100 < two64 ->
  let n := zlen P (training st) in
  zlen P (training st') = Z.max (n * (100 - perc c) / 100) 1
  /\ training st' <> []
  /\ zlen P (validation st') = zlen P (validation st) + (n - zlen P (training st')).
Proof.
  intros P c run st ds st' ds' H Hr Hp Hb n. subst n.
  destruct (holdout_init_spec P c run st ds st' ds' H) as (_ & _ & _ & Hs). specialize (Hs Hr). cbv zeta in Hs.
  destruct Hs as (H1 & H2 & H3).
  rewrite <- (holdout_skip_spec (zlen P (training st)) (perc c) Hp (zlen_nonneg P _) Hb).
  split; [exact H2|]. split; [|rewrite H2; exact H3].
  intro E. rewrite E in H2. unfold zlen in *. cbn [length] in H2. lia.
Qed.

Lemma holdout_defined_thm : forall (P : Type) c (st : state P) ds,
  let n := zlen P (training st) in
  1 <= n -> 0 <= perc c < 100 -> n * 100 < two64 ->
  fy_valid (Z.to_nat (n - holdout_skip n (perc c))) (n - 1) ds ->
  exists st' ds', holdout_init P c 0 st ds = Some (st', ds').
Proof.
  intros P c st ds n Hn Hp Hb Hv. apply holdout_init_progress; auto.
  fold n. pose proof (holdout_skip_le n (perc c) Hp Hn Hb). apply H.
Qed.

Lemma shake_nonempty_both_thm : forall (P : Type) c o (st : state P) ds st' ds' r,
  step P c o st ds = Some (st', ds', r) -> reshuffles c o = true -> target_ok c (population P st) -> 2 <= population P st ->
  training st' <> [] /\ validation st' <> [].
Proof.
  intros P c o st ds st' ds' r H Hre Ht Hp. destruct (step_reshuffles P c o st ds st' ds' r H Hre Ht Hp) as (A & B & _).
  split; assumption.
Qed.

Lemma shake_resets_selected_thm : forall (P : Type) c gen (st : state P) ds st' ds',
  dss_shake P c gen st ds = Some (st', ds', true) ->
  exists sel, training st' = map (reset1 P) sel
    /\ Permutation (validation st' ++ sel) (map (inc_age1 P) (validation st ++ training st))
    /\ Forall (fun e => diff e = 0 /\ age e = 1) (training st').
Proof.
  intros P c gen st ds st' ds' H. destruct (dss_shake_spec P c gen st ds st' ds' true H) as (_ & _ & _ & Ht).
  destruct (Ht eq_refl) as (sel & H1 & H2 & _). exists sel. split; [exact H1|]. split; [exact H2|].
  rewrite H1. apply reset_fresh.
Qed.

Lemma shake_reports_and_clears_thm : forall (P : Type) c gen (st : state P) ds st' ds' r,
  dss_shake P c gen st ds = Some (st', ds', r) ->
  r = (negb (gen =? 0) && (gen mod gap c =? 0))
  /\ (r = true -> clr_t st' = clr_t st + 1 /\ clr_v st' = clr_v st + 1)
  /\ (r = false -> st' = st /\ ds' = ds).
Proof.
  intros P c gen st ds st' ds' r H. destruct (dss_shake_spec P c gen st ds st' ds' r H) as (_ & Hr & Hf & Ht).
  split; [rewrite <- (shake_due_unfold c gen); exact Hr|]. split; [|exact Hf].
  intros E. destruct (Ht E) as (sel & _ & _ & A & B & _). split; assumption.
Qed.

Lemma close_single_set_thm : forall (P : Type) c run (st : state P) ds,
  exists st', dss_close P c run st ds = Some (st', ds)
    /\ training st' = [] /\ validation st' = validation st ++ training st
    /\ clr_t st' = clr_t st + 1 /\ clr_v st' = clr_v st + 1.
Proof. exact dss_close_spec. Qed.

Lemma weight_documented : forall (P : Type) (e : example P),
  weight P e = (diff e + age e * age e * age e) mod two64.
Proof. intros. unfold weight. apply gen_weight_fact. Qed.
