(* C16 -- the binary64 evaluation of target_size (ValidTarget.v) stays in [1, n):
   H_target proved for the code's own arithmetic, for every 2 <= n < 2^53.

   Argument (no error analysis needed, only monotonicity of rounding and
   representable bounds):  ratio = std::min(0.6, x) is a finite double with
   0 <= ratio <= 0.6d <= 2/3 whatever x = 0.2 + 100/(n+100) rounds to;
   n * ratio <= 2n/3 <= n - 1 for n >= 3 and n - 1 is representable, so
   round(n * ratio) <= n - 1; std::max(1.0, .) puts the value in [1, n - 1];
   truncation keeps it there.  n = 2 by computation. *)
From Coq Require Import ZArith Reals Lia Lra Psatz Bool List.
From Flocq Require Import Core IEEE754.BinarySingleNaN.
From VV Require Import Base.F64 Valid.ValidDefs Valid.ValidTarget.
Local Open Scope R_scope.

Notation fexp64 := (SpecFloat.fexp 53 1024).
Notation R53 := (round radix2 fexp64 (round_mode mode_NE)).
Lemma d06_R : B2R d_0_6 = F2R (Float radix2 5404319552844595 (-53)).
Proof. reflexivity. Qed.
Lemma d02_R : B2R d_0_2 = F2R (Float radix2 7205759403792794 (-55)).
Proof. reflexivity. Qed.
Lemma d100_R : B2R d_100 = F2R (Float radix2 7036874417766400 (-46)).
Proof. reflexivity. Qed.
Lemma d1_R : B2R d_1 = F2R (Float radix2 4503599627370496 (-52)).
Proof. reflexivity. Qed.
Lemma d100_fin : is_finite d_100 = true. Proof. reflexivity. Qed.
Lemma d1_fin : is_finite d_1 = true. Proof. reflexivity. Qed.
Lemma d100_val : B2R d_100 = 100.
Proof. rewrite d100_R. unfold F2R. simpl. lra. Qed.
Lemma d1_val : B2R d_1 = 1.
Proof. rewrite d1_R. unfold F2R. simpl. lra. Qed.

(* the regenerated expressions are the ones the proof below is about (they stop being so when
   dss.cc changes a literal or the shape of the expression) *)
Lemma gen_ratio_fact : forall s,
  gen_ratio s = std_min d_0_6 (F64.add d_0_2 (F64.div d_100 (F64.add s d_100))).
Proof. reflexivity. Qed.
Lemma gen_target_size_fact : forall s r, gen_target_size s r = std_max d_1 (F64.mul s r).
Proof. reflexivity. Qed.

Lemma d06_fin : is_finite d_0_6 = true. Proof. reflexivity. Qed.
Lemma d02_fin : is_finite d_0_2 = true. Proof. reflexivity. Qed.

Lemma d06_bounds : 0 < B2R d_0_6 <= 2/3.
Proof. rewrite d06_R. unfold F2R. simpl. lra. Qed.
Lemma d02_bounds : 0 < B2R d_0_2 <= 1.
Proof. rewrite d02_R. unfold F2R. simpl. lra. Qed.

Lemma fmt_int : forall z : Z, (Z.abs z < 2 ^ 53)%Z -> generic_format radix2 fexp64 (IZR z).
Proof.
  intros z Hz. apply (generic_format_FLT radix2 (-1074) 53).
  apply (FLT_spec radix2 (-1074) 53 (IZR z) (Float radix2 z 0)).
  - unfold F2R. simpl. ring.
  - exact Hz.
  - simpl. lia.
Qed.

Lemma rnd_le_fmt : forall a b, a <= b -> generic_format radix2 fexp64 b -> R53 a <= b.
Proof.
  intros a b Hab Hb. rewrite <- (round_generic radix2 fexp64 (round_mode mode_NE) b Hb).
  apply round_le; [apply (fexp_correct 53 1024); reflexivity | apply valid_rnd_round_mode | exact Hab].
Qed.

Lemma rnd_ge_fmt : forall a b, b <= a -> generic_format radix2 fexp64 b -> b <= R53 a.
Proof.
  intros a b Hab Hb. rewrite <- (round_generic radix2 fexp64 (round_mode mode_NE) b Hb).
  apply round_le; [apply (fexp_correct 53 1024); reflexivity | apply valid_rnd_round_mode | exact Hab].
Qed.

Lemma fmt_0 : generic_format radix2 fexp64 0.
Proof. apply generic_format_0. Qed.

Lemma no_ovf : forall x, 0 <= x <= IZR (2 ^ 60) -> Rlt_bool (Rabs x) (bpow radix2 1024) = true.
Proof.
  intros x [H0 H1]. apply Rlt_bool_true. rewrite Rabs_pos_eq by exact H0.
  apply Rle_lt_trans with (1 := H1).
  change (IZR (2 ^ 60)) with (bpow radix2 60). apply bpow_lt. lia.
Qed.

Lemma fmt_B : generic_format radix2 fexp64 (bpow radix2 59).
Proof. apply generic_format_bpow. simpl. unfold SpecFloat.fexp, SpecFloat.emin. lia. Qed.

Lemma B_lt : bpow radix2 59 <= IZR (2 ^ 60).
Proof. change (IZR (2 ^ 60)) with (bpow radix2 60). apply bpow_le. lia. Qed.

Lemma rnd_range : forall a, 0 <= a <= bpow radix2 59 -> 0 <= R53 a <= IZR (2 ^ 60).
Proof.
  intros a [H0 H1]. split.
  - apply rnd_ge_fmt; [exact H0|apply fmt_0].
  - apply Rle_trans with (2 := B_lt). apply rnd_le_fmt; [exact H1|apply fmt_B].
Qed.

Lemma of_Z_ok : forall z, (0 <= z < 2 ^ 53)%Z -> B2R (F64.of_Z z) = IZR z /\ is_finite (F64.of_Z z) = true.
Proof.
  intros z Hz. unfold F64.of_Z.
  pose proof (binary_normalize_correct 53 1024 prec_gt_0_53 prec_lt_emax_53 mode_NE z 0 false) as H.
  cbv zeta in H.
  assert (HF : F2R (Float radix2 z 0) = IZR z) by (unfold F2R; simpl; ring).
  rewrite HF in H.
  rewrite (round_generic radix2 fexp64 (round_mode mode_NE) (IZR z)) in H by (apply fmt_int; lia).
  rewrite no_ovf in H.
  - destruct H as (H1 & H2 & _). split; assumption.
  - split; [apply IZR_le; lia|apply IZR_le; lia].
Qed.

Lemma add_ok : forall x y : f64, is_finite x = true -> is_finite y = true ->
  0 <= B2R x + B2R y <= bpow radix2 59 ->
  B2R (F64.add x y) = R53 (B2R x + B2R y) /\ is_finite (F64.add x y) = true.
Proof.
  intros x y Hx Hy Hr. unfold F64.add.
  pose proof (Bplus_correct 53 1024 prec_gt_0_53 prec_lt_emax_53 mode_NE x y Hx Hy) as H.
  rewrite no_ovf in H by (apply rnd_range; exact Hr).
  destruct H as (H1 & H2 & _). split; assumption.
Qed.

Lemma mul_ok : forall x y : f64, is_finite x = true -> is_finite y = true ->
  0 <= B2R x * B2R y <= bpow radix2 59 ->
  B2R (F64.mul x y) = R53 (B2R x * B2R y) /\ is_finite (F64.mul x y) = true.
Proof.
  intros x y Hx Hy Hr. unfold F64.mul.
  pose proof (Bmult_correct 53 1024 prec_gt_0_53 prec_lt_emax_53 mode_NE x y) as H.
  rewrite no_ovf in H by (apply rnd_range; exact Hr).
  destruct H as (H1 & H2 & _). rewrite Hx, Hy in H2. split; assumption.
Qed.

Lemma div_ok : forall x y : f64, is_finite x = true -> is_finite y = true -> B2R y <> 0 ->
  0 <= B2R x / B2R y <= bpow radix2 59 ->
  B2R (F64.div x y) = R53 (B2R x / B2R y) /\ is_finite (F64.div x y) = true.
Proof.
  intros x y Hx Hy Hy0 Hr. unfold F64.div.
  pose proof (Bdiv_correct 53 1024 prec_gt_0_53 prec_lt_emax_53 mode_NE x y Hy0) as H.
  rewrite no_ovf in H by (apply rnd_range; exact Hr).
  destruct H as (H1 & H2 & _). rewrite Hx in H2. split; assumption.
Qed.

Lemma ltb_R : forall x y : f64, is_finite x = true -> is_finite y = true ->
  F64.ltb x y = Rlt_bool (B2R x) (B2R y).
Proof.
  intros x y Hx Hy. unfold F64.ltb, F64.cmp. rewrite (Bcompare_correct 53 1024 x y Hx Hy).
  unfold Rlt_bool. destruct (Rcompare (B2R x) (B2R y)); reflexivity.
Qed.

Lemma Rlt_bool_true_inv : forall x y, Rlt_bool x y = true -> x < y.
Proof. intros x y H. destruct (Rlt_bool_spec x y); [assumption|discriminate]. Qed.

Lemma trunc_bounds : forall (x : f64) (lo hi : Z), is_finite x = true ->
  IZR lo <= B2R x <= IZR hi -> (1 <= lo)%Z ->
  exists z, F64.to_Z_trunc x = Some z /\ (lo <= z <= hi)%Z.
Proof.
  intros x lo hi Hf [Hlo Hhi] H1.
  assert (Hlo1 : 1 <= IZR lo) by (apply IZR_le; exact H1).
  destruct x as [sg| sg| |sg m e Hb]; try discriminate.
  - cbn [B2R] in Hlo. lra.
  - cbn [B2R] in Hlo, Hhi. unfold F64.to_Z_trunc.
    destruct sg.
    + exfalso. unfold F2R in Hlo. cbn [cond_Zopp Fnum Fexp] in Hlo.
      assert (0 < bpow radix2 e) by apply bpow_gt_0.
      assert (IZR (Z.opp (Z.pos m)) < 0) by (apply IZR_lt; lia). nra.
    + unfold F2R in Hlo, Hhi. cbn [cond_Zopp Fnum Fexp] in Hlo, Hhi.
      destruct (0 <=? e)%Z eqn:Ee.
      * apply Z.leb_le in Ee. eexists; split; [reflexivity|].
        rewrite <- (IZR_Zpower radix2 e Ee) in Hlo, Hhi. rewrite <- mult_IZR in Hlo, Hhi.
        change (Zpower radix2 e) with (2 ^ e)%Z in Hlo, Hhi.
        split; apply le_IZR; assumption.
      * apply Z.leb_gt in Ee. eexists; split; [reflexivity|].
        set (k := (- e)%Z) in *. assert (Hk : (0 <= k)%Z) by (unfold k; lia).
        assert (He : e = (- k)%Z) by (unfold k; lia). rewrite He in Hlo, Hhi.
        rewrite bpow_opp in Hlo, Hhi. rewrite <- (IZR_Zpower radix2 k Hk) in Hlo, Hhi.
        change (Zpower radix2 k) with (2 ^ k)%Z in Hlo, Hhi.
        assert (HD : (0 < 2 ^ k)%Z) by (apply Z.pow_pos_nonneg; lia).
        assert (HDR : 0 < IZR (2 ^ k)) by (apply IZR_lt; exact HD).
        assert (Hq : 0 < / IZR (2 ^ k)) by (apply Rinv_0_lt_compat; exact HDR).
        assert (Hinv : / IZR (2 ^ k) * IZR (2 ^ k) = 1) by (apply Rinv_l; lra).
        assert (A : IZR (lo * 2 ^ k) <= IZR (Z.pos m)) by (rewrite mult_IZR; nra).
        assert (B : IZR (Z.pos m) <= IZR (2 ^ k * hi)) by (rewrite mult_IZR; nra).
        apply le_IZR in A. apply le_IZR in B. split.
        -- apply Z.div_le_lower_bound; lia.
        -- apply Z.div_le_upper_bound; lia.
Qed.

Lemma bpow59 : bpow radix2 59 = 576460752303423488.
Proof. reflexivity. Qed.

Lemma tsz_f64_in_range_ge3 : forall s : Z, (3 <= s < 2 ^ 53)%Z -> (1 <= tsz_f64 s < s)%Z.
Proof.
  intros s Hs. change (2 ^ 53)%Z with 9007199254740992%Z in Hs.
  assert (Hs' : (0 <= s < 2 ^ 53)%Z) by (change (2 ^ 53)%Z with 9007199254740992%Z; lia).
  destruct (of_Z_ok s Hs') as [sdR sdF].
  pose proof d100_val as cR. pose proof d100_fin as cF. pose proof d1_val as oR. pose proof d1_fin as oF.
  set (S := IZR s) in *.
  assert (HS3 : 3 <= S) by (apply IZR_le; lia).
  assert (HS53 : S < 9007199254740992) by (apply IZR_lt; lia).
  (* t1 = s + 100.0 *)
  destruct (add_ok (F64.of_Z s) d_100 sdF cF) as [t1R t1F]; [rewrite sdR, cR, bpow59; lra|].
  rewrite sdR, cR in t1R.
  assert (t1lo : 100 <= B2R (F64.add (F64.of_Z s) d_100)).
  { rewrite t1R. apply rnd_ge_fmt; [lra|apply (fmt_int 100); change (2 ^ 53)%Z with 9007199254740992%Z; lia]. }
  set (t1 := F64.add (F64.of_Z s) d_100) in *.
  (* t2 = 100.0 / t1 *)
  assert (Hq : 0 < / B2R t1) by (apply Rinv_0_lt_compat; lra).
  assert (Hinv : / B2R t1 * B2R t1 = 1) by (apply Rinv_l; lra).
  assert (Hdiv : 0 <= B2R d_100 / B2R t1 <= 1) by (rewrite cR; unfold Rdiv; nra).
  destruct (div_ok d_100 t1 cF t1F) as [t2R t2F]; [lra|rewrite bpow59; lra|].
  assert (t2b : 0 <= B2R (F64.div d_100 t1) <= 1).
  { rewrite t2R. split.
    - apply rnd_ge_fmt; [lra|apply fmt_0].
    - apply rnd_le_fmt; [lra|apply (fmt_int 1); change (2 ^ 53)%Z with 9007199254740992%Z; lia]. }
  set (t2 := F64.div d_100 t1) in *.
  (* t3 = 0.2 + t2 *)
  pose proof d02_bounds as H02. pose proof d06_bounds as H06.
  destruct (add_ok d_0_2 t2 d02_fin t2F) as [t3R t3F]; [rewrite bpow59; lra|].
  assert (t3b : 0 <= B2R (F64.add d_0_2 t2)).
  { rewrite t3R. apply rnd_ge_fmt; [lra|apply fmt_0]. }
  set (t3 := F64.add d_0_2 t2) in *.
  (* ratio = std::min(0.6, t3) *)
  assert (Hr : is_finite (std_min d_0_6 t3) = true /\ 0 <= B2R (std_min d_0_6 t3) <= 2 / 3).
  { unfold std_min. rewrite (ltb_R t3 d_0_6 t3F d06_fin).
    destruct (Rlt_bool (B2R t3) (B2R d_0_6)) eqn:E.
    - apply Rlt_bool_true_inv in E. split; [exact t3F|lra].
    - split; [exact d06_fin|lra]. }
  destruct Hr as [rF rb]. set (r := std_min d_0_6 t3) in *.
  (* y = s * ratio *)
  destruct (mul_ok (F64.of_Z s) r sdF rF) as [yR yF]; [rewrite sdR, bpow59; nra|].
  rewrite sdR in yR.
  assert (yb : 0 <= B2R (F64.mul (F64.of_Z s) r) <= IZR (s - 1)).
  { rewrite yR. split.
    - apply rnd_ge_fmt; [nra|apply fmt_0].
    - apply rnd_le_fmt; [rewrite minus_IZR; fold S; nra|apply fmt_int; change (2 ^ 53)%Z with 9007199254740992%Z; lia]. }
  set (y := F64.mul (F64.of_Z s) r) in *.
  (* target_size = std::max(1.0, y) *)
  assert (Hm : is_finite (std_max d_1 y) = true /\ IZR 1 <= B2R (std_max d_1 y) <= IZR (s - 1)).
  { unfold std_max. rewrite (ltb_R d_1 y oF yF).
    destruct (Rlt_bool (B2R d_1) (B2R y)) eqn:E.
    - apply Rlt_bool_true_inv in E. rewrite oR in E. split; [exact yF|lra].
    - split; [exact oF|]. rewrite oR, minus_IZR. fold S. lra. }
  destruct Hm as [mF mb].
  destruct (trunc_bounds _ 1 (s - 1) mF mb ltac:(lia)) as (z & Hz & Hzb).
  unfold tsz_f64, target_f64. cbv zeta. rewrite gen_ratio_fact, gen_target_size_fact.
  fold t1 t2 t3 r y. rewrite Hz. lia.
Qed.

Theorem tsz_f64_in_range : forall s : Z, (2 <= s < 2 ^ 53)%Z -> (1 <= tsz_f64 s < s)%Z.
Proof.
  intros s Hs. destruct (Z.eq_dec s 2) as [->|Hne].
  - vm_compute. split; [discriminate|reflexivity].
  - apply tsz_f64_in_range_ge3. lia.
Qed.
