(* C16 -- binary64 target_size against its exact rational value, on a range
   (finite check by vm_compute lifted to a quantified statement). *)
From Coq Require Import ZArith List Bool Lia ZifyBool.
From VV Require Import Base.F64 Valid.ValidDefs Valid.ValidProofs Valid.ValidTarget.
Local Open Scope Z_scope.

Fixpoint agree (n : nat) (s : Z) : bool :=
  match n with
  | O => true
  | S k => (tsz_f64 s =? target_q s) && agree k (s + 1)
  end.

Lemma agree_forall : forall n s0, agree n s0 = true ->
  forall s, s0 <= s < s0 + Z.of_nat n -> tsz_f64 s = target_q s.
Proof.
  induction n as [|k IH]; intros s0 H s Hs; [lia|].
  cbn [agree] in H. apply andb_prop in H. destruct H as [H1 H2].
  destruct (Z.eq_dec s s0) as [->|Hne]; [lia|].
  apply (IH (s0 + 1) H2). lia.
Qed.

Definition f64_range : Z := 5000.

Lemma agree_computed : agree (Z.to_nat f64_range) 0 = true.
Proof. vm_compute. reflexivity. Qed.

Lemma tsz_f64_agrees_partial : forall s, 0 <= s < f64_range -> tsz_f64 s = target_q s.
Proof. intros s Hs. apply (agree_forall _ 0 agree_computed). unfold f64_range in *. lia. Qed.

Lemma tsz_f64_in_range_partial : forall s, 2 <= s < f64_range -> 1 <= tsz_f64 s < s.
Proof. intros s Hs. rewrite tsz_f64_agrees_partial by lia. apply target_q_ok. lia. Qed.

(* the non-emptiness theorem instantiated with the binary64 target size *)
Lemma reshuffles_binary64_partial : forall (P : Type) p g ops (st0 : state P) ds tr ds',
  run_ops P (mkCfg p g tsz_f64) ops st0 ds = Some (tr, ds') -> 2 <= population P st0 < f64_range ->
  Forall2 (fun o sr => reshuffles (mkCfg p g tsz_f64) o = true ->
             training (fst sr) <> nil /\ validation (fst sr) <> nil
             /\ Forall (fun e => diff e = 0 /\ age e = 1) (training (fst sr))) ops tr.
Proof.
  intros P p g ops st0 ds tr ds' H Hn.
  apply (run_ops_reshuffles P _ ops st0 ds tr ds' H); [|lia].
  unfold target_ok. cbn [tsz]. apply tsz_f64_in_range_partial. exact Hn.
Qed.
