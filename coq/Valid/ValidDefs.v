(* C16 -- executable model of the two validation strategies of
   kernel/gp/src/holdout_validation.cc and kernel/gp/src/dss.cc, and of the
   slice of src_search::tune_parameters (kernel/gp/src/search.tcc) that gives
   them their parameters.  NO proofs in this file (it must extract even when a
   proof breaks).

   Conventions
   * an example is  {uid; payload; diff; age}: [payload] is opaque (the input
     vector and the output value of dataframe::example), [diff] is the
     std::uintmax_t difficulty (wraps modulo 2^64), [age] the unsigned age
     (wraps modulo 2^32);
   * randomness is an oracle stream of draws consumed in source order:
     [DInt lo hi v] for random::sup / random::between (hook H1 kind 'i'),
     [DBool v] for random::boolean (kind 'b');
   * [None] = the C++ code leaves defined behaviour (iterator past the end,
     division by zero) or the draw stream does not fit the calls made;
   * evaluators are abstracted to their number of clear() calls. *)
From Coq Require Import ZArith List Bool.
From VV Require Export Gen.ValidFacts.
Import ListNotations.
Local Open Scope Z_scope.

(* Gen/ValidFacts.v is regenerated from holdout_validation.cc and dss.cc on every check run
   (translate/valid_facts.py): the skip expression, the early return and the loop header of
   holdout_validation::init, weight(), the guard of dss::shake, the calls made by dss::init /
   shake / close / clear_evaluators and the statement sequence of dss::shake_impl are READ from
   the source; this file interprets them. *)

Inductive draw := DInt (lo hi v : Z) | DBool (v : bool).


(* ------------------------------------------------------------------ lists *)
Section Lists.
Variable A : Type.

Definition set_nth (n : nat) (x : A) (l : list A) : list A :=
  firstn n l ++ x :: skipn (S n) l.

(* std::iter_swap(begin + i, begin + j); None = iterator out of range *)
Definition swap_at (i j : nat) (l : list A) : option (list A) :=
  match nth_error l i, nth_error l j with
  | Some a, Some b => Some (set_nth j a (set_nth i b l))
  | _, _ => None
  end.

Definition take_bool (ds : list draw) : option (bool * list draw) :=
  match ds with DBool b :: ds' => Some (b, ds') | _ => None end.

(* std::partition, libstdc++ bidirectional-iterator algorithm
   (bits/stl_algo.h, __partition(..., bidirectional_iterator_tag)), with the
   predicate of dss::shake_impl:  pred(e) = (random::boolean(prob(e)) == false),
   i.e. one boolean draw per call, pred = negb draw.

   first loop:  while (first != last && pred(first)) ++first;
   [L] = accepted front part, reversed;  [m] = not yet examined *)
Fixpoint scan_front (m L : list A) (ds : list draw) : option (list A * list A * list draw) :=
  match m with
  | [] => Some (L, [], ds)
  | x :: m' =>
      match take_bool ds with
      | None => None
      | Some (b, ds') => if negb b then scan_front m' (x :: L) ds' else Some (L, x :: m', ds')
      end
  end.

(* --last; while (first != last && !pred(last)) --last;
   [rm] = unexamined part reversed (head = element at last), [R] = rejected back part *)
Fixpoint scan_back (rm R : list A) (ds : list draw) : option (option (A * list A) * list A * list draw) :=
  match rm with
  | [] => Some (None, R, ds)
  | y :: rm' =>
      match take_bool ds with
      | None => None
      | Some (b, ds') => if negb b then Some (Some (y, rm'), R, ds') else scan_back rm' (y :: R) ds'
      end
  end.

(* the outer while(true): result = (array, index of the returned iterator, rest of draws) *)
Fixpoint part_loop (fuel : nat) (m L R : list A) (ds : list draw) : option (list A * nat * list draw) :=
  match fuel with
  | O => None
  | S f =>
      match scan_front m L ds with
      | None => None
      | Some (L1, [], ds1) => Some (rev L1 ++ R, length L1, ds1)
      | Some (L1, x :: m1, ds1) =>
          match scan_back (rev m1) R ds1 with
          | None => None
          | Some (None, R1, ds2) => Some (rev L1 ++ x :: R1, length L1, ds2)
          | Some (Some (y, rm2), R1, ds2) =>
              (* iter_swap(first, last); ++first *)
              part_loop f (rev rm2) (y :: L1) (x :: R1) ds2
          end
      end
  end.

Definition partition_bidir (l : list A) (ds : list draw) : option (list A * nat * list draw) :=
  part_loop (S (length l)) l [] [] ds.
End Lists.
Arguments set_nth {A}. Arguments swap_at {A}. Arguments scan_front {A}. Arguments scan_back {A}.
Arguments part_loop {A}. Arguments partition_bidir {A}.

(* --------------------------------------------------------------- examples *)
Section Model.
Variable P : Type.                      (* opaque payload *)

Record example := mkEx { uid : Z; payload : P; diff : Z; age : Z }.

Record state := mkSt { training : list example; validation : list example;
                       clr_t : Z; clr_v : Z }.   (* clear() calls seen by the two evaluators *)

(* raw contents of env.validation_percentage / env.dss ([sentinel] = left open) and the
   value of static_cast<ptrdiff_t>(target_size) in shake_impl as a function of the size *)
Record config := mkCfg { perc : Z; gap : Z; tsz : Z -> Z }.

Definition zlen (l : list example) : Z := Z.of_nat (length l).

(* ------------------------------------------------ holdout_validation::init *)
(* const auto skip(...): regenerated; on the pinned tree
     std::max<size_t>(available * (100 - perc) / 100, 1)
   with 100 - perc computed in unsigned (32 bit) and the product in size_t (64 bit) *)
Definition holdout_skip (available p : Z) : Z := gen_holdout_skip available p.

(* for (i = available - 1; i >= skip; --i) iter_swap(begin + i, begin + sup(i + 1)) *)
Fixpoint fy_loop (cnt : nat) (i : Z) (l : list example) (ds : list draw) : option (list example * list draw) :=
  match cnt with
  | O => Some (l, ds)
  | S c =>
      match ds with
      | DInt lo hi v :: ds' =>
          if (lo =? 0) && (hi =? i + 1) && (0 <=? v) && (v <? hi) then
            match swap_at (Z.to_nat i) (Z.to_nat v) l with
            | Some l' => fy_loop c (i - 1) l' ds'
            | None => None
            end
          else None
      | _ => None
      end
  end.

(* the loop header (first index, number of iterations, whether the unsigned index wraps when
   skip = 0) and the early return are regenerated; index arithmetic of the header is in plain Z:
   an index outside the array is an error outcome whether or not it wrapped *)
(* the statements after the loop: schema-only steps (clone_schema copies columns and class map,
   the examples are untouched) are the identity on this state; what remains must be
   "copy the tail to validation, erase it from training", which is what the last branch models *)
Definition tail_tok_eqb (a b : tail_tok) : bool :=
  match a, b with
  | TCloneSchema, TCloneSchema | TCopyTail, TCopyTail | TEraseTail, TEraseTail => true
  | _, _ => false
  end.
Fixpoint tail_eqb (a b : list tail_tok) : bool :=
  match a, b with
  | [], [] => true
  | x :: a', y :: b' => tail_tok_eqb x y && tail_eqb a' b'
  | _, _ => false
  end.
Definition holdout_tail_ok : bool :=
  tail_eqb (filter (fun t => negb (tail_tok_eqb t TCloneSchema)) gen_holdout_tail) [TCopyTail; TEraseTail].

Definition holdout_init (c : config) (run : Z) (st : state) (ds : list draw) : option (state * list draw) :=
  if gen_holdout_early_return run then Some (st, ds)
  else if negb holdout_tail_ok then None              (* the source is no longer the modelled one *)
  else
    let available := zlen (training st) in
    let skip := holdout_skip available (perc c) in
    let first := gen_fy_first available in
    let cnt := gen_fy_count available skip in
    if (0 <? cnt) && ((first <? 0) || (available <=? first)) then None   (* begin + i outside the array *)
    else if gen_fy_wraps && (skip =? 0) then None     (* i >= 0 is never false: the index wraps *)
    else if (skip <? 0) || (available <? skip) then None   (* std::next(begin, skip) past the end *)
    else
      match fy_loop (Z.to_nat cnt) first (training st) ds with
      | None => None
      | Some (l, ds') =>
          Some (mkSt (firstn (Z.to_nat skip) l)
                     (validation st ++ skipn (Z.to_nat skip) l)
                     (clr_t st) (clr_v st), ds')
      end.

(* --------------------------------------------------------------------- dss *)
Definition reset1 (e : example) : example := mkEx (uid e) (payload e) 0 1.
Definition reset_age_difficulty (l : list example) : list example := map reset1 l.
Definition inc_age1 (e : example) : example := mkEx (uid e) (payload e) (diff e) ((age e + 1) mod two32).

(* weight(): regenerated (uintmax_t arithmetic) *)
Definition weight (e : example) : Z := gen_weight (diff e) (age e).
Definition weight_sum (l : list example) : Z := fold_left (fun s e => (s + weight e) mod two64) l 0.

Definition clear_t (st : state) : state := mkSt (training st) (validation st) (clr_t st + 1) (clr_v st).
Definition clear_v (st : state) : state := mkSt (training st) (validation st) (clr_t st) (clr_v st + 1).

(* dss::move_to_validation: the regenerated statement sequence, interpreted (clone_schema is
   the identity on the examples) *)
Fixpoint run_move (l : list move_tok) (st : state) : state :=
  match l with
  | [] => st
  | MCloneSchema :: l' => run_move l' st
  | MMoveAll :: l' => run_move l' (mkSt (training st) (validation st ++ training st) (clr_t st) (clr_v st))
  | MClearTraining :: l' => run_move l' (mkSt [] (validation st) (clr_t st) (clr_v st))
  end.
Definition move_to_validation (st : state) : state := run_move gen_move_steps st.

Definition tok_eqb (a b : shape_tok) : bool :=
  match a, b with
  | SMoveAll, SMoveAll | SPartition, SPartition | SFallback, SFallback | SMoveSelected, SMoveSelected
  | SEraseSelected, SEraseSelected | SResetTraining, SResetTraining => true
  | _, _ => false
  end.
Fixpoint shape_eqb (a b : list shape_tok) : bool :=
  match a, b with
  | [], [] => true
  | x :: a', y :: b' => tok_eqb x y && shape_eqb a' b'
  | _, _ => false
  end.
(* the statement sequence of dss::shake_impl this model is a model of *)
Definition modelled_shape : list shape_tok :=
  [SMoveAll; SPartition; SFallback; SMoveSelected; SEraseSelected; SResetTraining].

Definition shake_impl (c : config) (st : state) (ds : list draw) : option (state * list draw) :=
  if negb (shape_eqb gen_shake_impl_shape modelled_shape) then None   (* the source is no longer the modelled one *)
  else
  let st1 := move_to_validation st in
  let v := validation st1 in
  let s := zlen v in
  match partition_bidir v ds with
  | None => None
  | Some (arr, p, ds') =>
      let pivot := if (p =? 0)%nat || (Z.of_nat p =? s) then tsz c s else Z.of_nat p in
      if (pivot <? 0) || (s <? pivot) then None       (* std::next(begin, target_size) out of range *)
      else
        Some (mkSt (reset_age_difficulty (training st1 ++ skipn (Z.to_nat pivot) arr))
                   (firstn (Z.to_nat pivot) arr)
                   (clr_t st) (clr_v st), ds')
  end.

(* interpreter of the regenerated call sequences; [arg] is the unsigned argument of the member *)
Fixpoint run_clear_steps (l : list gstep) (st : state) : option state :=
  match l with
  | [] => Some st
  | GClearT :: l' => run_clear_steps l' (clear_t st)
  | GClearV :: l' => run_clear_steps l' (clear_v st)
  | _ :: _ => None
  end.

Fixpoint run_gstep (c : config) (arg : Z) (s : gstep) (st : state) (ds : list draw) : option (state * list draw) :=
  match s with
  | GResetT => Some (mkSt (reset_age_difficulty (training st)) (validation st) (clr_t st) (clr_v st), ds)
  | GResetV => Some (mkSt (training st) (reset_age_difficulty (validation st)) (clr_t st) (clr_v st), ds)
  | GIncAgeT => Some (mkSt (map inc_age1 (training st)) (validation st) (clr_t st) (clr_v st), ds)
  | GIncAgeV => Some (mkSt (training st) (map inc_age1 (validation st)) (clr_t st) (clr_v st), ds)
  | GShakeImpl => shake_impl c st ds
  | GClearBoth => match run_clear_steps gen_clear_steps st with Some st' => Some (st', ds) | None => None end
  | GClearT => Some (clear_t st, ds)
  | GClearV => Some (clear_v st, ds)
  | GMoveToValidation => Some (move_to_validation st, ds)
  | GIf cond s' => if cond arg then run_gstep c arg s' st ds else Some (st, ds)
  end.

Fixpoint run_gsteps (c : config) (arg : Z) (l : list gstep) (st : state) (ds : list draw) : option (state * list draw) :=
  match l with
  | [] => Some (st, ds)
  | s :: l' => match run_gstep c arg s st ds with
               | None => None
               | Some (st1, ds1) => run_gsteps c arg l' st1 ds1
               end
  end.

Definition clear_evaluators (st : state) : state :=
  mkSt (training st) (validation st) (clr_t st + 1) (clr_v st + 1).

Definition dss_init (c : config) (run : Z) (st : state) (ds : list draw) : option (state * list draw) :=
  run_gsteps c run gen_init_steps st ds.

(* the guard of dss::shake (regenerated): true = return false without touching anything *)
Definition shake_due (c : config) (gen : Z) : bool := negb (gen_shake_skips gen (gap c)).

Definition dss_shake (c : config) (gen : Z) (st : state) (ds : list draw) : option (state * list draw * bool) :=
  if gap c =? 0 then None                              (* generation % 0 *)
  else if negb (shake_due c gen) then Some (st, ds, false)
  else
    match run_gsteps c gen gen_shake_steps st ds with
    | None => None
    | Some (st1, ds') => Some (st1, ds', true)
    end.

Definition dss_close (c : config) (run : Z) (st : state) (ds : list draw) : option (state * list draw) :=
  run_gsteps c run gen_close_steps st ds.

(* evaluations between the calls: every example's difficulty grows by an
   arbitrary amount (f for the training set, g for the validation set) *)
Definition bump (f : Z -> Z) (e : example) : example :=
  mkEx (uid e) (payload e) ((diff e + f (uid e)) mod two64) (age e).
Definition eval_step (f g : Z -> Z) (st : state) : state :=
  mkSt (map (bump f) (training st)) (map (bump g) (validation st)) (clr_t st) (clr_v st).

(* --------------------------------------------------------------- histories *)
Inductive op :=
| HoldoutInit (run : Z)
| DssInit (run : Z)
| DssShake (gen : Z)
| DssClose (run : Z)
| Eval (f g : Z -> Z).

(* result of a call: the value returned by shake, if the call is a shake *)
Definition step (c : config) (o : op) (st : state) (ds : list draw) : option (state * list draw * option bool) :=
  match o with
  | HoldoutInit r => match holdout_init c r st ds with Some (s, d) => Some (s, d, None) | None => None end
  | DssInit r => match dss_init c r st ds with Some (s, d) => Some (s, d, None) | None => None end
  | DssShake g => match dss_shake c g st ds with Some (s, d, b) => Some (s, d, Some b) | None => None end
  | DssClose r => match dss_close c r st ds with Some (s, d) => Some (s, d, None) | None => None end
  | Eval f g => Some (eval_step f g st, ds, None)
  end.

(* the whole history: the state (and result) after every call *)
Fixpoint run_ops (c : config) (ops : list op) (st : state) (ds : list draw)
  : option (list (state * option bool) * list draw) :=
  match ops with
  | [] => Some ([], ds)
  | o :: ops' =>
      match step c o st ds with
      | None => None
      | Some (st1, ds1, r) =>
          match run_ops c ops' st1 ds1 with
          | None => None
          | Some (tr, ds2) => Some ((st1, r) :: tr, ds2)
          end
      end
  end.

(* what the property talks about: identity and payload of the examples held by the two sets *)
Definition ident (e : example) : Z * P := (uid e, payload e).
Definition idents (st : state) : list (Z * P) := map ident (training st ++ validation st).
Definition population (st : state) : Z := zlen (training st) + zlen (validation st).

(* does this call reshuffle the sets? *)
Definition reshuffles (c : config) (o : op) : bool :=
  match o with DssInit _ => true | DssShake g => shake_due c g | _ => false end.
End Model.

Arguments mkEx {P}. Arguments uid {P}. Arguments payload {P}. Arguments diff {P}. Arguments age {P}.
Arguments mkSt {P}. Arguments training {P}. Arguments validation {P}. Arguments clr_t {P}. Arguments clr_v {P}.

(* ----------------------------------------------- target_size of shake_impl *)
(* const double ratio(std::min(0.6, 0.2 + 100.0 / (s + 100.0)));
   const double target_size(std::max(1.0, s * ratio));   ... static_cast<ptrdiff_t>(target_size)
   in exact rational arithmetic: floor(min(3s/5, s/5 + 100s/(s+100))), at least 1 *)
Definition target_q (s : Z) : Z :=
  Z.max 1 (Z.min (3 * s / 5) ((s * s + 600 * s) / (5 * (s + 100)))).

(* ------------------- src_search::tune_parameters, validation parameters only *)
Inductive vs_kind := VsAsIs | VsDss | VsHoldout.
Definition vs_eqb (a b : vs_kind) : bool :=
  match a, b with VsAsIs, VsAsIs | VsDss, VsDss | VsHoldout, VsHoldout => true | _, _ => false end.
Definition dflt_dss : Z := gen_dflt_dss.          (* environment::init(), regenerated *)
Definition dflt_perc : Z := gen_dflt_perc.

(* [same_type vs k] models the typeid comparison, [opened u] the test "left open by the user" *)
Definition tune_validation (opened_d opened_p : Z -> bool) (same_type : vs_kind -> vs_kind -> bool)
  (dd dp : Z) (vs : vs_kind) (user_dss user_perc : Z) : Z * Z :=
  ((if opened_d user_dss && same_type vs VsDss then dd else user_dss),
   (if opened_p user_perc && same_type vs VsHoldout then dp else user_perc)).
(* the tree under test: guards, kind of typeid comparison and defaults are regenerated from
   search.tcc / environment.cc (repaired tree: !has_value(), typeid( *this->vs_ )) *)
Definition tune_fixed (vs : vs_kind) (user_dss user_perc : Z) : Z * Z :=
  ((if gen_tune_dss_open user_dss && (gen_tune_dss_dynamic_typeid && vs_eqb vs VsDss) then dflt_dss else user_dss),
   (if gen_tune_perc_open user_perc && (gen_tune_perc_dynamic_typeid && vs_eqb vs VsHoldout) then dflt_perc
    else user_perc)).
(* pinned tree: typeid(this->vs_.get()) == typeid(K) compares the type
   `validation_strategy *` with a class type: never equal *)
Definition tune_pinned := tune_validation (fun u => u =? sentinel) (fun u => u =? sentinel) (fun _ _ => false) 1 20.
