(* C16 -- the generic theorems of ValidProofs.v instantiated with the binary64 target size *)
From Coq Require Import ZArith Lia List.
From VV Require Import Base.F64 Valid.ValidDefs Valid.ValidProofs Valid.ValidTarget Valid.ValidTargetProofs.

Local Open Scope Z_scope.

(* the non-emptiness and definedness theorems instantiated with the code's arithmetic *)
Lemma reshuffles_binary64 : forall (P : Type) p g ops (st0 : state P) ds tr ds',
  run_ops P (mkCfg p g tsz_f64) ops st0 ds = Some (tr, ds') -> 2 <= population P st0 < 2 ^ 53 ->
  Forall2 (fun o sr => reshuffles (mkCfg p g tsz_f64) o = true ->
             training (fst sr) <> nil /\ validation (fst sr) <> nil
             /\ Forall (fun e => diff e = 0 /\ age e = 1) (training (fst sr))) ops tr.
Proof.
  intros P p g ops st0 ds tr ds' H Hn.
  apply (run_ops_reshuffles P _ ops st0 ds tr ds' H); [|lia].
  unfold target_ok. cbn [tsz]. apply tsz_f64_in_range. exact Hn.
Qed.

Lemma dss_history_defined_binary64 : forall (P : Type) p g ops (st : state P) bs,
  forallb is_dss_op ops = true -> g <> 0 -> 2 <= population P st < 2 ^ 53 ->
  length bs = (Z.to_nat (population P st) * n_reshuffles (mkCfg p g tsz_f64) ops)%nat ->
  exists tr, run_ops P (mkCfg p g tsz_f64) ops st (map DBool bs) = Some (tr, nil).
Proof.
  intros P p g ops st bs Hd Hg Hn Hl.
  apply (dss_history_defined P (mkCfg p g tsz_f64) ops st bs Hd); [exact Hg|lia| |exact Hl].
  unfold target_ok. cbn [tsz]. apply tsz_f64_in_range. exact Hn.
Qed.
