(* C16 -- the binary64 evaluation of target_size in dss::shake_impl:
     const auto s(static_cast<double>(validation_.size()));
     const double ratio(std::min(0.6, 0.2 + 100.0 / (s + 100.0)));
     const double target_size(std::max(1.0, s * ratio));
     ... static_cast<std::ptrdiff_t>(target_size)
   Definitions only (extracted); the comparison with the exact rational value
   [target_q] is in ValidTargetProofs.v. *)
From Coq Require Import ZArith.
From VV Require Import Base.F64 Valid.ValidDefs.
Local Open Scope Z_scope.

Definition d_0_6 : f64 := F64.of_bits 4603579539098121011.   (* 0x3FE3333333333333 *)
Definition d_0_2 : f64 := F64.of_bits 4596373779694328218.   (* 0x3FC999999999999A *)
Definition d_100 : f64 := F64.of_Z 100.
Definition d_1 : f64 := F64.of_Z 1.

(* std::min(a, b) = (b < a) ? b : a ;  std::max(a, b) = (a < b) ? b : a *)
Definition std_min (a b : f64) : f64 := if F64.ltb b a then b else a.
Definition std_max (a b : f64) : f64 := if F64.ltb a b then b else a.

Definition target_f64 (s : Z) : option Z :=
  let sd := F64.of_Z s in
  let ratio := std_min d_0_6 (F64.add d_0_2 (F64.div d_100 (F64.add sd d_100))) in
  F64.to_Z_trunc (std_max d_1 (F64.mul sd ratio)).

(* as the [tsz] component of a configuration: -1 (an error outcome of shake_impl)
   when the conversion is undefined *)
Definition tsz_f64 (s : Z) : Z := match target_f64 s with Some z => z | None => -1 end.
