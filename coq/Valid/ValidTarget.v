(* C16 -- the binary64 evaluation of target_size in dss::shake_impl:
     const auto s(static_cast<double>(validation_.size()));
     const double ratio(std::min(0.6, 0.2 + 100.0 / (s + 100.0)));
     const double target_size(std::max(1.0, s * ratio));
     ... static_cast<std::ptrdiff_t>(target_size)
   The two expressions are REGENERATED from dss.cc on every check run
   (Gen/ValidTargetFacts.v: gen_ratio, gen_target_size); this file only adds the
   conversions.  Definitions only (extracted); proofs in ValidTargetProofs.v. *)
From Coq Require Import ZArith.
From VV Require Import Base.F64 Valid.ValidDefs.
From VV Require Export Gen.ValidTargetFacts.
Local Open Scope Z_scope.

(* the literals of the pinned source, as bit patterns (used by the proofs) *)
Definition d_0_6 : f64 := F64.of_bits 4603579539098121011.   (* 0x3FE3333333333333 *)
Definition d_0_2 : f64 := F64.of_bits 4596373779694328218.   (* 0x3FC999999999999A *)
Definition d_100 : f64 := F64.of_bits 4636737291354636288.   (* 0x4059000000000000 *)
Definition d_1 : f64 := F64.of_bits 4607182418800017408.     (* 0x3FF0000000000000 *)

Definition target_f64 (s : Z) : option Z :=
  let sd := F64.of_Z s in
  F64.to_Z_trunc (gen_target_size sd (gen_ratio sd)).

(* as the [tsz] component of a configuration: -1 (an error outcome of shake_impl)
   when the conversion is undefined *)
Definition tsz_f64 (s : Z) : Z := match target_f64 s with Some z => z | None => -1 end.
