(* An order embedding of the non-NaN binary64 values into Z.

   [key x] is 0 for both zeros, +-((e + 1075) * 2^53 + m) for a finite
   non-zero double with mantissa m and exponent e, and +-2^64 for the
   infinities.  [cmp_key] shows that Flocq's comparison [Bcompare]
   (= F64.cmp, the model of the C++ operators <, ==, > on double) is the
   comparison of the keys; it is proved from the structural definition of
   SFcompare and the [bounded] invariant carried by every finite value, without
   any appeal to the real numbers.  Every order law about doubles then is a
   fact about Z. *)
From Coq Require Import ZArith Bool Lia.
From Flocq Require Import IEEE754.BinarySingleNaN.
From VV Require Import Base.F64.
Local Open Scope Z_scope.

Definition nonan (x : f64) : Prop := F64.is_nan x = false.

Definition mag (m : positive) (e : Z) : Z := (e + 1075) * 2 ^ 53 + Zpos m.

Definition key (x : f64) : Z :=
  match x with
  | B754_zero _ => 0
  | B754_infinity s => if s then - 2 ^ 64 else 2 ^ 64
  | B754_nan => 0
  | B754_finite s m e _ => if s then - mag m e else mag m e
  end.

Lemma digits2_pos_bound : forall m : positive,
  Zpos m < 2 ^ Zpos (SpecFloat.digits2_pos m).
Proof.
  induction m as [m IH|m IH|]; cbn [SpecFloat.digits2_pos].
  - rewrite Pos2Z.inj_succ, Z.pow_succ_r by lia. lia.
  - rewrite Pos2Z.inj_succ, Z.pow_succ_r by lia. lia.
  - reflexivity.
Qed.

(* what [bounded] says about the mantissa and the exponent of a double *)
Lemma bounded_53 : forall m e, SpecFloat.bounded 53 1024 m e = true ->
  Zpos m < 2 ^ 53 /\ -1074 <= e <= 971.
Proof.
  intros m e Hb. unfold SpecFloat.bounded in Hb.
  apply andb_true_iff in Hb. destruct Hb as [Hc He].
  apply Zle_bool_imp_le in He.
  unfold SpecFloat.canonical_mantissa in Hc. apply Zeq_bool_eq in Hc.
  unfold SpecFloat.fexp, SpecFloat.emin in Hc.
  pose proof (digits2_pos_bound m) as Hd.
  assert (Hle : Zpos (SpecFloat.digits2_pos m) <= 53) by lia.
  split; [|lia].
  eapply Z.lt_le_trans; [exact Hd|]. apply Z.pow_le_mono_r; lia.
Qed.

Lemma mag_bounds : forall m e, SpecFloat.bounded 53 1024 m e = true ->
  0 < mag m e < 2 ^ 64.
Proof.
  intros m e Hb. apply bounded_53 in Hb. unfold mag.
  change (2 ^ 64) with (2048 * 2 ^ 53). nia.
Qed.

Lemma mag_compare : forall m1 e1 m2 e2,
  SpecFloat.bounded 53 1024 m1 e1 = true -> SpecFloat.bounded 53 1024 m2 e2 = true ->
  (mag m1 e1 ?= mag m2 e2) =
  match e1 ?= e2 with Lt => Lt | Gt => Gt | Eq => Pos.compare_cont Eq m1 m2 end.
Proof.
  intros m1 e1 m2 e2 H1 H2. apply bounded_53 in H1. apply bounded_53 in H2.
  unfold mag. destruct (Z.compare_spec e1 e2) as [He|He|He].
  - subst e2. change (Pos.compare_cont Eq m1 m2) with (Zpos m1 ?= Zpos m2).
    rewrite Z.add_compare_mono_l. reflexivity.
  - apply Z.compare_lt_iff. nia.
  - apply Z.compare_gt_iff. nia.
Qed.

Lemma compare_opp_opp : forall a b, (- a ?= - b) = CompOpp (a ?= b).
Proof. intros a b. rewrite Z.compare_opp. apply Z.compare_antisym. Qed.

(* the embedding *)
Theorem cmp_key : forall x y, nonan x -> nonan y ->
  F64.cmp x y = Some (key x ?= key y).
Proof.
  intros x y Hx Hy. unfold F64.cmp, Bcompare.
  destruct x as [sx|sx| |sx mx ex Bx]; try discriminate Hx;
  destruct y as [sy|sy| |sy my ey By]; try discriminate Hy;
  cbn [B2SF SpecFloat.SFcompare key].
  - reflexivity.
  - destruct sy; reflexivity.
  - pose proof (mag_bounds _ _ By) as M. destruct sy; f_equal; symmetry.
    + apply Z.compare_gt_iff; lia.
    + apply Z.compare_lt_iff; lia.
  - destruct sx; reflexivity.
  - destruct sx, sy; reflexivity.
  - pose proof (mag_bounds _ _ By) as M.
    destruct sx, sy; f_equal; symmetry;
      (apply Z.compare_lt_iff; lia) || (apply Z.compare_gt_iff; lia).
  - pose proof (mag_bounds _ _ Bx) as M. destruct sx; f_equal; symmetry.
    + apply Z.compare_lt_iff; lia.
    + apply Z.compare_gt_iff; lia.
  - pose proof (mag_bounds _ _ Bx) as M.
    destruct sx, sy; f_equal; symmetry;
      (apply Z.compare_lt_iff; lia) || (apply Z.compare_gt_iff; lia).
  - pose proof (mag_bounds _ _ Bx) as M1. pose proof (mag_bounds _ _ By) as M2.
    destruct sx, sy; f_equal.
    + rewrite compare_opp_opp, (mag_compare _ _ _ _ Bx By).
      destruct (ex ?= ey); reflexivity.
    + symmetry; apply Z.compare_lt_iff; lia.
    + symmetry; apply Z.compare_gt_iff; lia.
    + rewrite (mag_compare _ _ _ _ Bx By). reflexivity.
Qed.

Lemma ltb_key : forall x y, nonan x -> nonan y -> F64.ltb x y = (key x <? key y).
Proof.
  intros x y Hx Hy. unfold F64.ltb. rewrite (cmp_key x y Hx Hy).
  unfold Z.ltb. destruct (key x ?= key y); reflexivity.
Qed.

Lemma eqb_key : forall x y, nonan x -> nonan y -> F64.eqb x y = (key x =? key y).
Proof.
  intros x y Hx Hy. unfold F64.eqb. rewrite (cmp_key x y Hx Hy).
  rewrite Z.eqb_compare. destruct (key x ?= key y); reflexivity.
Qed.

Lemma leb_key : forall x y, nonan x -> nonan y -> F64.leb x y = (key x <=? key y).
Proof.
  intros x y Hx Hy. unfold F64.leb. rewrite (cmp_key x y Hx Hy).
  unfold Z.leb. destruct (key x ?= key y); reflexivity.
Qed.

Lemma gtb_key : forall x y, nonan x -> nonan y -> F64.gtb x y = (key y <? key x).
Proof. intros. unfold F64.gtb. apply ltb_key; assumption. Qed.

Lemma geb_key : forall x y, nonan x -> nonan y -> F64.geb x y = (key y <=? key x).
Proof. intros. unfold F64.geb. apply leb_key; assumption. Qed.

(* ------------------------------------------------------------------ *)
(* Interface for importers (names are stable).

   [nonan x]                 x is not a NaN
   [key x : Z]               the order embedding (both zeros -> 0)
   [cmp_key]                 F64.cmp x y = Some (key x ?= key y)
   [ltb_key leb_key eqb_key gtb_key geb_key]      boolean comparisons as Z comparisons
   [key_lt_iff key_le_iff key_eq_iff]             the same as propositions
   [ltb_irrefl ltb_asym ltb_trans ltb_total leb_trans leb_total leb_antisym
    eqb_refl eqb_sym eqb_trans ltb_leb_trans leb_ltb_trans ltb_negb_geb]
                              the order laws of non-NaN doubles
   [ltb_irrefl_any ltb_asym_any ltb_trans_any eqb_sym_any]
                              what holds for ALL doubles, NaN included
   [cmp_nan_l cmp_nan_r]     comparisons with a NaN are all false
   Typical use:  rewrite (ltb_key x y Hx Hy) in *; lia.                 *)

Lemma key_lt_iff : forall x y, nonan x -> nonan y -> (F64.ltb x y = true <-> key x < key y).
Proof. intros x y Hx Hy. rewrite (ltb_key x y Hx Hy). apply Z.ltb_lt. Qed.

Lemma key_le_iff : forall x y, nonan x -> nonan y -> (F64.leb x y = true <-> key x <= key y).
Proof. intros x y Hx Hy. rewrite (leb_key x y Hx Hy). apply Z.leb_le. Qed.

Lemma key_eq_iff : forall x y, nonan x -> nonan y -> (F64.eqb x y = true <-> key x = key y).
Proof. intros x y Hx Hy. rewrite (eqb_key x y Hx Hy). apply Z.eqb_eq. Qed.

Lemma ltb_irrefl : forall x, nonan x -> F64.ltb x x = false.
Proof. intros x Hx. rewrite (ltb_key x x Hx Hx). apply Z.ltb_irrefl. Qed.

Lemma ltb_asym : forall x y, nonan x -> nonan y -> F64.ltb x y = true -> F64.ltb y x = false.
Proof.
  intros x y Hx Hy. rewrite (ltb_key x y Hx Hy), (ltb_key y x Hy Hx).
  intro H. apply Z.ltb_lt in H. apply Z.ltb_ge. lia.
Qed.

Lemma ltb_trans : forall x y z, nonan x -> nonan y -> nonan z ->
  F64.ltb x y = true -> F64.ltb y z = true -> F64.ltb x z = true.
Proof.
  intros x y z Hx Hy Hz. rewrite (ltb_key x y Hx Hy), (ltb_key y z Hy Hz), (ltb_key x z Hx Hz).
  intros H1 H2. apply Z.ltb_lt in H1. apply Z.ltb_lt in H2. apply Z.ltb_lt. lia.
Qed.

(* totality: neither smaller means equal *)
Lemma ltb_total : forall x y, nonan x -> nonan y ->
  F64.ltb x y = false -> F64.ltb y x = false -> F64.eqb x y = true.
Proof.
  intros x y Hx Hy. rewrite (ltb_key x y Hx Hy), (ltb_key y x Hy Hx), (eqb_key x y Hx Hy).
  intros H1 H2. apply Z.ltb_ge in H1. apply Z.ltb_ge in H2. apply Z.eqb_eq. lia.
Qed.

Lemma leb_trans : forall x y z, nonan x -> nonan y -> nonan z ->
  F64.leb x y = true -> F64.leb y z = true -> F64.leb x z = true.
Proof.
  intros x y z Hx Hy Hz. rewrite (leb_key x y Hx Hy), (leb_key y z Hy Hz), (leb_key x z Hx Hz).
  intros H1 H2. apply Z.leb_le in H1. apply Z.leb_le in H2. apply Z.leb_le. lia.
Qed.

Lemma leb_total : forall x y, nonan x -> nonan y -> F64.leb x y = true \/ F64.leb y x = true.
Proof.
  intros x y Hx Hy. rewrite (leb_key x y Hx Hy), (leb_key y x Hy Hx).
  destruct (Z.le_ge_cases (key x) (key y)); [left|right]; apply Z.leb_le; assumption.
Qed.

Lemma leb_antisym : forall x y, nonan x -> nonan y ->
  F64.leb x y = true -> F64.leb y x = true -> F64.eqb x y = true.
Proof.
  intros x y Hx Hy. rewrite (leb_key x y Hx Hy), (leb_key y x Hy Hx), (eqb_key x y Hx Hy).
  intros H1 H2. apply Z.leb_le in H1. apply Z.leb_le in H2. apply Z.eqb_eq. lia.
Qed.

Lemma ltb_leb_trans : forall x y z, nonan x -> nonan y -> nonan z ->
  F64.ltb x y = true -> F64.leb y z = true -> F64.ltb x z = true.
Proof.
  intros x y z Hx Hy Hz. rewrite (ltb_key x y Hx Hy), (leb_key y z Hy Hz), (ltb_key x z Hx Hz).
  intros H1 H2. apply Z.ltb_lt in H1. apply Z.leb_le in H2. apply Z.ltb_lt. lia.
Qed.

Lemma leb_ltb_trans : forall x y z, nonan x -> nonan y -> nonan z ->
  F64.leb x y = true -> F64.ltb y z = true -> F64.ltb x z = true.
Proof.
  intros x y z Hx Hy Hz. rewrite (leb_key x y Hx Hy), (ltb_key y z Hy Hz), (ltb_key x z Hx Hz).
  intros H1 H2. apply Z.leb_le in H1. apply Z.ltb_lt in H2. apply Z.ltb_lt. lia.
Qed.

Lemma ltb_negb_geb : forall x y, nonan x -> nonan y -> F64.ltb x y = negb (F64.geb x y).
Proof.
  intros x y Hx Hy. rewrite (ltb_key x y Hx Hy), (geb_key x y Hx Hy). apply Z.ltb_antisym.
Qed.

Lemma eqb_refl : forall x, nonan x -> F64.eqb x x = true.
Proof. intros x Hx. rewrite (eqb_key x x Hx Hx). apply Z.eqb_refl. Qed.

Lemma eqb_sym : forall x y, nonan x -> nonan y -> F64.eqb x y = F64.eqb y x.
Proof. intros x y Hx Hy. rewrite (eqb_key x y Hx Hy), (eqb_key y x Hy Hx). apply Z.eqb_sym. Qed.

Lemma eqb_trans : forall x y z, nonan x -> nonan y -> nonan z ->
  F64.eqb x y = true -> F64.eqb y z = true -> F64.eqb x z = true.
Proof.
  intros x y z Hx Hy Hz. rewrite (eqb_key x y Hx Hy), (eqb_key y z Hy Hz), (eqb_key x z Hx Hz).
  intros H1 H2. apply Z.eqb_eq in H1. apply Z.eqb_eq in H2. apply Z.eqb_eq. lia.
Qed.

(* ---- with NaN: every comparison that involves a NaN is false *)
Lemma nonan_dec : forall x : f64, {nonan x} + {x = B754_nan}.
Proof. intros [s|s| |s m e B]; try (left; reflexivity). right; reflexivity. Qed.

Lemma cmp_nan_l : forall y, F64.cmp B754_nan y = None.
Proof. reflexivity. Qed.

Lemma cmp_nan_r : forall x, F64.cmp x B754_nan = None.
Proof. intros [s|s| |s m e B]; reflexivity. Qed.

Lemma ltb_nan_l : forall y, F64.ltb B754_nan y = false.
Proof. reflexivity. Qed.

Lemma ltb_nan_r : forall x, F64.ltb x B754_nan = false.
Proof. intros x. unfold F64.ltb. rewrite cmp_nan_r. reflexivity. Qed.

Lemma eqb_nan_l : forall y, F64.eqb B754_nan y = false.
Proof. reflexivity. Qed.

Lemma eqb_nan_r : forall x, F64.eqb x B754_nan = false.
Proof. intros x. unfold F64.eqb. rewrite cmp_nan_r. reflexivity. Qed.

Lemma ltb_true_nonan : forall x y, F64.ltb x y = true -> nonan x /\ nonan y.
Proof.
  intros x y H. destruct (nonan_dec x) as [Hx|Hx]; [|subst; discriminate H].
  destruct (nonan_dec y) as [Hy|Hy]; [split; assumption|]. subst. rewrite ltb_nan_r in H. discriminate.
Qed.

(* the strict order laws hold for ALL doubles *)
Lemma ltb_irrefl_any : forall x, F64.ltb x x = false.
Proof. intros x. destruct (nonan_dec x) as [Hx|Hx]; [apply ltb_irrefl; exact Hx|subst; reflexivity]. Qed.

Lemma ltb_asym_any : forall x y, F64.ltb x y = true -> F64.ltb y x = false.
Proof. intros x y H. destruct (ltb_true_nonan x y H) as [Hx Hy]. apply ltb_asym; assumption. Qed.

Lemma ltb_trans_any : forall x y z, F64.ltb x y = true -> F64.ltb y z = true -> F64.ltb x z = true.
Proof.
  intros x y z H1 H2. destruct (ltb_true_nonan x y H1) as [Hx Hy]. destruct (ltb_true_nonan y z H2) as [_ Hz].
  exact (ltb_trans x y z Hx Hy Hz H1 H2).
Qed.

Lemma eqb_sym_any : forall x y, F64.eqb x y = F64.eqb y x.
Proof.
  intros x y. destruct (nonan_dec x) as [Hx|Hx]; destruct (nonan_dec y) as [Hy|Hy]; subst.
  - apply eqb_sym; assumption.
  - rewrite eqb_nan_r. reflexivity.
  - rewrite eqb_nan_r. reflexivity.
  - reflexivity.
Qed.
