(* An order embedding of the non-NaN binary64 values into Z.

   [key x] is 0 for both zeros, +-((e + 1075) * 2^53 + m) for a finite
   non-zero double with mantissa m and exponent e, and +-2^64 for the
   infinities.  [cmp_key] shows that Flocq's comparison [Bcompare]
   (= F64.cmp, the model of the C++ operators <, ==, > on double) is the
   comparison of the keys; it is proved from the structural definition of
   SFcompare and the [bounded] invariant carried by every finite value, without
   any appeal to the real numbers.  Every order law about doubles then is a
   fact about Z. *)
From Coq Require Import ZArith Bool Lia.
From Flocq Require Import IEEE754.BinarySingleNaN.
From VV Require Import Base.F64.
Local Open Scope Z_scope.

Definition nonan (x : f64) : Prop := F64.is_nan x = false.

Definition mag (m : positive) (e : Z) : Z := (e + 1075) * 2 ^ 53 + Zpos m.

Definition key (x : f64) : Z :=
  match x with
  | B754_zero _ => 0
  | B754_infinity s => if s then - 2 ^ 64 else 2 ^ 64
  | B754_nan => 0
  | B754_finite s m e _ => if s then - mag m e else mag m e
  end.

Lemma digits2_pos_bound : forall m : positive,
  Zpos m < 2 ^ Zpos (SpecFloat.digits2_pos m).
Proof.
  induction m as [m IH|m IH|]; cbn [SpecFloat.digits2_pos].
  - rewrite Pos2Z.inj_succ, Z.pow_succ_r by lia. lia.
  - rewrite Pos2Z.inj_succ, Z.pow_succ_r by lia. lia.
  - reflexivity.
Qed.

(* what [bounded] says about the mantissa and the exponent of a double *)
Lemma bounded_53 : forall m e, SpecFloat.bounded 53 1024 m e = true ->
  Zpos m < 2 ^ 53 /\ -1074 <= e <= 971.
Proof.
  intros m e Hb. unfold SpecFloat.bounded in Hb.
  apply andb_true_iff in Hb. destruct Hb as [Hc He].
  apply Zle_bool_imp_le in He.
  unfold SpecFloat.canonical_mantissa in Hc. apply Zeq_bool_eq in Hc.
  unfold SpecFloat.fexp, SpecFloat.emin in Hc.
  pose proof (digits2_pos_bound m) as Hd.
  assert (Hle : Zpos (SpecFloat.digits2_pos m) <= 53) by lia.
  split; [|lia].
  eapply Z.lt_le_trans; [exact Hd|]. apply Z.pow_le_mono_r; lia.
Qed.

Lemma mag_bounds : forall m e, SpecFloat.bounded 53 1024 m e = true ->
  0 < mag m e < 2 ^ 64.
Proof.
  intros m e Hb. apply bounded_53 in Hb. unfold mag.
  change (2 ^ 64) with (2048 * 2 ^ 53). nia.
Qed.

Lemma mag_compare : forall m1 e1 m2 e2,
  SpecFloat.bounded 53 1024 m1 e1 = true -> SpecFloat.bounded 53 1024 m2 e2 = true ->
  (mag m1 e1 ?= mag m2 e2) =
  match e1 ?= e2 with Lt => Lt | Gt => Gt | Eq => Pos.compare_cont Eq m1 m2 end.
Proof.
  intros m1 e1 m2 e2 H1 H2. apply bounded_53 in H1. apply bounded_53 in H2.
  unfold mag. destruct (Z.compare_spec e1 e2) as [He|He|He].
  - subst e2. change (Pos.compare_cont Eq m1 m2) with (Zpos m1 ?= Zpos m2).
    rewrite Z.add_compare_mono_l. reflexivity.
  - apply Z.compare_lt_iff. nia.
  - apply Z.compare_gt_iff. nia.
Qed.

Lemma compare_opp_opp : forall a b, (- a ?= - b) = CompOpp (a ?= b).
Proof. intros a b. rewrite Z.compare_opp. apply Z.compare_antisym. Qed.

(* the embedding *)
Theorem cmp_key : forall x y, nonan x -> nonan y ->
  F64.cmp x y = Some (key x ?= key y).
Proof.
  intros x y Hx Hy. unfold F64.cmp, Bcompare.
  destruct x as [sx|sx| |sx mx ex Bx]; try discriminate Hx;
  destruct y as [sy|sy| |sy my ey By]; try discriminate Hy;
  cbn [B2SF SpecFloat.SFcompare key].
  - reflexivity.
  - destruct sy; reflexivity.
  - pose proof (mag_bounds _ _ By) as M. destruct sy; f_equal; symmetry.
    + apply Z.compare_gt_iff; lia.
    + apply Z.compare_lt_iff; lia.
  - destruct sx; reflexivity.
  - destruct sx, sy; reflexivity.
  - pose proof (mag_bounds _ _ By) as M.
    destruct sx, sy; f_equal; symmetry;
      (apply Z.compare_lt_iff; lia) || (apply Z.compare_gt_iff; lia).
  - pose proof (mag_bounds _ _ Bx) as M. destruct sx; f_equal; symmetry.
    + apply Z.compare_lt_iff; lia.
    + apply Z.compare_gt_iff; lia.
  - pose proof (mag_bounds _ _ Bx) as M.
    destruct sx, sy; f_equal; symmetry;
      (apply Z.compare_lt_iff; lia) || (apply Z.compare_gt_iff; lia).
  - pose proof (mag_bounds _ _ Bx) as M1. pose proof (mag_bounds _ _ By) as M2.
    destruct sx, sy; f_equal.
    + rewrite compare_opp_opp, (mag_compare _ _ _ _ Bx By).
      destruct (ex ?= ey); reflexivity.
    + symmetry; apply Z.compare_lt_iff; lia.
    + symmetry; apply Z.compare_gt_iff; lia.
    + rewrite (mag_compare _ _ _ _ Bx By). reflexivity.
Qed.

Lemma ltb_key : forall x y, nonan x -> nonan y -> F64.ltb x y = (key x <? key y).
Proof.
  intros x y Hx Hy. unfold F64.ltb. rewrite (cmp_key x y Hx Hy).
  unfold Z.ltb. destruct (key x ?= key y); reflexivity.
Qed.

Lemma eqb_key : forall x y, nonan x -> nonan y -> F64.eqb x y = (key x =? key y).
Proof.
  intros x y Hx Hy. unfold F64.eqb. rewrite (cmp_key x y Hx Hy).
  rewrite Z.eqb_compare. destruct (key x ?= key y); reflexivity.
Qed.

Lemma leb_key : forall x y, nonan x -> nonan y -> F64.leb x y = (key x <=? key y).
Proof.
  intros x y Hx Hy. unfold F64.leb. rewrite (cmp_key x y Hx Hy).
  unfold Z.leb. destruct (key x ?= key y); reflexivity.
Qed.

Lemma gtb_key : forall x y, nonan x -> nonan y -> F64.gtb x y = (key y <? key x).
Proof. intros. unfold F64.gtb. apply ltb_key; assumption. Qed.

Lemma geb_key : forall x y, nonan x -> nonan y -> F64.geb x y = (key y <=? key x).
Proof. intros. unfold F64.geb. apply leb_key; assumption. Qed.
