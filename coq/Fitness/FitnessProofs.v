(* Lemmas about the fitness model.  The comparisons are transported to
   sequences of integer keys (F64Order.key); all order laws are then proved on
   lists of Z by induction and lia. *)
From Coq Require Import ZArith List Bool Lia Permutation.
From Coq Require Import ZifyBool.
From VV Require Import Base.F64 Fitness.F64Order Fitness.FitnessDefs.
Import ListNotations.
Local Open Scope Z_scope.

Definition nonan_vec (a : vec) : Prop := Forall nonan a.
Definition kv (a : vec) : list Z := map key a.

(* the model's own NaN test agrees with the hypothesis used below *)
Lemma nonan_vec_iff : forall a, nonan_vec a <-> vis_nan a = false.
Proof.
  unfold nonan_vec, vis_nan. induction a as [|x a IH]; cbn [existsb].
  - split; [reflexivity|constructor].
  - split.
    + intro H. inversion H as [|? ? Hx Ha]; subst. unfold nonan in Hx. rewrite Hx.
      apply IH. exact Ha.
    + intro H. apply orb_false_iff in H. destruct H as [Hx Ha]. constructor; [exact Hx|].
      apply IH. exact Ha.
Qed.

(* ------------------------------------------------------------------ *)
(* the same algorithms on integer sequences *)
Fixpoint zlt (a b : list Z) : bool :=
  match a, b with
  | x :: a', y :: b' => if x <? y then true else if y <? x then false else zlt a' b'
  | [], _ :: _ => true
  | _, [] => false
  end.

Fixpoint zdom (ob : bool) (a b : list Z) : bool :=
  match a, b with
  | x :: a', y :: b' => if y <? x then zdom true a' b' else if x <? y then false else zdom ob a' b'
  | _, _ => ob
  end.

Lemma lt_lex_key : forall a b, nonan_vec a -> nonan_vec b -> lt_lex a b = zlt (kv a) (kv b).
Proof.
  induction a as [|x a IH]; intros [|y b] Ha Hb; cbn [lt_lex zlt kv map]; try reflexivity.
  inversion Ha as [|? ? Hx Ha']; inversion Hb as [|? ? Hy Hb']; subst.
  rewrite (ltb_key x y Hx Hy), (ltb_key y x Hy Hx), (IH b Ha' Hb'). reflexivity.
Qed.

Lemma dom_loop_key : forall a b ob, nonan_vec a -> nonan_vec b ->
  dom_loop ob a b = zdom ob (kv a) (kv b).
Proof.
  induction a as [|x a IH]; intros [|y b] ob Ha Hb; cbn [dom_loop zdom kv map]; try reflexivity.
  inversion Ha as [|? ? Hx Ha']; inversion Hb as [|? ? Hy Hb']; subst.
  rewrite (gtb_key x y Hx Hy), (ltb_key x y Hx Hy), !(IH b _ Ha' Hb'). reflexivity.
Qed.

Lemma equal3_key : forall a b, nonan_vec a -> nonan_vec b -> length a = length b ->
  (equal3 a b = true <-> kv a = kv b).
Proof.
  induction a as [|x a IH]; intros [|y b] Ha Hb Hl; cbn [equal3 kv map]; try discriminate Hl.
  - split; reflexivity.
  - inversion Ha as [|? ? Hx Ha']; inversion Hb as [|? ? Hy Hb']; subst.
    cbn [length] in Hl. injection Hl as Hl.
    rewrite (eqb_key x y Hx Hy). destruct (Z.eqb_spec (key x) (key y)) as [E|E].
    + rewrite (IH b Ha' Hb' Hl). unfold kv. split; [intro H; rewrite E, H; reflexivity|].
      intro H. injection H as _ H. exact H.
    + split; [discriminate|]. intro H. injection H as H _. contradiction.
Qed.

Lemma eq_vec_key : forall a b, nonan_vec a -> nonan_vec b ->
  (eq_vec a b = true <-> kv a = kv b).
Proof.
  intros a b Ha Hb. unfold eq_vec. destruct (Nat.eqb_spec (length a) (length b)) as [E|E].
  - apply equal3_key; assumption.
  - split; [discriminate|]. intro H. exfalso. apply E.
    unfold kv in H. apply (f_equal (@length Z)) in H. rewrite !map_length in H. exact H.
Qed.

(* ------------------------------------------------------------------ *)
(* the lexicographic order on integer sequences is a strict total order *)
Lemma zlt_irrefl : forall a, zlt a a = false.
Proof.
  induction a as [|x a IH]; cbn [zlt]; [reflexivity|].
  rewrite Z.ltb_irrefl. exact IH.
Qed.

Lemma zlt_total : forall a b, zlt a b = false -> zlt b a = false -> a = b.
Proof.
  induction a as [|x a IH]; intros [|y b]; cbn [zlt]; intros H1 H2; try discriminate; [reflexivity|].
  destruct (x <? y) eqn:E1; [discriminate|]. destruct (y <? x) eqn:E2; [discriminate|].
  f_equal; [lia|]. apply IH; assumption.
Qed.

Lemma zlt_asym : forall a b, zlt a b = true -> zlt b a = false.
Proof.
  induction a as [|x a IH]; intros [|y b]; cbn [zlt]; intro H; try discriminate; try reflexivity.
  destruct (x <? y) eqn:E1; destruct (y <? x) eqn:E2; try reflexivity; try lia; try discriminate.
  apply IH; exact H.
Qed.

Lemma zlt_trans : forall a b c, zlt a b = true -> zlt b c = true -> zlt a c = true.
Proof.
  induction a as [|x a IH]; intros [|y b] [|z c]; cbn [zlt]; intros H1 H2; try discriminate; try reflexivity.
  destruct (x <? y) eqn:E1; destruct (y <? x) eqn:E2; try discriminate;
  destruct (y <? z) eqn:E3; destruct (z <? y) eqn:E4; try discriminate;
  destruct (x <? z) eqn:E5; destruct (z <? x) eqn:E6; try reflexivity; try lia.
  eapply IH; eassumption.
Qed.

(* not-less is transitive as well (the order is total) *)
Lemma zge_trans : forall a b c, zlt a b = false -> zlt b c = false -> zlt a c = false.
Proof.
  induction a as [|x a IH]; intros [|y b] [|z c]; cbn [zlt]; intros H1 H2; try discriminate; try reflexivity.
  destruct (x <? y) eqn:E1; destruct (y <? x) eqn:E2; try discriminate;
  destruct (y <? z) eqn:E3; destruct (z <? y) eqn:E4; try discriminate;
  destruct (x <? z) eqn:E5; destruct (z <? x) eqn:E6; try reflexivity; try lia.
  eapply IH; eassumption.
Qed.

Lemma zlt_ge_trans : forall a b c, zlt b a = true -> zlt b c = false -> zlt c a = true.
Proof.
  intros a b c H1 H2. destruct (zlt c a) eqn:E; [reflexivity|].
  rewrite (zge_trans b c a H2 E) in H1. discriminate.
Qed.

(* a proper prefix is smaller *)
Lemma zlt_prefix : forall a b, b <> [] -> zlt a (a ++ b) = true.
Proof.
  induction a as [|x a IH]; intros b Hb; cbn [zlt app].
  - destruct b; [contradiction|reflexivity].
  - rewrite Z.ltb_irrefl. apply IH. exact Hb.
Qed.

(* ------------------------------------------------------------------ *)
(* the relational operators *)
Lemma trichotomy : forall a b, nonan_vec a -> nonan_vec b ->
  (lt_lex a b = true /\ eq_vec a b = false /\ gt a b = false) \/
  (lt_lex a b = false /\ eq_vec a b = true /\ gt a b = false) \/
  (lt_lex a b = false /\ eq_vec a b = false /\ gt a b = true).
Proof.
  intros a b Ha Hb. unfold gt.
  rewrite (lt_lex_key a b Ha Hb), (lt_lex_key b a Hb Ha).
  pose proof (eq_vec_key a b Ha Hb) as HE.
  destruct (zlt (kv a) (kv b)) eqn:E1.
  - left. split; [reflexivity|]. pose proof (zlt_asym _ _ E1) as E2. rewrite E2.
    split; [|reflexivity]. destruct (eq_vec a b); [|reflexivity].
    assert (K : kv a = kv b) by (apply HE; reflexivity).
    rewrite K, zlt_irrefl in E1. discriminate.
  - destruct (zlt (kv b) (kv a)) eqn:E2.
    + right; right. split; [reflexivity|]. split; [|reflexivity].
      destruct (eq_vec a b); [|reflexivity].
      assert (K : kv a = kv b) by (apply HE; reflexivity).
      rewrite K, zlt_irrefl in E2. discriminate.
    + right; left. split; [reflexivity|]. split; [|reflexivity].
      apply HE. apply zlt_total; assumption.
Qed.

Lemma ge_is_not_lt : forall a b, ge a b = negb (lt_lex a b).
Proof. reflexivity. Qed.
Lemma le_is_not_gt : forall a b, le a b = negb (gt a b).
Proof. reflexivity. Qed.
Lemma gt_is_flip_lt : forall a b, gt a b = lt_lex b a.
Proof. reflexivity. Qed.
Lemma ne_is_not_eq : forall a b, ne a b = negb (eq_vec a b).
Proof. reflexivity. Qed.

(* ... and what they mean: >= is "greater or equal", <= is "less or equal" *)
Lemma ge_iff_gt_or_eq : forall a b, nonan_vec a -> nonan_vec b ->
  ge a b = gt a b || eq_vec a b.
Proof.
  intros a b Ha Hb. unfold ge.
  destruct (trichotomy a b Ha Hb) as [(H1 & H2 & H3)|[(H1 & H2 & H3)|(H1 & H2 & H3)]];
    rewrite H1, H2, H3; reflexivity.
Qed.

Lemma le_iff_lt_or_eq : forall a b, nonan_vec a -> nonan_vec b ->
  le a b = lt_lex a b || eq_vec a b.
Proof.
  intros a b Ha Hb. unfold le.
  destruct (trichotomy a b Ha Hb) as [(H1 & H2 & H3)|[(H1 & H2 & H3)|(H1 & H2 & H3)]];
    rewrite H1, H2, H3; reflexivity.
Qed.

Lemma lt_irrefl : forall a, nonan_vec a -> lt_lex a a = false.
Proof. intros a Ha. rewrite (lt_lex_key a a Ha Ha). apply zlt_irrefl. Qed.

Lemma lt_trans : forall a b c, nonan_vec a -> nonan_vec b -> nonan_vec c ->
  lt_lex a b = true -> lt_lex b c = true -> lt_lex a c = true.
Proof.
  intros a b c Ha Hb Hc. rewrite (lt_lex_key a b Ha Hb), (lt_lex_key b c Hb Hc), (lt_lex_key a c Ha Hc).
  apply zlt_trans.
Qed.

Lemma lt_asym : forall a b, nonan_vec a -> nonan_vec b -> lt_lex a b = true -> lt_lex b a = false.
Proof.
  intros a b Ha Hb. rewrite (lt_lex_key a b Ha Hb), (lt_lex_key b a Hb Ha). apply zlt_asym.
Qed.

Lemma better_transitive : forall a b c, nonan_vec a -> nonan_vec b -> nonan_vec c ->
  gt a b = true -> gt b c = true -> gt a c = true.
Proof. unfold gt. intros a b c Ha Hb Hc H1 H2. exact (lt_trans c b a Hc Hb Ha H2 H1). Qed.

Lemma ge_transitive : forall a b c, nonan_vec a -> nonan_vec b -> nonan_vec c ->
  ge a b = true -> ge b c = true -> ge a c = true.
Proof.
  unfold ge. intros a b c Ha Hb Hc.
  rewrite (lt_lex_key a b Ha Hb), (lt_lex_key b c Hb Hc), (lt_lex_key a c Ha Hc).
  intros H1 H2. apply negb_true_iff in H1. apply negb_true_iff in H2. apply negb_true_iff.
  eapply zge_trans; eassumption.
Qed.

Lemma gt_ge_transitive : forall a b c, nonan_vec a -> nonan_vec b -> nonan_vec c ->
  gt a b = true -> ge b c = true -> gt a c = true.
Proof.
  unfold gt, ge. intros a b c Ha Hb Hc.
  rewrite (lt_lex_key b a Hb Ha), (lt_lex_key b c Hb Hc), (lt_lex_key c a Hc Ha).
  intros H1 H2. apply negb_true_iff in H2. eapply zlt_ge_trans; eassumption.
Qed.

(* == is an equivalence and a congruence for < (it is not identity of bit
   patterns: +0 == -0) *)
Lemma eq_refl_vec : forall a, nonan_vec a -> eq_vec a a = true.
Proof. intros a Ha. apply (eq_vec_key a a Ha Ha). reflexivity. Qed.

Lemma eq_sym_vec : forall a b, nonan_vec a -> nonan_vec b -> eq_vec a b = eq_vec b a.
Proof.
  intros a b Ha Hb. pose proof (eq_vec_key a b Ha Hb) as H1. pose proof (eq_vec_key b a Hb Ha) as H2.
  destruct (eq_vec a b), (eq_vec b a); try reflexivity.
  - symmetry. apply H2. symmetry. apply H1. reflexivity.
  - apply H1. symmetry. apply H2. reflexivity.
Qed.

Lemma eq_trans_vec : forall a b c, nonan_vec a -> nonan_vec b -> nonan_vec c ->
  eq_vec a b = true -> eq_vec b c = true -> eq_vec a c = true.
Proof.
  intros a b c Ha Hb Hc H1 H2. apply (eq_vec_key a c Ha Hc).
  apply (eq_vec_key a b Ha Hb) in H1. apply (eq_vec_key b c Hb Hc) in H2. congruence.
Qed.

Lemma lt_compat_eq : forall a a' b b', nonan_vec a -> nonan_vec a' -> nonan_vec b -> nonan_vec b' ->
  eq_vec a a' = true -> eq_vec b b' = true -> lt_lex a b = lt_lex a' b'.
Proof.
  intros a a' b b' Ha Ha' Hb Hb' H1 H2.
  apply (eq_vec_key a a' Ha Ha') in H1. apply (eq_vec_key b b' Hb Hb') in H2.
  rewrite (lt_lex_key a b Ha Hb), (lt_lex_key a' b' Ha' Hb'), H1, H2. reflexivity.
Qed.

Lemma nonan_app : forall a b, nonan_vec a -> nonan_vec b -> nonan_vec (a ++ b).
Proof. intros a b Ha Hb. apply Forall_app. split; assumption. Qed.

Lemma prefix_is_less : forall a b, nonan_vec a -> nonan_vec b -> b <> [] -> lt_lex a (a ++ b) = true.
Proof.
  intros a b Ha Hb Hne. rewrite (lt_lex_key a (a ++ b) Ha (nonan_app a b Ha Hb)).
  unfold kv. rewrite map_app. apply zlt_prefix. destruct b; [contradiction|discriminate].
Qed.

(* ------------------------------------------------------------------ *)
(* operator< is THE lexicographic order: a < b iff after a common prefix of
   pairwise equal components either a ends and b goes on, or the next
   component of a is smaller than that of b *)
Inductive lex_less : vec -> vec -> Prop :=
  | LL_end : forall y b, lex_less [] (y :: b)
  | LL_head : forall x y a b, F64.ltb x y = true -> lex_less (x :: a) (y :: b)
  | LL_tail : forall x y a b, F64.eqb x y = true -> lex_less a b -> lex_less (x :: a) (y :: b).

Lemma lt_lex_spec : forall a b, nonan_vec a -> nonan_vec b -> (lt_lex a b = true <-> lex_less a b).
Proof.
  induction a as [|x a IH]; intros [|y b] Ha Hb; cbn [lt_lex].
  - split; [discriminate|]. intro H. inversion H.
  - split; [intros _; constructor|reflexivity].
  - split; [discriminate|]. intro H. inversion H.
  - inversion Ha as [|? ? Hx Ha']; inversion Hb as [|? ? Hy Hb']; subst.
    pose proof (ltb_key x y Hx Hy) as L1. pose proof (ltb_key y x Hy Hx) as L2.
    pose proof (eqb_key x y Hx Hy) as L3.
    destruct (F64.ltb x y) eqn:E1.
    + split; [intros _; apply LL_head; exact E1|reflexivity].
    + destruct (F64.ltb y x) eqn:E2.
      * split; [discriminate|]. intro H. inversion H as [| |? ? ? ? He Hr]; subst; [congruence|].
        rewrite L3 in He. lia.
      * rewrite (IH b Ha' Hb'). split.
        -- intro H. apply LL_tail; [rewrite L3; lia|exact H].
        -- intro H. inversion H as [| |? ? ? ? He Hr]; subst; [congruence|exact Hr].
Qed.

(* ------------------------------------------------------------------ *)
(* selection of the best *)
Lemma keep_better_nonan : forall x y, nonan_vec x -> nonan_vec y -> nonan_vec (keep_better x y).
Proof. intros x y Hx Hy. unfold keep_better. destruct (gt y x); assumption. Qed.

Lemma fold_keep_better_max : forall xs x, nonan_vec x -> Forall nonan_vec xs ->
  let m := fold_left keep_better xs x in
  nonan_vec m /\ In m (x :: xs) /\ forall y, In y (x :: xs) -> lt_lex m y = false.
Proof.
  induction xs as [|z xs IH]; intros x Hx Hxs; cbn [fold_left].
  - split; [exact Hx|]. split; [left; reflexivity|].
    intros y [Hy|[]]. subst y. apply lt_irrefl; exact Hx.
  - inversion Hxs as [|? ? Hz Hxs']; subst.
    destruct (IH (keep_better x z) (keep_better_nonan x z Hx Hz) Hxs') as (Hm & Hin & Hmax).
    split; [exact Hm|]. split.
    + destruct Hin as [Hin|Hin]; [|right; right; exact Hin].
      assert (Hc : keep_better x z = x \/ keep_better x z = z)
        by (unfold keep_better; destruct (gt z x); [right|left]; reflexivity).
      destruct Hc as [Hc|Hc]; [left|right; left];
        (transitivity (keep_better x z); [symmetry; exact Hc|exact Hin]).
    + intros y Hy.
      assert (Hk : lt_lex (fold_left keep_better xs (keep_better x z)) (keep_better x z) = false)
        by (apply Hmax; left; reflexivity).
      set (m := fold_left keep_better xs (keep_better x z)) in *.
      assert (Hkx : lt_lex (keep_better x z) x = false /\ lt_lex (keep_better x z) z = false).
      { unfold keep_better, gt. destruct (lt_lex x z) eqn:E.
        - split; [apply lt_asym; assumption|apply lt_irrefl; assumption].
        - split; [apply lt_irrefl; assumption|exact E]. }
      pose proof (keep_better_nonan x z Hx Hz) as Hkn.
      destruct Hy as [Hy|[Hy|Hy]].
      * subst y. pose proof (ge_transitive m (keep_better x z) x Hm Hkn Hx) as T. unfold ge in T.
        apply negb_true_iff. apply T; apply negb_true_iff; [exact Hk|apply Hkx].
      * subst y. pose proof (ge_transitive m (keep_better x z) z Hm Hkn Hz) as T. unfold ge in T.
        apply negb_true_iff. apply T; apply negb_true_iff; [exact Hk|apply Hkx].
      * apply Hmax. right. exact Hy.
Qed.

Lemma best_of_is_max : forall l m, Forall nonan_vec l -> best_of l = Some m ->
  nonan_vec m /\ In m l /\ forall y, In y l -> ge m y = true.
Proof.
  intros [|x xs] m Hl H; [discriminate|]. cbn [best_of] in H. injection H as H. subst m.
  inversion Hl as [|? ? Hx Hxs]; subst.
  destruct (fold_keep_better_max xs x Hx Hxs) as (Hm & Hin & Hmax).
  split; [exact Hm|]. split; [exact Hin|]. intros y Hy. unfold ge. rewrite (Hmax y Hy). reflexivity.
Qed.

Lemma max_independent_of_order : forall l l', Forall nonan_vec l -> Permutation l l' ->
  match best_of l, best_of l' with
  | Some m, Some m' => eq_vec m m' = true
  | None, None => True
  | _, _ => False
  end.
Proof.
  intros l l' Hl Hp.
  assert (Hl' : Forall nonan_vec l').
  { rewrite Forall_forall in Hl |- *. intros y Hy. apply Hl.
    eapply Permutation_in; [apply Permutation_sym; exact Hp|exact Hy]. }
  destruct (best_of l) as [m|] eqn:E; destruct (best_of l') as [m'|] eqn:E'.
  - destruct (best_of_is_max l m Hl E) as (Hm & Hin & Hmax).
    destruct (best_of_is_max l' m' Hl' E') as (Hm' & Hin' & Hmax').
    assert (G1 : ge m m' = true).
    { apply Hmax. eapply Permutation_in; [apply Permutation_sym; exact Hp|exact Hin']. }
    assert (G2 : ge m' m = true).
    { apply Hmax'. eapply Permutation_in; [exact Hp|exact Hin]. }
    unfold ge in G1, G2. apply negb_true_iff in G1. apply negb_true_iff in G2.
    destruct (trichotomy m m' Hm Hm') as [(H1 & _)|[(_ & H2 & _)|(_ & _ & H3)]].
    + congruence.
    + exact H2.
    + unfold gt in H3. congruence.
  - destruct l as [|? ?]; [discriminate|]. destruct l' as [|? ?]; [|discriminate].
    apply Permutation_sym, Permutation_nil in Hp. discriminate.
  - destruct l' as [|? ?]; [discriminate|]. destruct l as [|? ?]; [|discriminate].
    apply Permutation_nil in Hp. discriminate.
  - exact I.
Qed.

(* ------------------------------------------------------------------ *)
(* Pareto dominance *)
Definition in_family (n : nat) (a : vec) : Prop := a = [] \/ length a = n.

Lemma zdom_refl : forall a ob, zdom ob a a = ob.
Proof. induction a as [|x a IH]; intro ob; cbn [zdom]; [reflexivity|]. rewrite Z.ltb_irrefl. apply IH. Qed.

Lemma zdom_false_nil_r : forall a, zdom false a [] = false.
Proof. destruct a; reflexivity. Qed.

(* closed form: no component worse, and (the flag or) some component better *)
Lemma zdom_closed : forall a b ob,
  zdom ob a b = forallb (fun p => snd p <=? fst p) (combine a b) &&
                (ob || existsb (fun p => snd p <? fst p) (combine a b)).
Proof.
  induction a as [|x a IH]; intros [|y b] ob; cbn [zdom combine forallb existsb fst snd];
    try (rewrite orb_false_r; reflexivity).
  rewrite !IH. destruct (y <? x) eqn:E1; destruct (x <? y) eqn:E2; destruct (y <=? x) eqn:E3; try lia;
    cbn [andb orb]; reflexivity.
Qed.

Lemma zdom_asym : forall a b o1, zdom o1 a b = true -> zdom false b a = true -> False.
Proof.
  induction a as [|x a IH]; intros [|y b] o1; cbn [zdom]; intros H1 H2; try discriminate.
  destruct (y <? x) eqn:E1; destruct (x <? y) eqn:E2; try lia; try discriminate.
  eapply IH; eassumption.
Qed.

Lemma zdom_mono : forall a b, zdom false a b = true -> zdom true a b = true.
Proof.
  intros a b. rewrite !zdom_closed. intro H. apply andb_true_iff in H. destruct H as [H _].
  rewrite H. reflexivity.
Qed.

Lemma zdom_trans : forall a b c o1 o2, length a = length b -> length b = length c ->
  zdom o1 a b = true -> zdom o2 b c = true -> zdom (o1 || o2) a c = true.
Proof.
  induction a as [|x a IH]; intros [|y b] [|z c] o1 o2 L1 L2; cbn [zdom length] in *;
    try discriminate; intros H1 H2.
  - subst. reflexivity.
  - injection L1 as L1. injection L2 as L2.
    destruct (y <? x) eqn:E1; destruct (x <? y) eqn:E2; try discriminate;
    destruct (z <? y) eqn:E3; destruct (y <? z) eqn:E4; try discriminate;
    destruct (z <? x) eqn:E5; destruct (x <? z) eqn:E6; try lia.
    + exact (IH b c true true L1 L2 H1 H2).
    + pose proof (IH b c true o2 L1 L2 H1 H2) as R. exact R.
    + pose proof (IH b c o1 true L1 L2 H1 H2) as R. rewrite orb_true_r in R. exact R.
    + exact (IH b c o1 o2 L1 L2 H1 H2).
Qed.

Lemma zdom_lt : forall a b, zdom false a b = true -> zlt b a = true.
Proof.
  induction a as [|x a IH]; intros [|y b]; cbn [zdom zlt]; intro H; try discriminate.
  destruct (y <? x) eqn:E1; [reflexivity|]. destruct (x <? y) eqn:E2; [discriminate|].
  apply IH. exact H.
Qed.

Lemma dominating_key : forall a b, nonan_vec a -> nonan_vec b ->
  dominating a b = zdom (negb (is_empty a) && is_empty b) (kv a) (kv b).
Proof. intros a b Ha Hb. unfold dominating. apply dom_loop_key; assumption. Qed.

Lemma dom_irrefl : forall a, nonan_vec a -> dominating a a = false.
Proof.
  intros a Ha. rewrite (dominating_key a a Ha Ha), zdom_refl. destruct a; reflexivity.
Qed.

(* holds for any two lengths *)
Lemma dom_asym : forall a b, nonan_vec a -> nonan_vec b ->
  dominating a b = true -> dominating b a = false.
Proof.
  intros a b Ha Hb H. destruct (dominating b a) eqn:E; [exfalso|reflexivity].
  rewrite (dominating_key a b Ha Hb) in H. rewrite (dominating_key b a Hb Ha) in E.
  destruct a as [|x a]; destruct b as [|y b]; cbn [is_empty negb andb] in *.
  - discriminate.
  - discriminate.
  - discriminate.
  - eapply zdom_asym; eassumption.
Qed.

Lemma nonempty_dominates_empty : forall a, a <> [] -> dominating a [] = true.
Proof. intros [|x a] H; [contradiction|reflexivity]. Qed.

Lemma empty_dominates_nothing : forall b, dominating [] b = false.
Proof. intros [|y b]; reflexivity. Qed.

Lemma dom_trans : forall n a b c, in_family n a -> in_family n b -> in_family n c ->
  nonan_vec a -> nonan_vec b -> nonan_vec c ->
  dominating a b = true -> dominating b c = true -> dominating a c = true.
Proof.
  intros n a b c Fa Fb Fc Ha Hb Hc H1 H2.
  destruct a as [|x a]; [rewrite empty_dominates_nothing in H1; discriminate|].
  destruct b as [|y b]; [rewrite empty_dominates_nothing in H2; discriminate|].
  destruct c as [|z c]; [reflexivity|].
  destruct Fa as [Fa|Fa]; [discriminate|]. destruct Fb as [Fb|Fb]; [discriminate|].
  destruct Fc as [Fc|Fc]; [discriminate|].
  rewrite (dominating_key _ _ Ha Hb) in H1. rewrite (dominating_key _ _ Hb Hc) in H2.
  rewrite (dominating_key _ _ Ha Hc). cbn [is_empty negb andb] in *.
  change false with (false || false).
  apply zdom_trans with (b := kv (y :: b)); unfold kv; rewrite ?map_length; try congruence; assumption.
Qed.

(* holds for any two lengths *)
Lemma dom_implies_gt : forall a b, nonan_vec a -> nonan_vec b ->
  dominating a b = true -> gt a b = true.
Proof.
  intros a b Ha Hb H. unfold gt. rewrite (lt_lex_key b a Hb Ha).
  rewrite (dominating_key a b Ha Hb) in H.
  destruct a as [|x a]; destruct b as [|y b]; cbn [is_empty negb andb] in H.
  - discriminate.
  - discriminate.
  - reflexivity.
  - apply zdom_lt. exact H.
Qed.

(* what dominance means, for equal lengths: no component worse, one better *)
Lemma all_ge_key : forall a b, nonan_vec a -> nonan_vec b ->
  forallb (fun p => F64.geb (fst p) (snd p)) (combine a b) =
  forallb (fun p => snd p <=? fst p) (combine (kv a) (kv b)).
Proof.
  induction a as [|x a IH]; intros [|y b] Ha Hb; cbn [combine kv map forallb fst snd]; try reflexivity.
  inversion Ha as [|? ? Hx Ha']; inversion Hb as [|? ? Hy Hb']; subst.
  rewrite (geb_key x y Hx Hy). f_equal. apply IH; assumption.
Qed.

Lemma any_gt_key : forall a b, nonan_vec a -> nonan_vec b ->
  existsb (fun p => F64.gtb (fst p) (snd p)) (combine a b) =
  existsb (fun p => snd p <? fst p) (combine (kv a) (kv b)).
Proof.
  induction a as [|x a IH]; intros [|y b] Ha Hb; cbn [combine kv map existsb fst snd]; try reflexivity.
  inversion Ha as [|? ? Hx Ha']; inversion Hb as [|? ? Hy Hb']; subst.
  rewrite (gtb_key x y Hx Hy). f_equal. apply IH; assumption.
Qed.

Lemma dom_spec : forall a b, nonan_vec a -> nonan_vec b -> length a = length b ->
  dominating a b = forallb (fun p => F64.geb (fst p) (snd p)) (combine a b) &&
                   existsb (fun p => F64.gtb (fst p) (snd p)) (combine a b).
Proof.
  intros a b Ha Hb L. rewrite (dominating_key a b Ha Hb), zdom_closed.
  assert (O : negb (is_empty a) && is_empty b = false).
  { destruct a, b; try reflexivity. discriminate L. }
  rewrite O. cbn [orb].
  rewrite (all_ge_key a b Ha Hb), (any_gt_key a b Ha Hb). reflexivity.
Qed.

(* ------------------------------------------------------------------ *)
(* joining: the comparison of two joined vectors is decided by the first
   parts unless these are equal *)
Lemma zlt_app : forall a b c d, length a = length b ->
  zlt (a ++ c) (b ++ d) = if zlt a b then true else if zlt b a then false else zlt c d.
Proof.
  induction a as [|x a IH]; intros [|y b] c d L; try discriminate L; cbn [app zlt].
  - destruct c, d; reflexivity.
  - injection L as L. destruct (x <? y) eqn:E1; [reflexivity|]. destruct (y <? x) eqn:E2; [reflexivity|].
    apply IH. exact L.
Qed.

Lemma combine_lex : forall a b c d, nonan_vec a -> nonan_vec b -> nonan_vec c -> nonan_vec d ->
  length a = length b ->
  lt_lex (combine_fit a c) (combine_fit b d) =
  if lt_lex a b then true else if lt_lex b a then false else lt_lex c d.
Proof.
  intros a b c d Ha Hb Hc Hd L. unfold combine_fit. cbn [app].
  rewrite (lt_lex_key _ _ (nonan_app a c Ha Hc) (nonan_app b d Hb Hd)).
  rewrite (lt_lex_key a b Ha Hb), (lt_lex_key b a Hb Ha), (lt_lex_key c d Hc Hd).
  unfold kv. rewrite !map_app. apply zlt_app. rewrite !map_length. exact L.
Qed.

Lemma combine_app : forall a b, combine_fit a b = a ++ b.
Proof. reflexivity. Qed.

(* ------------------------------------------------------------------ *)
(* element-wise arithmetic *)
Definition zip_with (op : f64 -> f64 -> f64) (a b : vec) : vec :=
  map (fun p => op (fst p) (snd p)) (combine a b).

Lemma set_nth_app : forall pre x rest v, set_nth (length pre) v (pre ++ x :: rest) = pre ++ v :: rest.
Proof. induction pre as [|h pre IH]; intros; cbn [length app set_nth]; [reflexivity|]. rewrite IH. reflexivity. Qed.

Lemma nth_error_app_len : forall (pre : vec) x rest, nth_error (pre ++ x :: rest) (length pre) = Some x.
Proof. induction pre as [|h pre IH]; intros; cbn [length app nth_error]; [reflexivity|]. apply IH. Qed.

Lemma nth_error_app_end : forall (pre : vec), nth_error (pre ++ []) (length pre) = None.
Proof. induction pre as [|h pre IH]; cbn [length app nth_error]; [reflexivity|]. apply IH. Qed.

Definition compound_body (op : f64 -> f64 -> f64) (f : vec) (i : nat) (cur : vec) : option vec :=
  match nth_error cur i, nth_error f i with
  | Some x, Some y => Some (set_nth i (op x y) cur)
  | _, _ => None
  end.

Lemma for_idx_compound : forall op rest pre fpre fr,
  length fpre = length pre -> (length rest <= length fr)%nat ->
  for_idx (length rest) (length pre) (compound_body op (fpre ++ fr)) (pre ++ rest) =
  Some (pre ++ zip_with op rest fr).
Proof.
  intros op. induction rest as [|x rest IH]; intros pre fpre fr Lp Lr.
  - cbn [length for_idx zip_with combine map]. reflexivity.
  - destruct fr as [|y fr]; [cbn [length] in Lr; lia|].
    cbn [length for_idx]. unfold compound_body at 1.
    rewrite nth_error_app_len. rewrite <- Lp, nth_error_app_len, Lp.
    rewrite set_nth_app.
    replace (pre ++ op x y :: rest) with ((pre ++ [op x y]) ++ rest) by (rewrite <- app_assoc; reflexivity).
    replace (fpre ++ y :: fr) with ((fpre ++ [y]) ++ fr) by (rewrite <- app_assoc; reflexivity).
    replace (S (length pre)) with (length (pre ++ [op x y])) by (rewrite app_length; cbn [length]; lia).
    rewrite IH.
    + rewrite <- app_assoc. reflexivity.
    + rewrite !app_length. cbn [length]. lia.
    + cbn [length] in Lr. lia.
Qed.

Lemma for_idx_compound_none : forall op rest pre fpre fr,
  length fpre = length pre -> (length fr < length rest)%nat ->
  for_idx (length rest) (length pre) (compound_body op (fpre ++ fr)) (pre ++ rest) = None.
Proof.
  intros op. induction rest as [|x rest IH]; intros pre fpre fr Lp Lr.
  - cbn [length] in Lr. lia.
  - cbn [length for_idx]. unfold compound_body at 1. rewrite nth_error_app_len.
    destruct fr as [|y fr].
    + rewrite <- Lp, nth_error_app_end. reflexivity.
    + rewrite <- Lp, nth_error_app_len, Lp, set_nth_app.
      replace (pre ++ op x y :: rest) with ((pre ++ [op x y]) ++ rest) by (rewrite <- app_assoc; reflexivity).
      replace (fpre ++ y :: fr) with ((fpre ++ [y]) ++ fr) by (rewrite <- app_assoc; reflexivity).
      replace (S (length pre)) with (length (pre ++ [op x y])) by (rewrite app_length; cbn [length]; lia).
      apply IH.
      * rewrite !app_length. cbn [length]. lia.
      * cbn [length] in Lr. lia.
Qed.

Lemma compound_elementwise : forall op a b, (length a <= length b)%nat ->
  compound op a b = Some (zip_with op a b).
Proof.
  intros op a b L. unfold compound.
  exact (for_idx_compound op a [] [] b eq_refl L).
Qed.

Lemma compound_contract : forall op a b, (length b < length a)%nat -> compound op a b = None.
Proof.
  intros op a b L. unfold compound.
  exact (for_idx_compound_none op a [] [] b eq_refl L).
Qed.

Lemma zip_with_length : forall op a b, (length a <= length b)%nat -> length (zip_with op a b) = length a.
Proof. intros op a b L. unfold zip_with. rewrite map_length, combine_length. lia. Qed.

Lemma zip_with_nth : forall op a b i x y, nth_error a i = Some x -> nth_error b i = Some y ->
  nth_error (zip_with op a b) i = Some (op x y).
Proof.
  intros op. induction a as [|h a IH]; intros [|k b] [|i] x y Hx Hy; cbn [nth_error] in *; try discriminate.
  - injection Hx as <-. injection Hy as <-. reflexivity.
  - cbn [zip_with combine map nth_error]. apply (IH b i x y Hx Hy).
Qed.

Lemma map_nth_pointwise : forall (g : f64 -> f64) f i, nth_error (map g f) i = option_map g (nth_error f i).
Proof. intros g f i. apply nth_error_map. Qed.

(* distance *)
Lemma inner_product_fold : forall a b init, (length a <= length b)%nat ->
  inner_product a b init =
  Some (fold_left F64.add (zip_with (fun x y => F64.abs (F64.sub x y)) a b) init).
Proof.
  induction a as [|x a IH]; intros [|y b] init L; cbn [inner_product zip_with combine map fold_left fst snd];
    try reflexivity; cbn [length] in L; try lia.
  apply IH. lia.
Qed.

Lemma distance_is_sum_abs : forall a b, length a = length b ->
  distance a b = Some (fold_left F64.add (zip_with (fun x y => F64.abs (F64.sub x y)) a b) F64.zero).
Proof.
  intros a b L. unfold distance. rewrite L, Nat.eqb_refl. apply inner_product_fold. lia.
Qed.

Lemma distance_contract : forall a b, length a <> length b -> distance a b = None.
Proof. intros a b L. unfold distance. destruct (Nat.eqb_spec (length a) (length b)); [contradiction|reflexivity]. Qed.

(* ------------------------------------------------------------------ *)
(* model_measurements::operator>= is a strict partial order (sic) on each family *)
Lemma geb_trans_key : forall x y z, nonan x -> nonan y -> nonan z ->
  F64.geb x y = true -> F64.geb y z = true -> F64.geb x z = true.
Proof.
  intros x y z Hx Hy Hz. rewrite (geb_key x y Hx Hy), (geb_key y z Hy Hz), (geb_key x z Hx Hz). lia.
Qed.

Lemma mm_ge_irrefl : forall m, nonan_vec (m_fitness m) -> mm_ge m m = false.
Proof. intros m H. unfold mm_ge. rewrite (dom_irrefl _ H). reflexivity. Qed.

Lemma mm_ge_asym : forall l r, nonan_vec (m_fitness l) -> nonan_vec (m_fitness r) ->
  mm_ge l r = true -> mm_ge r l = false.
Proof.
  intros l r Hl Hr H. unfold mm_ge in *. apply andb_true_iff in H. destruct H as [H _].
  rewrite (dom_asym _ _ Hl Hr H). reflexivity.
Qed.

Lemma mm_ge_trans : forall n a b c,
  in_family n (m_fitness a) -> in_family n (m_fitness b) -> in_family n (m_fitness c) ->
  nonan_vec (m_fitness a) -> nonan_vec (m_fitness b) -> nonan_vec (m_fitness c) ->
  nonan (m_accuracy a) -> nonan (m_accuracy b) -> nonan (m_accuracy c) ->
  mm_ge a b = true -> mm_ge b c = true -> mm_ge a c = true.
Proof.
  intros n a b c Fa Fb Fc Ha Hb Hc Na Nb Nc H1 H2. unfold mm_ge in *.
  apply andb_true_iff in H1. apply andb_true_iff in H2. destruct H1 as [D1 G1]. destruct H2 as [D2 G2].
  apply andb_true_iff. split.
  - exact (dom_trans n _ _ _ Fa Fb Fc Ha Hb Hc D1 D2).
  - exact (geb_trans_key _ _ _ Na Nb Nc G1 G2).
Qed.

(* ------------------------------------------------------------------ *)
(* What survives when components may be NaN (no hypothesis on a, b):
   < stays irreflexive and asymmetric, dominance stays irreflexive and
   asymmetric, the derived operators keep their definitional identities.
   Trichotomy, transitivity, "a >= b means a > b or a == b", reflexivity of ==
   and the order independence of the maximum are lost: Props/Refuted_C18.v. *)
Lemma lt_irrefl_any : forall a, lt_lex a a = false.
Proof.
  induction a as [|x a IH]; cbn [lt_lex]; [reflexivity|]. rewrite ltb_irrefl_any. exact IH.
Qed.

Lemma lt_asym_any : forall a b, lt_lex a b = true -> lt_lex b a = false.
Proof.
  induction a as [|x a IH]; intros [|y b]; cbn [lt_lex]; intro H; try discriminate; try reflexivity.
  destruct (F64.ltb x y) eqn:E1.
  - rewrite (ltb_asym_any x y E1). reflexivity.
  - destruct (F64.ltb y x) eqn:E2; [discriminate|]. apply IH. exact H.
Qed.

Lemma dom_loop_refl_any : forall a ob, dom_loop ob a a = ob.
Proof.
  induction a as [|x a IH]; intro ob; cbn [dom_loop]; [reflexivity|].
  unfold F64.gtb. rewrite ltb_irrefl_any. apply IH.
Qed.

Lemma dom_irrefl_any : forall a, dominating a a = false.
Proof. intros a. unfold dominating. rewrite dom_loop_refl_any. destruct a; reflexivity. Qed.

Lemma dom_loop_asym_any : forall a b o1, dom_loop o1 a b = true -> dom_loop false b a = true -> False.
Proof.
  induction a as [|x a IH]; intros [|y b] o1; cbn [dom_loop]; intros H1 H2; try discriminate.
  unfold F64.gtb in *.
  destruct (F64.ltb y x) eqn:E1.
  - rewrite (ltb_asym_any y x E1) in H2. discriminate.
  - destruct (F64.ltb x y) eqn:E2; [discriminate|]. eapply IH; eassumption.
Qed.

Lemma dom_asym_any : forall a b, dominating a b = true -> dominating b a = false.
Proof.
  intros a b H. destruct (dominating b a) eqn:E; [exfalso|reflexivity]. unfold dominating in *.
  destruct a as [|x a]; destruct b as [|y b]; cbn [is_empty negb andb] in *.
  - discriminate.
  - discriminate.
  - discriminate.
  - eapply dom_loop_asym_any; eassumption.
Qed.

Lemma dom_implies_gt_any : forall a b, dominating a b = true -> gt a b = true.
Proof.
  intros a b. unfold dominating, gt.
  assert (L : forall a b, dom_loop false a b = true -> lt_lex b a = true).
  { induction a0 as [|x a0 IH]; intros [|y b0]; cbn [dom_loop lt_lex]; intro H; try discriminate.
    unfold F64.gtb in H. destruct (F64.ltb y x) eqn:E1; [reflexivity|].
    destruct (F64.ltb x y) eqn:E2; [discriminate|]. apply IH. exact H. }
  destruct a as [|x a]; destruct b as [|y b]; cbn [is_empty negb andb]; intro H.
  - discriminate.
  - discriminate.
  - reflexivity.
  - apply L. exact H.
Qed.

(* ------------------------------------------------------------------ *)
(* utility.h: issmall, isnonnegative, almost_equal *)
From Flocq Require Import IEEE754.BinarySingleNaN.

Lemma sub_self_finite : forall x, F64.is_finite x = true -> F64.sub x x = B754_zero false.
Proof.
  intros [s|s| |s m e B] H; try discriminate H.
  - unfold F64.sub, Bminus. destruct s; reflexivity.
  - unfold F64.sub, Bminus, Fplus_naive.
    set (p := Zpos (fst (SpecFloat.shl_align m e (Z.min e e)))).
    replace (SpecFloat.cond_Zopp s p + SpecFloat.cond_Zopp (negb s) p)%Z with 0%Z by (destruct s; cbn [negb SpecFloat.cond_Zopp]; lia).
    reflexivity.
Qed.

Lemma almost_equal_refl_finite : forall x e, F64.is_finite x = true -> almost_equal x x e = true.
Proof. intros x e H. unfold almost_equal. rewrite (sub_self_finite x H). reflexivity. Qed.

Lemma valmost_equal_refl_finite : forall a e, vis_finite a = true -> valmost_equal a a e = Some true.
Proof.
  intros a e H. unfold valmost_equal. rewrite Nat.eqb_refl. unfold vis_finite in H.
  induction a as [|x a IH]; cbn [almost_equal_loop]; [reflexivity|].
  cbn [forallb] in H. apply andb_true_iff in H. destruct H as [Hx Ha].
  rewrite (almost_equal_refl_finite x e Hx). apply IH. exact Ha.
Qed.

Lemma isnonnegative_key : forall x, nonan x -> isnonnegative x = (0 <=? key x).
Proof. intros x Hx. unfold isnonnegative. rewrite (geb_key x F64.zero Hx eq_refl). reflexivity. Qed.

Lemma issmall_elementwise : forall f, vissmall f = forallb issmall f.
Proof. reflexivity. Qed.

Lemma almost_equal_loop_spec : forall a b e, length a = length b ->
  almost_equal_loop a b e = Some (forallb (fun p => almost_equal (fst p) (snd p) e) (combine a b)).
Proof.
  induction a as [|x a IH]; intros [|y b] e L; try discriminate L;
    cbn [almost_equal_loop combine forallb fst snd]; [reflexivity|].
  injection L as L. destruct (almost_equal x y e); [apply IH; exact L|reflexivity].
Qed.

Lemma valmost_equal_spec : forall a b e,
  (length a = length b ->
   valmost_equal a b e = Some (forallb (fun p => almost_equal (fst p) (snd p) e) (combine a b))) /\
  (length a <> length b -> valmost_equal a b e = None).
Proof.
  intros a b e. unfold valmost_equal. split; intro L.
  - rewrite L, Nat.eqb_refl. apply almost_equal_loop_spec. exact L.
  - destruct (Nat.eqb_spec (length a) (length b)); [contradiction|reflexivity].
Qed.
