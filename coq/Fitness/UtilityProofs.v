(* Laws of the utility.h scalars issmall / almost_equal (model in
   FitnessDefs.v): almost_equal is reflexive on finite values and symmetric on
   all values; it is NOT transitive (Props/Refuted_C18.v).  The symmetry of
   |x - y| is the one place of C18 that uses Flocq's correctness theorem for
   subtraction (hence the classical-reals axioms of the standard library). *)
From Coq Require Import ZArith Reals Bool Lia Eqdep_dec.
From Flocq Require Import Core IEEE754.BinarySingleNaN.
From VV Require Import Base.F64 Fitness.F64Order Fitness.FitnessDefs Fitness.FitnessProofs.

Lemma abs_sub_sym : forall x y : f64, F64.abs (F64.sub x y) = F64.abs (F64.sub y x).
Proof.
  intros x y.
  destruct x as [sx|sx| |sx mx ex Bx]; destruct y as [sy|sy| |sy my ey By];
    try reflexivity; try (destruct sx, sy; reflexivity); try (destruct sx; reflexivity); try (destruct sy; reflexivity).
  set (X := B754_finite sx mx ex Bx). set (Y := B754_finite sy my ey By).
  unfold F64.abs, F64.sub.
  pose proof (Bminus_correct 53 1024 prec_gt_0_53 prec_lt_emax_53 mode_NE X Y eq_refl eq_refl) as H1.
  pose proof (Bminus_correct 53 1024 prec_gt_0_53 prec_lt_emax_53 mode_NE Y X eq_refl eq_refl) as H2.
  replace (B2R Y - B2R X)%R with (- (B2R X - B2R Y))%R in H2 by ring.
  cbn [round_mode] in H1, H2.
  rewrite round_NE_opp, Rabs_Ropp in H2.
  destruct (Rlt_bool (Rabs (round radix2 (SpecFloat.fexp 53 1024) ZnearestE (B2R X - B2R Y))) (bpow radix2 1024)).
  - destruct H1 as (R1 & F1 & _). destruct H2 as (R2 & F2 & _).
    apply B2R_Bsign_inj.
    + rewrite is_finite_Babs. exact F1.
    + rewrite is_finite_Babs. exact F2.
    + rewrite !B2R_Babs, R1, R2. apply eq_sym, Rabs_Ropp.
    + rewrite !Bsign_Babs. reflexivity.
  - destruct H1 as (O1 & _). destruct H2 as (O2 & _).
    unfold binary_overflow in O1, O2. cbn [overflow_to_inf] in O1, O2.
    destruct (Bminus mode_NE X Y); try discriminate O1.
    destruct (Bminus mode_NE Y X); try discriminate O2.
    reflexivity.
Qed.

Local Open Scope Z_scope.

(* two non-negative non-NaN doubles with the same key are the same value *)
Lemma key_inj_nonneg : forall x y : f64, nonan x -> nonan y ->
  F64.sign x = false -> F64.sign y = false -> key x = key y -> x = y.
Proof.
  intros x y Hx Hy Sx Sy K.
  destruct x as [sx|sx| |sx mx ex Bx]; try discriminate Hx;
  destruct y as [sy|sy| |sy my ey By]; try discriminate Hy;
  cbn [F64.sign Bsign] in Sx, Sy; subst; cbn [key] in K.
  - reflexivity.
  - discriminate K.
  - pose proof (mag_bounds _ _ By). lia.
  - discriminate K.
  - reflexivity.
  - pose proof (mag_bounds _ _ By). lia.
  - pose proof (mag_bounds _ _ Bx). lia.
  - pose proof (mag_bounds _ _ Bx). lia.
  - pose proof (mag_compare _ _ _ _ Bx By) as C. rewrite K, Z.compare_refl in C.
    destruct (Z.compare_spec ex ey) as [E|E|E]; try discriminate C.
    subst ey. symmetry in C. apply Pos.compare_eq in C. subst my.
    f_equal. apply UIP_dec. apply bool_dec.
Qed.

Lemma nonan_abs : forall x, nonan x -> nonan (F64.abs x).
Proof. intros [s|s| |s m e B] H; try discriminate H; reflexivity. Qed.

Lemma sign_abs : forall x, nonan x -> F64.sign (F64.abs x) = false.
Proof. intros [s|s| |s m e B] H; try discriminate H; reflexivity. Qed.

Lemma std_max_sym_abs : forall x y, nonan x -> nonan y ->
  std_max (F64.abs x) (F64.abs y) = std_max (F64.abs y) (F64.abs x).
Proof.
  intros x y Hx Hy. unfold std_max.
  pose proof (nonan_abs x Hx) as Ax. pose proof (nonan_abs y Hy) as Ay.
  destruct (F64.ltb (F64.abs x) (F64.abs y)) eqn:E1.
  - rewrite (ltb_asym _ _ Ax Ay E1). reflexivity.
  - destruct (F64.ltb (F64.abs y) (F64.abs x)) eqn:E2; [reflexivity|].
    pose proof (ltb_total _ _ Ax Ay E1 E2) as Q. apply (key_eq_iff _ _ Ax Ay) in Q.
    apply key_inj_nonneg; try assumption; apply sign_abs; assumption.
Qed.

Lemma leb_nan_l : forall y, F64.leb B754_nan y = false.
Proof. reflexivity. Qed.

Lemma sub_nan : forall x y, x = B754_nan \/ y = B754_nan -> F64.abs (F64.sub x y) = B754_nan.
Proof.
  intros x y [H|H]; subst; [reflexivity|].
  destruct x as [s|s| |s m e B]; reflexivity.
Qed.

Lemma almost_equal_nan : forall x y e, x = B754_nan \/ y = B754_nan -> almost_equal x y e = false.
Proof. intros x y e H. unfold almost_equal. rewrite (sub_nan x y H). reflexivity. Qed.

Lemma almost_equal_sym : forall x y e, almost_equal x y e = almost_equal y x e.
Proof.
  intros x y e.
  destruct (nonan_dec x) as [Hx|Hx]; [|rewrite !almost_equal_nan by (auto); reflexivity].
  destruct (nonan_dec y) as [Hy|Hy]; [|rewrite !almost_equal_nan by (auto); reflexivity].
  unfold almost_equal. rewrite (abs_sub_sym x y), (std_max_sym_abs x y Hx Hy). reflexivity.
Qed.

Lemma valmost_equal_sym : forall a b e, valmost_equal a b e = valmost_equal b a e.
Proof.
  intros a b e. unfold valmost_equal. rewrite (Nat.eqb_sym (length b) (length a)).
  destruct (Nat.eqb_spec (length a) (length b)) as [L|L]; [|reflexivity].
  revert b L. induction a as [|x a IH]; intros [|y b] L; try discriminate L; cbn [almost_equal_loop]; [reflexivity|].
  injection L as L. rewrite (almost_equal_sym x y e). destruct (almost_equal y x e); [apply IH; exact L|reflexivity].
Qed.
