(* Executable model of vita::basic_fitness_t<double> (src/kernel/fitness.tcc,
   fitness.h) and of model_measurements::operator>= (model_measurements.h).
   Definitions only; one definition per C++ function, same control structure.

   A fitness is the sequence of its components ([vect_], a small_vector).
   Comparisons of components are the C++ operators on double, i.e. F64.ltb /
   F64.gtb / F64.eqb (false as soon as a NaN is involved).

   Functions whose C++ body reads [f[i]] behind an [Expects] contract return
   [None] when the contract is broken (the C++ then reads out of bounds). *)
From Coq Require Import ZArith List Bool.
From VV Require Import Base.F64.
Import ListNotations.

Definition vec := list f64.

Definition is_empty (a : vec) : bool := match a with [] => true | _ => false end.

(* ---- operator== : std::equal(first1, last1, first2, last2).
   For random access iterators libstdc++ first compares the two distances and
   then runs the three-iterator loop. *)
Fixpoint equal3 (a b : vec) : bool :=
  match a with
  | [] => true
  | x :: a' =>
      match b with
      | [] => false                       (* not reachable from [eq_vec] *)
      | y :: b' => if F64.eqb x y then equal3 a' b' else false
      end
  end.

Definition eq_vec (a b : vec) : bool :=
  if Nat.eqb (length a) (length b) then equal3 a b else false.

(* operator!= *)
Definition ne (a b : vec) : bool := negb (eq_vec a b).

(* ---- operator< : std::lexicographical_compare(first1, last1, first2, last2)
     for (; first1 != last1 && first2 != last2; ++first1, ++first2)
     { if ( *first1 < *first2 ) return true;
       if ( *first2 < *first1 ) return false; }
     return first1 == last1 && first2 != last2;                          *)
Fixpoint lt_lex (a b : vec) : bool :=
  match a, b with
  | x :: a', y :: b' =>
      if F64.ltb x y then true
      else if F64.ltb y x then false
      else lt_lex a' b'
  | [], _ :: _ => true
  | _, [] => false
  end.

(* operator>  : operator<(rhs, lhs) *)
Definition gt (a b : vec) : bool := lt_lex b a.
(* operator>= : !operator<(lhs, rhs) *)
Definition ge (a b : vec) : bool := negb (lt_lex a b).
(* operator<= : !operator>(lhs, rhs) *)
Definition le (a b : vec) : bool := negb (gt a b).

(* ---- dominating(lhs, rhs)
     bool one_better(lhs.size() && !rhs.size());
     const auto n(std::min(lhs.size(), rhs.size()));
     for (i < n) if (lhs[i] > rhs[i]) one_better = true;
                 else if (lhs[i] < rhs[i]) return false;
     return one_better;                                                   *)
Fixpoint dom_loop (one_better : bool) (a b : vec) : bool :=
  match a, b with
  | x :: a', y :: b' =>
      if F64.gtb x y then dom_loop true a' b'
      else if F64.ltb x y then false
      else dom_loop one_better a' b'
  | _, _ => one_better
  end.

Definition dominating (a b : vec) : bool :=
  dom_loop (negb (is_empty a) && is_empty b) a b.

(* ---- index loops:  for (std::size_t i(start); i < start + k; ++i) body *)
Fixpoint for_idx {S : Type} (k i : nat) (body : nat -> S -> option S) (s : S) : option S :=
  match k with
  | O => Some s
  | S k' => match body i s with
            | None => None
            | Some s' => for_idx k' (Datatypes.S i) body s'
            end
  end.

Fixpoint set_nth (i : nat) (v : f64) (l : vec) : vec :=
  match l with
  | [] => []
  | h :: t => match i with O => v :: t | S j => h :: set_nth j v t end
  end.

(* operator+=, -=, *= :  n = size(); for (i < n) operator[](i) op= f[i];
   both subscripts are guarded by Expects(i < size()) *)
Definition compound (op : f64 -> f64 -> f64) (lhs f : vec) : option vec :=
  for_idx (length lhs) 0
    (fun i cur =>
       match nth_error cur i, nth_error f i with
       | Some x, Some y => Some (set_nth i (op x y) cur)
       | _, _ => None
       end) lhs.

(* operator+, -, * (by value lhs, then the compound assignment) *)
Definition plus := compound F64.add.
Definition minus := compound F64.sub.
Definition times := compound F64.mul.

(* operator/(f, v), operator*(f, v), abs, sqrt, round_to:
   for (auto &f_i : f) f_i = g(f_i); *)
Definition div_scalar (f : vec) (v : f64) : vec := map (fun x => F64.div x v) f.
Definition mul_scalar (f : vec) (v : f64) : vec := map (fun x => F64.mul x v) f.
Definition vabs (f : vec) : vec := map F64.abs f.
Definition vsqrt (f : vec) : vec := map F64.sqrt f.

(* utility.h round_to(T val): val /= 0.0001; val = std::round(val); val *= 0.0001 *)
Definition float_epsilon : f64 := F64.of_bits 4547007122018943789. (* 0x3f1a36e2eb1c432d = 0.0001 *)
Definition round_to_scalar (x : f64) : f64 :=
  F64.mul (F64.round_half_away (F64.div x float_epsilon)) float_epsilon.
Definition round_to (f : vec) : vec := map round_to_scalar f.

(* isfinite / isnan : std::all_of / std::any_of *)
Definition vis_finite (f : vec) : bool := forallb F64.is_finite f.
Definition vis_nan (f : vec) : bool := existsb F64.is_nan f.

(* ---- utility.h scalars
   issmall(v):        static constexpr auto e(epsilon); return std::abs(v) < 2.0 * e;
   isnonnegative(v):  return v >= static_cast<T>(0);
   almost_equal(v1, v2, e = 0.00001):
     const T diff(std::abs(v1 - v2));
     if (issmall(diff)) return true;
     v1 = std::abs(v1); v2 = std::abs(v2);
     const T largest(std::max(v1, v2));          // (a < b) ? b : a
     return diff <= largest * e;                                           *)
Definition two_epsilon : f64 := F64.of_bits 4377498837804122112.   (* 0x3cc0000000000000 = 2^-51 *)
Definition default_ae_epsilon : f64 := F64.of_bits 4532020583610935537. (* 0x3ee4f8b588e368f1 = 0.00001 *)

Definition issmall (v : f64) : bool := F64.ltb (F64.abs v) two_epsilon.
Definition isnonnegative (v : f64) : bool := F64.geb v F64.zero.
Definition std_max (a b : f64) : f64 := if F64.ltb a b then b else a.

Definition almost_equal (v1 v2 e : f64) : bool :=
  let diff := F64.abs (F64.sub v1 v2) in
  if issmall diff then true
  else
    let a1 := F64.abs v1 in
    let a2 := F64.abs v2 in
    let largest := std_max a1 a2 in
    F64.leb diff (F64.mul largest e).

(* fitness.tcc issmall / isnonnegative: std::all_of;
   almost_equal(f1, f2, e): Expects(f1.size() == f2.size()); all components *)
Definition vissmall (f : vec) : bool := forallb issmall f.
Definition visnonnegative (f : vec) : bool := forallb isnonnegative f.

Fixpoint almost_equal_loop (a b : vec) (e : f64) : option bool :=
  match a with
  | [] => Some true
  | x :: a' =>
      match b with
      | [] => None
      | y :: b' => if almost_equal x y e then almost_equal_loop a' b' e else Some false
      end
  end.
Definition valmost_equal (a b : vec) (e : f64) : option bool :=
  if Nat.eqb (length a) (length b) then almost_equal_loop a b e else None.

(* ---- distance:  Expects(f1.size() == f2.size());
     std::inner_product(f1.begin(), f1.end(), f2.begin(), 0.0, std::plus<>(),
                        [](T a, T b) { return std::fabs(a - b); })
   i.e.  for (; first1 != last1; ++first1, ++first2)
           init = init + fabs( *first1 - *first2 );                        *)
Fixpoint inner_product (a b : vec) (init : f64) : option f64 :=
  match a with
  | [] => Some init
  | x :: a' =>
      match b with
      | [] => None
      | y :: b' => inner_product a' b' (F64.add init (F64.abs (F64.sub x y)))
      end
  end.

Definition distance (a b : vec) : option f64 :=
  if Nat.eqb (length a) (length b) then inner_product a b F64.zero else None.

(* ---- combine: ret.insert(end, f1...); ret.insert(end, f2...) *)
Definition combine_fit (a b : vec) : vec := ([] ++ a) ++ b.

(* ---- model_measurements and its operator>= *)
Record measurements := { m_fitness : vec; m_accuracy : f64; m_is_solution : bool }.

(* the constructor:  Expects(accuracy <= 1.0) *)
Definition f64_one : f64 := F64.of_bits 4607182418800017408. (* 0x3ff0000000000000 *)
Definition make_measurements (f : vec) (a : f64) (s : bool) : option measurements :=
  if F64.leb a f64_one then Some {| m_fitness := f; m_accuracy := a; m_is_solution := s |} else None.

Definition mm_ge (l r : measurements) : bool :=
  dominating (m_fitness l) (m_fitness r) && F64.geb (m_accuracy l) (m_accuracy r).

(* ---- selection of the best of a sequence of fitness values, as done all
   over the library:  if (f > best) best = f;  *)
Definition keep_better (best y : vec) : vec := if gt y best then y else best.
Definition best_of (l : list vec) : option vec :=
  match l with
  | [] => None
  | x :: xs => Some (fold_left keep_better xs x)
  end.
