(* What the SOURCE says about the relational operators of basic_fitness_t,
   dominating(), model_measurements::operator>= and (round 4) the element-wise
   arithmetic, the lifts, distance, combine and the scalar round_to, as data.

   translate/fitness_ops.py reads fitness.tcc / model_measurements.h on every
   check run and writes coq/Gen/FitnessOps.v: one [rexpr] per relational
   operator (which std algorithm with which comparator, or which other operator
   with which argument order under which negation), and a [dom_def] for
   dominating (initial value of the flag, loop bound, the per-component
   statement).  This file gives these descriptions their meaning (definitions
   only).  Fitness/FitnessSrcProofs.v proves that the regenerated descriptions
   denote exactly the functions of FitnessDefs.v about which the theorems of
   C18 are stated; when the source changes the way an operator is derived, that
   proof stops checking. *)
From Coq Require Import ZArith List Bool.
From VV Require Import Base.F64 Fitness.FitnessDefs.
Import ListNotations.

Inductive side := Lhs | Rhs.

(* ---- per-element expressions: what a loop / transform applies to the
   element(s) at one index.  [EL] is the element of the left (or only) vector
   -- for the scalar round_to of utility.h, its argument --, [ER] the element
   of the right vector, [EScalar] the scalar parameter of the function;
   constants are binary64 bit patterns.  A call of the scalar round_to is
   [ECall FRoundTo _] and means the model's [round_to_scalar], which the
   regenerated [round_to_scalar_def] is separately proved to equal. *)
Inductive ebin := BAdd | BSub | BMul | BDiv.
Inductive efun := FAbs | FSqrt | FRound | FRoundTo.
Inductive eexpr :=
  | EL | ER | EScalar
  | EConst (bits : Z)
  | ENeg (a : eexpr)
  | EBin (o : ebin) (a b : eexpr)
  | ECall (f : efun) (a : eexpr).

Definition ebin_eval (o : ebin) : f64 -> f64 -> f64 :=
  match o with BAdd => F64.add | BSub => F64.sub | BMul => F64.mul | BDiv => F64.div end.
Definition efun_eval (f : efun) : f64 -> f64 :=
  match f with FAbs => F64.abs | FSqrt => F64.sqrt | FRound => F64.round_half_away | FRoundTo => round_to_scalar end.

Fixpoint eeval (e : eexpr) (l r s : f64) : f64 :=
  match e with
  | EL => l | ER => r | EScalar => s
  | EConst bits => F64.of_bits bits
  | ENeg a => F64.neg (eeval a l r s)
  | EBin o a b => ebin_eval o (eeval a l r s) (eeval b l r s)
  | ECall f a => efun_eval f (eeval a l r s)
  end.

(* a test on two doubles (x, y); [s] is the scalar parameter of the enclosing
   function (the tolerance of almost_equal) *)
Inductive ecmp := CLt | CLe | CGt | CGe | CEq | CNe | CAlmost | CTrue | CNot (c : ecmp)
  | CAlmostE (e : eexpr)               (* almost_equal(x, y, e) *)
  | COn (e1 e2 : eexpr) (c : ecmp).    (* c applied to (e1(x, y), e2(x, y)) *)

Fixpoint test_s (s : f64) (c : ecmp) (x y : f64) : bool :=
  match c with
  | CLt => F64.ltb x y
  | CLe => F64.leb x y
  | CGt => F64.gtb x y
  | CGe => F64.geb x y
  | CEq => F64.eqb x y
  | CNe => F64.neb x y
  | CAlmost => almost_equal x y default_ae_epsilon
  | CTrue => true
  | CNot c' => negb (test_s s c' x y)
  | CAlmostE e => almost_equal x y (eeval e x y s)
  | COn e1 e2 c' => test_s s c' (eeval e1 x y s) (eeval e2 x y s)
  end.
Definition test (c : ecmp) (x y : f64) : bool := test_s F64.zero c x y.

Inductive relop := OpLt | OpEq | OpGt | OpGe | OpLe | OpNe.

Inductive rexpr :=
  | RConst (b : bool)
  | RLex (x y : side) (c : ecmp)      (* std::lexicographical_compare(begin(x), end(x), begin(y), end(y), c) *)
  | REqual4 (x y : side) (c : ecmp)   (* std::equal(begin(x), end(x), begin(y), end(y), c) *)
  | REqual3 (x y : side) (c : ecmp)   (* std::equal(begin(x), end(x), begin(y), c): y at least as long *)
  | RMemEq (x y : side)               (* std::memcmp(begin(x), begin(y), x.size() * sizeof(T)) == 0 *)
  | RSizeEq (x y : side)              (* x.size() == y.size() *)
  | RCall (o : relop) (x y : side)    (* operator o (x, y)  /  x o y   on fitness values *)
  | RDom (x y : side)                 (* dominating(x.fitness, y.fitness) *)
  | RAcc (c : ecmp) (x y : side)      (* x.accuracy c y.accuracy *)
  | RNot (e : rexpr)
  | RAnd (e1 e2 : rexpr)
  | ROr (e1 e2 : rexpr)
  | RIte (c t e : rexpr).             (* if (c) return t;  ...rest e *)

(* ---- the std algorithms with an explicit comparator *)
Fixpoint lex_compare (c : ecmp) (a b : vec) : bool :=
  match a, b with
  | x :: a', y :: b' =>
      if test c x y then true else if test c y x then false else lex_compare c a' b'
  | [], _ :: _ => true
  | _, [] => false
  end.

Fixpoint equal3_with (c : ecmp) (a b : vec) : option bool :=
  match a with
  | [] => Some true
  | x :: a' =>
      match b with
      | [] => None                       (* reads past the end of the second range *)
      | y :: b' => if test c x y then equal3_with c a' b' else Some false
      end
  end.

Definition equal4_with (c : ecmp) (a b : vec) : option bool :=
  if Nat.eqb (length a) (length b) then equal3_with c a b else Some false.

(* block comparison of the object representations; a NaN has many
   representations, so the outcome is not determined by the model: None *)
Fixpoint mem_eq (a b : vec) : option bool :=
  match a with
  | [] => Some true
  | x :: a' =>
      match b with
      | [] => None
      | y :: b' =>
          if F64.is_nan x || F64.is_nan y then None
          else if Z.eqb (F64.to_bits x) (F64.to_bits y) then mem_eq a' b'
          else match mem_eq a' b' with None => None | Some _ => Some false end
      end
  end.

(* ---- dominating *)
Inductive sexpr :=                     (* the initial value of the flag: a test on the sizes *)
  | SConst (b : bool)
  | SNonEmpty (x : side)               (* x.size()  /  !x.empty() *)
  | SNot (e : sexpr) | SAnd (e1 e2 : sexpr) | SOr (e1 e2 : sexpr).

Inductive dact := DSetBetter | DReturn (b : bool) | DContinue.
(* if (c) t; else els;  next *)
Inductive dstmt := DNil | DIf (c : ecmp) (t : dact) (els : dstmt) (next : dstmt).
Inductive dbound := BMin | BLhs | BRhs.
Record dom_def := { d_init : sexpr; d_bound : dbound; d_body : dstmt }.

Definition pick {A : Type} (s : side) (a b : A) : A := match s with Lhs => a | Rhs => b end.

Fixpoint seval (e : sexpr) (a b : vec) : bool :=
  match e with
  | SConst v => v
  | SNonEmpty x => negb (is_empty (pick x a b))
  | SNot e' => negb (seval e' a b)
  | SAnd e1 e2 => seval e1 a b && seval e2 a b
  | SOr e1 e2 => seval e1 a b || seval e2 a b
  end.

Inductive outcome := Fall (ob : bool) | Cont (ob : bool) | Ret (r : bool).

Definition act (t : dact) (ob : bool) : outcome :=
  match t with DSetBetter => Fall true | DReturn r => Ret r | DContinue => Cont ob end.

Fixpoint exec (s : dstmt) (x y : f64) (ob : bool) : outcome :=
  match s with
  | DNil => Fall ob
  | DIf c t els next =>
      match (if test c x y then act t ob else exec els x y ob) with
      | Fall ob' => exec next x y ob'
      | o => o
      end
  end.

Fixpoint dom_run (body : dstmt) (bound : dbound) (ob : bool) (a b : vec) : option bool :=
  match a, b with
  | x :: a', y :: b' =>
      match exec body x y ob with
      | Ret r => Some r
      | Fall ob' | Cont ob' => dom_run body bound ob' a' b'
      end
  | [], [] => Some ob
  | [], _ :: _ => match bound with BRhs => None | _ => Some ob end
  | _ :: _, [] => match bound with BLhs => None | _ => Some ob end
  end.

Definition dom_eval (d : dom_def) (a b : vec) : option bool :=
  dom_run (d_body d) (d_bound d) (seval (d_init d) a b) a b.

(* ---- evaluation of an operator description.  [defs] maps each operator to
   its description (calls between operators are followed, [fuel] bounds the
   depth: the call graph of the source is acyclic and three deep). *)
Definition obind (o : option bool) (k : bool -> option bool) : option bool :=
  match o with None => None | Some v => k v end.

Fixpoint reval (fuel : nat) (defs : relop -> rexpr) (dom : dom_def) {struct fuel}
  : rexpr -> vec -> vec -> f64 -> f64 -> option bool :=
  fix go (e : rexpr) (a b : vec) (acca accb : f64) {struct e} : option bool :=
  match e with
  | RConst v => Some v
  | RLex x y c => Some (lex_compare c (pick x a b) (pick y a b))
  | REqual4 x y c => equal4_with c (pick x a b) (pick y a b)
  | REqual3 x y c => equal3_with c (pick x a b) (pick y a b)
  | RMemEq x y => mem_eq (pick x a b) (pick y a b)
  | RSizeEq x y => Some (Nat.eqb (length (pick x a b)) (length (pick y a b)))
  | RCall o x y =>
      match fuel with
      | O => None
      | S f => reval f defs dom (defs o) (pick x a b) (pick y a b) (pick x acca accb) (pick y acca accb)
      end
  | RDom x y => dom_eval dom (pick x a b) (pick y a b)
  | RAcc c x y => Some (test c (pick x acca accb) (pick y acca accb))
  | RNot e' => obind (go e' a b acca accb) (fun v => Some (negb v))
  | RAnd e1 e2 => obind (go e1 a b acca accb) (fun v => if v then go e2 a b acca accb else Some false)
  | ROr e1 e2 => obind (go e1 a b acca accb) (fun v => if v then Some true else go e2 a b acca accb)
  | RIte c t e' => obind (go c a b acca accb)
                         (fun v => if v then go t a b acca accb else go e' a b acca accb)
  end.

(* ---- the arithmetic: which loop over which per-element expression *)
(* the reduction algorithm fixes the ORDER of the accumulation, which matters
   for a floating-point sum: std::inner_product is the left fold
   acc(...acc(acc(init, e0), e1)..., en); std::transform_reduce / std::reduce
   may group and permute the terms in any way (libstdc++ sums random-access
   ranges in blocks of four), so their value is not determined by the model. *)
Inductive inner_alg := ALeftFold | AUnspecifiedOrder.

Inductive vop :=
  | VIndexLoop (e : eexpr)     (* n = size(); for (i < n) self[i] = e(self[i], f[i]);  (Expects on both subscripts) *)
  | VRangeFor (e : eexpr)      (* for (auto &f_i : f) f_i = e(f_i, -, v); *)
  | VInner (alg : inner_alg) (eq_sizes : bool) (init : Z) (acc : ebin) (e : eexpr)
                               (* [Expects(equal sizes);] std::inner_product | std::transform_reduce (a, b, init, acc, e) *)
  | VConcat (empty_when : sexpr) (order : list side).
                               (* [if (empty_when) return {};]  ret.insert(end(ret), x...) for x in order *)

Definition veval_binary (v : vop) (a b : vec) : option vec :=
  match v with
  | VIndexLoop e => compound (fun x y => eeval e x y F64.zero) a b
  | _ => None
  end.

Definition veval_unary (v : vop) (f : vec) (s : f64) : option vec :=
  match v with
  | VRangeFor e => Some (map (fun x => eeval e x F64.zero s) f)
  | _ => None
  end.

Fixpoint inner_product_with (acc g : f64 -> f64 -> f64) (a b : vec) (init : f64) : option f64 :=
  match a with
  | [] => Some init
  | x :: a' =>
      match b with
      | [] => None
      | y :: b' => inner_product_with acc g a' b' (acc init (g x y))
      end
  end.

Definition veval_inner (v : vop) (a b : vec) : option f64 :=
  match v with
  | VInner ALeftFold eqs init acc e =>
      if negb eqs || Nat.eqb (length a) (length b)
      then inner_product_with (ebin_eval acc) (fun x y => eeval e x y F64.zero) a b (F64.of_bits init)
      else None
  | VInner AUnspecifiedOrder _ _ _ _ => None
  | _ => None
  end.

Definition veval_concat (v : vop) (a b : vec) : option vec :=
  match v with
  | VConcat g order => Some (if seval g a b then [] else fold_left (fun ret x => ret ++ pick x a b) order [])
  | _ => None
  end.

(* ---- the lifts of scalar predicates: std::all_of / std::any_of *)
Inductive epred := PIsFinite | PIsNan | PIsSmall | PIsNonneg | PNot (p : epred).
Fixpoint peval (p : epred) (x : f64) : bool :=
  match p with
  | PIsFinite => F64.is_finite x
  | PIsNan => F64.is_nan x
  | PIsSmall => issmall x
  | PIsNonneg => isnonnegative x
  | PNot p' => negb (peval p' x)
  end.
Inductive quant := QAll | QAny.
Record lift_def := { l_quant : quant; l_pred : epred }.
Definition lift_eval (d : lift_def) (f : vec) : bool :=
  match l_quant d with QAll => forallb (peval (l_pred d)) f | QAny => existsb (peval (l_pred d)) f end.

(* [Expects(equal sizes);] for (i < n) if (!test(a[i], b[i])) return false; return true; *)
Record pair_lift := { pl_eq_sizes : bool; pl_test : ecmp }.
Fixpoint all_pairs (t : f64 -> f64 -> bool) (a b : vec) : option bool :=
  match a with
  | [] => Some true
  | x :: a' =>
      match b with
      | [] => None
      | y :: b' => if t x y then all_pairs t a' b' else Some false
      end
  end.
Definition pair_lift_eval (d : pair_lift) (a b : vec) (s : f64) : option bool :=
  if negb (pl_eq_sizes d) || Nat.eqb (length a) (length b)
  then all_pairs (test_s s (pl_test d)) a b else None.
