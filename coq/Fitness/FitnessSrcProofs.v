(* The regenerated description of the source (Gen/FitnessOps.v) denotes exactly
   the model functions of FitnessDefs.v, for ALL arguments.  Every theorem of
   C18 about [lt_lex eq_vec gt ge le ne dominating mm_ge] therefore is a theorem
   about what fitness.tcc / model_measurements.h say today; when the source
   derives an operator differently these proofs stop checking. *)
From Coq Require Import ZArith List Bool.
From VV Require Import Base.F64 Fitness.FitnessDefs Fitness.FitnessSrc Gen.FitnessOps.
Import ListNotations.

(* the operators / dominating / model_measurements >= as the source defines them *)
Definition src_rel (o : relop) (a b : vec) : option bool :=
  reval 4 op_defs dominating_def (op_defs o) a b F64.zero F64.zero.
Definition src_dominating (a b : vec) : option bool := dom_eval dominating_def a b.
Definition src_mm_ge (l r : measurements) : option bool :=
  reval 4 op_defs dominating_def mm_ge_def (m_fitness l) (m_fitness r) (m_accuracy l) (m_accuracy r).

Lemma lex_compare_lt : forall a b, lex_compare CLt a b = lt_lex a b.
Proof.
  induction a as [|x a IH]; intros [|y b]; cbn [lex_compare lt_lex test test_s]; try reflexivity.
  rewrite IH. reflexivity.
Qed.

Lemma equal3_with_eq : forall a b, length a = length b -> equal3_with CEq a b = Some (equal3 a b).
Proof.
  induction a as [|x a IH]; intros [|y b] L; cbn [equal3_with equal3 test test_s]; try discriminate L; try reflexivity.
  injection L as L. destruct (F64.eqb x y); [apply IH; exact L|reflexivity].
Qed.

Lemma equal4_with_eq : forall a b, equal4_with CEq a b = Some (eq_vec a b).
Proof.
  intros a b. unfold equal4_with, eq_vec.
  destruct (Nat.eqb_spec (length a) (length b)) as [E|E]; [apply equal3_with_eq; exact E|reflexivity].
Qed.

Lemma src_lt : forall a b, src_rel OpLt a b = Some (lt_lex a b).
Proof. intros a b. unfold src_rel. cbn [reval op_defs op_lt_def pick]. rewrite lex_compare_lt. reflexivity. Qed.

Lemma src_eq : forall a b, src_rel OpEq a b = Some (eq_vec a b).
Proof. intros a b. unfold src_rel. cbn [reval op_defs op_eq_def pick]. apply equal4_with_eq. Qed.

Lemma src_gt : forall a b, src_rel OpGt a b = Some (gt a b).
Proof.
  intros a b. unfold src_rel, gt. cbn [reval op_defs op_gt_def op_lt_def pick]. rewrite lex_compare_lt. reflexivity.
Qed.

Lemma src_ge : forall a b, src_rel OpGe a b = Some (ge a b).
Proof.
  intros a b. unfold src_rel, ge. cbn [reval op_defs op_ge_def op_lt_def pick obind]. rewrite lex_compare_lt. reflexivity.
Qed.

Lemma src_le : forall a b, src_rel OpLe a b = Some (le a b).
Proof.
  intros a b. unfold src_rel, le, gt. cbn [reval op_defs op_le_def op_gt_def op_lt_def pick obind].
  rewrite lex_compare_lt. reflexivity.
Qed.

Lemma src_ne : forall a b, src_rel OpNe a b = Some (ne a b).
Proof.
  intros a b. unfold src_rel, ne. cbn [reval op_defs op_ne_def op_eq_def pick obind].
  rewrite equal4_with_eq. reflexivity.
Qed.

Lemma src_dom_loop : forall a b ob,
  dom_run (d_body dominating_def) (d_bound dominating_def) ob a b = Some (dom_loop ob a b).
Proof.
  induction a as [|x a IH]; intros [|y b] ob; try reflexivity.
  cbn [dom_run d_body d_bound dominating_def exec test test_s act dom_loop].
  destruct (F64.gtb x y).
  - apply IH.
  - destruct (F64.ltb x y); [reflexivity|apply IH].
Qed.

Lemma src_dom_init : forall a b, seval (d_init dominating_def) a b = negb (is_empty a) && is_empty b.
Proof. intros [|x a] [|y b]; reflexivity. Qed.

Lemma src_dom : forall a b, src_dominating a b = Some (dominating a b).
Proof.
  intros a b. unfold src_dominating, dom_eval, dominating. rewrite src_dom_init. apply src_dom_loop.
Qed.

Lemma src_mm : forall l r, src_mm_ge l r = Some (mm_ge l r).
Proof.
  intros l r. unfold src_mm_ge, mm_ge. cbn [reval mm_ge_def pick obind test test_s].
  change (dom_eval dominating_def (m_fitness l) (m_fitness r)) with (src_dominating (m_fitness l) (m_fitness r)).
  rewrite src_dom. cbn [obind]. destruct (dominating (m_fitness l) (m_fitness r)); reflexivity.
Qed.

Theorem source_definitions_are_the_model : forall a b l r,
  src_rel OpLt a b = Some (lt_lex a b) /\ src_rel OpEq a b = Some (eq_vec a b) /\
  src_rel OpGt a b = Some (gt a b) /\ src_rel OpGe a b = Some (ge a b) /\
  src_rel OpLe a b = Some (le a b) /\ src_rel OpNe a b = Some (ne a b) /\
  src_dominating a b = Some (dominating a b) /\ src_mm_ge l r = Some (mm_ge l r).
Proof.
  intros a b l r.
  exact (conj (src_lt a b) (conj (src_eq a b) (conj (src_gt a b) (conj (src_ge a b)
        (conj (src_le a b) (conj (src_ne a b) (conj (src_dom a b) (src_mm l r)))))))).
Qed.

(* ------------------------------------------------------------------ *)
(* the arithmetic, the lifts, distance, combine, the scalar round_to *)
Definition src_plus (a b : vec) := veval_binary plus_def a b.
Definition src_minus (a b : vec) := veval_binary minus_def a b.
Definition src_times (a b : vec) := veval_binary times_def a b.
Definition src_div_scalar (f : vec) (v : f64) := veval_unary div_scalar_def f v.
Definition src_mul_scalar (f : vec) (v : f64) := veval_unary mul_scalar_def f v.
Definition src_abs (f : vec) := veval_unary abs_def f F64.zero.
Definition src_sqrt (f : vec) := veval_unary sqrt_def f F64.zero.
Definition src_round_to (f : vec) := veval_unary round_to_def f F64.zero.
Definition src_distance (a b : vec) := veval_inner distance_def a b.
Definition src_combine (a b : vec) := veval_concat combine_def a b.
Definition src_isfinite (f : vec) := lift_eval isfinite_def f.
Definition src_isnan (f : vec) := lift_eval isnan_def f.
Definition src_issmall (f : vec) := lift_eval issmall_def f.
Definition src_isnonnegative (f : vec) := lift_eval isnonnegative_def f.
Definition src_almost_equal (a b : vec) (e : f64) := pair_lift_eval almost_equal_def a b e.
Definition src_round_to_scalar (x : f64) := eeval round_to_scalar_def x F64.zero F64.zero.

Lemma src_round_to_scalar_ok : forall x, src_round_to_scalar x = round_to_scalar x.
Proof. intro x. reflexivity. Qed.

Lemma src_plus_ok : forall a b, src_plus a b = plus a b.
Proof. reflexivity. Qed.
Lemma src_minus_ok : forall a b, src_minus a b = minus a b.
Proof. reflexivity. Qed.
Lemma src_times_ok : forall a b, src_times a b = times a b.
Proof. reflexivity. Qed.
Lemma src_div_scalar_ok : forall f v, src_div_scalar f v = Some (div_scalar f v).
Proof. reflexivity. Qed.
Lemma src_mul_scalar_ok : forall f v, src_mul_scalar f v = Some (mul_scalar f v).
Proof. reflexivity. Qed.
Lemma src_abs_ok : forall f, src_abs f = Some (vabs f).
Proof. reflexivity. Qed.
Lemma src_sqrt_ok : forall f, src_sqrt f = Some (vsqrt f).
Proof. reflexivity. Qed.
Lemma src_round_to_ok : forall f, src_round_to f = Some (round_to f).
Proof. reflexivity. Qed.

Lemma inner_product_with_ok : forall a b init,
  inner_product_with F64.add (fun x y => F64.abs (F64.sub x y)) a b init = inner_product a b init.
Proof.
  induction a as [|x a IH]; intros [|y b] init; cbn [inner_product_with inner_product]; try reflexivity.
  apply IH.
Qed.

Lemma src_distance_ok : forall a b, src_distance a b = distance a b.
Proof.
  intros a b. unfold src_distance, distance. cbn [veval_inner distance_def negb orb ebin_eval].
  destruct (Nat.eqb (length a) (length b)); [|reflexivity].
  change (fun x y : f64 => eeval (ECall FAbs (EBin BSub EL ER)) x y F64.zero)
    with (fun x y : f64 => F64.abs (F64.sub x y)).
  apply inner_product_with_ok.
Qed.

Lemma src_combine_ok : forall a b, src_combine a b = Some (combine_fit a b).
Proof. reflexivity. Qed.

Lemma src_isfinite_ok : forall f, src_isfinite f = vis_finite f.
Proof. reflexivity. Qed.
Lemma src_isnan_ok : forall f, src_isnan f = vis_nan f.
Proof. reflexivity. Qed.
Lemma src_issmall_ok : forall f, src_issmall f = vissmall f.
Proof. reflexivity. Qed.
Lemma src_isnonnegative_ok : forall f, src_isnonnegative f = visnonnegative f.
Proof. reflexivity. Qed.

Lemma all_pairs_almost : forall a b e,
  all_pairs (test_s e (CAlmostE EScalar)) a b = almost_equal_loop a b e.
Proof.
  induction a as [|x a IH]; intros [|y b] e; cbn [all_pairs almost_equal_loop]; try reflexivity.
  change (test_s e (CAlmostE EScalar) x y) with (almost_equal x y e).
  rewrite IH. reflexivity.
Qed.

Lemma src_almost_equal_ok : forall a b e, src_almost_equal a b e = valmost_equal a b e.
Proof.
  intros a b e. unfold src_almost_equal, pair_lift_eval, valmost_equal.
  cbn [almost_equal_def pl_eq_sizes pl_test negb orb].
  destruct (Nat.eqb (length a) (length b)); [apply all_pairs_almost|reflexivity].
Qed.

Theorem source_arithmetic_is_the_model : forall a b f v e x,
  src_plus a b = plus a b /\ src_minus a b = minus a b /\ src_times a b = times a b /\
  src_div_scalar f v = Some (div_scalar f v) /\ src_mul_scalar f v = Some (mul_scalar f v) /\
  src_abs f = Some (vabs f) /\ src_sqrt f = Some (vsqrt f) /\ src_round_to f = Some (round_to f) /\
  src_round_to_scalar x = round_to_scalar x /\
  src_distance a b = distance a b /\ src_combine a b = Some (combine_fit a b) /\
  src_isfinite f = vis_finite f /\ src_isnan f = vis_nan f /\
  src_issmall f = vissmall f /\ src_isnonnegative f = visnonnegative f /\
  src_almost_equal a b e = valmost_equal a b e.
Proof.
  intros a b f v e x.
  exact (conj (src_plus_ok a b) (conj (src_minus_ok a b) (conj (src_times_ok a b)
        (conj (src_div_scalar_ok f v) (conj (src_mul_scalar_ok f v) (conj (src_abs_ok f) (conj (src_sqrt_ok f)
        (conj (src_round_to_ok f) (conj (src_round_to_scalar_ok x) (conj (src_distance_ok a b)
        (conj (src_combine_ok a b) (conj (src_isfinite_ok f) (conj (src_isnan_ok f) (conj (src_issmall_ok f)
        (conj (src_isnonnegative_ok f) (src_almost_equal_ok a b e)))))))))))))))).
Qed.

(* the same statement one level up, as an illustration: trichotomy of the
   operators as the source defines them *)
From VV Require Import Fitness.F64Order Fitness.FitnessProofs.
Lemma source_trichotomy : forall a b, nonan_vec a -> nonan_vec b ->
  exists l e g, src_rel OpLt a b = Some l /\ src_rel OpEq a b = Some e /\ src_rel OpGt a b = Some g /\
    ((l = true /\ e = false /\ g = false) \/ (l = false /\ e = true /\ g = false) \/
     (l = false /\ e = false /\ g = true)).
Proof.
  intros a b Ha Hb. exists (lt_lex a b), (eq_vec a b), (gt a b).
  split; [apply src_lt|]. split; [apply src_eq|]. split; [apply src_gt|].
  exact (trichotomy a b Ha Hb).
Qed.
