(* The regenerated description of the source (Gen/FitnessOps.v) denotes exactly
   the model functions of FitnessDefs.v, for ALL arguments.  Every theorem of
   C18 about [lt_lex eq_vec gt ge le ne dominating mm_ge] therefore is a theorem
   about what fitness.tcc / model_measurements.h say today; when the source
   derives an operator differently these proofs stop checking. *)
From Coq Require Import ZArith List Bool.
From VV Require Import Base.F64 Fitness.FitnessDefs Fitness.FitnessSrc Gen.FitnessOps.
Import ListNotations.

(* the operators / dominating / model_measurements >= as the source defines them *)
Definition src_rel (o : relop) (a b : vec) : option bool :=
  reval 4 op_defs dominating_def (op_defs o) a b F64.zero F64.zero.
Definition src_dominating (a b : vec) : option bool := dom_eval dominating_def a b.
Definition src_mm_ge (l r : measurements) : option bool :=
  reval 4 op_defs dominating_def mm_ge_def (m_fitness l) (m_fitness r) (m_accuracy l) (m_accuracy r).

Lemma lex_compare_lt : forall a b, lex_compare CLt a b = lt_lex a b.
Proof.
  induction a as [|x a IH]; intros [|y b]; cbn [lex_compare lt_lex test]; try reflexivity.
  rewrite IH. reflexivity.
Qed.

Lemma equal3_with_eq : forall a b, length a = length b -> equal3_with CEq a b = Some (equal3 a b).
Proof.
  induction a as [|x a IH]; intros [|y b] L; cbn [equal3_with equal3 test]; try discriminate L; try reflexivity.
  injection L as L. destruct (F64.eqb x y); [apply IH; exact L|reflexivity].
Qed.

Lemma equal4_with_eq : forall a b, equal4_with CEq a b = Some (eq_vec a b).
Proof.
  intros a b. unfold equal4_with, eq_vec.
  destruct (Nat.eqb_spec (length a) (length b)) as [E|E]; [apply equal3_with_eq; exact E|reflexivity].
Qed.

Lemma src_lt : forall a b, src_rel OpLt a b = Some (lt_lex a b).
Proof. intros a b. unfold src_rel. cbn [reval op_defs op_lt_def pick]. rewrite lex_compare_lt. reflexivity. Qed.

Lemma src_eq : forall a b, src_rel OpEq a b = Some (eq_vec a b).
Proof. intros a b. unfold src_rel. cbn [reval op_defs op_eq_def pick]. apply equal4_with_eq. Qed.

Lemma src_gt : forall a b, src_rel OpGt a b = Some (gt a b).
Proof.
  intros a b. unfold src_rel, gt. cbn [reval op_defs op_gt_def op_lt_def pick]. rewrite lex_compare_lt. reflexivity.
Qed.

Lemma src_ge : forall a b, src_rel OpGe a b = Some (ge a b).
Proof.
  intros a b. unfold src_rel, ge. cbn [reval op_defs op_ge_def op_lt_def pick obind]. rewrite lex_compare_lt. reflexivity.
Qed.

Lemma src_le : forall a b, src_rel OpLe a b = Some (le a b).
Proof.
  intros a b. unfold src_rel, le, gt. cbn [reval op_defs op_le_def op_gt_def op_lt_def pick obind].
  rewrite lex_compare_lt. reflexivity.
Qed.

Lemma src_ne : forall a b, src_rel OpNe a b = Some (ne a b).
Proof.
  intros a b. unfold src_rel, ne. cbn [reval op_defs op_ne_def op_eq_def pick obind].
  rewrite equal4_with_eq. reflexivity.
Qed.

Lemma src_dom_loop : forall a b ob,
  dom_run (d_body dominating_def) (d_bound dominating_def) ob a b = Some (dom_loop ob a b).
Proof.
  induction a as [|x a IH]; intros [|y b] ob; try reflexivity.
  cbn [dom_run d_body d_bound dominating_def exec test act dom_loop].
  destruct (F64.gtb x y).
  - apply IH.
  - destruct (F64.ltb x y); [reflexivity|apply IH].
Qed.

Lemma src_dom_init : forall a b, seval (d_init dominating_def) a b = negb (is_empty a) && is_empty b.
Proof. intros [|x a] [|y b]; reflexivity. Qed.

Lemma src_dom : forall a b, src_dominating a b = Some (dominating a b).
Proof.
  intros a b. unfold src_dominating, dom_eval, dominating. rewrite src_dom_init. apply src_dom_loop.
Qed.

Lemma src_mm : forall l r, src_mm_ge l r = Some (mm_ge l r).
Proof.
  intros l r. unfold src_mm_ge, mm_ge. cbn [reval mm_ge_def pick obind test].
  change (dom_eval dominating_def (m_fitness l) (m_fitness r)) with (src_dominating (m_fitness l) (m_fitness r)).
  rewrite src_dom. cbn [obind]. destruct (dominating (m_fitness l) (m_fitness r)); reflexivity.
Qed.

Theorem source_definitions_are_the_model : forall a b l r,
  src_rel OpLt a b = Some (lt_lex a b) /\ src_rel OpEq a b = Some (eq_vec a b) /\
  src_rel OpGt a b = Some (gt a b) /\ src_rel OpGe a b = Some (ge a b) /\
  src_rel OpLe a b = Some (le a b) /\ src_rel OpNe a b = Some (ne a b) /\
  src_dominating a b = Some (dominating a b) /\ src_mm_ge l r = Some (mm_ge l r).
Proof.
  intros a b l r.
  exact (conj (src_lt a b) (conj (src_eq a b) (conj (src_gt a b) (conj (src_ge a b)
        (conj (src_le a b) (conj (src_ne a b) (conj (src_dom a b) (src_mm l r)))))))).
Qed.

(* the same statement one level up, as an illustration: trichotomy of the
   operators as the source defines them *)
From VV Require Import Fitness.F64Order Fitness.FitnessProofs.
Lemma source_trichotomy : forall a b, nonan_vec a -> nonan_vec b ->
  exists l e g, src_rel OpLt a b = Some l /\ src_rel OpEq a b = Some e /\ src_rel OpGt a b = Some g /\
    ((l = true /\ e = false /\ g = false) \/ (l = false /\ e = true /\ g = false) \/
     (l = false /\ e = false /\ g = true)).
Proof.
  intros a b Ha Hb. exists (lt_lex a b), (eq_vec a b), (gt a b).
  split; [apply src_lt|]. split; [apply src_eq|]. split; [apply src_gt|].
  exact (trichotomy a b Ha Hb).
Qed.
