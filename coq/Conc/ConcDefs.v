(* C15 -- executable model of threads sharing one fitness cache, definitions
   only.

   A thread is a list of atomic actions; std::shared_mutex is the usual
   reader-set / writer-flag transition system (the ids in it are ghost state;
   H_mutex: the real shared_mutex implements it).  The cache memory is the
   seal_ word and the slots of Cache/CacheDefs.v.  The fitness value of a
   slot is copied OUT word by word (one step per word, the length re-read at
   every step, as a copy loop does), so a copy that is not protected can be
   torn or cut short.  The assignment `table_[i] = s` is a SEQUENCE of steps in
   member order (hash, then fitness, then seal), each on its own location, so
   in the middle of an insert / load the slot holds the new key with the old
   value; the fitness vector is written in one step (the word-level layout of
   small_vector and its allocator are outside the model).

   The action sequence of each cache:: method is [compile], a skeleton whose
   lock / unlock actions and the place of the value copy (before or after the
   unlock) come from the REGENERATED Gen/CacheProto.v. *)
From Coq Require Import NArith List Bool Arith.
From VV Require Import Cache.CacheDefs Conc.ProtoTypes.
Import ListNotations.
Local Open Scope N_scope.

Definition tid := nat.
Definition word := N.

Inductive action :=
| ALock (x : bool)            (* true: unique_lock, false: shared_lock; blocks *)
| AUnlock (x : bool)
| ARdSeal                     (* local seal := seal_ *)
| ARdSlot (i : N) (k : key)   (* const slot &s(table_[i]); ret := seal == s.seal && k == s.hash *)
| ACopy                       (* one more word of s.fitness into the result, while ret *)
| ARdFields (i : N)           (* save: s.seal, s.hash, s.fitness of slot i *)
| AWrKey (i : N) (k : key)    (* table_[i].hash = k       (first member of table_[i] = s) *)
| AWrFit (i : N) (v : list word)   (* table_[i].fitness = v    (second member) *)
| AWrSlotSeal (i : N)         (* table_[i].seal = local seal   (third member, insert) *)
| AWrSlotSealV (i : N) (n : N)     (* table_[i].seal = t_seal  (third member, load) *)
| AWrHash (i : N)             (* table_[i].hash = hash_t() *)
| AWrSeal                     (* ++seal_ (and the reset of the slot seals when it wraps) *)
| AWrSealV (n : N)            (* seal_ = t_seal  (load) *)
| ARet.                       (* find returns: (key, copied value) is recorded *)

Record thread := mkth {
  acts : list action;
  holds : option bool;        (* the lock this thread holds: Some true = exclusive *)
  lseal : N;
  curi : N; curk : key;       (* the slot / key of the find in progress *)
  matched : bool;             (* `ret` of find *)
  whole : bool;               (* the copy has reached the end of the value *)
  acc : list word;            (* the copy so far *)
  results : list (key * list word) }.

Record state := mkst {
  readers : list tid; writer : option tid;      (* shared_mutex *)
  gseal : N; mem : N -> slot;                   (* seal_, table_ *)
  ths : list thread }.

Definition pending (th : thread) : bool := matched th && negb (whole th).

Fixpoint set_nth {A : Type} (l : list A) (n : nat) (x : A) : list A :=
  match l, n with
  | [], _ => []
  | _ :: r, O => x :: r
  | a :: r, S n' => a :: set_nth r n' x
  end.

Definition remove_tid (t : tid) (l : list tid) : list tid :=
  filter (fun x => negb (Nat.eqb x t)) l.

Definition is_none {A : Type} (o : option A) : bool := match o with None => true | _ => false end.

(* one action of thread t; None = blocked (lock not available) *)
Definition exec (s : state) (t : tid) (th : thread) : option state :=
  match acts th with
  | [] => None
  | a :: r =>
      let put rd wr gs mm th' := Some (mkst rd wr gs mm (set_nth (ths s) t th')) in
      let keep th' := put (readers s) (writer s) (gseal s) (mem s) th' in
      match a with
      | ALock false =>
          if is_none (writer s)
          then put (t :: readers s) (writer s) (gseal s) (mem s)
                   (mkth r (Some false) (lseal th) (curi th) (curk th) (matched th) (whole th) (acc th) (results th))
          else None
      | ALock true =>
          if is_none (writer s) && (match readers s with [] => true | _ => false end)
          then put (readers s) (Some t) (gseal s) (mem s)
                   (mkth r (Some true) (lseal th) (curi th) (curk th) (matched th) (whole th) (acc th) (results th))
          else None
      | AUnlock false =>
          put (remove_tid t (readers s)) (writer s) (gseal s) (mem s)
              (mkth r None (lseal th) (curi th) (curk th) (matched th) (whole th) (acc th) (results th))
      | AUnlock true =>
          put (readers s) None (gseal s) (mem s)
              (mkth r None (lseal th) (curi th) (curk th) (matched th) (whole th) (acc th) (results th))
      | ARdSeal =>
          keep (mkth r (holds th) (gseal s) (curi th) (curk th) (matched th) (whole th) (acc th) (results th))
      | ARdSlot i k =>
          let sl := mem s i in
          keep (mkth r (holds th) (lseal th) i k
                     ((lseal th =? sseal sl) && key_eqb k (skey sl)) false [] (results th))
      | ACopy =>
          if pending th
          then match nth_error (sfit (mem s (curi th))) (length (acc th)) with
               | Some w =>     (* stays at the head of the program: the copy loop *)
                   keep (mkth (acts th) (holds th) (lseal th) (curi th) (curk th) (matched th) false
                              (acc th ++ [w]) (results th))
               | None =>
                   keep (mkth r (holds th) (lseal th) (curi th) (curk th) (matched th) true
                              (acc th) (results th))
               end
          else keep (mkth r (holds th) (lseal th) (curi th) (curk th) (matched th) (whole th) (acc th) (results th))
      | ARdFields i => keep (mkth r (holds th) (lseal th) (curi th) (curk th) (matched th) (whole th) (acc th) (results th))
      | AWrKey i k =>
          let sl := mem s i in
          put (readers s) (writer s) (gseal s) (upd (mem s) i (mkslot k (sfit sl) (sseal sl)))
              (mkth r (holds th) (lseal th) (curi th) (curk th) (matched th) (whole th) (acc th) (results th))
      | AWrFit i v =>
          let sl := mem s i in
          put (readers s) (writer s) (gseal s) (upd (mem s) i (mkslot (skey sl) v (sseal sl)))
              (mkth r (holds th) (lseal th) (curi th) (curk th) (matched th) (whole th) (acc th) (results th))
      | AWrSlotSeal i =>
          let sl := mem s i in
          put (readers s) (writer s) (gseal s) (upd (mem s) i (mkslot (skey sl) (sfit sl) (lseal th)))
              (mkth r (holds th) (lseal th) (curi th) (curk th) (matched th) (whole th) (acc th) (results th))
      | AWrSlotSealV i n =>
          let sl := mem s i in
          put (readers s) (writer s) (gseal s) (upd (mem s) i (mkslot (skey sl) (sfit sl) n))
              (mkth r (holds th) (lseal th) (curi th) (curk th) (matched th) (whole th) (acc th) (results th))
      | AWrSealV n =>
          put (readers s) (writer s) n (mem s)
              (mkth r (holds th) (lseal th) (curi th) (curk th) (matched th) (whole th) (acc th) (results th))
      | AWrHash i =>
          let sl := mem s i in
          put (readers s) (writer s) (gseal s) (upd (mem s) i (mkslot key0 (sfit sl) (sseal sl)))
              (mkth r (holds th) (lseal th) (curi th) (curk th) (matched th) (whole th) (acc th) (results th))
      | AWrSeal =>
          let n := (lseal th + 1) mod M32 in
          let th' := mkth r (holds th) (lseal th) (curi th) (curk th) (matched th) (whole th) (acc th) (results th) in
          if n =? 0
          then put (readers s) (writer s) 1
                   (fun i => let x := mem s i in mkslot (skey x) (sfit x) 0) th'
          else put (readers s) (writer s) n (mem s) th'
      | ARet =>
          keep (mkth r (holds th) (lseal th) (curi th) (curk th) false false (acc th)
                     ((curk th, acc th) :: results th))
      end
  end.

(* a step of the schedule: a blocked or finished thread (or an id that names
   no thread) leaves the state unchanged *)
Definition step (s : state) (t : tid) : state :=
  match nth_error (ths s) t with
  | None => s
  | Some th => match exec s t th with None => s | Some s' => s' end
  end.

Definition run (sched : list tid) (s : state) : state := fold_left step sched s.

Definition init_thread (p : list action) : thread := mkth p None 0 0 key0 false false [] [].
Definition init (progs : list (list action)) : state :=
  mkst [] None 1 (fun _ => slot0) (map init_thread progs).

(* ------------------------------------------------------------ accesses *)
Inductive loc :=
| LSeal                 (* cache::seal_ *)
| LHash (i : N)         (* table_[i].hash *)
| LFit (i : N)          (* table_[i].fitness *)
| LSSeal (i : N)        (* table_[i].seal *)
| LAllSeals.            (* every table_[i].seal (the reset when the seal wraps) *)

Definition accesses (th : thread) (a : action) : list (loc * bool) :=   (* true = write *)
  match a with
  | ARdSeal => [(LSeal, false)]
  | ARdSlot i _ => [(LSSeal i, false); (LHash i, false)]
  | ACopy => if pending th then [(LFit (curi th), false)] else []
  | ARdFields i => [(LSSeal i, false); (LHash i, false); (LFit i, false)]
  | AWrKey i _ => [(LHash i, true)]
  | AWrFit i _ => [(LFit i, true)]
  | AWrSlotSeal i => [(LSSeal i, true)]
  | AWrSlotSealV i _ => [(LSSeal i, true)]
  | AWrHash i => [(LHash i, true)]
  | AWrSeal => [(LSeal, true); (LAllSeals, true)]
  | AWrSealV _ => [(LSeal, true)]
  | _ => []
  end.

Definition loc_overlap (a b : loc) : bool :=
  match a, b with
  | LSeal, LSeal => true
  | LHash i, LHash j | LFit i, LFit j | LSSeal i, LSSeal j => i =? j
  | LAllSeals, LSSeal _ | LSSeal _, LAllSeals | LAllSeals, LAllSeals => true
  | _, _ => false
  end.

Definition conflict (l1 l2 : list (loc * bool)) : bool :=
  existsb (fun p => existsb (fun q => loc_overlap (fst p) (fst q) && (snd p || snd q)) l2) l1.

(* a data race: two different threads whose NEXT actions conflict *)
Definition next_accesses (s : state) (t : tid) : list (loc * bool) :=
  match nth_error (ths s) t with
  | Some th => match acts th with a :: _ => accesses th a | [] => [] end
  | None => []
  end.

Definition race (s : state) (t1 t2 : tid) : bool :=
  negb (Nat.eqb t1 t2) && conflict (next_accesses s t1) (next_accesses s t2).

(* ------------------------------------------------------------ lock discipline
   of a program, as a static check: h = lock held, c = a find has read its
   slot and not yet copied the value *)
Definition hb_eq (a b : option bool) : bool :=
  match a, b with
  | None, None => true
  | Some x, Some y => Bool.eqb x y
  | _, _ => false
  end.

Fixpoint wlb (h : option bool) (c : bool) (l : list action) : bool :=
  match l with
  | [] => hb_eq h None && negb c
  | a :: r =>
      match a with
      | ALock x => hb_eq h None && negb c && wlb (Some x) false r
      | AUnlock x => hb_eq h (Some x) && negb c && wlb None false r
      | ARdSeal => negb (hb_eq h None) && wlb h c r
      | ARdSlot _ _ => negb (hb_eq h None) && wlb h true r
      | ACopy => negb (hb_eq h None) && wlb h false r
      | ARdFields _ => negb (hb_eq h None) && wlb h c r
      | AWrKey _ _ | AWrFit _ _ | AWrSlotSeal _ | AWrSlotSealV _ _ | AWrHash _ | AWrSeal | AWrSealV _ =>
          hb_eq h (Some true) && negb c && wlb h false r
      | ARet => negb c && wlb h false r
      end
  end.

(* ------------------------------------------------------------ the methods *)
Inductive op :=
| OFind (k : key) | OInsert (k : key) (v : list word) | OClear | OClearOne (k : key)
| OSave                                             (* cache::save: every slot is read *)
| OLoad (ts : N) (recs : list (key * list word)).   (* cache::load of a stream with seal ts and these records *)

Definition lk (p : proto) : list action :=
  match p_lock p with Shared => [ALock false] | Exclusive => [ALock true] | NoLock => [] end.
Definition ulk (p : proto) : list action :=
  match p_lock p with Shared => [AUnlock false] | Exclusive => [AUnlock true] | NoLock => [] end.

Definition idx (bits : N) (k : key) : N := fst k mod 2 ^ bits.

Definition compile (P : protos) (bits : N) (o : op) : list action :=
  match o with
  | OFind k =>
      let p := pr_find P in
      lk p ++ [ARdSeal; ARdSlot (idx bits k) k] ++
      (match p_result p with
       | ByValue => ACopy :: ulk p        (* return s.fitness;  copies before ~shared_lock *)
       | _ => ulk p ++ [ACopy]            (* a reference leaves; the caller copies afterwards *)
       end) ++ [ARet]
  | OInsert k v =>
      let p := pr_insert P in
      lk p ++ [ARdSeal; AWrKey (idx bits k) k; AWrFit (idx bits k) v; AWrSlotSeal (idx bits k)] ++ ulk p
  | OClear =>
      let p := pr_clear P in lk p ++ [ARdSeal; AWrSeal] ++ ulk p
  | OClearOne k =>
      let p := pr_clear_one P in lk p ++ [AWrHash (idx bits k)] ++ ulk p
  | OSave =>
      let p := pr_save P in lk p ++ ARdSeal :: map ARdFields (indices (2 ^ bits)) ++ ulk p
  | OLoad ts recs =>
      let p := pr_load P in
      lk p ++ flat_map (fun kv => let i := idx bits (fst kv) in
                                  [AWrKey i (fst kv); AWrFit i (snd kv); AWrSlotSealV i ts]) recs
           ++ [AWrSealV ts] ++ ulk p
  end.

Definition program (P : protos) (bits : N) (ops : list op) : list action :=
  flat_map (compile P bits) ops.

(* what the skeleton above assumes of the source: nothing shared is touched
   before the lock, every method that writes takes the exclusive lock, the
   value of find leaves by value, and the source touches no field the
   skeleton does not know about *)
Definition is_excl (p : proto) : bool := match p_lock p with Exclusive => true | _ => false end.
Definition has_lock (p : proto) : bool := match p_lock p with NoLock => false | _ => true end.
Definition by_value (p : proto) : bool := match p_result p with ByValue => true | _ => false end.
Definition not_ref (p : proto) : bool := match p_result p with ByRef => false | _ => true end.

Definition proto_ok (P : protos) : bool :=
  let f := pr_find P in let i := pr_insert P in let c := pr_clear P in let o := pr_clear_one P in
  let l := pr_load P in let s := pr_save P in
  negb (p_early f) && has_lock f && by_value f &&
    subset (p_reads f) [FSeal; FSlotSeal; FSlotHash; FSlotFitness] && subset (p_writes f) [] &&
  negb (p_early i) && is_excl i && not_ref i &&
    subset (p_reads i) [FSeal] && subset (p_writes i) [FSlotHash; FSlotFitness; FSlotSeal] &&
  negb (p_early c) && is_excl c && not_ref c &&
    subset (p_reads c) [FSeal] && subset (p_writes c) [FSeal; FSlotSeal] &&
  negb (p_early o) && is_excl o && not_ref o &&
    subset (p_reads o) [] && subset (p_writes o) [FSlotHash] &&
  negb (p_early l) && is_excl l && not_ref l &&
  negb (p_early s) && has_lock s && not_ref s && subset (p_writes s) [].

(* the values the programs may store *)
Fixpoint ins_of (l : list action) : list (key * list word) :=
  match l with
  | AWrKey _ k :: ((AWrFit _ v :: _) as r) => (k, v) :: ins_of r
  | _ :: r => ins_of r
  | [] => []
  end.

(* hash and fitness of a slot are only ever written as the pair "key, then its
   value" on one slot (static check of a program) *)
Fixpoint pairs_ok (l : list action) : bool :=
  match l with
  | [] => true
  | AWrKey i _ :: r => (match r with AWrFit j _ :: _ => i =? j | _ => false end) && pairs_ok r
  | _ :: r => (match r with AWrFit _ _ :: _ => false | _ => true end) && pairs_ok r
  end.

(* observation used by the drivers *)
Definition all_results (s : state) : list (list (key * list word)) := map results (ths s).
Definition finished (s : state) : bool := forallb (fun th => match acts th with [] => true | _ => false end) (ths s).
Definition any_race (s : state) : bool :=
  let n := length (ths s) in
  existsb (fun t1 => existsb (fun t2 => race s t1 t2) (seq 0 n)) (seq 0 n).
