(* C15 -- the invariant instantiated with the REGENERATED lock protocol
   (Gen/CacheProto.v).  [gen_ok] is where a change of cache.cc that breaks the
   protocol stops the proofs: it is checked by computation on the generated
   definitions. *)
From Coq Require Import NArith List Bool Arith.
From VV Require Import Cache.CacheDefs Conc.ProtoTypes Conc.ConcDefs Conc.ConcProofs Gen.CacheProto Conc.ConcGenDefs.
Import ListNotations.

Lemma gen_ok : proto_ok gen_protos = true.
Proof. vm_compute. reflexivity. Qed.

Lemma gen_progs_wlb : forall bits opss,
  Forall (fun p => wlb None false p = true) (gen_progs bits opss).
Proof.
  intros. unfold gen_progs. apply Forall_forall. intros p Hp. apply in_map_iff in Hp.
  destruct Hp as (ops & <- & _). apply program_wlb. exact gen_ok.
Qed.

Lemma gen_inv : forall bits opss sched,
  Inv (ins_of (concat (gen_progs bits opss))) (run sched (init (gen_progs bits opss))).
Proof. intros. apply reachable_inv. apply gen_progs_wlb. Qed.

Lemma gen_mutex_invariant : forall bits opss sched,
  let s := run sched (init (gen_progs bits opss)) in
  (forall w, writer s = Some w -> readers s = []) /\
  NoDup (readers s) /\
  (forall t th, nth_error (ths s) t = Some th ->
     (holds th = Some true <-> writer s = Some t) /\ (holds th = Some false <-> In t (readers s))).
Proof. intros. exact (inv_mutex _ _ (gen_inv bits opss sched)). Qed.

Lemma gen_no_data_race : forall bits opss sched t1 t2,
  race (run sched (init (gen_progs bits opss))) t1 t2 = false.
Proof. intros. exact (inv_no_race _ _ t1 t2 (gen_inv bits opss sched)). Qed.

Lemma gen_find_whole : forall bits opss sched t th k r,
  nth_error (ths (run sched (init (gen_progs bits opss)))) t = Some th ->
  In (k, r) (results th) -> k <> key0 ->
  r = [] \/ exists ops, In ops opss /\ In (OInsert k r) ops.
Proof.
  intros bits opss sched t th k r Hn Hin Hk.
  destruct (inv_results _ _ t th k r (gen_inv bits opss sched) Hn Hin) as [E|[E|E]]; [left; exact E|contradiction|right].
  unfold ins_of in E. apply in_flat_map in E. destruct E as (a & Ha & Hkv).
  apply in_concat in Ha. destruct Ha as (p & Hp & Ha). unfold gen_progs in Hp. apply in_map_iff in Hp.
  destruct Hp as (ops & <- & Hops). exists ops. split; [exact Hops|].
  apply (ins_of_program gen_protos bits). unfold ins_of. apply in_flat_map. exists a. split; assumption.
Qed.

(* any programs at all that pass the static lock-discipline check *)
Lemma any_no_data_race : forall progs sched t1 t2,
  Forall (fun p => wlb None false p = true) progs ->
  race (run sched (init progs)) t1 t2 = false.
Proof. intros progs sched t1 t2 H. exact (inv_no_race _ _ t1 t2 (reachable_inv progs sched H)). Qed.
