(* C15 -- the invariant instantiated with the REGENERATED lock protocol
   (Gen/CacheProto.v).  [gen_ok] is where a change of cache.cc that breaks the
   protocol stops the proofs: it is checked by computation on the generated
   definitions. *)
From Coq Require Import NArith List Bool Arith.
From VV Require Import Cache.CacheDefs Cache.TableTypes Cache.CacheGenDefs Gen.CacheTable Cache.CacheGenDefs2 Cache.CacheGen.
From VV Require Import Conc.ProtoTypes Conc.ConcDefs Conc.ConcProofs Gen.CacheProto Conc.ConcGenDefs Conc.ConcLin.
Import ListNotations.

Lemma gen_ok : proto_ok gen_protos = true.
Proof. vm_compute. reflexivity. Qed.

Lemma gen_progs_ok : forall bits opss,
  Forall (fun p => wlb None false p = true /\ pairs_ok p = true) (gen_progs bits opss).
Proof.
  intros. unfold gen_progs. apply Forall_forall. intros p Hp. apply in_map_iff in Hp.
  destruct Hp as (ops & <- & _). destruct (program_ok gen_protos bits ops gen_ok) as ((W & Pp & _) & _).
  split; assumption.
Qed.

Lemma gen_inv : forall bits opss sched,
  Inv (flat_map ins_of (gen_progs bits opss)) (run sched (init (gen_progs bits opss))).
Proof. intros. apply reachable_inv. apply gen_progs_ok. Qed.

Lemma gen_mutex_invariant : forall bits opss sched,
  let s := run sched (init (gen_progs bits opss)) in
  (forall w, writer s = Some w -> readers s = []) /\
  NoDup (readers s) /\
  (forall t th, nth_error (ths s) t = Some th ->
     (holds th = Some true <-> writer s = Some t) /\ (holds th = Some false <-> In t (readers s))).
Proof. intros. exact (inv_mutex _ _ (gen_inv bits opss sched)). Qed.

Lemma gen_no_data_race : forall bits opss sched t1 t2,
  race (run sched (init (gen_progs bits opss))) t1 t2 = false.
Proof. intros. exact (inv_no_race _ _ t1 t2 (gen_inv bits opss sched)). Qed.

Lemma gen_find_whole : forall bits opss sched t th k r,
  nth_error (ths (run sched (init (gen_progs bits opss)))) t = Some th ->
  In (k, r) (results th) -> k <> key0 ->
  r = [] \/ exists ops o, In ops opss /\ In o ops /\ In (k, r) (ins_op o).
Proof.
  intros bits opss sched t th k r Hn Hin Hk.
  destruct (inv_results _ _ t th k r (gen_inv bits opss sched) Hn Hin) as [E|[E|E]]; [left; exact E|contradiction|right].
  apply in_flat_map in E. destruct E as (p & Hp & Hkv). unfold gen_progs in Hp. apply in_map_iff in Hp.
  destruct Hp as (ops & <- & Hops). destruct (program_ok gen_protos bits ops gen_ok) as (_ & Hins).
  rewrite Hins in Hkv. apply in_flat_map in Hkv. destruct Hkv as (o & Ho & Hkv).
  exists ops, o. repeat split; assumption.
Qed.

(* a slot is never observed half assigned by a thread that holds a lock:
   outside the two member writes of the exclusive holder every slot holds a
   stored (key, value) pair or the empty key *)
Lemma gen_slot_consistent : forall bits opss sched t th j,
  let s := run sched (init (gen_progs bits opss)) in
  nth_error (ths s) t = Some th -> holds th <> None ->
  (forall v r, acts th <> AWrFit j v :: r) ->
  skey (mem s j) = key0 \/ In (skey (mem s j), sfit (mem s j)) (flat_map ins_of (gen_progs bits opss)).
Proof. intros. exact (slot_ok_for_holder _ _ t th j (gen_inv bits opss sched) H H0 H1). Qed.

(* any programs at all that pass the static checks *)
Lemma any_no_data_race : forall progs sched t1 t2,
  Forall (fun p => wlb None false p = true /\ pairs_ok p = true) progs ->
  race (run sched (init progs)) t1 t2 = false.
Proof. intros progs sched t1 t2 H. exact (inv_no_race _ _ t1 t2 (reachable_inv progs sched H)). Qed.

(* linearisation for the regenerated protocol *)
Lemma gen_linearisation : forall bits opss sched,
  let s := fst (irun opss sched (init (gen_progs bits opss), [])) in
  let l := snd (irun opss sched (init (gen_progs bits opss), [])) in
  s = run sched (init (gen_progs bits opss)) /\
  (forall t, ops_of l t = firstn (count l t) (nth t opss [])) /\
  (writer s = None -> agree (gseal s) (mem s) (seq_table bits l)) /\
  (forall t th, nth_error (ths s) t = Some th ->
     results th = seq_results bits l t \/ exists kr, seq_results bits l t = kr :: results th) /\
  (forall t th, nth_error (ths s) t = Some th -> acts th = [] -> results th = seq_results bits l t).
Proof. intros bits opss sched. exact (linearisation gen_protos bits gen_ok opss sched). Qed.

(* the sequential cache of the linearisation is the table model of C04, as
   regenerated from cache.cc (the now_ functions) *)
Lemma seq_is_now : forall tb k v,
  seq_apply tb (OInsert k v) = now_insert tb k v /\ seq_apply tb OClear = now_clear tb /\
  seq_apply tb (OClearOne k) = now_clear_one tb k /\ find tb k = now_find tb k /\
  seq_table 0 [] = now_fresh 0.
Proof.
  intros. unfold now_insert, now_clear, now_clear_one, now_fresh. rewrite gen_is_std.
  rewrite g_insert_std, g_clear_std, g_clear_one_std, g_fresh_std, now_find_eq. repeat split; reflexivity.
Qed.
