(* C15 -- the vocabulary of the regenerated lock protocol (Gen/CacheProto.v):
   per cache:: method, the lock constructed first, whether a shared field is
   touched before the lock, the shared fields read and written, how the
   result leaves the function. *)
From Coq Require Import List.
Import ListNotations.

Inductive lockkind := Shared | Exclusive | NoLock.
Inductive field := FSeal | FSlotHash | FSlotFitness | FSlotSeal.
Inductive result := ByValue | ByRef | NoResult.

Record proto := mkproto {
  p_lock : lockkind;
  p_early : bool;                 (* a shared field is touched before the lock *)
  p_reads : list field;
  p_writes : list field;
  p_result : result }.

Record protos := mkprotos {
  pr_find : proto; pr_insert : proto; pr_clear : proto; pr_clear_one : proto;
  pr_load : proto; pr_save : proto }.

Definition field_eqb (a b : field) : bool :=
  match a, b with
  | FSeal, FSeal | FSlotHash, FSlotHash | FSlotFitness, FSlotFitness | FSlotSeal, FSlotSeal => true
  | _, _ => false
  end.

Definition subset (a b : list field) : bool :=
  forallb (fun x => existsb (field_eqb x) b) a.
