(* C15 -- lemmas about the thread model (Conc/ConcDefs.v): one invariant, kept
   by every step of every thread, gives mutual exclusion, absence of data
   races and integrity of the values returned by find. *)
From Coq Require Import NArith List Bool Arith Lia.
From VV Require Import Cache.CacheDefs Cache.CacheProofs Conc.ProtoTypes Conc.ConcDefs.
Import ListNotations.

(* ------------------------------------------------------------ lists *)
Lemma nth_set_same : forall (A : Type) (l : list A) n x y,
  nth_error l n = Some y -> nth_error (set_nth l n x) n = Some x.
Proof.
  intros A l. induction l as [|a l IH]; intros [|n] x y H; cbn in *; try discriminate; try reflexivity.
  eapply IH. exact H.
Qed.

Lemma nth_set_other : forall (A : Type) (l : list A) n m x,
  n <> m -> nth_error (set_nth l n x) m = nth_error l m.
Proof.
  intros A l. induction l as [|a l IH]; intros [|n] [|m] x H; cbn; try reflexivity; try congruence.
  apply IH. congruence.
Qed.

Lemma set_nth_length : forall (A : Type) (l : list A) n x, length (set_nth l n x) = length l.
Proof. intros A l. induction l as [|a l IH]; intros [|n] x; cbn; try reflexivity. rewrite IH. reflexivity. Qed.

Lemma firstn_snoc : forall (A : Type) (l : list A) n w,
  nth_error l n = Some w -> firstn (S n) l = firstn n l ++ [w].
Proof.
  intros A l. induction l as [|a l IH]; intros [|n] w H; cbn in *; try discriminate.
  - inversion H. reflexivity.
  - f_equal. apply IH. exact H.
Qed.

Lemma in_remove_tid : forall t x l, In x (remove_tid t l) <-> In x l /\ x <> t.
Proof.
  intros. unfold remove_tid. rewrite filter_In. rewrite negb_true_iff, Nat.eqb_neq. tauto.
Qed.

Lemma nodup_remove_tid : forall t l, NoDup l -> NoDup (remove_tid t l).
Proof.
  intros t l H. unfold remove_tid. induction H as [|a l Hn Hd IH]; cbn; [constructor|].
  destruct (negb (a =? t)%nat); [constructor; [|exact IH]|exact IH].
  intro Hin. apply filter_In in Hin. tauto.
Qed.

Lemma hb_eq_true : forall a b, hb_eq a b = true -> a = b.
Proof. intros [[|]|] [[|]|]; cbn; congruence. Qed.

Lemma hb_eq_none : forall a, negb (hb_eq a None) = true -> a <> None.
Proof. intros [[|]|]; cbn; congruence. Qed.

Lemma hb_neq_none : forall a, a <> None -> negb (hb_eq a None) = true.
Proof. intros [[|]|]; cbn; congruence. Qed.

Lemma wlb_lock : forall h c x r, wlb h c (ALock x :: r) = true ->
  h = None /\ c = false /\ wlb (Some x) false r = true.
Proof.
  intros h c x r H. cbn [wlb] in H. repeat rewrite andb_true_iff in H. destruct H as ((A & B) & C).
  apply hb_eq_true in A. apply negb_true_iff in B. tauto.
Qed.

Lemma wlb_unlock : forall h c x r, wlb h c (AUnlock x :: r) = true ->
  h = Some x /\ c = false /\ wlb None false r = true.
Proof.
  intros h c x r H. cbn [wlb] in H. repeat rewrite andb_true_iff in H. destruct H as ((A & B) & C).
  apply hb_eq_true in A. apply negb_true_iff in B. tauto.
Qed.

Lemma wlb_rdseal : forall h c r, wlb h c (ARdSeal :: r) = true -> h <> None /\ wlb h c r = true.
Proof. intros h c r H. cbn [wlb] in H. apply andb_true_iff in H. destruct H as (A & B). apply hb_eq_none in A. tauto. Qed.

Lemma wlb_rdslot : forall h c i k r, wlb h c (ARdSlot i k :: r) = true -> h <> None /\ wlb h true r = true.
Proof. intros h c i k r H. cbn [wlb] in H. apply andb_true_iff in H. destruct H as (A & B). apply hb_eq_none in A. tauto. Qed.

Lemma wlb_copy : forall h c r, wlb h c (ACopy :: r) = true -> h <> None /\ wlb h false r = true.
Proof. intros h c r H. cbn [wlb] in H. apply andb_true_iff in H. destruct H as (A & B). apply hb_eq_none in A. tauto. Qed.

Definition is_wr (a : action) : bool :=
  match a with AWrSlot _ _ _ | AWrHash _ | AWrSeal => true | _ => false end.

Lemma wlb_wr : forall h c a r, is_wr a = true -> wlb h c (a :: r) = true ->
  h = Some true /\ c = false /\ wlb h false r = true.
Proof.
  intros h c a r Ha H. destruct a; try discriminate; cbn [wlb] in H; repeat rewrite andb_true_iff in H;
    destruct H as ((A & B) & C); apply hb_eq_true in A; apply negb_true_iff in B; tauto.
Qed.

Lemma wlb_ret : forall h c r, wlb h c (ARet :: r) = true -> c = false /\ wlb h false r = true.
Proof. intros h c r H. cbn [wlb] in H. apply andb_true_iff in H. destruct H as (A & B). apply negb_true_iff in A. tauto. Qed.

(* ------------------------------------------------------------ invariant *)
Section Invariant.
  Variable INS : list (key * list word).      (* the (key, value) pairs the programs may store *)

  Definition good (k : key) (r : list word) : Prop := r = [] \/ k = key0 \/ In (k, r) INS.
  Definition slot_ok (s : slot) : Prop := skey s = key0 \/ In (skey s, sfit s) INS.
  Definition ins_ok (a : action) : Prop :=
    match a with AWrSlot _ k v => In (k, v) INS | _ => True end.

  Definition th_ok (rd : list tid) (wr : option tid) (mm : N -> slot) (t : tid) (th : thread) : Prop :=
    (exists c, wlb (holds th) c (acts th) = true /\ (pending th = true -> c = true)) /\
    (holds th = Some false <-> In t rd) /\
    (holds th = Some true <-> wr = Some t) /\
    (pending th = true ->
       holds th <> None /\ skey (mm (curi th)) = curk th /\
       acc th = firstn (length (acc th)) (sfit (mm (curi th)))) /\
    (pending th = false -> good (curk th) (acc th)) /\
    Forall (fun kr => good (fst kr) (snd kr)) (results th) /\
    Forall ins_ok (acts th).

  Definition Inv (s : state) : Prop :=
    NoDup (readers s) /\
    (writer s <> None -> readers s = []) /\
    (forall i, slot_ok (mem s i)) /\
    forall t th, nth_error (ths s) t = Some th -> th_ok (readers s) (writer s) (mem s) t th.

  Lemma th_ok_intro : forall rd wr mm t th c,
    wlb (holds th) c (acts th) = true -> (pending th = true -> c = true) ->
    (holds th = Some false <-> In t rd) -> (holds th = Some true <-> wr = Some t) ->
    (pending th = true ->
       holds th <> None /\ skey (mm (curi th)) = curk th /\
       acc th = firstn (length (acc th)) (sfit (mm (curi th)))) ->
    (pending th = false -> good (curk th) (acc th)) ->
    Forall (fun kr => good (fst kr) (snd kr)) (results th) ->
    Forall ins_ok (acts th) ->
    th_ok rd wr mm t th.
  Proof. intros. unfold th_ok. split; [exists c; tauto|tauto]. Qed.

  Lemma th_ok_other : forall rd wr mm rd' wr' mm' t th,
    th_ok rd wr mm t th ->
    (In t rd' <-> In t rd) -> (wr' = Some t <-> wr = Some t) ->
    (pending th = true -> mm' (curi th) = mm (curi th)) ->
    th_ok rd' wr' mm' t th.
  Proof.
    intros rd wr mm rd' wr' mm' t th (HW & HMs & HMx & HC & HA & HR & HI) Hrd Hwr Hmm.
    unfold th_ok. split; [exact HW|]. split; [tauto|]. split; [tauto|]. split.
    - intro Hp. rewrite (Hmm Hp). apply HC. exact Hp.
    - split; [exact HA|split; [exact HR|exact HI]].
  Qed.

  (* a thread that holds no lock has no copy in progress *)
  Lemma unlocked_not_pending : forall rd wr mm t th,
    th_ok rd wr mm t th -> holds th = None -> pending th = false.
  Proof.
    intros rd wr mm t th (_ & _ & _ & HC & _) Hh.
    destruct (pending th) eqn:Ep; [|reflexivity]. destruct (HC eq_refl) as (Hn & _). contradiction.
  Qed.

  (* when t holds the exclusive lock every other thread holds nothing *)
  Lemma others_hold_nothing : forall s t t' th th',
    Inv s -> nth_error (ths s) t = Some th -> holds th = Some true ->
    nth_error (ths s) t' = Some th' -> t' <> t -> holds th' = None.
  Proof.
    intros s t t' th th' (Hnd & Hwr & Hm & Hth) Ht Hh Ht' Hne.
    destruct (Hth t th Ht) as (_ & _ & HMx & _). apply HMx in Hh.
    assert (Hrd : readers s = []) by (apply Hwr; congruence).
    destruct (Hth t' th' Ht') as (_ & HMs' & HMx' & _).
    destruct (holds th') as [[|]|] eqn:E; [| |reflexivity].
    - assert (writer s = Some t') by (apply HMx'; reflexivity). congruence.
    - assert (In t' (readers s)) by (apply HMs'; reflexivity). rewrite Hrd in H. contradiction.
  Qed.

  Ltac fold_pending th :=
    repeat match goal with
    | |- context [pending (mkth ?a ?h ?l ?ci ?ck (matched th) (whole th) ?ac ?rs)] =>
        change (pending (mkth a h l ci ck (matched th) (whole th) ac rs)) with (pending th)
    end.

  Lemma exec_inv : forall s t th s',
    Inv s -> nth_error (ths s) t = Some th -> exec s t th = Some s' -> Inv s'.
  Proof.
    intros s t th s' HInv Ht Hex.
    pose proof HInv as (Hnd & Hwr & Hm & Hth).
    pose proof (Hth t th Ht) as ((c & Hw & Hpc) & HMs & HMx & HC & HA & HR & HI).
    unfold exec in Hex. destruct (acts th) as [|a r] eqn:Ea; [discriminate|].
    assert (HIr : Forall ins_ok r) by (inversion HI; assumption).
    assert (HIa : ins_ok a) by (inversion HI; assumption).
    (* the other threads, for steps that leave the memory alone *)
    assert (Others : forall rd' wr' th1,
      (forall t', t' <> t -> (In t' rd' <-> In t' (readers s))) ->
      (forall t', t' <> t -> (wr' = Some t' <-> writer s = Some t')) ->
      th_ok rd' wr' (mem s) t th1 ->
      forall t' th', nth_error (set_nth (ths s) t th1) t' = Some th' -> th_ok rd' wr' (mem s) t' th').
    { intros rd' wr' th1 Hrd' Hwr' Hself t' th' Hn.
      destruct (Nat.eq_dec t' t) as [->|Hne].
      - rewrite (nth_set_same _ _ _ _ _ Ht) in Hn. inversion Hn. subst. exact Hself.
      - rewrite nth_set_other in Hn by congruence.
        apply (th_ok_other (readers s) (writer s) (mem s)); [apply Hth; exact Hn|apply Hrd'; exact Hne|apply Hwr'; exact Hne|reflexivity]. }
    (* the other threads, for steps that write the memory (t holds the exclusive lock) *)
    assert (OthersW : holds th = Some true -> forall mm' th1,
      th_ok (readers s) (writer s) mm' t th1 ->
      forall t' th', nth_error (set_nth (ths s) t th1) t' = Some th' -> th_ok (readers s) (writer s) mm' t' th').
    { intros Hx mm' th1 Hself t' th' Hn.
      destruct (Nat.eq_dec t' t) as [->|Hne].
      - rewrite (nth_set_same _ _ _ _ _ Ht) in Hn. inversion Hn. subst. exact Hself.
      - rewrite nth_set_other in Hn by congruence.
        apply (th_ok_other (readers s) (writer s) (mem s)); [apply Hth; exact Hn|tauto|tauto|].
        intro Hp. pose proof (others_hold_nothing s t t' th th' HInv Ht Hx Hn Hne) as Hnone.
        rewrite (unlocked_not_pending _ _ _ _ _ (Hth t' th' Hn) Hnone) in Hp. discriminate. }
    assert (Pc : c = false -> pending th = false).
    { intro Hc. destruct (pending th); [|reflexivity]. rewrite Hpc in Hc by reflexivity. discriminate. }
    assert (Pf : pending th = false -> forall X : Prop, pending th = true -> X).
    { intros E X E'. rewrite E in E'. discriminate. }
    destruct a as [x|x| |i k| |i k v|i| |].
    - (* ALock *)
      destruct (wlb_lock _ _ _ _ Hw) as (Hw0 & Hw1 & Hw'). clear Hw. rename Hw' into Hw.
      specialize (Pc Hw1).
      destruct x.
      + destruct (writer s) as [w|] eqn:Ew; [discriminate|]. destruct (readers s) as [|q rd] eqn:Er; [|discriminate].
        cbn in Hex. inversion Hex; subst s'; clear Hex. unfold Inv; cbn [readers writer mem ths].
        split; [constructor|split; [reflexivity|split; [exact Hm|]]].
        apply Others.
        * intros; tauto.
        * intros t' Hne. split; intro H; [inversion H; congruence|discriminate].
        * apply (th_ok_intro _ _ _ _ _ false); fold_pending th; cbn [acts holds acc results curi curk].
          -- exact Hw.
          -- apply Pf; exact Pc.
          -- split; [discriminate|intro H; inversion H].
          -- split; reflexivity.
          -- apply Pf; exact Pc.
          -- exact HA.
          -- exact HR.
          -- exact HIr.
      + destruct (writer s) as [w|] eqn:Ew; [discriminate|].
        cbn in Hex. inversion Hex; subst s'; clear Hex. unfold Inv; cbn [readers writer mem ths].
        assert (Hnin : ~ In t (readers s)) by (intro Hin; apply HMs in Hin; congruence).
        split; [constructor; assumption|split; [intro H; congruence|split; [exact Hm|]]].
        apply Others.
        * intros t' Hne. cbn. split; [intros [E|E]; [congruence|exact E]|intro; right; assumption].
        * intros; tauto.
        * apply (th_ok_intro _ _ _ _ _ false); fold_pending th; cbn [acts holds acc results curi curk].
          -- exact Hw.
          -- apply Pf; exact Pc.
          -- split; [intro; left; reflexivity|reflexivity].
          -- split; discriminate.
          -- apply Pf; exact Pc.
          -- exact HA.
          -- exact HR.
          -- exact HIr.
    - (* AUnlock *)
      destruct (wlb_unlock _ _ _ _ Hw) as (Hw0 & Hw1 & Hw'). clear Hw. rename Hw' into Hw.
      specialize (Pc Hw1).
      destruct x.
      + assert (Ew : writer s = Some t) by (apply HMx; exact Hw0).
        assert (Er : readers s = []) by (apply Hwr; congruence).
        inversion Hex; subst s'; clear Hex. unfold Inv; cbn [readers writer mem ths].
        split; [exact Hnd|split; [intro H; congruence|split; [exact Hm|]]].
        apply Others.
        * intros; tauto.
        * intros t' Hne. rewrite Ew. split; intro H; [discriminate|inversion H; congruence].
        * apply (th_ok_intro _ _ _ _ _ false); fold_pending th; cbn [acts holds acc results curi curk].
          -- exact Hw.
          -- apply Pf; exact Pc.
          -- rewrite Er. split; [discriminate|intro H; inversion H].
          -- split; discriminate.
          -- apply Pf; exact Pc.
          -- exact HA.
          -- exact HR.
          -- exact HIr.
      + assert (Hnw : writer s <> Some t) by (intro E; apply HMx in E; congruence).
        inversion Hex; subst s'; clear Hex. unfold Inv; cbn [readers writer mem ths].
        split; [apply nodup_remove_tid; exact Hnd|split; [|split; [exact Hm|]]].
        { intro H. rewrite (Hwr H). reflexivity. }
        apply Others.
        * intros t' Hne. rewrite in_remove_tid. tauto.
        * intros; tauto.
        * apply (th_ok_intro _ _ _ _ _ false); fold_pending th; cbn [acts holds acc results curi curk].
          -- exact Hw.
          -- apply Pf; exact Pc.
          -- split; [discriminate|intro H; apply in_remove_tid in H; tauto].
          -- split; [discriminate|intro H; contradiction].
          -- apply Pf; exact Pc.
          -- exact HA.
          -- exact HR.
          -- exact HIr.
    - (* ARdSeal *)
      destruct (wlb_rdseal _ _ _ Hw) as (Hw0 & Hw'). clear Hw. rename Hw' into Hw.
      inversion Hex; subst s'; clear Hex. unfold Inv; cbn [readers writer mem ths].
      split; [exact Hnd|split; [exact Hwr|split; [exact Hm|]]].
      apply Others; [intros; tauto|intros; tauto|].
      apply (th_ok_intro _ _ _ _ _ c); fold_pending th; cbn [acts holds acc results curi curk];
        [exact Hw|exact Hpc|exact HMs|exact HMx|exact HC|exact HA|exact HR|exact HIr].
    - (* ARdSlot *)
      destruct (wlb_rdslot _ _ _ _ _ Hw) as (Hw0 & Hw'). clear Hw. rename Hw' into Hw.
      inversion Hex; subst s'; clear Hex. unfold Inv; cbn [readers writer mem ths].
      split; [exact Hnd|split; [exact Hwr|split; [exact Hm|]]].
      apply Others; [intros; tauto|intros; tauto|].
      apply (th_ok_intro _ _ _ _ _ true); unfold pending; cbn [acts holds matched whole acc results curi curk negb];
        rewrite ?andb_true_r.
      + exact Hw.
      + reflexivity.
      + exact HMs.
      + exact HMx.
      + intro H. split; [exact Hw0|split; [|reflexivity]].
        apply andb_true_iff in H. destruct H as (_ & Hk).
        destruct (key_eqb_spec k (skey (mem s i))); [symmetry; assumption|discriminate].
      + intros _. left. reflexivity.
      + exact HR.
      + exact HIr.
    - (* ACopy *)
      destruct (wlb_copy _ _ _ Hw) as (Hw0 & Hw'). clear Hw. rename Hw' into Hw.
      destruct (pending th) eqn:Ep.
      + destruct (HC eq_refl) as (Hhn & Hkey & Hacc).
        assert (Hmt : matched th = true) by (unfold pending in Ep; apply andb_true_iff in Ep; tauto).
        destruct (nth_error (sfit (mem s (curi th))) (length (acc th))) as [w|] eqn:En.
        * inversion Hex; subst s'; clear Hex. unfold Inv; cbn [readers writer mem ths].
          split; [exact Hnd|split; [exact Hwr|split; [exact Hm|]]].
          apply Others; [intros; tauto|intros; tauto|].
          apply (th_ok_intro _ _ _ _ _ true); unfold pending; cbn [acts holds matched whole acc results curi curk negb];
            rewrite ?Hmt; cbn [andb]; rewrite ?Ea.
          -- cbn [wlb]. rewrite (hb_neq_none _ Hw0), Hw. reflexivity.
          -- reflexivity.
          -- exact HMs.
          -- exact HMx.
          -- intros _. split; [exact Hw0|split; [exact Hkey|]].
             rewrite app_length. cbn [length]. rewrite Nat.add_1_r.
             rewrite (firstn_snoc _ _ _ _ En). rewrite <- Hacc. reflexivity.
          -- discriminate.
          -- exact HR.
          -- exact HI.
        * inversion Hex; subst s'; clear Hex. unfold Inv; cbn [readers writer mem ths].
          split; [exact Hnd|split; [exact Hwr|split; [exact Hm|]]].
          apply Others; [intros; tauto|intros; tauto|].
          apply (th_ok_intro _ _ _ _ _ false); unfold pending; cbn [acts holds matched whole acc results curi curk negb];
            rewrite ?Hmt; cbn [andb].
          -- exact Hw.
          -- discriminate.
          -- exact HMs.
          -- exact HMx.
          -- discriminate.
          -- intros _. apply nth_error_None in En.
             assert (Hall : acc th = sfit (mem s (curi th))).
             { rewrite Hacc. apply firstn_all2. exact En. }
             destruct (Hm (curi th)) as [Hz|Hin].
             ++ right. left. rewrite <- Hkey. exact Hz.
             ++ right. right. rewrite <- Hkey, Hall. exact Hin.
          -- exact HR.
          -- exact HIr.
      + inversion Hex; subst s'; clear Hex. unfold Inv; cbn [readers writer mem ths].
        split; [exact Hnd|split; [exact Hwr|split; [exact Hm|]]].
        apply Others; [intros; tauto|intros; tauto|].
        apply (th_ok_intro _ _ _ _ _ false); fold_pending th; cbn [acts holds acc results curi curk];
          [exact Hw|intro H; rewrite Ep in H; discriminate|exact HMs|exact HMx
          |intro H; rewrite Ep in H; discriminate|intros _; apply HA; reflexivity|exact HR|exact HIr].
    - (* AWrSlot *)
      destruct (wlb_wr _ _ (AWrSlot i k v) _ eq_refl Hw) as (Hw0 & Hw1 & Hw'). clear Hw. rename Hw' into Hw. specialize (Pc Hw1).
      inversion Hex; subst s'; clear Hex. unfold Inv; cbn [readers writer mem ths].
      split; [exact Hnd|split; [exact Hwr|split]].
      + intro j. unfold upd. destruct (N.eqb j i); [right; exact HIa|apply Hm].
      + apply (OthersW Hw0).
        apply (th_ok_intro _ _ _ _ _ false); fold_pending th; cbn [acts holds acc results curi curk];
          [exact Hw|apply Pf; exact Pc|exact HMs|exact HMx|apply Pf; exact Pc|exact HA|exact HR|exact HIr].
    - (* AWrHash *)
      destruct (wlb_wr _ _ (AWrHash i) _ eq_refl Hw) as (Hw0 & Hw1 & Hw'). clear Hw. rename Hw' into Hw. specialize (Pc Hw1).
      inversion Hex; subst s'; clear Hex. unfold Inv; cbn [readers writer mem ths].
      split; [exact Hnd|split; [exact Hwr|split]].
      + intro j. unfold upd. destruct (N.eqb j i); [left; reflexivity|apply Hm].
      + apply (OthersW Hw0).
        apply (th_ok_intro _ _ _ _ _ false); fold_pending th; cbn [acts holds acc results curi curk];
          [exact Hw|apply Pf; exact Pc|exact HMs|exact HMx|apply Pf; exact Pc|exact HA|exact HR|exact HIr].
    - (* AWrSeal *)
      destruct (wlb_wr _ _ AWrSeal _ eq_refl Hw) as (Hw0 & Hw1 & Hw'). clear Hw. rename Hw' into Hw. specialize (Pc Hw1).
      destruct (N.eqb ((lseal th + 1) mod M32) 0).
      + inversion Hex; subst s'; clear Hex. unfold Inv; cbn [readers writer mem ths].
        split; [exact Hnd|split; [exact Hwr|split]].
        * intro j. exact (Hm j).
        * apply (OthersW Hw0).
          apply (th_ok_intro _ _ _ _ _ false); fold_pending th; cbn [acts holds acc results curi curk];
            [exact Hw|apply Pf; exact Pc|exact HMs|exact HMx|apply Pf; exact Pc|exact HA|exact HR|exact HIr].
      + inversion Hex; subst s'; clear Hex. unfold Inv; cbn [readers writer mem ths].
        split; [exact Hnd|split; [exact Hwr|split; [exact Hm|]]].
        apply (OthersW Hw0).
        apply (th_ok_intro _ _ _ _ _ false); fold_pending th; cbn [acts holds acc results curi curk];
          [exact Hw|apply Pf; exact Pc|exact HMs|exact HMx|apply Pf; exact Pc|exact HA|exact HR|exact HIr].
    - (* ARet *)
      destruct (wlb_ret _ _ _ Hw) as (Hw0 & Hw'). clear Hw. rename Hw' into Hw. specialize (Pc Hw0).
      inversion Hex; subst s'; clear Hex. unfold Inv; cbn [readers writer mem ths].
      split; [exact Hnd|split; [exact Hwr|split; [exact Hm|]]].
      apply Others; [intros; tauto|intros; tauto|].
      apply (th_ok_intro _ _ _ _ _ false); unfold pending; cbn [acts holds matched whole acc results curi curk andb].
      + exact Hw.
      + discriminate.
      + exact HMs.
      + exact HMx.
      + discriminate.
      + intros _. exact (HA Pc).
      + constructor; [exact (HA Pc)|exact HR].
      + exact HIr.
  Qed.

  Lemma step_inv : forall s t, Inv s -> Inv (step s t).
  Proof.
    intros s t HI. unfold step. destruct (nth_error (ths s) t) as [th|] eqn:Et; [|exact HI].
    destruct (exec s t th) as [s'|] eqn:Ex; [|exact HI]. exact (exec_inv s t th s' HI Et Ex).
  Qed.

  Lemma run_inv : forall sched s, Inv s -> Inv (run sched s).
  Proof.
    induction sched as [|t sched IH]; intros s HI; cbn; [exact HI|]. apply IH. apply step_inv. exact HI.
  Qed.

  Lemma init_inv : forall progs,
    Forall (fun p => wlb None false p = true) progs ->
    Forall (fun p => Forall ins_ok p) progs ->
    Inv (init progs).
  Proof.
    intros progs Hw Hi. unfold Inv, init; cbn [readers writer mem ths].
    split; [constructor|split; [reflexivity|split; [intro; left; reflexivity|]]].
    intros t th Hn. rewrite nth_error_map in Hn.
    destruct (nth_error progs t) as [p|] eqn:Ep; [|discriminate]. inversion Hn; subst th; clear Hn.
    apply nth_error_In in Ep. rewrite Forall_forall in Hw, Hi.
    unfold th_ok, init_thread, pending; cbn.
    repeat split; try discriminate; try (intro; contradiction).
    - exists false. split; [apply Hw; exact Ep|discriminate].
    - intros _. left. reflexivity.
    - constructor.
    - apply Hi. exact Ep.
  Qed.

  (* ---------------------------------------------------------- consequences *)
  Lemma inv_mutex : forall s, Inv s ->
    (forall w, writer s = Some w -> readers s = []) /\
    NoDup (readers s) /\
    (forall t th, nth_error (ths s) t = Some th ->
       (holds th = Some true <-> writer s = Some t) /\ (holds th = Some false <-> In t (readers s))).
  Proof.
    intros s (Hnd & Hwr & Hm & Hth). split; [|split; [exact Hnd|]].
    - intros w E. apply Hwr. congruence.
    - intros t th Hn. destruct (Hth t th Hn) as (_ & HMs & HMx & _). tauto.
  Qed.

  Lemma accesses_hold : forall rd wr mm t th a r,
    th_ok rd wr mm t th -> acts th = a :: r -> accesses th a <> [] -> holds th <> None.
  Proof.
    intros rd wr mm t th a r ((c & Hw & _) & _) Ea Hacc. rewrite Ea in Hw.
    destruct a; cbn in Hacc; try congruence; cbn [wlb] in Hw; repeat rewrite andb_true_iff in Hw.
    all: try (destruct Hw as (Hw & _); try destruct Hw as (Hw & _); try (apply hb_eq_none in Hw; exact Hw);
              apply hb_eq_true in Hw; congruence).
  Qed.

  Lemma writes_hold_x : forall rd wr mm t th a r,
    th_ok rd wr mm t th -> acts th = a :: r -> existsb snd (accesses th a) = true -> holds th = Some true.
  Proof.
    intros rd wr mm t th a r ((c & Hw & _) & _) Ea Hacc. rewrite Ea in Hw.
    destruct a; cbn in Hacc; try discriminate; cbn [wlb] in Hw; repeat rewrite andb_true_iff in Hw.
    - destruct (pending th); discriminate.
    - destruct Hw as ((Hw & _) & _). apply hb_eq_true in Hw. exact Hw.
    - destruct Hw as ((Hw & _) & _). apply hb_eq_true in Hw. exact Hw.
    - destruct Hw as ((Hw & _) & _). apply hb_eq_true in Hw. exact Hw.
  Qed.

  Lemma conflict_inv : forall l1 l2, conflict l1 l2 = true ->
    l1 <> [] /\ l2 <> [] /\ (existsb snd l1 = true \/ existsb snd l2 = true).
  Proof.
    intros l1 l2 H. unfold conflict in H. apply existsb_exists in H. destruct H as (p & Hp & H).
    apply existsb_exists in H. destruct H as (q & Hq & H). apply andb_true_iff in H. destruct H as (_ & H).
    split; [intro E; subst; contradiction|split; [intro E; subst; contradiction|]].
    apply orb_true_iff in H. destruct H as [H|H]; [left|right]; apply existsb_exists; eauto.
  Qed.

  Lemma inv_no_race : forall s t1 t2, Inv s -> race s t1 t2 = false.
  Proof.
    intros s t1 t2 HI. unfold race. destruct (Nat.eqb_spec t1 t2) as [E|Hne]; [reflexivity|]. cbn [negb andb].
    destruct (conflict (next_accesses s t1) (next_accesses s t2)) eqn:Ec; [exfalso|reflexivity].
    apply conflict_inv in Ec. destruct Ec as (N1 & N2 & Hwx).
    pose proof HI as (Hnd & Hwr & Hm & Hth).
    unfold next_accesses in *.
    destruct (nth_error (ths s) t1) as [th1|] eqn:E1; [|congruence].
    destruct (nth_error (ths s) t2) as [th2|] eqn:E2; [|congruence].
    destruct (acts th1) as [|a1 r1] eqn:A1; [congruence|].
    destruct (acts th2) as [|a2 r2] eqn:A2; [congruence|].
    pose proof (accesses_hold _ _ _ _ _ _ _ (Hth t1 th1 E1) A1 N1) as H1.
    pose proof (accesses_hold _ _ _ _ _ _ _ (Hth t2 th2 E2) A2 N2) as H2.
    destruct Hwx as [W|W].
    - pose proof (writes_hold_x _ _ _ _ _ _ _ (Hth t1 th1 E1) A1 W) as X.
      rewrite (others_hold_nothing s t1 t2 th1 th2 HI E1 X E2) in H2 by congruence. congruence.
    - pose proof (writes_hold_x _ _ _ _ _ _ _ (Hth t2 th2 E2) A2 W) as X.
      rewrite (others_hold_nothing s t2 t1 th2 th1 HI E2 X E1) in H1 by congruence. congruence.
  Qed.

  Lemma inv_results : forall s t th k r, Inv s -> nth_error (ths s) t = Some th ->
    In (k, r) (results th) -> r = [] \/ k = key0 \/ In (k, r) INS.
  Proof.
    intros s t th k r (_ & _ & _ & Hth) Hn Hin.
    destruct (Hth t th Hn) as (_ & _ & _ & _ & _ & HR & _).
    rewrite Forall_forall in HR. exact (HR (k, r) Hin).
  Qed.
End Invariant.

(* ------------------------------------------------------------ programs *)
Lemma wlb_app : forall a h c b,
  wlb h c a = true -> wlb None false b = true -> wlb h c (a ++ b) = true.
Proof.
  induction a as [|x a IH]; intros h c b Ha Hb.
  - cbn in *. apply andb_true_iff in Ha. destruct Ha as (Hh & Hc).
    apply hb_eq_true in Hh. apply negb_true_iff in Hc. subst. exact Hb.
  - destruct x; cbn [wlb app] in *; repeat rewrite andb_true_iff in *;
      repeat match goal with H : _ /\ _ |- _ => destruct H end;
      repeat split; try assumption; apply IH; assumption.
Qed.

Lemma proto_ok_locks : forall P, proto_ok P = true ->
  (p_lock (pr_find P) = Shared \/ p_lock (pr_find P) = Exclusive) /\ p_result (pr_find P) = ByValue /\
  p_lock (pr_insert P) = Exclusive /\ p_lock (pr_clear P) = Exclusive /\ p_lock (pr_clear_one P) = Exclusive.
Proof.
  intros P H. unfold proto_ok in H. repeat rewrite andb_true_iff in H.
  unfold has_lock, by_value, is_excl in H.
  destruct (p_lock (pr_find P)), (p_result (pr_find P)), (p_lock (pr_insert P)), (p_lock (pr_clear P)),
    (p_lock (pr_clear_one P)); cbn in H; intuition congruence.
Qed.

Lemma compile_wlb : forall P bits o, proto_ok P = true -> wlb None false (compile P bits o) = true.
Proof.
  intros P bits o H. destruct (proto_ok_locks P H) as (Hf & Hr & Hi & Hc & Ho).
  destruct o; unfold compile, lk, ulk.
  - rewrite Hr. destruct Hf as [E|E]; rewrite E; reflexivity.
  - rewrite Hi. reflexivity.
  - rewrite Hc. reflexivity.
  - rewrite Ho. reflexivity.
Qed.

Lemma program_wlb : forall P bits ops, proto_ok P = true -> wlb None false (program P bits ops) = true.
Proof.
  intros P bits ops H. unfold program. induction ops as [|o ops IH]; cbn [flat_map]; [reflexivity|].
  apply wlb_app; [apply compile_wlb; exact H|exact IH].
Qed.

Lemma ins_ok_self : forall l a, In a l -> ins_ok (ins_of l) a.
Proof.
  intros l a Hin. destruct a; cbn; try exact I.
  unfold ins_of. apply in_flat_map. exists (AWrSlot i k v). split; [exact Hin|left; reflexivity].
Qed.

Lemma ins_ok_all : forall progs,
  Forall (fun p => Forall (ins_ok (ins_of (concat progs))) p) progs.
Proof.
  intro progs. apply Forall_forall. intros p Hp. apply Forall_forall. intros a Ha.
  apply ins_ok_self. apply in_concat. exists p. split; assumption.
Qed.

(* every reachable state of well-locked programs satisfies the invariant *)
Lemma reachable_inv : forall progs sched,
  Forall (fun p => wlb None false p = true) progs ->
  Inv (ins_of (concat progs)) (run sched (init progs)).
Proof.
  intros progs sched Hw. apply run_inv. apply init_inv; [exact Hw|apply ins_ok_all].
Qed.

Lemma ins_of_app : forall a b, ins_of (a ++ b) = ins_of a ++ ins_of b.
Proof. intros. unfold ins_of. apply flat_map_app. Qed.

Lemma ins_of_compile : forall P bits o,
  ins_of (compile P bits o) = match o with OInsert k v => [(k, v)] | _ => [] end.
Proof.
  intros P bits o. destruct o; unfold compile, lk, ulk.
  - destruct (p_lock (pr_find P)), (p_result (pr_find P)); reflexivity.
  - destruct (p_lock (pr_insert P)); reflexivity.
  - destruct (p_lock (pr_clear P)); reflexivity.
  - destruct (p_lock (pr_clear_one P)); reflexivity.
Qed.

Lemma ins_of_program : forall P bits ops k v,
  In (k, v) (ins_of (program P bits ops)) -> In (OInsert k v) ops.
Proof.
  intros P bits ops k v. unfold program. induction ops as [|o ops IH]; cbn [flat_map]; [intros []|].
  rewrite ins_of_app, ins_of_compile. intro H. apply in_app_or in H. destruct H as [H|H].
  - destruct o; try contradiction. destruct H as [E|[]]. inversion E; subst. left. reflexivity.
  - right. apply IH. exact H.
Qed.
