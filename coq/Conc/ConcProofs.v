(* C15 -- lemmas about the thread model (Conc/ConcDefs.v): one invariant, kept
   by every step of every thread, gives mutual exclusion, absence of data
   races and integrity of the values returned by find. *)
From Coq Require Import NArith List Bool Arith Lia.
From VV Require Import Cache.CacheDefs Cache.CacheProofs Conc.ProtoTypes Conc.ConcDefs.
Import ListNotations.

(* ------------------------------------------------------------ lists *)
Lemma nth_set_same : forall (A : Type) (l : list A) n x y,
  nth_error l n = Some y -> nth_error (set_nth l n x) n = Some x.
Proof.
  intros A l. induction l as [|a l IH]; intros [|n] x y H; cbn in *; try discriminate; try reflexivity.
  eapply IH. exact H.
Qed.

Lemma nth_set_other : forall (A : Type) (l : list A) n m x,
  n <> m -> nth_error (set_nth l n x) m = nth_error l m.
Proof.
  intros A l. induction l as [|a l IH]; intros [|n] [|m] x H; cbn; try reflexivity; try congruence.
  apply IH. congruence.
Qed.

Lemma set_nth_length : forall (A : Type) (l : list A) n x, length (set_nth l n x) = length l.
Proof. intros A l. induction l as [|a l IH]; intros [|n] x; cbn; try reflexivity. rewrite IH. reflexivity. Qed.

Lemma firstn_snoc : forall (A : Type) (l : list A) n w,
  nth_error l n = Some w -> firstn (S n) l = firstn n l ++ [w].
Proof.
  intros A l. induction l as [|a l IH]; intros [|n] w H; cbn in *; try discriminate.
  - inversion H. reflexivity.
  - f_equal. apply IH. exact H.
Qed.

Lemma in_remove_tid : forall t x l, In x (remove_tid t l) <-> In x l /\ x <> t.
Proof.
  intros. unfold remove_tid. rewrite filter_In. rewrite negb_true_iff, Nat.eqb_neq. tauto.
Qed.

Lemma nodup_remove_tid : forall t l, NoDup l -> NoDup (remove_tid t l).
Proof.
  intros t l H. unfold remove_tid. induction H as [|a l Hn Hd IH]; cbn; [constructor|].
  destruct (negb (a =? t)%nat); [constructor; [|exact IH]|exact IH].
  intro Hin. apply filter_In in Hin. tauto.
Qed.

Lemma hb_eq_true : forall a b, hb_eq a b = true -> a = b.
Proof. intros [[|]|] [[|]|]; cbn; congruence. Qed.

Lemma hb_eq_none : forall a, negb (hb_eq a None) = true -> a <> None.
Proof. intros [[|]|]; cbn; congruence. Qed.

Lemma hb_neq_none : forall a, a <> None -> negb (hb_eq a None) = true.
Proof. intros [[|]|]; cbn; congruence. Qed.

Lemma wlb_lock : forall h c x r, wlb h c (ALock x :: r) = true ->
  h = None /\ c = false /\ wlb (Some x) false r = true.
Proof.
  intros h c x r H. cbn [wlb] in H. repeat rewrite andb_true_iff in H. destruct H as ((A & B) & C).
  apply hb_eq_true in A. apply negb_true_iff in B. tauto.
Qed.

Lemma wlb_unlock : forall h c x r, wlb h c (AUnlock x :: r) = true ->
  h = Some x /\ c = false /\ wlb None false r = true.
Proof.
  intros h c x r H. cbn [wlb] in H. repeat rewrite andb_true_iff in H. destruct H as ((A & B) & C).
  apply hb_eq_true in A. apply negb_true_iff in B. tauto.
Qed.

Lemma wlb_rdseal : forall h c r, wlb h c (ARdSeal :: r) = true -> h <> None /\ wlb h c r = true.
Proof. intros h c r H. cbn [wlb] in H. apply andb_true_iff in H. destruct H as (A & B). apply hb_eq_none in A. tauto. Qed.

Lemma wlb_rdslot : forall h c i k r, wlb h c (ARdSlot i k :: r) = true -> h <> None /\ wlb h true r = true.
Proof. intros h c i k r H. cbn [wlb] in H. apply andb_true_iff in H. destruct H as (A & B). apply hb_eq_none in A. tauto. Qed.

Lemma wlb_copy : forall h c r, wlb h c (ACopy :: r) = true -> h <> None /\ wlb h false r = true.
Proof. intros h c r H. cbn [wlb] in H. apply andb_true_iff in H. destruct H as (A & B). apply hb_eq_none in A. tauto. Qed.

Definition is_wr (a : action) : bool :=
  match a with
  | AWrKey _ _ | AWrFit _ _ | AWrSlotSeal _ | AWrSlotSealV _ _ | AWrHash _ | AWrSeal | AWrSealV _ => true
  | _ => false
  end.

Lemma wlb_wr : forall h c a r, is_wr a = true -> wlb h c (a :: r) = true ->
  h = Some true /\ c = false /\ wlb h false r = true.
Proof.
  intros h c a r Ha H. destruct a; try discriminate; cbn [wlb] in H; repeat rewrite andb_true_iff in H;
    destruct H as ((A & B) & C); apply hb_eq_true in A; apply negb_true_iff in B; tauto.
Qed.

Lemma wlb_rdfields : forall h c i r, wlb h c (ARdFields i :: r) = true -> h <> None /\ wlb h c r = true.
Proof. intros h c i r H. cbn [wlb] in H. apply andb_true_iff in H. destruct H as (A & B). apply hb_eq_none in A. tauto. Qed.

(* hash / fitness are written as adjacent pairs on one slot *)
Definition is_key (a : action) : bool := match a with AWrKey _ _ => true | _ => false end.

Lemma pairs_tail : forall a r, pairs_ok (a :: r) = true -> pairs_ok r = true.
Proof. intros a r H. destruct a; cbn [pairs_ok] in H; apply andb_true_iff in H; tauto. Qed.

Lemma pairs_next_not_fit : forall a r i v r', pairs_ok (a :: r) = true -> is_key a = false ->
  r <> AWrFit i v :: r'.
Proof.
  intros a r i v r' H Hk E. subst r. destruct a; try discriminate; cbn [pairs_ok] in H; discriminate.
Qed.

Lemma pairs_key_next : forall i k r, pairs_ok (AWrKey i k :: r) = true ->
  exists v r', r = AWrFit i v :: r'.
Proof.
  intros i k r H. cbn [pairs_ok] in H. apply andb_true_iff in H. destruct H as (H & _).
  destruct r as [|[] r']; try discriminate. apply N.eqb_eq in H. subst. eauto.
Qed.

Lemma ins_of_tail : forall a r, incl (ins_of r) (ins_of (a :: r)).
Proof.
  intros a r x Hx. destruct a; cbn [ins_of]; try exact Hx.
  destruct r as [|[] r']; try exact Hx. right. exact Hx.
Qed.

Lemma wlb_ret : forall h c r, wlb h c (ARet :: r) = true -> c = false /\ wlb h false r = true.
Proof. intros h c r H. cbn [wlb] in H. apply andb_true_iff in H. destruct H as (A & B). apply negb_true_iff in A. tauto. Qed.

(* ------------------------------------------------------------ invariant *)
Section Invariant.
  Variable INS : list (key * list word).      (* the (key, value) pairs the programs may store *)

  Definition good (k : key) (r : list word) : Prop := r = [] \/ k = key0 \/ In (k, r) INS.
  Definition slot_ok (s : slot) : Prop := skey s = key0 \/ In (skey s, sfit s) INS.

  Definition th_ok (rd : list tid) (wr : option tid) (mm : N -> slot) (t : tid) (th : thread) : Prop :=
    (exists c, wlb (holds th) c (acts th) = true /\ (pending th = true -> c = true)) /\
    (holds th = Some false <-> In t rd) /\
    (holds th = Some true <-> wr = Some t) /\
    (pending th = true ->
       holds th <> None /\ skey (mm (curi th)) = curk th /\
       acc th = firstn (length (acc th)) (sfit (mm (curi th)))) /\
    (pending th = false -> good (curk th) (acc th)) /\
    Forall (fun kr => good (fst kr) (snd kr)) (results th) /\
    (incl (ins_of (acts th)) INS /\ pairs_ok (acts th) = true) /\
    (* the value about to be written belongs to the key already written *)
    (forall i v r, acts th = AWrFit i v :: r -> In (skey (mm i), v) INS).

  (* every slot holds a stored pair, unless the exclusive holder is between the
     two member writes of an assignment to it *)
  Definition mem_ok (tl : list thread) (mm : N -> slot) : Prop :=
    forall i, slot_ok (mm i) \/
              exists t th v r, nth_error tl t = Some th /\ acts th = AWrFit i v :: r /\ holds th = Some true.

  Definition Inv (s : state) : Prop :=
    NoDup (readers s) /\
    (writer s <> None -> readers s = []) /\
    mem_ok (ths s) (mem s) /\
    forall t th, nth_error (ths s) t = Some th -> th_ok (readers s) (writer s) (mem s) t th.

  Lemma th_ok_intro : forall rd wr mm t th c,
    wlb (holds th) c (acts th) = true -> (pending th = true -> c = true) ->
    (holds th = Some false <-> In t rd) -> (holds th = Some true <-> wr = Some t) ->
    (pending th = true ->
       holds th <> None /\ skey (mm (curi th)) = curk th /\
       acc th = firstn (length (acc th)) (sfit (mm (curi th)))) ->
    (pending th = false -> good (curk th) (acc th)) ->
    Forall (fun kr => good (fst kr) (snd kr)) (results th) ->
    (incl (ins_of (acts th)) INS /\ pairs_ok (acts th) = true) ->
    (forall i v r, acts th = AWrFit i v :: r -> In (skey (mm i), v) INS) ->
    th_ok rd wr mm t th.
  Proof. intros. unfold th_ok. split; [exists c; tauto|tauto]. Qed.

  Lemma th_ok_other : forall rd wr mm rd' wr' mm' t th,
    th_ok rd wr mm t th ->
    (In t rd' <-> In t rd) -> (wr' = Some t <-> wr = Some t) ->
    (pending th = true -> mm' (curi th) = mm (curi th)) ->
    (forall i v r, acts th = AWrFit i v :: r -> skey (mm' i) = skey (mm i)) ->
    th_ok rd' wr' mm' t th.
  Proof.
    intros rd wr mm rd' wr' mm' t th (HW & HMs & HMx & HC & HA & HR & HI & HF) Hrd Hwr Hmm Hfk.
    unfold th_ok. split; [exact HW|]. split; [tauto|]. split; [tauto|]. split.
    - intro Hp. rewrite (Hmm Hp). apply HC. exact Hp.
    - split; [exact HA|split; [exact HR|split; [exact HI|]]].
      intros i v r E. rewrite (Hfk i v r E). exact (HF i v r E).
  Qed.

  Lemma unlocked_not_pending : forall rd wr mm t th,
    th_ok rd wr mm t th -> holds th = None -> pending th = false.
  Proof.
    intros rd wr mm t th (_ & _ & _ & HC & _) Hh.
    destruct (pending th) eqn:Ep; [|reflexivity]. destruct (HC eq_refl) as (Hn & _). contradiction.
  Qed.

  Lemma head_fit_holds_x : forall rd wr mm t th i v r,
    th_ok rd wr mm t th -> acts th = AWrFit i v :: r -> holds th = Some true.
  Proof.
    intros rd wr mm t th i v r ((c & Hw & _) & _) E. rewrite E in Hw.
    destruct (wlb_wr _ _ (AWrFit i v) _ eq_refl Hw) as (H & _). exact H.
  Qed.

  Lemma others_hold_nothing : forall s t t' th th',
    Inv s -> nth_error (ths s) t = Some th -> holds th = Some true ->
    nth_error (ths s) t' = Some th' -> t' <> t -> holds th' = None.
  Proof.
    intros s t t' th th' (Hnd & Hwr & Hm & Hth) Ht Hh Ht' Hne.
    destruct (Hth t th Ht) as (_ & _ & HMx & _). apply HMx in Hh.
    assert (Hrd : readers s = []) by (apply Hwr; congruence).
    destruct (Hth t' th' Ht') as (_ & HMs' & HMx' & _).
    destruct (holds th') as [[|]|] eqn:E; [| |reflexivity].
    - assert (writer s = Some t') by (apply HMx'; reflexivity). congruence.
    - assert (In t' (readers s)) by (apply HMs'; reflexivity). rewrite Hrd in H. contradiction.
  Qed.

  (* a slot is consistent for every thread whose next action is not the
     second member write of an assignment, as soon as that thread holds a lock *)
  Lemma slot_ok_for_holder : forall s t th j,
    Inv s -> nth_error (ths s) t = Some th -> holds th <> None ->
    (forall v r, acts th <> AWrFit j v :: r) -> slot_ok (mem s j).
  Proof.
    intros s t th j HI Ht Hh Hhead. pose proof HI as (_ & _ & Hm & Hth).
    destruct (Hm j) as [Hok|(t2 & th2 & v & r & Ht2 & Ea & Hx)]; [exact Hok|exfalso].
    destruct (Nat.eq_dec t t2) as [E|E].
    - subst. rewrite Ht in Ht2. inversion Ht2; subst. exact (Hhead v r Ea).
    - rewrite (others_hold_nothing s t2 t th2 th HI Ht2 Hx Ht E) in Hh. contradiction.
  Qed.

  Ltac fold_pending th :=
    repeat match goal with
    | |- context [pending (mkth ?a ?h ?l ?ci ?ck (matched th) (whole th) ?ac ?rs)] =>
        change (pending (mkth a h l ci ck (matched th) (whole th) ac rs)) with (pending th)
    end.

  Lemma exec_inv : forall s t th s',
    Inv s -> nth_error (ths s) t = Some th -> exec s t th = Some s' -> Inv s'.
  Proof.
    intros s t th s' HInv Ht Hex.
    pose proof HInv as (Hnd & Hwr & Hm & Hth).
    pose proof (Hth t th Ht) as ((c & Hw & Hpc) & HMs & HMx & HC & HA & HR & (HIi & HIp) & HF).
    unfold exec in Hex. destruct (acts th) as [|a r] eqn:Ea; [discriminate|].
    assert (HIr : incl (ins_of r) INS /\ pairs_ok r = true).
    { split; [intros x Hx; apply HIi; apply ins_of_tail; exact Hx|exact (pairs_tail _ _ HIp)]. }
    (* the new head is not a lone fitness write unless the old head wrote the key *)
    assert (HFr : is_key a = false -> forall mm (i : N) (v : list word) r', r = AWrFit i v :: r' -> In (skey (mm i), v) INS).
    { intros Hk mm i v r' E. exfalso. exact (pairs_next_not_fit _ _ _ _ _ HIp Hk E). }
    (* the other threads, for steps that leave the memory alone *)
    assert (Others : forall rd' wr' th1,
      (forall t', t' <> t -> (In t' rd' <-> In t' (readers s))) ->
      (forall t', t' <> t -> (wr' = Some t' <-> writer s = Some t')) ->
      th_ok rd' wr' (mem s) t th1 ->
      forall t' th', nth_error (set_nth (ths s) t th1) t' = Some th' -> th_ok rd' wr' (mem s) t' th').
    { intros rd' wr' th1 Hrd' Hwr' Hself t' th' Hn.
      destruct (Nat.eq_dec t' t) as [->|Hne].
      - rewrite (nth_set_same _ _ _ _ _ Ht) in Hn. inversion Hn. subst. exact Hself.
      - rewrite nth_set_other in Hn by congruence.
        apply (th_ok_other (readers s) (writer s) (mem s));
          [apply Hth; exact Hn|apply Hrd'; exact Hne|apply Hwr'; exact Hne|reflexivity|reflexivity]. }
    (* the other threads, for steps that write the memory (t holds the exclusive lock) *)
    assert (OthersW : holds th = Some true -> forall mm' th1,
      th_ok (readers s) (writer s) mm' t th1 ->
      forall t' th', nth_error (set_nth (ths s) t th1) t' = Some th' -> th_ok (readers s) (writer s) mm' t' th').
    { intros Hx mm' th1 Hself t' th' Hn.
      destruct (Nat.eq_dec t' t) as [->|Hne].
      - rewrite (nth_set_same _ _ _ _ _ Ht) in Hn. inversion Hn. subst. exact Hself.
      - rewrite nth_set_other in Hn by congruence.
        pose proof (others_hold_nothing s t t' th th' HInv Ht Hx Hn Hne) as Hnone.
        apply (th_ok_other (readers s) (writer s) (mem s)); [apply Hth; exact Hn|tauto|tauto| |].
        + intro Hp. rewrite (unlocked_not_pending _ _ _ _ _ (Hth t' th' Hn) Hnone) in Hp. discriminate.
        + intros i v r0 E. rewrite (head_fit_holds_x _ _ _ _ _ _ _ _ (Hth t' th' Hn) E) in Hnone. discriminate. }
    (* the memory invariant, for steps that leave the memory alone *)
    assert (MemKeep : (forall i v, a <> AWrFit i v) -> forall th1, mem_ok (set_nth (ths s) t th1) (mem s)).
    { intros Hna th1 i. destruct (Hm i) as [Hok|(t2 & th2 & v & r0 & Ht2 & Ea2 & Hx)]; [left; exact Hok|right].
      destruct (Nat.eq_dec t2 t) as [->|Hne].
      - rewrite Ht in Ht2. inversion Ht2; subst. rewrite Ea in Ea2. inversion Ea2. exfalso. exact (Hna _ _ H0).
      - exists t2, th2, v, r0. rewrite nth_set_other by congruence. tauto. }
    (* the memory invariant, for a write that keeps or empties the key and keeps the value *)
    assert (MemWr : holds th = Some true -> (forall i v, a <> AWrFit i v) -> forall mm' th1,
      (forall j, (skey (mm' j) = skey (mem s j) \/ skey (mm' j) = key0) /\ sfit (mm' j) = sfit (mem s j)) ->
      mem_ok (set_nth (ths s) t th1) mm').
    { intros Hx Hna mm' th1 Hsame j. left.
      assert (Hok : slot_ok (mem s j)).
      { apply (slot_ok_for_holder s t th j HInv Ht); [congruence|]. intros v r0 E. rewrite Ea in E.
        inversion E. exact (Hna _ _ H0). }
      destruct (Hsame j) as ([Ek|Ek] & Ef); [|left; exact Ek].
      unfold slot_ok. rewrite Ek, Ef. exact Hok. }
    assert (Pc : c = false -> pending th = false).
    { intro Hc. destruct (pending th); [|reflexivity]. rewrite Hpc in Hc by reflexivity. discriminate. }
    assert (Pf : pending th = false -> forall X : Prop, pending th = true -> X).
    { intros E X E'. rewrite E in E'. discriminate. }
    destruct a as [x|x| |i k| |i|i k|i v|i|i n|i| |n|].
    - (* ALock *)
      destruct (wlb_lock _ _ _ _ Hw) as (Hw0 & Hw1 & Hw'). clear Hw. rename Hw' into Hw.
      specialize (Pc Hw1).
      destruct x.
      + destruct (writer s) as [w|] eqn:Ew; [discriminate|]. destruct (readers s) as [|q rd] eqn:Er; [|discriminate].
        cbn in Hex. inversion Hex; subst s'; clear Hex. unfold Inv; cbn [readers writer mem ths].
        split; [constructor|split; [reflexivity|split; [apply MemKeep; discriminate|]]].
        apply Others.
        * intros; tauto.
        * intros t' Hne. split; intro H; [inversion H; congruence|discriminate].
        * apply (th_ok_intro _ _ _ _ _ false); fold_pending th; cbn [acts holds acc results curi curk].
          -- exact Hw.
          -- apply Pf; exact Pc.
          -- split; [discriminate|intro H; inversion H].
          -- split; reflexivity.
          -- apply Pf; exact Pc.
          -- exact HA.
          -- exact HR.
          -- exact HIr.
          -- apply HFr. reflexivity.
      + destruct (writer s) as [w|] eqn:Ew; [discriminate|].
        cbn in Hex. inversion Hex; subst s'; clear Hex. unfold Inv; cbn [readers writer mem ths].
        assert (Hnin : ~ In t (readers s)) by (intro Hin; apply HMs in Hin; congruence).
        split; [constructor; assumption|split; [intro H; congruence|split; [apply MemKeep; discriminate|]]].
        apply Others.
        * intros t' Hne. cbn. split; [intros [E|E]; [congruence|exact E]|intro; right; assumption].
        * intros; tauto.
        * apply (th_ok_intro _ _ _ _ _ false); fold_pending th; cbn [acts holds acc results curi curk].
          -- exact Hw.
          -- apply Pf; exact Pc.
          -- split; [intro; left; reflexivity|reflexivity].
          -- split; discriminate.
          -- apply Pf; exact Pc.
          -- exact HA.
          -- exact HR.
          -- exact HIr.
          -- apply HFr. reflexivity.
    - (* AUnlock *)
      destruct (wlb_unlock _ _ _ _ Hw) as (Hw0 & Hw1 & Hw'). clear Hw. rename Hw' into Hw.
      specialize (Pc Hw1).
      destruct x.
      + assert (Ew : writer s = Some t) by (apply HMx; exact Hw0).
        assert (Er : readers s = []) by (apply Hwr; congruence).
        inversion Hex; subst s'; clear Hex. unfold Inv; cbn [readers writer mem ths].
        split; [exact Hnd|split; [intro H; congruence|split; [apply MemKeep; discriminate|]]].
        apply Others.
        * intros; tauto.
        * intros t' Hne. rewrite Ew. split; intro H; [discriminate|inversion H; congruence].
        * apply (th_ok_intro _ _ _ _ _ false); fold_pending th; cbn [acts holds acc results curi curk].
          -- exact Hw.
          -- apply Pf; exact Pc.
          -- rewrite Er. split; [discriminate|intro H; inversion H].
          -- split; discriminate.
          -- apply Pf; exact Pc.
          -- exact HA.
          -- exact HR.
          -- exact HIr.
          -- apply HFr. reflexivity.
      + assert (Hnw : writer s <> Some t) by (intro E; apply HMx in E; congruence).
        inversion Hex; subst s'; clear Hex. unfold Inv; cbn [readers writer mem ths].
        split; [apply nodup_remove_tid; exact Hnd|split; [|split; [apply MemKeep; discriminate|]]].
        { intro H. rewrite (Hwr H). reflexivity. }
        apply Others.
        * intros t' Hne. rewrite in_remove_tid. tauto.
        * intros; tauto.
        * apply (th_ok_intro _ _ _ _ _ false); fold_pending th; cbn [acts holds acc results curi curk].
          -- exact Hw.
          -- apply Pf; exact Pc.
          -- split; [discriminate|intro H; apply in_remove_tid in H; tauto].
          -- split; [discriminate|intro H; contradiction].
          -- apply Pf; exact Pc.
          -- exact HA.
          -- exact HR.
          -- exact HIr.
          -- apply HFr. reflexivity.
    - (* ARdSeal *)
      destruct (wlb_rdseal _ _ _ Hw) as (Hw0 & Hw'). clear Hw. rename Hw' into Hw.
      inversion Hex; subst s'; clear Hex. unfold Inv; cbn [readers writer mem ths].
      split; [exact Hnd|split; [exact Hwr|split; [apply MemKeep; discriminate|]]].
      apply Others; [intros; tauto|intros; tauto|].
      apply (th_ok_intro _ _ _ _ _ c); fold_pending th; cbn [acts holds acc results curi curk];
        [exact Hw|exact Hpc|exact HMs|exact HMx|exact HC|exact HA|exact HR|exact HIr|apply HFr; reflexivity].
    - (* ARdSlot *)
      destruct (wlb_rdslot _ _ _ _ _ Hw) as (Hw0 & Hw'). clear Hw. rename Hw' into Hw.
      inversion Hex; subst s'; clear Hex. unfold Inv; cbn [readers writer mem ths].
      split; [exact Hnd|split; [exact Hwr|split; [apply MemKeep; discriminate|]]].
      apply Others; [intros; tauto|intros; tauto|].
      apply (th_ok_intro _ _ _ _ _ true); unfold pending; cbn [acts holds matched whole acc results curi curk negb];
        rewrite ?andb_true_r.
      + exact Hw.
      + reflexivity.
      + exact HMs.
      + exact HMx.
      + intro H. split; [exact Hw0|split; [|reflexivity]].
        apply andb_true_iff in H. destruct H as (_ & Hk).
        destruct (key_eqb_spec k (skey (mem s i))); [symmetry; assumption|discriminate].
      + intros _. left. reflexivity.
      + exact HR.
      + exact HIr.
      + apply HFr. reflexivity.
    - (* ACopy *)
      destruct (wlb_copy _ _ _ Hw) as (Hw0 & Hw'). clear Hw. rename Hw' into Hw.
      destruct (pending th) eqn:Ep.
      + destruct (HC eq_refl) as (Hhn & Hkey & Hacc).
        assert (Hmt : matched th = true) by (unfold pending in Ep; apply andb_true_iff in Ep; tauto).
        destruct (nth_error (sfit (mem s (curi th))) (length (acc th))) as [w|] eqn:En.
        * inversion Hex; subst s'; clear Hex. unfold Inv; cbn [readers writer mem ths].
          split; [exact Hnd|split; [exact Hwr|split; [apply MemKeep; discriminate|]]].
          apply Others; [intros; tauto|intros; tauto|].
          apply (th_ok_intro _ _ _ _ _ true); unfold pending; cbn [acts holds matched whole acc results curi curk negb];
            rewrite ?Hmt; cbn [andb]; rewrite ?Ea.
          -- cbn [wlb]. rewrite (hb_neq_none _ Hw0), Hw. reflexivity.
          -- reflexivity.
          -- exact HMs.
          -- exact HMx.
          -- intros _. split; [exact Hw0|split; [exact Hkey|]].
             rewrite app_length. cbn [length]. rewrite Nat.add_1_r.
             rewrite (firstn_snoc _ _ _ _ En). rewrite <- Hacc. reflexivity.
          -- discriminate.
          -- exact HR.
          -- split; [exact HIi|exact HIp].
          -- intros i v r0 E. discriminate.
        * assert (Hsl : slot_ok (mem s (curi th))).
          { apply (slot_ok_for_holder s t th (curi th) HInv Ht Hw0). intros v r0 E. rewrite Ea in E. discriminate. }
          inversion Hex; subst s'; clear Hex. unfold Inv; cbn [readers writer mem ths].
          split; [exact Hnd|split; [exact Hwr|split; [apply MemKeep; discriminate|]]].
          apply Others; [intros; tauto|intros; tauto|].
          apply (th_ok_intro _ _ _ _ _ false); unfold pending; cbn [acts holds matched whole acc results curi curk negb];
            rewrite ?Hmt; cbn [andb].
          -- exact Hw.
          -- discriminate.
          -- exact HMs.
          -- exact HMx.
          -- discriminate.
          -- intros _. apply nth_error_None in En.
             assert (Hall : acc th = sfit (mem s (curi th))).
             { rewrite Hacc. apply firstn_all2. exact En. }
             destruct Hsl as [Hz|Hin].
             ++ right. left. rewrite <- Hkey. exact Hz.
             ++ right. right. rewrite <- Hkey, Hall. exact Hin.
          -- exact HR.
          -- exact HIr.
          -- apply HFr. reflexivity.
      + inversion Hex; subst s'; clear Hex. unfold Inv; cbn [readers writer mem ths].
        split; [exact Hnd|split; [exact Hwr|split; [apply MemKeep; discriminate|]]].
        apply Others; [intros; tauto|intros; tauto|].
        apply (th_ok_intro _ _ _ _ _ false); fold_pending th; cbn [acts holds acc results curi curk];
          [exact Hw|intro H; rewrite Ep in H; discriminate|exact HMs|exact HMx
          |intro H; rewrite Ep in H; discriminate|intros _; apply HA; reflexivity|exact HR|exact HIr
          |apply HFr; reflexivity].
    - (* ARdFields *)
      destruct (wlb_rdfields _ _ _ _ Hw) as (Hw0 & Hw'). clear Hw. rename Hw' into Hw.
      inversion Hex; subst s'; clear Hex. unfold Inv; cbn [readers writer mem ths].
      split; [exact Hnd|split; [exact Hwr|split; [apply MemKeep; discriminate|]]].
      apply Others; [intros; tauto|intros; tauto|].
      apply (th_ok_intro _ _ _ _ _ c); fold_pending th; cbn [acts holds acc results curi curk];
        [exact Hw|exact Hpc|exact HMs|exact HMx|exact HC|exact HA|exact HR|exact HIr|apply HFr; reflexivity].
    - (* AWrKey: first member of the assignment; the slot is pending until the value follows *)
      destruct (wlb_wr _ _ (AWrKey i k) _ eq_refl Hw) as (Hw0 & Hw1 & Hw'). clear Hw. rename Hw' into Hw. specialize (Pc Hw1).
      destruct (pairs_key_next _ _ _ HIp) as (v & r' & Er). subst r.
      assert (Hkv : In (k, v) INS) by (apply HIi; cbn [ins_of]; left; reflexivity).
      inversion Hex; subst s'; clear Hex. unfold Inv; cbn [readers writer mem ths].
      split; [exact Hnd|split; [exact Hwr|split]].
      + intro j. unfold upd. destruct (N.eqb_spec j i) as [->|Hji].
        * right. eexists t, _, v, r'. split; [apply (nth_set_same _ _ _ _ _ Ht)|]. cbn [acts holds]. split; [reflexivity|exact Hw0].
        * left. apply (slot_ok_for_holder s t th j HInv Ht); [congruence|]. intros v0 r0 E. rewrite Ea in E. discriminate.
      + apply (OthersW Hw0).
        apply (th_ok_intro _ _ _ _ _ false); fold_pending th; cbn [acts holds acc results curi curk];
          [exact Hw|apply Pf; exact Pc|exact HMs|exact HMx|apply Pf; exact Pc|exact HA|exact HR|exact HIr|].
        intros i0 v0 r0 E. inversion E; subst. unfold upd. rewrite N.eqb_refl. cbn [skey]. exact Hkv.
    - (* AWrFit: second member; the slot is consistent again *)
      destruct (wlb_wr _ _ (AWrFit i v) _ eq_refl Hw) as (Hw0 & Hw1 & Hw'). clear Hw. rename Hw' into Hw. specialize (Pc Hw1).
      pose proof (HF i v r eq_refl) as Hkv.
      inversion Hex; subst s'; clear Hex. unfold Inv; cbn [readers writer mem ths].
      split; [exact Hnd|split; [exact Hwr|split]].
      + intro j. left. unfold upd. destruct (N.eqb_spec j i) as [->|Hji].
        * right. cbn [skey sfit]. exact Hkv.
        * apply (slot_ok_for_holder s t th j HInv Ht); [congruence|]. intros v0 r0 E. rewrite Ea in E.
          inversion E. congruence.
      + apply (OthersW Hw0).
        apply (th_ok_intro _ _ _ _ _ false); fold_pending th; cbn [acts holds acc results curi curk];
          [exact Hw|apply Pf; exact Pc|exact HMs|exact HMx|apply Pf; exact Pc|exact HA|exact HR|exact HIr|].
        intros i0 v0 r0 E. exfalso. exact (pairs_next_not_fit _ _ _ _ _ HIp eq_refl E).
    - (* AWrSlotSeal *)
      destruct (wlb_wr _ _ (AWrSlotSeal i) _ eq_refl Hw) as (Hw0 & Hw1 & Hw'). clear Hw. rename Hw' into Hw. specialize (Pc Hw1).
      inversion Hex; subst s'; clear Hex. unfold Inv; cbn [readers writer mem ths].
      split; [exact Hnd|split; [exact Hwr|split]].
      + apply (MemWr Hw0); [discriminate|]. intro j. unfold upd. destruct (N.eqb_spec j i) as [->|_]; cbn; tauto.
      + apply (OthersW Hw0).
        apply (th_ok_intro _ _ _ _ _ false); fold_pending th; cbn [acts holds acc results curi curk];
          [exact Hw|apply Pf; exact Pc|exact HMs|exact HMx|apply Pf; exact Pc|exact HA|exact HR|exact HIr|apply HFr; reflexivity].
    - (* AWrSlotSealV *)
      destruct (wlb_wr _ _ (AWrSlotSealV i n) _ eq_refl Hw) as (Hw0 & Hw1 & Hw'). clear Hw. rename Hw' into Hw. specialize (Pc Hw1).
      inversion Hex; subst s'; clear Hex. unfold Inv; cbn [readers writer mem ths].
      split; [exact Hnd|split; [exact Hwr|split]].
      + apply (MemWr Hw0); [discriminate|]. intro j. unfold upd. destruct (N.eqb_spec j i) as [->|_]; cbn; tauto.
      + apply (OthersW Hw0).
        apply (th_ok_intro _ _ _ _ _ false); fold_pending th; cbn [acts holds acc results curi curk];
          [exact Hw|apply Pf; exact Pc|exact HMs|exact HMx|apply Pf; exact Pc|exact HA|exact HR|exact HIr|apply HFr; reflexivity].
    - (* AWrHash *)
      destruct (wlb_wr _ _ (AWrHash i) _ eq_refl Hw) as (Hw0 & Hw1 & Hw'). clear Hw. rename Hw' into Hw. specialize (Pc Hw1).
      inversion Hex; subst s'; clear Hex. unfold Inv; cbn [readers writer mem ths].
      split; [exact Hnd|split; [exact Hwr|split]].
      + apply (MemWr Hw0); [discriminate|]. intro j. unfold upd. destruct (N.eqb_spec j i) as [->|_]; cbn; tauto.
      + apply (OthersW Hw0).
        apply (th_ok_intro _ _ _ _ _ false); fold_pending th; cbn [acts holds acc results curi curk];
          [exact Hw|apply Pf; exact Pc|exact HMs|exact HMx|apply Pf; exact Pc|exact HA|exact HR|exact HIr|apply HFr; reflexivity].
    - (* AWrSeal *)
      destruct (wlb_wr _ _ AWrSeal _ eq_refl Hw) as (Hw0 & Hw1 & Hw'). clear Hw. rename Hw' into Hw. specialize (Pc Hw1).
      destruct (N.eqb ((lseal th + 1) mod M32) 0).
      + inversion Hex; subst s'; clear Hex. unfold Inv; cbn [readers writer mem ths].
        split; [exact Hnd|split; [exact Hwr|split]].
        * apply (MemWr Hw0); [discriminate|]. intro j. cbn. tauto.
        * apply (OthersW Hw0).
          apply (th_ok_intro _ _ _ _ _ false); fold_pending th; cbn [acts holds acc results curi curk];
            [exact Hw|apply Pf; exact Pc|exact HMs|exact HMx|apply Pf; exact Pc|exact HA|exact HR|exact HIr|apply HFr; reflexivity].
      + inversion Hex; subst s'; clear Hex. unfold Inv; cbn [readers writer mem ths].
        split; [exact Hnd|split; [exact Hwr|split]].
        * apply (MemWr Hw0); [discriminate|]. intro j. tauto.
        * apply (OthersW Hw0).
          apply (th_ok_intro _ _ _ _ _ false); fold_pending th; cbn [acts holds acc results curi curk];
            [exact Hw|apply Pf; exact Pc|exact HMs|exact HMx|apply Pf; exact Pc|exact HA|exact HR|exact HIr|apply HFr; reflexivity].
    - (* AWrSealV *)
      destruct (wlb_wr _ _ (AWrSealV n) _ eq_refl Hw) as (Hw0 & Hw1 & Hw'). clear Hw. rename Hw' into Hw. specialize (Pc Hw1).
      inversion Hex; subst s'; clear Hex. unfold Inv; cbn [readers writer mem ths].
      split; [exact Hnd|split; [exact Hwr|split]].
      + apply (MemWr Hw0); [discriminate|]. intro j. tauto.
      + apply (OthersW Hw0).
        apply (th_ok_intro _ _ _ _ _ false); fold_pending th; cbn [acts holds acc results curi curk];
          [exact Hw|apply Pf; exact Pc|exact HMs|exact HMx|apply Pf; exact Pc|exact HA|exact HR|exact HIr|apply HFr; reflexivity].
    - (* ARet *)
      destruct (wlb_ret _ _ _ Hw) as (Hw0 & Hw'). clear Hw. rename Hw' into Hw. specialize (Pc Hw0).
      inversion Hex; subst s'; clear Hex. unfold Inv; cbn [readers writer mem ths].
      split; [exact Hnd|split; [exact Hwr|split; [apply MemKeep; discriminate|]]].
      apply Others; [intros; tauto|intros; tauto|].
      apply (th_ok_intro _ _ _ _ _ false); unfold pending; cbn [acts holds matched whole acc results curi curk andb].
      + exact Hw.
      + discriminate.
      + exact HMs.
      + exact HMx.
      + discriminate.
      + intros _. exact (HA Pc).
      + constructor; [exact (HA Pc)|exact HR].
      + exact HIr.
      + apply HFr. reflexivity.
  Qed.

  Lemma step_inv : forall s t, Inv s -> Inv (step s t).
  Proof.
    intros s t HI. unfold step. destruct (nth_error (ths s) t) as [th|] eqn:Et; [|exact HI].
    destruct (exec s t th) as [s'|] eqn:Ex; [|exact HI]. exact (exec_inv s t th s' HI Et Ex).
  Qed.

  Lemma run_inv : forall sched s, Inv s -> Inv (run sched s).
  Proof.
    induction sched as [|t sched IH]; intros s HI; cbn; [exact HI|]. apply IH. apply step_inv. exact HI.
  Qed.

  Lemma init_inv : forall progs,
    Forall (fun p => wlb None false p = true) progs ->
    Forall (fun p => incl (ins_of p) INS /\ pairs_ok p = true) progs ->
    Inv (init progs).
  Proof.
    intros progs Hw Hi. unfold Inv, init; cbn [readers writer mem ths].
    split; [constructor|split; [reflexivity|split; [intro; left; left; reflexivity|]]].
    intros t th Hn. rewrite nth_error_map in Hn.
    destruct (nth_error progs t) as [p|] eqn:Ep; [|discriminate]. inversion Hn; subst th; clear Hn.
    apply nth_error_In in Ep. rewrite Forall_forall in Hw, Hi.
    apply (th_ok_intro _ _ _ _ _ false); unfold init_thread, pending; cbn.
    - apply Hw; exact Ep.
    - discriminate.
    - split; [discriminate|intros []].
    - split; discriminate.
    - discriminate.
    - intros _. left. reflexivity.
    - constructor.
    - apply Hi. exact Ep.
    - intros i v r E. specialize (Hw p Ep). cbn in Hw. rewrite E in Hw. cbn in Hw. discriminate.
  Qed.

  (* ---------------------------------------------------------- consequences *)
  Lemma inv_mutex : forall s, Inv s ->
    (forall w, writer s = Some w -> readers s = []) /\
    NoDup (readers s) /\
    (forall t th, nth_error (ths s) t = Some th ->
       (holds th = Some true <-> writer s = Some t) /\ (holds th = Some false <-> In t (readers s))).
  Proof.
    intros s (Hnd & Hwr & Hm & Hth). split; [|split; [exact Hnd|]].
    - intros w E. apply Hwr. congruence.
    - intros t th Hn. destruct (Hth t th Hn) as (_ & HMs & HMx & _). tauto.
  Qed.

  Lemma accesses_hold : forall rd wr mm t th a r,
    th_ok rd wr mm t th -> acts th = a :: r -> accesses th a <> [] -> holds th <> None.
  Proof.
    intros rd wr mm t th a r ((c & Hw & _) & _) Ea Hacc. rewrite Ea in Hw.
    destruct a; cbn in Hacc; try congruence;
      try (match type of Hw with wlb _ _ (?a :: _) = true =>
             destruct (wlb_wr _ _ a _ eq_refl Hw) as (H & _); congruence end).
    - exact (proj1 (wlb_rdseal _ _ _ Hw)).
    - exact (proj1 (wlb_rdslot _ _ _ _ _ Hw)).
    - exact (proj1 (wlb_copy _ _ _ Hw)).
    - exact (proj1 (wlb_rdfields _ _ _ _ Hw)).
  Qed.

  Lemma writes_hold_x : forall rd wr mm t th a r,
    th_ok rd wr mm t th -> acts th = a :: r -> existsb snd (accesses th a) = true -> holds th = Some true.
  Proof.
    intros rd wr mm t th a r ((c & Hw & _) & _) Ea Hacc. rewrite Ea in Hw.
    destruct a; cbn in Hacc; try discriminate;
      try (match type of Hw with wlb _ _ (?a :: _) = true =>
             destruct (wlb_wr _ _ a _ eq_refl Hw) as (H & _); exact H end).
    destruct (pending th); discriminate.
  Qed.

  Lemma conflict_inv : forall l1 l2, conflict l1 l2 = true ->
    l1 <> [] /\ l2 <> [] /\ (existsb snd l1 = true \/ existsb snd l2 = true).
  Proof.
    intros l1 l2 H. unfold conflict in H. apply existsb_exists in H. destruct H as (p & Hp & H).
    apply existsb_exists in H. destruct H as (q & Hq & H). apply andb_true_iff in H. destruct H as (_ & H).
    split; [intro E; subst; contradiction|split; [intro E; subst; contradiction|]].
    apply orb_true_iff in H. destruct H as [H|H]; [left|right]; apply existsb_exists; eauto.
  Qed.

  Lemma inv_no_race : forall s t1 t2, Inv s -> race s t1 t2 = false.
  Proof.
    intros s t1 t2 HI. unfold race. destruct (Nat.eqb_spec t1 t2) as [E|Hne]; [reflexivity|]. cbn [negb andb].
    destruct (conflict (next_accesses s t1) (next_accesses s t2)) eqn:Ec; [exfalso|reflexivity].
    apply conflict_inv in Ec. destruct Ec as (N1 & N2 & Hwx).
    pose proof HI as (Hnd & Hwr & Hm & Hth).
    unfold next_accesses in *.
    destruct (nth_error (ths s) t1) as [th1|] eqn:E1; [|congruence].
    destruct (nth_error (ths s) t2) as [th2|] eqn:E2; [|congruence].
    destruct (acts th1) as [|a1 r1] eqn:A1; [congruence|].
    destruct (acts th2) as [|a2 r2] eqn:A2; [congruence|].
    pose proof (accesses_hold _ _ _ _ _ _ _ (Hth t1 th1 E1) A1 N1) as H1.
    pose proof (accesses_hold _ _ _ _ _ _ _ (Hth t2 th2 E2) A2 N2) as H2.
    destruct Hwx as [W|W].
    - pose proof (writes_hold_x _ _ _ _ _ _ _ (Hth t1 th1 E1) A1 W) as X.
      rewrite (others_hold_nothing s t1 t2 th1 th2 HI E1 X E2) in H2 by congruence. congruence.
    - pose proof (writes_hold_x _ _ _ _ _ _ _ (Hth t2 th2 E2) A2 W) as X.
      rewrite (others_hold_nothing s t2 t1 th2 th1 HI E2 X E1) in H1 by congruence. congruence.
  Qed.

  Lemma inv_results : forall s t th k r, Inv s -> nth_error (ths s) t = Some th ->
    In (k, r) (results th) -> r = [] \/ k = key0 \/ In (k, r) INS.
  Proof.
    intros s t th k r (_ & _ & _ & Hth) Hn Hin.
    destruct (Hth t th Hn) as (_ & _ & _ & _ & _ & HR & _).
    rewrite Forall_forall in HR. exact (HR (k, r) Hin).
  Qed.
End Invariant.

(* ------------------------------------------------------------ programs *)
Lemma wlb_app : forall a h c b,
  wlb h c a = true -> wlb None false b = true -> wlb h c (a ++ b) = true.
Proof.
  induction a as [|x a IH]; intros h c b Ha Hb.
  - cbn in *. apply andb_true_iff in Ha. destruct Ha as (Hh & Hc).
    apply hb_eq_true in Hh. apply negb_true_iff in Hc. subst. exact Hb.
  - destruct x; cbn [wlb app] in *; repeat rewrite andb_true_iff in *;
      repeat match goal with H : _ /\ _ |- _ => destruct H end;
      repeat split; try assumption; apply IH; assumption.
Qed.

Lemma proto_ok_locks : forall P, proto_ok P = true ->
  (p_lock (pr_find P) = Shared \/ p_lock (pr_find P) = Exclusive) /\ p_result (pr_find P) = ByValue /\
  p_lock (pr_insert P) = Exclusive /\ p_lock (pr_clear P) = Exclusive /\ p_lock (pr_clear_one P) = Exclusive.
Proof.
  intros P H. unfold proto_ok in H. repeat rewrite andb_true_iff in H.
  unfold has_lock, by_value, is_excl in H.
  destruct (p_lock (pr_find P)), (p_result (pr_find P)), (p_lock (pr_insert P)), (p_lock (pr_clear P)),
    (p_lock (pr_clear_one P)); cbn in H; intuition congruence.
Qed.

Definition no_fit_head (l : list action) : Prop := forall i v r, l <> AWrFit i v :: r.

Lemma proto_ok_locks2 : forall P, proto_ok P = true ->
  (p_lock (pr_save P) = Shared \/ p_lock (pr_save P) = Exclusive) /\ p_lock (pr_load P) = Exclusive.
Proof.
  intros P H. unfold proto_ok in H. repeat rewrite andb_true_iff in H.
  unfold has_lock, is_excl in H. decompose [and] H. clear H.
  destruct (p_lock (pr_save P)), (p_lock (pr_load P)); try discriminate; split; auto.
Qed.

(* what one compiled method contributes: well locked, writes hash/fitness in
   pairs, and stores exactly the pairs of its operation *)
Definition ins_op (o : op) : list (key * list word) :=
  match o with OInsert k v => [(k, v)] | OLoad _ recs => recs | _ => [] end.

Definition tail_ok (rest : list action) : Prop :=
  wlb None false rest = true /\ pairs_ok rest = true /\ no_fit_head rest.

Lemma rdfields_app : forall h l rest, h <> None ->
  wlb h false rest = true -> pairs_ok rest = true -> no_fit_head rest ->
  wlb h false (map ARdFields l ++ rest) = true /\ pairs_ok (map ARdFields l ++ rest) = true /\
  no_fit_head (map ARdFields l ++ rest) /\ ins_of (map ARdFields l ++ rest) = ins_of rest.
Proof.
  intros h l rest Hh Hw Hp Hn. induction l as [|i l (IW & IP & IN & II)]; cbn [map app].
  - repeat split; assumption.
  - repeat split.
    + cbn [wlb]. rewrite (hb_neq_none _ Hh), IW. reflexivity.
    + cbn [pairs_ok]. rewrite IP. destruct (map ARdFields l ++ rest) as [|[] ?] eqn:E; try reflexivity.
      exfalso. exact (IN _ _ _ eq_refl).
    + intros i0 v r E. discriminate.
    + cbn [ins_of]. exact II.
Qed.

Lemma loadrecs_app : forall bits ts recs rest,
  wlb (Some true) false rest = true -> pairs_ok rest = true -> no_fit_head rest ->
  let body := flat_map (fun kv => let i := idx bits (fst kv) in
                                  [AWrKey i (fst kv); AWrFit i (snd kv); AWrSlotSealV i ts]) recs in
  wlb (Some true) false (body ++ rest) = true /\ pairs_ok (body ++ rest) = true /\
  no_fit_head (body ++ rest) /\ ins_of (body ++ rest) = recs ++ ins_of rest.
Proof.
  intros bits ts recs rest Hw Hp Hn. induction recs as [|[k v] recs (IW & IP & IN & II)]; cbn [flat_map app fst snd].
  - repeat split; assumption.
  - cbn zeta in *. repeat split.
    + cbn [wlb hb_eq Bool.eqb negb andb]. exact IW.
    + cbn [pairs_ok]. rewrite N.eqb_refl, IP. cbn [andb].
      match goal with |- context [match ?l with _ => _ end] => destruct l as [|[] ?] eqn:E end; try reflexivity.
      exfalso. exact (IN _ _ _ eq_refl).
    + intros i0 v0 r E. discriminate.
    + cbn [ins_of]. rewrite II. reflexivity.
Qed.

Lemma compile_app : forall P bits o rest, proto_ok P = true -> tail_ok rest ->
  tail_ok (compile P bits o ++ rest) /\ ins_of (compile P bits o ++ rest) = ins_op o ++ ins_of rest.
Proof.
  intros P bits o rest H (Hw & Hp & Hn). destruct (proto_ok_locks P H) as (Hf & Hr & Hi & Hc & Ho).
  destruct (proto_ok_locks2 P H) as (Hs & Hl).
  assert (Hnf : match rest with AWrFit _ _ :: _ => false | _ => true end = true).
  { destruct rest as [|[] ?]; try reflexivity. exfalso. exact (Hn _ _ _ eq_refl). }
  unfold tail_ok, no_fit_head. destruct o; unfold compile, lk, ulk.
  - rewrite Hr. destruct Hf as [E|E]; rewrite E; cbn [app wlb pairs_ok ins_of hb_eq Bool.eqb negb andb ins_op];
      rewrite Hw, Hp, Hnf; repeat split; try reflexivity; intros; discriminate.
  - rewrite Hi. cbn [app wlb pairs_ok ins_of hb_eq Bool.eqb negb andb ins_op].
    rewrite Hw, Hp, Hnf, N.eqb_refl. repeat split; try reflexivity; intros; discriminate.
  - rewrite Hc. cbn [app wlb pairs_ok ins_of hb_eq Bool.eqb negb andb ins_op].
    rewrite Hw, Hp, Hnf. repeat split; try reflexivity; intros; discriminate.
  - rewrite Ho. cbn [app wlb pairs_ok ins_of hb_eq Bool.eqb negb andb ins_op].
    rewrite Hw, Hp, Hnf. repeat split; try reflexivity; intros; discriminate.
  - cbn [ins_op app].
    assert (G : forall x, wlb (Some x) false (map ARdFields (indices (2 ^ bits)) ++ AUnlock x :: rest) = true /\
                          pairs_ok (map ARdFields (indices (2 ^ bits)) ++ AUnlock x :: rest) = true /\
                          no_fit_head (map ARdFields (indices (2 ^ bits)) ++ AUnlock x :: rest) /\
                          ins_of (map ARdFields (indices (2 ^ bits)) ++ AUnlock x :: rest) = ins_of (AUnlock x :: rest)).
    { intro x. apply rdfields_app; [discriminate| | |intros ? ? ? E; discriminate].
      - cbn [wlb hb_eq]. rewrite Bool.eqb_reflx, Hw. reflexivity.
      - cbn [pairs_ok]. rewrite Hnf, Hp. reflexivity. }
    destruct Hs as [E|E]; rewrite E; cbn [app]; rewrite <- app_assoc; cbn [app];
      [destruct (G false) as (GW & GP & GN & GI)|destruct (G true) as (GW & GP & GN & GI)];
      cbn [wlb pairs_ok ins_of hb_eq Bool.eqb negb andb]; rewrite GW, GP, GI; cbn [ins_of];
      (repeat split; try reflexivity; try (intros; discriminate));
      match goal with |- context [match ?l with _ => _ end] => destruct l as [|[] ?] eqn:E' end; try reflexivity;
      exfalso; exact (GN _ _ _ eq_refl).
  - rewrite Hl. cbn [ins_op app]. rewrite <- !app_assoc. cbn [app].
    destruct (loadrecs_app bits ts recs (AWrSealV ts :: AUnlock true :: rest)) as (GW & GP & GN & GI).
    + cbn [wlb hb_eq Bool.eqb negb andb]. exact Hw.
    + cbn [pairs_ok]. rewrite Hnf, Hp. reflexivity.
    + intros ? ? ? E; discriminate.
    + cbn zeta in *. cbn [wlb pairs_ok ins_of hb_eq Bool.eqb negb andb]. rewrite GW, GP.
      repeat split; try reflexivity; try (intros; discriminate).
      * match goal with |- context [match ?l with _ => _ end] => destruct l as [|[] ?] eqn:E' end; try reflexivity.
        exfalso. exact (GN _ _ _ eq_refl).
      * rewrite GI. reflexivity.
Qed.

Lemma program_ok : forall P bits ops, proto_ok P = true ->
  tail_ok (program P bits ops) /\ ins_of (program P bits ops) = flat_map ins_op ops.
Proof.
  intros P bits ops H. unfold program. induction ops as [|o ops (IT & II)]; cbn [flat_map].
  - split; [|reflexivity]. repeat split. intros ? ? ? E. discriminate.
  - destruct (compile_app P bits o _ H IT) as (T & I). split; [exact T|]. rewrite I, II. reflexivity.
Qed.

Lemma program_wlb : forall P bits ops, proto_ok P = true -> wlb None false (program P bits ops) = true.
Proof. intros. apply program_ok. assumption. Qed.

(* every reachable state of well-locked programs satisfies the invariant *)
Lemma reachable_inv : forall progs sched,
  Forall (fun p => wlb None false p = true /\ pairs_ok p = true) progs ->
  Inv (flat_map ins_of progs) (run sched (init progs)).
Proof.
  intros progs sched Hw. apply run_inv. apply init_inv.
  - apply Forall_forall. intros p Hp. rewrite Forall_forall in Hw. apply Hw. exact Hp.
  - apply Forall_forall. intros p Hp. rewrite Forall_forall in Hw. split; [|apply Hw; exact Hp].
    intros x Hx. apply in_flat_map. exists p. split; assumption.
Qed.
