(* C15 -- linearisation: the concurrent cache of Conc/ConcDefs.v, for any
   threads, operations and schedule, behaves like the SEQUENTIAL cache of
   Cache/CacheDefs.v (the table model C04 proves transparent) executing the
   same operations one at a time in the order of their lock acquisitions.

   The schedule is replayed together with a ghost log that records, at every
   successful lock acquisition, which operation of which thread acquired
   ([irun]).  The invariant says: whenever nobody holds the exclusive lock the
   shared memory IS the table obtained by applying the logged operations in
   order to a fresh table; the exclusive holder's remaining critical section
   produces that table; and every find in flight will return what the
   sequential find returned on the table of its acquisition. *)
From Coq Require Import NArith List Bool Arith Lia.
From VV Require Import Cache.CacheDefs Cache.CacheProofs Conc.ProtoTypes Conc.ConcDefs Conc.ConcProofs.
Import ListNotations.
Local Open Scope N_scope.

(* ------------------------------------------------------------ sequential side *)
Definition seq_put (ts : N) (tb : table) (kv : key * list word) : table :=
  mktable (tbits tb) (upd (slots tb) (index tb (fst kv)) (mkslot (fst kv) (snd kv) ts)) (seal tb).

(* one operation on the sequential table *)
Definition seq_apply (tb : table) (o : op) : table :=
  match o with
  | OFind _ | OSave => tb
  | OInsert k v => insert tb k v
  | OClear => clear tb
  | OClearOne k => clear_one tb k
  | OLoad ts recs => let t' := fold_left (seq_put ts) recs tb in mktable (tbits t') (slots t') ts
  end.

(* the log is kept newest first *)
Definition log := list (tid * op).

Fixpoint seq_table (bits : N) (l : log) : table :=
  match l with
  | [] => fresh bits
  | e :: r => seq_apply (seq_table bits r) (snd e)
  end.

(* what the finds of thread t return in the sequential execution, newest first *)
Fixpoint seq_results (bits : N) (l : log) (t : tid) : list (key * list word) :=
  match l with
  | [] => []
  | (t', o) :: r =>
      match o with
      | OFind k => if Nat.eqb t' t then (k, find (seq_table bits r) k) :: seq_results bits r t
                   else seq_results bits r t
      | _ => seq_results bits r t
      end
  end.

Fixpoint count (l : log) (t : tid) : nat :=
  match l with
  | [] => O
  | (t', _) :: r => if Nat.eqb t' t then S (count r t) else count r t
  end.

(* the operations of thread t in the log, oldest first *)
Fixpoint ops_of (l : log) (t : tid) : list op :=
  match l with
  | [] => []
  | (t', o) :: r => if Nat.eqb t' t then ops_of r t ++ [o] else ops_of r t
  end.

(* ------------------------------------------------------------ instrumented run *)
Definition acquired (s s' : state) (t : tid) : bool :=
  match nth_error (ths s) t, nth_error (ths s') t with
  | Some th, Some th' => is_none (holds th) && negb (is_none (holds th'))
  | _, _ => false
  end.

Definition istep (opss : list (list op)) (sl : state * log) (t : tid) : state * log :=
  let (s, l) := sl in
  let s' := step s t in
  if acquired s s' t then (s', (t, nth (count l t) (nth t opss []) OClear) :: l) else (s', l).

Definition irun (opss : list (list op)) (sched : list tid) (sl : state * log) : state * log :=
  fold_left (istep opss) sched sl.

Lemma irun_fst : forall opss sched sl, fst (irun opss sched sl) = run sched (fst sl).
Proof.
  intros opss sched. induction sched as [|t sched IH]; intros [s l]; cbn; [reflexivity|].
  unfold irun in IH. rewrite IH. unfold istep. destruct (acquired s (step s t) t); reflexivity.
Qed.

(* ------------------------------------------------------------ run-alone functions *)
(* the rest of a critical section that writes, executed alone: final (seal_, table_) *)
Fixpoint cs_run (gs : N) (mm : N -> slot) (ls : N) (l : list action) : N * (N -> slot) :=
  match l with
  | ARdSeal :: r => cs_run gs mm gs r
  | ARdFields _ :: r => cs_run gs mm ls r
  | AWrKey i k :: r => cs_run gs (upd mm i (mkslot k (sfit (mm i)) (sseal (mm i)))) ls r
  | AWrFit i v :: r => cs_run gs (upd mm i (mkslot (skey (mm i)) v (sseal (mm i)))) ls r
  | AWrSlotSeal i :: r => cs_run gs (upd mm i (mkslot (skey (mm i)) (sfit (mm i)) ls)) ls r
  | AWrSlotSealV i n :: r => cs_run gs (upd mm i (mkslot (skey (mm i)) (sfit (mm i)) n)) ls r
  | AWrHash i :: r => cs_run gs (upd mm i (mkslot key0 (sfit (mm i)) (sseal (mm i)))) ls r
  | AWrSeal :: r =>
      let n := (ls + 1) mod M32 in
      if N.eqb n 0 then cs_run 1 (fun i => let x := mm i in mkslot (skey x) (sfit x) 0) ls r
      else cs_run n mm ls r
  | AWrSealV n :: r => cs_run n mm ls r
  | _ => (gs, mm)
  end.

(* the rest of a find, executed alone: what it will record *)
Fixpoint rd_run (gs : N) (mm : N -> slot) (ls ci : N) (ck : key) (mt wh : bool) (ac : list word)
         (l : list action) : option (key * list word) :=
  match l with
  | ARdSeal :: r => rd_run gs mm gs ci ck mt wh ac r
  | ARdSlot i k :: r =>
      rd_run gs mm ls i k (N.eqb ls (sseal (mm i)) && key_eqb k (skey (mm i))) false [] r
  | ACopy :: r =>
      if mt && negb wh then rd_run gs mm ls ci ck mt true (ac ++ skipn (length ac) (sfit (mm ci))) r
      else rd_run gs mm ls ci ck mt wh ac r
  | AUnlock _ :: r => rd_run gs mm ls ci ck mt wh ac r
  | ARet :: _ => Some (ck, ac)
  | _ => None
  end.

Definition agree (gs : N) (mm : N -> slot) (tb : table) : Prop :=
  gs = seal tb /\ forall j, mm j = slots tb j.

(* ------------------------------------------------------------ the compiled methods *)
Section Lin.
  Variable P : protos.
  Variable bits : N.
  Hypothesis Pok : proto_ok P = true.

  Definition xf : bool := is_excl (pr_find P).
  Definition xs : bool := is_excl (pr_save P).
  Definition xk (o : op) : bool := match o with OFind _ => xf | OSave => xs | _ => true end.

  Definition cbody (o : op) : list action :=
    match o with
    | OFind k => [ARdSeal; ARdSlot (idx bits k) k; ACopy; AUnlock xf; ARet]
    | OInsert k v =>
        [ARdSeal; AWrKey (idx bits k) k; AWrFit (idx bits k) v; AWrSlotSeal (idx bits k); AUnlock true]
    | OClear => [ARdSeal; AWrSeal; AUnlock true]
    | OClearOne k => [AWrHash (idx bits k); AUnlock true]
    | OSave => ARdSeal :: map ARdFields (indices (2 ^ bits)) ++ [AUnlock xs]
    | OLoad ts recs =>
        flat_map (fun kv => let i := idx bits (fst kv) in
                            [AWrKey i (fst kv); AWrFit i (snd kv); AWrSlotSealV i ts]) recs
          ++ [AWrSealV ts; AUnlock true]
    end.

  Lemma compile_eq : forall o, compile P bits o = ALock (xk o) :: cbody o.
  Proof.
    destruct (proto_ok_locks P Pok) as (Hf & Hr & Hi & Hc & Ho).
    destruct (proto_ok_locks2 P Pok) as (Hs & Hl).
    intro o. destruct o; unfold compile, lk, ulk, xk, cbody; unfold xf, xs, is_excl.
    - rewrite Hr. destruct Hf as [E|E]; rewrite E; reflexivity.
    - rewrite Hi. reflexivity.
    - rewrite Hc. reflexivity.
    - rewrite Ho. reflexivity.
    - destruct Hs as [E|E]; rewrite E; cbn [app]; reflexivity.
    - rewrite Hl. cbn [app]. reflexivity.
  Qed.

  (* only find and save may be compiled with the shared lock *)
  Lemma shared_no_effect : forall o tb, xk o = false -> seq_apply tb o = tb.
  Proof. intros o tb H. destruct o; cbn in *; try discriminate; reflexivity. Qed.

  Lemma seq_apply_bits : forall tb o, tbits (seq_apply tb o) = tbits tb.
  Proof.
    intros tb o. destruct o; cbn; try reflexivity.
    - unfold clear. destruct (N.eqb ((seal tb + 1) mod M32) 0); reflexivity.
    - induction recs as [|kv recs IH] using rev_ind; [reflexivity|].
      rewrite fold_left_app. cbn. exact IH.
  Qed.

  Lemma seq_table_bits : forall l, tbits (seq_table bits l) = bits.
  Proof. induction l as [|e l IH]; cbn; [reflexivity|]. rewrite seq_apply_bits. exact IH. Qed.

  (* ---- the critical section of each method computes the sequential step *)
  Lemma cs_rdfields : forall gs mm ls l rest,
    cs_run gs mm ls (map ARdFields l ++ rest) = cs_run gs mm ls rest.
  Proof. intros. induction l as [|i l IH]; cbn; [reflexivity|exact IH]. Qed.

  Lemma cs_load : forall ts recs gs mm ls rest tb,
    tbits tb = bits -> (forall j, mm j = slots tb j) ->
    exists mm', cs_run gs mm ls
                  (flat_map (fun kv => [AWrKey (idx bits (fst kv)) (fst kv); AWrFit (idx bits (fst kv)) (snd kv);
                                        AWrSlotSealV (idx bits (fst kv)) ts]) recs ++ rest)
                = cs_run gs mm' ls rest /\
                (forall j, mm' j = slots (fold_left (seq_put ts) recs tb) j) /\
                tbits (fold_left (seq_put ts) recs tb) = bits /\
                seal (fold_left (seq_put ts) recs tb) = seal tb.
  Proof.
    intros ts recs. induction recs as [|[k v] recs IH]; intros gs mm ls rest tb Hb Hm.
    - exists mm. cbn. repeat split; assumption.
    - cbn [flat_map app fold_left fst snd]. cbn zeta. cbn [cs_run].
      match goal with
      | |- context [cs_run gs ?M ls (flat_map _ recs ++ rest)] =>
          destruct (IH gs M ls rest (seq_put ts tb (k, v))) as (mm' & E & Hm' & Hb' & Hs')
      end.
      + exact Hb.
      + intro j. unfold seq_put, upd, index, idx. cbn [slots fst snd tbits]. rewrite Hb.
        destruct (N.eqb j (fst k mod 2 ^ bits)) eqn:Ej; [|apply Hm]. rewrite !N.eqb_refl. cbn. reflexivity.
      + exists mm'. split; [exact E|split; [exact Hm'|split; [exact Hb'|exact Hs']]].
  Qed.

  Lemma cs_compile : forall o gs mm ls rest tb,
    xk o = true -> tbits tb = bits -> agree gs mm tb ->
    let (g', m') := cs_run gs mm ls (cbody o ++ rest) in agree g' m' (seq_apply tb o).
  Proof.
    intros o gs mm ls rest tb Hx Hb (Hg & Hm). destruct o; cbn [cbody seq_apply].
    - cbn. split; assumption.
    - cbn. split; [exact Hg|]. intro j. unfold insert, upd, index. cbn [slots]. rewrite Hb.
      fold (idx bits k). destruct (N.eqb j (idx bits k)) eqn:Ej; [|apply Hm].
      rewrite !N.eqb_refl. cbn. rewrite Hg. reflexivity.
    - cbn [app cs_run]. unfold clear. rewrite <- Hg.
      destruct (N.eqb ((gs + 1) mod M32) 0); cbn.
      + split; [reflexivity|]. intro j. rewrite Hm. reflexivity.
      + split; [reflexivity|exact Hm].
    - cbn. split; [exact Hg|]. intro j. unfold clear_one, upd, index. cbn [slots]. rewrite Hb.
      fold (idx bits k). destruct (N.eqb j (idx bits k)) eqn:Ej; [|apply Hm].
      apply N.eqb_eq in Ej. subst j. rewrite Hm. reflexivity.
    - cbn [app cs_run]. rewrite <- app_assoc, cs_rdfields. cbn. split; assumption.
    - rewrite <- app_assoc. cbn [app]. cbn zeta.
      destruct (cs_load ts recs gs mm ls (AWrSealV ts :: AUnlock true :: rest) tb Hb Hm) as (mm' & E & Hm' & _ & _).
      rewrite E. cbn. split; [reflexivity|exact Hm'].
  Qed.

  Lemma rd_compile : forall k gs mm ls ci ck mt wh ac rest tb,
    tbits tb = bits -> agree gs mm tb ->
    rd_run gs mm ls ci ck mt wh ac (cbody (OFind k) ++ rest) = Some (k, find tb k).
  Proof.
    intros k gs mm ls ci ck mt wh ac rest tb Hb (Hg & Hm). cbn [cbody app rd_run].
    unfold find, index. rewrite Hb. fold (idx bits k). rewrite <- Hm, <- Hg.
    destruct (N.eqb gs (sseal (mm (idx bits k))) && key_eqb k (skey (mm (idx bits k)))); cbn; reflexivity.
  Qed.

  (* ------------------------------------------------------------ invariant *)
  Variable opss : list (list op).

  Definition progs : list (list action) := map (program P bits) opss.

  Definition suffix (b l : list action) : Prop := exists pre, l = pre ++ b.

  Definition TL (s : state) (l : log) (t : tid) (th : thread) : Prop :=
    let rest := skipn (count l t) (nth t opss []) in
    exists body, acts th = body ++ program P bits rest /\
      ((body = [] /\ holds th = None /\ results th = seq_results bits l t) \/
       (body <> [] /\ exists o, suffix body (cbody o) /\
          match o with
          | OFind k => exists e,
              rd_run (gseal s) (mem s) (lseal th) (curi th) (curk th) (matched th) (whole th) (acc th) (acts th)
                = Some (k, e) /\ seq_results bits l t = (k, e) :: results th
          | _ => results th = seq_results bits l t
          end)).

  Definition LInv (s : state) (l : log) : Prop :=
    (writer s = None -> agree (gseal s) (mem s) (seq_table bits l)) /\
    (forall t th, writer s = Some t -> nth_error (ths s) t = Some th ->
       let (g, m) := cs_run (gseal s) (mem s) (lseal th) (acts th) in agree g m (seq_table bits l)) /\
    (forall t th, nth_error (ths s) t = Some th -> TL s l t th) /\
    (forall t, ops_of l t = firstn (count l t) (nth t opss [])).

  (* ------------------------------------------------------------ one executed action *)
  Definition csdom (a : action) : bool :=
    match a with
    | ARdSeal | ARdFields _ | AWrKey _ _ | AWrFit _ _ | AWrSlotSeal _ | AWrSlotSealV _ _ | AWrHash _
    | AWrSeal | AWrSealV _ => true
    | _ => false
    end.

  Definition is_lockact (a : action) : bool := match a with ALock _ => true | _ => false end.

  Ltac exec_cases Hex a :=
    destruct a as [[|]|[|]| | | | | | | | | | | |];
    [ match type of Hex with context [is_none ?w] => destruct w end;
      match type of Hex with context [match ?l with [] => true | _ :: _ => false end] => destruct l | _ => idtac end
    | match type of Hex with context [is_none ?w] => destruct w end
    | | | |
    | match type of Hex with context [pending ?th] => destruct (pending th) eqn:?Ep end;
      [ match type of Hex with context [nth_error ?l ?n] => destruct (nth_error l n) eqn:?En end | ]
    | | | | | |
    | match type of Hex with context [N.eqb ?x 0] => destruct (N.eqb x 0) eqn:?Ez end
    | | ]; cbn in Hex; try discriminate.

  Lemma exec_ths : forall s t th s', nth_error (ths s) t = Some th -> exec s t th = Some s' ->
    exists th', ths s' = set_nth (ths s) t th' /\ nth_error (ths s') t = Some th'.
  Proof.
    intros s t th s' Ht Hex. unfold exec in Hex. destruct (acts th) as [|a r]; [discriminate|].
    exec_cases Hex a; inversion Hex; subst s'; cbn [ths];
      eexists; (split; [reflexivity|apply (nth_set_same _ _ _ _ _ Ht)]).
  Qed.

  Lemma exec_nonwr : forall s t th s' a r, exec s t th = Some s' -> acts th = a :: r -> is_wr a = false ->
    mem s' = mem s /\ gseal s' = gseal s.
  Proof.
    intros s t th s' a r Hex Ea Hw. unfold exec in Hex. rewrite Ea in Hex.
    exec_cases Hex a; try discriminate; inversion Hex; subst s'; split; reflexivity.
  Qed.

  Lemma exec_writer : forall s t th s' a r, exec s t th = Some s' -> acts th = a :: r ->
    match a with
    | ALock true => writer s = None /\ writer s' = Some t
    | ALock false => writer s = None /\ writer s' = None
    | AUnlock true => writer s' = None
    | _ => writer s' = writer s
    end.
  Proof.
    intros s t th s' a r Hex Ea. unfold exec in Hex. rewrite Ea in Hex.
    exec_cases Hex a; inversion Hex; subst s'; cbn; auto.
  Qed.

  (* a step inside a writing critical section *)
  Lemma exec_cs : forall s t th s' th' a r, nth_error (ths s) t = Some th ->
    exec s t th = Some s' -> acts th = a :: r -> csdom a = true -> nth_error (ths s') t = Some th' ->
    acts th' = r /\ holds th' = holds th /\ results th' = results th /\
    cs_run (gseal s) (mem s) (lseal th) (a :: r) = cs_run (gseal s') (mem s') (lseal th') r.
  Proof.
    intros s t th s' th' a r Ht Hex Ea Hc Ht'. unfold exec in Hex. rewrite Ea in Hex.
    destruct a; try discriminate; cbn [cs_run];
      try (destruct (N.eqb ((lseal th + 1) mod M32) 0) eqn:Ez);
      inversion Hex; subst s'; cbn [ths] in Ht'; rewrite (nth_set_same _ _ _ _ _ Ht) in Ht';
      inversion Ht'; subst th'; cbn [acts holds results lseal gseal mem]; repeat split; reflexivity.
  Qed.

  (* a step of a find before its return *)
  Lemma exec_rd : forall s t th s' th' a r, nth_error (ths s) t = Some th ->
    exec s t th = Some s' -> acts th = a :: r -> nth_error (ths s') t = Some th' ->
    match a with ARdSeal | ARdSlot _ _ | ACopy | AUnlock _ => True | _ => False end ->
    results th' = results th /\ (acts th' = r \/ (a = ACopy /\ acts th' = acts th)) /\
    rd_run (gseal s) (mem s) (lseal th) (curi th) (curk th) (matched th) (whole th) (acc th) (acts th) =
    rd_run (gseal s') (mem s') (lseal th') (curi th') (curk th') (matched th') (whole th') (acc th') (acts th').
  Proof.
    intros s t th s' th' a r Ht Hex Ea Ht' Ha. unfold exec in Hex. rewrite Ea in Hex. rewrite Ea.
    destruct a as [x|[|]| |i k| | | | | | | | | |]; try contradiction.
    - inversion Hex; subst s'; cbn [ths] in Ht'; rewrite (nth_set_same _ _ _ _ _ Ht) in Ht';
        inversion Ht'; subst th'; cbn; auto.
    - inversion Hex; subst s'; cbn [ths] in Ht'; rewrite (nth_set_same _ _ _ _ _ Ht) in Ht';
        inversion Ht'; subst th'; cbn; auto.
    - inversion Hex; subst s'; cbn [ths] in Ht'; rewrite (nth_set_same _ _ _ _ _ Ht) in Ht';
        inversion Ht'; subst th'; cbn; auto.
    - inversion Hex; subst s'; cbn [ths] in Ht'; rewrite (nth_set_same _ _ _ _ _ Ht) in Ht';
        inversion Ht'; subst th'; cbn; auto.
    - unfold pending in Hex. cbn [rd_run].
      destruct (matched th && negb (whole th)) eqn:Ep.
      + destruct (nth_error (sfit (mem s (curi th))) (length (acc th))) as [w|] eqn:En.
        * inversion Hex; subst s'; cbn [ths] in Ht'; rewrite (nth_set_same _ _ _ _ _ Ht) in Ht';
            inversion Ht'; subst th'; cbn [acts holds results lseal gseal mem curi curk matched whole acc].
          split; [reflexivity|split; [right; split; reflexivity|]].
          try rewrite Ea. cbn [rd_run].
          assert (Hm : matched th = true) by (apply andb_true_iff in Ep; tauto).
          rewrite Hm. cbn [andb negb]. f_equal.
          rewrite app_length. cbn [length]. rewrite Nat.add_1_r. rewrite <- app_assoc. f_equal.
          clear - En. revert En. generalize (length (acc th)) as n. generalize (sfit (mem s (curi th))) as fl.
          induction fl as [|x fl IH]; intros [|n] En; cbn in *; try discriminate.
          -- inversion En. reflexivity.
          -- apply IH. exact En.
        * inversion Hex; subst s'; cbn [ths] in Ht'; rewrite (nth_set_same _ _ _ _ _ Ht) in Ht';
            inversion Ht'; subst th'; cbn [acts holds results lseal gseal mem curi curk matched whole acc].
          split; [reflexivity|split; [left; reflexivity|]].
          apply nth_error_None in En. rewrite (skipn_all2 _ En), app_nil_r. reflexivity.
      + inversion Hex; subst s'; cbn [ths] in Ht'; rewrite (nth_set_same _ _ _ _ _ Ht) in Ht';
          inversion Ht'; subst th'; cbn; auto.
  Qed.

  Lemma exec_ret : forall s t th s' th' r, nth_error (ths s) t = Some th ->
    exec s t th = Some s' -> acts th = ARet :: r -> nth_error (ths s') t = Some th' ->
    acts th' = r /\ results th' = (curk th, acc th) :: results th.
  Proof.
    intros s t th s' th' r Ht Hex Ea Ht'. unfold exec in Hex. rewrite Ea in Hex.
    inversion Hex; subst s'; cbn [ths] in Ht'; rewrite (nth_set_same _ _ _ _ _ Ht) in Ht';
      inversion Ht'; subst th'; cbn; auto.
  Qed.

  Lemma exec_lock : forall s t th s' th' x r, nth_error (ths s) t = Some th ->
    exec s t th = Some s' -> acts th = ALock x :: r -> nth_error (ths s') t = Some th' ->
    acts th' = r /\ holds th' = Some x /\ results th' = results th /\ lseal th' = lseal th /\
    curi th' = curi th /\ curk th' = curk th /\ matched th' = matched th /\ whole th' = whole th /\ acc th' = acc th.
  Proof.
    intros s t th s' th' x r Ht Hex Ea Ht'. unfold exec in Hex. rewrite Ea in Hex.
    destruct x; destruct (writer s); try discriminate; [destruct (readers s); try discriminate|];
      cbn in Hex; inversion Hex; subst s'; cbn [ths] in Ht';
      rewrite (nth_set_same _ _ _ _ _ Ht) in Ht'; inversion Ht'; subst th'; cbn; repeat split; reflexivity.
  Qed.

  Lemma exec_unlock : forall s t th s' th' x r, nth_error (ths s) t = Some th ->
    exec s t th = Some s' -> acts th = AUnlock x :: r -> nth_error (ths s') t = Some th' ->
    acts th' = r /\ holds th' = None /\ results th' = results th.
  Proof.
    intros s t th s' th' x r Ht Hex Ea Ht'. unfold exec in Hex. rewrite Ea in Hex.
    destruct x; inversion Hex; subst s'; cbn [ths] in Ht';
      rewrite (nth_set_same _ _ _ _ _ Ht) in Ht'; inversion Ht'; subst th'; cbn; repeat split; reflexivity.
  Qed.
End Lin.
