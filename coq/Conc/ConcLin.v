(* C15 -- linearisation: the concurrent cache of Conc/ConcDefs.v, for any
   threads, operations and schedule, behaves like the SEQUENTIAL cache of
   Cache/CacheDefs.v (the table model C04 proves transparent) executing the
   same operations one at a time in the order of their lock acquisitions.

   The schedule is replayed together with a ghost log that records, at every
   successful lock acquisition, which operation of which thread acquired
   ([irun]).  The invariant says: whenever nobody holds the exclusive lock the
   shared memory IS the table obtained by applying the logged operations in
   order to a fresh table; the exclusive holder's remaining critical section
   produces that table; and every find in flight will return what the
   sequential find returned on the table of its acquisition. *)
From Coq Require Import NArith List Bool Arith Lia.
From VV Require Import Cache.CacheDefs Cache.CacheProofs Conc.ProtoTypes Conc.ConcDefs Conc.ConcProofs.
Import ListNotations.
Local Open Scope N_scope.

(* ------------------------------------------------------------ sequential side *)
Definition seq_put (ts : N) (tb : table) (kv : key * list word) : table :=
  mktable (tbits tb) (upd (slots tb) (index tb (fst kv)) (mkslot (fst kv) (snd kv) ts)) (seal tb).

(* one operation on the sequential table *)
Definition seq_apply (tb : table) (o : op) : table :=
  match o with
  | OFind _ | OSave => tb
  | OInsert k v => insert tb k v
  | OClear => clear tb
  | OClearOne k => clear_one tb k
  | OLoad ts recs => let t' := fold_left (seq_put ts) recs tb in mktable (tbits t') (slots t') ts
  end.

(* the log is kept newest first *)
Definition log := list (tid * op).

Fixpoint seq_table (bits : N) (l : log) : table :=
  match l with
  | [] => fresh bits
  | e :: r => seq_apply (seq_table bits r) (snd e)
  end.

(* what the finds of thread t return in the sequential execution, newest first *)
Fixpoint seq_results (bits : N) (l : log) (t : tid) : list (key * list word) :=
  match l with
  | [] => []
  | (t', o) :: r =>
      match o with
      | OFind k => if Nat.eqb t' t then (k, find (seq_table bits r) k) :: seq_results bits r t
                   else seq_results bits r t
      | _ => seq_results bits r t
      end
  end.

Fixpoint count (l : log) (t : tid) : nat :=
  match l with
  | [] => O
  | (t', _) :: r => if Nat.eqb t' t then S (count r t) else count r t
  end.

(* the operations of thread t in the log, oldest first *)
Fixpoint ops_of (l : log) (t : tid) : list op :=
  match l with
  | [] => []
  | (t', o) :: r => if Nat.eqb t' t then ops_of r t ++ [o] else ops_of r t
  end.

(* ------------------------------------------------------------ instrumented run *)
Definition acquired (s s' : state) (t : tid) : bool :=
  match nth_error (ths s) t, nth_error (ths s') t with
  | Some th, Some th' => is_none (holds th) && negb (is_none (holds th'))
  | _, _ => false
  end.

Definition istep (opss : list (list op)) (sl : state * log) (t : tid) : state * log :=
  let (s, l) := sl in
  let s' := step s t in
  if acquired s s' t then (s', (t, nth (count l t) (nth t opss []) OClear) :: l) else (s', l).

Definition irun (opss : list (list op)) (sched : list tid) (sl : state * log) : state * log :=
  fold_left (istep opss) sched sl.

Lemma irun_fst : forall opss sched sl, fst (irun opss sched sl) = run sched (fst sl).
Proof.
  intros opss sched. induction sched as [|t sched IH]; intros [s l]; cbn; [reflexivity|].
  unfold irun in IH. rewrite IH. unfold istep. destruct (acquired s (step s t) t); reflexivity.
Qed.

(* ------------------------------------------------------------ run-alone functions *)
(* the rest of a critical section that writes, executed alone: final (seal_, table_) *)
Fixpoint cs_run (gs : N) (mm : N -> slot) (ls : N) (l : list action) : N * (N -> slot) :=
  match l with
  | ARdSeal :: r => cs_run gs mm gs r
  | ARdFields _ :: r => cs_run gs mm ls r
  | AWrKey i k :: r => cs_run gs (upd mm i (mkslot k (sfit (mm i)) (sseal (mm i)))) ls r
  | AWrFit i v :: r => cs_run gs (upd mm i (mkslot (skey (mm i)) v (sseal (mm i)))) ls r
  | AWrSlotSeal i :: r => cs_run gs (upd mm i (mkslot (skey (mm i)) (sfit (mm i)) ls)) ls r
  | AWrSlotSealV i n :: r => cs_run gs (upd mm i (mkslot (skey (mm i)) (sfit (mm i)) n)) ls r
  | AWrHash i :: r => cs_run gs (upd mm i (mkslot key0 (sfit (mm i)) (sseal (mm i)))) ls r
  | AWrSeal :: r =>
      let n := (ls + 1) mod M32 in
      if N.eqb n 0 then cs_run 1 (fun i => let x := mm i in mkslot (skey x) (sfit x) 0) ls r
      else cs_run n mm ls r
  | AWrSealV n :: r => cs_run n mm ls r
  | _ => (gs, mm)
  end.

(* the rest of a find, executed alone: what it will record *)
Fixpoint rd_run (gs : N) (mm : N -> slot) (ls ci : N) (ck : key) (mt wh : bool) (ac : list word)
         (l : list action) : option (key * list word) :=
  match l with
  | ARdSeal :: r => rd_run gs mm gs ci ck mt wh ac r
  | ARdSlot i k :: r =>
      rd_run gs mm ls i k (N.eqb ls (sseal (mm i)) && key_eqb k (skey (mm i))) false [] r
  | ACopy :: r =>
      if mt && negb wh then rd_run gs mm ls ci ck mt true (ac ++ skipn (length ac) (sfit (mm ci))) r
      else rd_run gs mm ls ci ck mt wh ac r
  | AUnlock _ :: r => rd_run gs mm ls ci ck mt wh ac r
  | ARet :: _ => Some (ck, ac)
  | _ => None
  end.

Definition agree (gs : N) (mm : N -> slot) (tb : table) : Prop :=
  gs = seal tb /\ forall j, mm j = slots tb j.

(* ------------------------------------------------------------ the compiled methods *)
Section Lin.
  Variable P : protos.
  Variable bits : N.
  Hypothesis Pok : proto_ok P = true.

  Definition xf : bool := is_excl (pr_find P).
  Definition xs : bool := is_excl (pr_save P).
  Definition xk (o : op) : bool := match o with OFind _ => xf | OSave => xs | _ => true end.

  Definition cbody (o : op) : list action :=
    match o with
    | OFind k => [ARdSeal; ARdSlot (idx bits k) k; ACopy; AUnlock xf; ARet]
    | OInsert k v =>
        [ARdSeal; AWrKey (idx bits k) k; AWrFit (idx bits k) v; AWrSlotSeal (idx bits k); AUnlock true]
    | OClear => [ARdSeal; AWrSeal; AUnlock true]
    | OClearOne k => [AWrHash (idx bits k); AUnlock true]
    | OSave => ARdSeal :: map ARdFields (indices (2 ^ bits)) ++ [AUnlock xs]
    | OLoad ts recs =>
        flat_map (fun kv => let i := idx bits (fst kv) in
                            [AWrKey i (fst kv); AWrFit i (snd kv); AWrSlotSealV i ts]) recs
          ++ [AWrSealV ts; AUnlock true]
    end.

  Lemma compile_eq : forall o, compile P bits o = ALock (xk o) :: cbody o.
  Proof.
    destruct (proto_ok_locks P Pok) as (Hf & Hr & Hi & Hc & Ho).
    destruct (proto_ok_locks2 P Pok) as (Hs & Hl).
    intro o. destruct o; unfold compile, lk, ulk, xk, cbody; unfold xf, xs, is_excl.
    - rewrite Hr. destruct Hf as [E|E]; rewrite E; reflexivity.
    - rewrite Hi. reflexivity.
    - rewrite Hc. reflexivity.
    - rewrite Ho. reflexivity.
    - destruct Hs as [E|E]; rewrite E; cbn [app]; reflexivity.
    - rewrite Hl. cbn [app]. reflexivity.
  Qed.

  (* only find and save may be compiled with the shared lock *)
  Lemma shared_no_effect : forall o tb, xk o = false -> seq_apply tb o = tb.
  Proof. intros o tb H. destruct o; cbn in *; try discriminate; reflexivity. Qed.

  Lemma seq_apply_bits : forall tb o, tbits (seq_apply tb o) = tbits tb.
  Proof.
    intros tb o. destruct o; cbn; try reflexivity.
    - unfold clear. destruct (N.eqb ((seal tb + 1) mod M32) 0); reflexivity.
    - induction recs as [|kv recs IH] using rev_ind; [reflexivity|].
      rewrite fold_left_app. cbn. exact IH.
  Qed.

  Lemma seq_table_bits : forall l, tbits (seq_table bits l) = bits.
  Proof. induction l as [|e l IH]; cbn; [reflexivity|]. rewrite seq_apply_bits. exact IH. Qed.

  (* ---- the critical section of each method computes the sequential step *)
  Lemma cs_rdfields : forall gs mm ls l rest,
    cs_run gs mm ls (map ARdFields l ++ rest) = cs_run gs mm ls rest.
  Proof. intros. induction l as [|i l IH]; cbn; [reflexivity|exact IH]. Qed.

  Lemma cs_load : forall ts recs gs mm ls rest tb,
    tbits tb = bits -> (forall j, mm j = slots tb j) ->
    exists mm', cs_run gs mm ls
                  (flat_map (fun kv => [AWrKey (idx bits (fst kv)) (fst kv); AWrFit (idx bits (fst kv)) (snd kv);
                                        AWrSlotSealV (idx bits (fst kv)) ts]) recs ++ rest)
                = cs_run gs mm' ls rest /\
                (forall j, mm' j = slots (fold_left (seq_put ts) recs tb) j) /\
                tbits (fold_left (seq_put ts) recs tb) = bits /\
                seal (fold_left (seq_put ts) recs tb) = seal tb.
  Proof.
    intros ts recs. induction recs as [|[k v] recs IH]; intros gs mm ls rest tb Hb Hm.
    - exists mm. cbn. repeat split; assumption.
    - cbn [flat_map app fold_left fst snd]. cbn zeta. cbn [cs_run].
      match goal with
      | |- context [cs_run gs ?M ls (flat_map _ recs ++ rest)] =>
          destruct (IH gs M ls rest (seq_put ts tb (k, v))) as (mm' & E & Hm' & Hb' & Hs')
      end.
      + exact Hb.
      + intro j. unfold seq_put, upd, index, idx. cbn [slots fst snd tbits]. rewrite Hb.
        destruct (N.eqb j (fst k mod 2 ^ bits)) eqn:Ej; [|apply Hm]. rewrite !N.eqb_refl. cbn. reflexivity.
      + exists mm'. split; [exact E|split; [exact Hm'|split; [exact Hb'|exact Hs']]].
  Qed.

  Lemma cs_compile : forall o gs mm ls rest tb,
    xk o = true -> tbits tb = bits -> agree gs mm tb ->
    let (g', m') := cs_run gs mm ls (cbody o ++ rest) in agree g' m' (seq_apply tb o).
  Proof.
    intros o gs mm ls rest tb Hx Hb (Hg & Hm). destruct o; cbn [cbody seq_apply].
    - cbn. split; assumption.
    - cbn. split; [exact Hg|]. intro j. unfold insert, upd, index. cbn [slots]. rewrite Hb.
      fold (idx bits k). destruct (N.eqb j (idx bits k)) eqn:Ej; [|apply Hm].
      rewrite !N.eqb_refl. cbn. rewrite Hg. reflexivity.
    - cbn [app cs_run]. unfold clear. rewrite <- Hg.
      destruct (N.eqb ((gs + 1) mod M32) 0); cbn.
      + split; [reflexivity|]. intro j. rewrite Hm. reflexivity.
      + split; [reflexivity|exact Hm].
    - cbn. split; [exact Hg|]. intro j. unfold clear_one, upd, index. cbn [slots]. rewrite Hb.
      fold (idx bits k). destruct (N.eqb j (idx bits k)) eqn:Ej; [|apply Hm].
      apply N.eqb_eq in Ej. subst j. rewrite Hm. reflexivity.
    - cbn [app cs_run]. rewrite <- app_assoc, cs_rdfields. cbn. split; assumption.
    - rewrite <- app_assoc. cbn [app]. cbn zeta.
      destruct (cs_load ts recs gs mm ls (AWrSealV ts :: AUnlock true :: rest) tb Hb Hm) as (mm' & E & Hm' & _ & _).
      rewrite E. cbn. split; [reflexivity|exact Hm'].
  Qed.

  Lemma rd_compile : forall k gs mm ls ci ck mt wh ac rest tb,
    tbits tb = bits -> agree gs mm tb ->
    rd_run gs mm ls ci ck mt wh ac (cbody (OFind k) ++ rest) = Some (k, find tb k).
  Proof.
    intros k gs mm ls ci ck mt wh ac rest tb Hb (Hg & Hm). cbn [cbody app rd_run].
    unfold find, index. rewrite Hb. fold (idx bits k). rewrite <- Hm, <- Hg.
    destruct (N.eqb gs (sseal (mm (idx bits k))) && key_eqb k (skey (mm (idx bits k)))); cbn; reflexivity.
  Qed.

  (* ------------------------------------------------------------ invariant *)
  Variable opss : list (list op).

  Definition progs : list (list action) := map (program P bits) opss.

  Definition suffix (b l : list action) : Prop := exists pre, l = pre ++ b.

  Definition TL (s : state) (l : log) (t : tid) (th : thread) : Prop :=
    let rest := skipn (count l t) (nth t opss []) in
    exists body, acts th = body ++ program P bits rest /\
      ((body = [] /\ holds th = None /\ results th = seq_results bits l t) \/
       (body <> [] /\ exists o, suffix body (cbody o) /\
          match o with
          | OFind k => exists e,
              rd_run (gseal s) (mem s) (lseal th) (curi th) (curk th) (matched th) (whole th) (acc th) (acts th)
                = Some (k, e) /\ seq_results bits l t = (k, e) :: results th
          | _ => results th = seq_results bits l t
          end)).

  Definition LInv (s : state) (l : log) : Prop :=
    (writer s = None -> agree (gseal s) (mem s) (seq_table bits l)) /\
    (forall t th, writer s = Some t -> nth_error (ths s) t = Some th ->
       let (g, m) := cs_run (gseal s) (mem s) (lseal th) (acts th) in agree g m (seq_table bits l)) /\
    (forall t th, nth_error (ths s) t = Some th -> TL s l t th) /\
    (forall t, ops_of l t = firstn (count l t) (nth t opss [])).

  (* ------------------------------------------------------------ one executed action *)
  Definition csdom (a : action) : bool :=
    match a with
    | ARdSeal | ARdFields _ | AWrKey _ _ | AWrFit _ _ | AWrSlotSeal _ | AWrSlotSealV _ _ | AWrHash _
    | AWrSeal | AWrSealV _ => true
    | _ => false
    end.

  Definition is_lockact (a : action) : bool := match a with ALock _ => true | _ => false end.

  Ltac exec_cases Hex a :=
    destruct a as [[|]|[|]| | | | | | | | | | | |];
    [ match type of Hex with context [is_none ?w] => destruct w end;
      match type of Hex with context [match ?l with [] => true | _ :: _ => false end] => destruct l | _ => idtac end
    | match type of Hex with context [is_none ?w] => destruct w end
    | | | |
    | match type of Hex with context [pending ?th] => destruct (pending th) eqn:?Ep end;
      [ match type of Hex with context [nth_error ?l ?n] => destruct (nth_error l n) eqn:?En end | ]
    | | | | | |
    | match type of Hex with context [N.eqb ?x 0] => destruct (N.eqb x 0) eqn:?Ez end
    | | ]; cbn in Hex; try discriminate.

  Lemma exec_ths : forall s t th s', nth_error (ths s) t = Some th -> exec s t th = Some s' ->
    exists th', ths s' = set_nth (ths s) t th' /\ nth_error (ths s') t = Some th'.
  Proof.
    intros s t th s' Ht Hex. unfold exec in Hex. destruct (acts th) as [|a r]; [discriminate|].
    exec_cases Hex a; inversion Hex; subst s'; cbn [ths];
      eexists; (split; [reflexivity|apply (nth_set_same _ _ _ _ _ Ht)]).
  Qed.

  Lemma exec_nonwr : forall s t th s' a r, exec s t th = Some s' -> acts th = a :: r -> is_wr a = false ->
    mem s' = mem s /\ gseal s' = gseal s.
  Proof.
    intros s t th s' a r Hex Ea Hw. unfold exec in Hex. rewrite Ea in Hex.
    exec_cases Hex a; try discriminate; inversion Hex; subst s'; split; reflexivity.
  Qed.

  Lemma exec_writer : forall s t th s' a r, exec s t th = Some s' -> acts th = a :: r ->
    match a with
    | ALock true => writer s = None /\ writer s' = Some t
    | ALock false => writer s = None /\ writer s' = None
    | AUnlock true => writer s' = None
    | _ => writer s' = writer s
    end.
  Proof.
    intros s t th s' a r Hex Ea. unfold exec in Hex. rewrite Ea in Hex.
    exec_cases Hex a; inversion Hex; subst s'; cbn; auto.
  Qed.

  (* a step inside a writing critical section *)
  Lemma exec_cs : forall s t th s' th' a r, nth_error (ths s) t = Some th ->
    exec s t th = Some s' -> acts th = a :: r -> csdom a = true -> nth_error (ths s') t = Some th' ->
    acts th' = r /\ holds th' = holds th /\ results th' = results th /\
    cs_run (gseal s) (mem s) (lseal th) (a :: r) = cs_run (gseal s') (mem s') (lseal th') r.
  Proof.
    intros s t th s' th' a r Ht Hex Ea Hc Ht'. unfold exec in Hex. rewrite Ea in Hex.
    destruct a; try discriminate; cbn [cs_run];
      try (destruct (N.eqb ((lseal th + 1) mod M32) 0) eqn:Ez);
      inversion Hex; subst s'; cbn [ths] in Ht'; rewrite (nth_set_same _ _ _ _ _ Ht) in Ht';
      inversion Ht'; subst th'; cbn [acts holds results lseal gseal mem]; repeat split; reflexivity.
  Qed.

  (* a step of a find before its return *)
  Lemma exec_rd : forall s t th s' th' a r, nth_error (ths s) t = Some th ->
    exec s t th = Some s' -> acts th = a :: r -> nth_error (ths s') t = Some th' ->
    match a with ARdSeal | ARdSlot _ _ | ACopy | AUnlock _ => True | _ => False end ->
    results th' = results th /\ (acts th' = r \/ (a = ACopy /\ acts th' = acts th)) /\
    rd_run (gseal s) (mem s) (lseal th) (curi th) (curk th) (matched th) (whole th) (acc th) (acts th) =
    rd_run (gseal s') (mem s') (lseal th') (curi th') (curk th') (matched th') (whole th') (acc th') (acts th').
  Proof.
    intros s t th s' th' a r Ht Hex Ea Ht' Ha. unfold exec in Hex. rewrite Ea in Hex. rewrite Ea.
    destruct a as [x|[|]| |i k| | | | | | | | | |]; try contradiction.
    - inversion Hex; subst s'; cbn [ths] in Ht'; rewrite (nth_set_same _ _ _ _ _ Ht) in Ht';
        inversion Ht'; subst th'; cbn; auto.
    - inversion Hex; subst s'; cbn [ths] in Ht'; rewrite (nth_set_same _ _ _ _ _ Ht) in Ht';
        inversion Ht'; subst th'; cbn; auto.
    - inversion Hex; subst s'; cbn [ths] in Ht'; rewrite (nth_set_same _ _ _ _ _ Ht) in Ht';
        inversion Ht'; subst th'; cbn; auto.
    - inversion Hex; subst s'; cbn [ths] in Ht'; rewrite (nth_set_same _ _ _ _ _ Ht) in Ht';
        inversion Ht'; subst th'; cbn; auto.
    - unfold pending in Hex. cbn [rd_run].
      destruct (matched th && negb (whole th)) eqn:Ep.
      + destruct (nth_error (sfit (mem s (curi th))) (length (acc th))) as [w|] eqn:En.
        * inversion Hex; subst s'; cbn [ths] in Ht'; rewrite (nth_set_same _ _ _ _ _ Ht) in Ht';
            inversion Ht'; subst th'; cbn [acts holds results lseal gseal mem curi curk matched whole acc].
          split; [reflexivity|split; [right; split; reflexivity|]].
          try rewrite Ea. cbn [rd_run].
          assert (Hm : matched th = true) by (apply andb_true_iff in Ep; tauto).
          rewrite Hm. cbn [andb negb]. f_equal.
          rewrite app_length. cbn [length]. rewrite Nat.add_1_r. rewrite <- app_assoc. f_equal.
          clear - En. revert En. generalize (length (acc th)) as n. generalize (sfit (mem s (curi th))) as fl.
          induction fl as [|x fl IH]; intros [|n] En; cbn in *; try discriminate.
          -- inversion En. reflexivity.
          -- apply IH. exact En.
        * inversion Hex; subst s'; cbn [ths] in Ht'; rewrite (nth_set_same _ _ _ _ _ Ht) in Ht';
            inversion Ht'; subst th'; cbn [acts holds results lseal gseal mem curi curk matched whole acc].
          split; [reflexivity|split; [left; reflexivity|]].
          apply nth_error_None in En. rewrite (skipn_all2 _ En), app_nil_r. reflexivity.
      + inversion Hex; subst s'; cbn [ths] in Ht'; rewrite (nth_set_same _ _ _ _ _ Ht) in Ht';
          inversion Ht'; subst th'; cbn; auto.
  Qed.

  Lemma exec_ret : forall s t th s' th' r, nth_error (ths s) t = Some th ->
    exec s t th = Some s' -> acts th = ARet :: r -> nth_error (ths s') t = Some th' ->
    acts th' = r /\ results th' = (curk th, acc th) :: results th.
  Proof.
    intros s t th s' th' r Ht Hex Ea Ht'. unfold exec in Hex. rewrite Ea in Hex.
    inversion Hex; subst s'; cbn [ths] in Ht'; rewrite (nth_set_same _ _ _ _ _ Ht) in Ht';
      inversion Ht'; subst th'; cbn; auto.
  Qed.

  Lemma exec_lock : forall s t th s' th' x r, nth_error (ths s) t = Some th ->
    exec s t th = Some s' -> acts th = ALock x :: r -> nth_error (ths s') t = Some th' ->
    acts th' = r /\ holds th' = Some x /\ results th' = results th /\ lseal th' = lseal th /\
    curi th' = curi th /\ curk th' = curk th /\ matched th' = matched th /\ whole th' = whole th /\ acc th' = acc th.
  Proof.
    intros s t th s' th' x r Ht Hex Ea Ht'. unfold exec in Hex. rewrite Ea in Hex.
    destruct x; destruct (writer s); try discriminate; [destruct (readers s); try discriminate|];
      cbn in Hex; inversion Hex; subst s'; cbn [ths] in Ht';
      rewrite (nth_set_same _ _ _ _ _ Ht) in Ht'; inversion Ht'; subst th'; cbn; repeat split; reflexivity.
  Qed.

  Lemma exec_unlock : forall s t th s' th' x r, nth_error (ths s) t = Some th ->
    exec s t th = Some s' -> acts th = AUnlock x :: r -> nth_error (ths s') t = Some th' ->
    acts th' = r /\ holds th' = None /\ results th' = results th.
  Proof.
    intros s t th s' th' x r Ht Hex Ea Ht'. unfold exec in Hex. rewrite Ea in Hex.
    destruct x; inversion Hex; subst s'; cbn [ths] in Ht';
      rewrite (nth_set_same _ _ _ _ _ Ht) in Ht'; inversion Ht'; subst th'; cbn; repeat split; reflexivity.
  Qed.

  Lemma exec_holds : forall s t th s' th' a r, nth_error (ths s) t = Some th ->
    exec s t th = Some s' -> acts th = a :: r -> nth_error (ths s') t = Some th' ->
    is_lockact a = false -> holds th' = holds th \/ holds th' = None.
  Proof.
    intros s t th s' th' a r Ht Hex Ea Ht' Hl. unfold exec in Hex. rewrite Ea in Hex.
    exec_cases Hex a; try discriminate; inversion Hex; subst s'; cbn [ths] in Ht';
      rewrite (nth_set_same _ _ _ _ _ Ht) in Ht'; inversion Ht'; subst th'; cbn; auto.
  Qed.

  (* ------------------------------------------------------------ shapes *)
  Lemma skipn_cons_nth : forall (A : Type) n (l : list A) o r d, skipn n l = o :: r ->
    nth n l d = o /\ skipn (S n) l = r /\ firstn (S n) l = firstn n l ++ [o].
  Proof.
    intros A n. induction n as [|n IH]; intros l o r d H.
    - cbn in H. subst l. cbn. auto.
    - destruct l as [|x l]; [discriminate|]. cbn [skipn] in H. destruct (IH l o r d H) as (A1 & A2 & A3).
      cbn [nth]. split; [exact A1|split; [exact A2|]]. cbn [firstn app] in *. rewrite A3. reflexivity.
  Qed.

  Lemma cbody_ne : forall o, cbody o <> [].
  Proof. intro o. destruct o; cbn; try discriminate. destruct recs; cbn; discriminate. Qed.

  Lemma cbody_class : forall o a, In a (cbody o) ->
    match o with
    | OFind k => a = ARdSeal \/ a = ARdSlot (idx bits k) k \/ a = ACopy \/ a = AUnlock xf \/ a = ARet
    | _ => csdom a = true \/ exists x, a = AUnlock x
    end.
  Proof.
    intros o a H. destruct o; cbn [cbody] in H.
    - cbn in H. intuition.
    - cbn in H. intuition (subst; cbn; eauto).
    - cbn in H. intuition (subst; cbn; eauto).
    - cbn in H. intuition (subst; cbn; eauto).
    - destruct H as [H|H]; [subst; left; reflexivity|]. apply in_app_or in H. destruct H as [H|H].
      + apply in_map_iff in H. destruct H as (i & <- & _). left. reflexivity.
      + destruct H as [<-|[]]. right. eauto.
    - apply in_app_or in H. destruct H as [H|H].
      + apply in_flat_map in H. destruct H as (kv & _ & H). cbn in H. intuition (subst; cbn; eauto).
      + cbn in H. intuition (subst; cbn; eauto).
  Qed.

  Lemma suffix_in : forall a b l, suffix (a :: b) l -> In a l.
  Proof. intros a b l (pre & ->). apply in_or_app. right. left. reflexivity. Qed.

  Lemma suffix_tl : forall a b l, suffix (a :: b) l -> suffix b l.
  Proof. intros a b l (pre & ->). exists (pre ++ [a]). rewrite <- app_assoc. reflexivity. Qed.

  Lemma find_suffix_cases : forall k b, suffix b (cbody (OFind k)) ->
    b = cbody (OFind k) \/ b = [ARdSlot (idx bits k) k; ACopy; AUnlock xf; ARet] \/
    b = [ACopy; AUnlock xf; ARet] \/ b = [AUnlock xf; ARet] \/ b = [ARet] \/ b = [].
  Proof.
    intros k b (pre & H). cbn [cbody] in H.
    do 5 (destruct pre as [|? pre]; [cbn in H; subst b; auto 10|cbn in H; injection H as _ H]).
    symmetry in H. apply app_eq_nil in H. destruct H as (_ & H). subst b. auto 10.
  Qed.

  Lemma cs_find_suffix : forall k b, suffix b (cbody (OFind k)) -> b <> [] ->
    forall gs mm ls rest, agree (fst (cs_run gs mm ls (b ++ rest))) (snd (cs_run gs mm ls (b ++ rest))) = agree gs mm.
  Proof.
    intros k b Hs Hne gs mm ls rest.
    destruct (find_suffix_cases k b Hs) as [E|[E|[E|[E|[E|E]]]]]; subst b; try contradiction; reflexivity.
  Qed.

  Lemma program_head_none : forall h c ops, wlb h c (program P bits ops) = true -> h = None.
  Proof.
    intros h c ops H. destruct ops as [|o ops].
    - cbn in H. apply andb_true_iff in H. destruct H as (H & _). apply hb_eq_true in H. exact H.
    - unfold program in H. cbn [flat_map] in H. rewrite compile_eq in H. cbn [app] in H.
      destruct (wlb_lock _ _ _ _ H) as (H0 & _). exact H0.
  Qed.

  (* a find that holds no lock any more only has to return *)
  Lemma find_unlocked_ret : forall k b rest c, suffix b (cbody (OFind k)) -> b <> [] ->
    wlb None c (b ++ rest) = true -> b = [ARet].
  Proof.
    intros k b rest c Hs Hne Hw.
    destruct (find_suffix_cases k b Hs) as [E|[E|[E|[E|[E|E]]]]]; subst b; try contradiction; try reflexivity;
      cbn in Hw; discriminate.
  Qed.

  (* ------------------------------------------------------------ frames for the other threads *)
  Lemma TL_frame : forall s s' l l' t th,
    TL s l t th -> mem s' = mem s -> gseal s' = gseal s ->
    count l' t = count l t -> seq_results bits l' t = seq_results bits l t -> TL s' l' t th.
  Proof.
    intros s s' l l' t th (body & Ea & H) Hm Hg Hc Hr. unfold TL. rewrite Hc, Hr, Hm, Hg.
    exists body. split; [exact Ea|exact H].
  Qed.

  Lemma TL_frame_unlocked : forall s s' l t th c,
    TL s l t th -> holds th = None -> wlb None c (acts th) = true -> TL s' l t th.
  Proof.
    intros s s' l t th c (body & Ea & H) Hh Hw. unfold TL. exists body. split; [exact Ea|].
    destruct H as [H|(Hne & o & Hs & Ho)]; [left; exact H|right]. split; [exact Hne|]. exists o. split; [exact Hs|].
    destruct o; try exact Ho. destruct Ho as (e & Hrd & Hres). exists e. split; [|exact Hres].
    rewrite Ea in Hw. pose proof (find_unlocked_ret k body _ c Hs Hne Hw) as Eb. subst body.
    rewrite Ea in *. cbn [app rd_run] in *. exact Hrd.
  Qed.

  Lemma seq_results_other : forall l t t' o, t' <> t -> seq_results bits ((t', o) :: l) t = seq_results bits l t.
  Proof.
    intros l t t' o H. cbn [seq_results]. destruct (Nat.eqb_spec t' t) as [E|_]; [contradiction|].
    destruct o; reflexivity.
  Qed.

  Lemma count_other : forall l t t' o, t' <> t -> count ((t', o) :: l) t = count l t.
  Proof. intros l t t' o H. cbn. destruct (Nat.eqb_spec t' t); [contradiction|reflexivity]. Qed.

  (* ------------------------------------------------------------ the step *)
  Lemma istep_linv : forall INS s l t, Inv INS s -> LInv s l ->
    LInv (fst (istep opss (s, l) t)) (snd (istep opss (s, l) t)).
  Proof.
    intros INS s l t HI HL. pose proof HL as (HA & HB & HT & HO).
    unfold istep, step.
    destruct (nth_error (ths s) t) as [th|] eqn:Ht.
    2: { unfold acquired. rewrite Ht. cbn. exact HL. }
    destruct (exec s t th) as [s'|] eqn:Hex.
    2: { unfold acquired. rewrite Ht. destruct (holds th); cbn; exact HL. }
    destruct (exec_ths s t th s' Ht Hex) as (th' & Hths & Ht').
    assert (HI' : Inv INS s').
    { pose proof (step_inv INS s t HI) as X. unfold step in X. rewrite Ht, Hex in X. exact X. }
    pose proof HI as (_ & _ & _ & Hth). pose proof HI' as (_ & _ & _ & Hth').
    pose proof (Hth t th Ht) as ((c & Hw & _) & HMs & HMx & _).
    pose proof (Hth' t th' Ht') as ((c' & Hw' & _) & _ & HMx' & _).
    destruct (HT t th Ht) as (body & Eacts & Hphase).
    destruct (acts th) as [|a r] eqn:Ea.
    { unfold exec in Hex. rewrite Ea in Hex. discriminate. }
    (* the other threads keep their records *)
    assert (Hoth : forall t2 th2, t2 <> t -> nth_error (ths s') t2 = Some th2 -> nth_error (ths s) t2 = Some th2).
    { intros t2 th2 Hne H. rewrite Hths, nth_set_other in H by congruence. exact H. }
    assert (Hwr_x : is_wr a = true -> holds th = Some true).
    { intro Hwa. destruct (wlb_wr _ _ a _ Hwa Hw) as (H & _). exact H. }
    destruct Hphase as [(Hb & Hh & Hres)|(Hbne & o & Hsuf & Hop)].
    - (* ---- idle: the step is a lock acquisition *)
      subst body. cbn [app] in Eacts.
      destruct (skipn (count l t) (nth t opss [])) as [|o rest'] eqn:Esk; [discriminate|].
      unfold program in Eacts. cbn [flat_map] in Eacts. rewrite compile_eq in Eacts. cbn [app] in Eacts.
      injection Eacts as Ea0 Er. subst a.
      destruct (skipn_cons_nth _ _ _ _ _ OClear Esk) as (Enth & Esk' & Efn).
      destruct (exec_lock s t th s' th' _ _ Ht Hex Ea Ht') as (Ea' & Hh' & Hr' & Hl' & Hci & Hck & Hmt & Hwh & Hac).
      destruct (exec_nonwr s t th s' _ _ Hex Ea eq_refl) as (Hmem & Hgs).
      pose proof (exec_writer s t th s' _ _ Hex Ea) as Hwrt.
      assert (Eacq : acquired s s' t = true).
      { unfold acquired. rewrite Ht, Ht', Hh, Hh'. reflexivity. }
      rewrite Eacq. cbn [fst snd]. rewrite Enth.
      assert (Hwn : writer s = None) by (destruct (xk o); tauto).
      pose proof (HA Hwn) as Hag.
      unfold LInv. split; [|split; [|split]].
      + intro Hn. destruct (xk o) eqn:Ex; [destruct Hwrt as (_ & E); congruence|].
        cbn [seq_table snd]. rewrite (shared_no_effect o _ Ex), Hmem, Hgs. exact Hag.
      + intros tw thw Hw2 Htw. destruct (xk o) eqn:Ex; [|destruct Hwrt as (_ & E); congruence].
        destruct Hwrt as (_ & E). rewrite E in Hw2. inversion Hw2; subst tw. rewrite Ht' in Htw. inversion Htw; subst thw.
        rewrite Ea', Er, Hl', Hmem, Hgs. cbn [seq_table snd].
        apply (cs_compile o (gseal s) (mem s) (lseal th) _ (seq_table bits l) Ex (seq_table_bits l) Hag).
      + intros t2 th2 Ht2. destruct (Nat.eq_dec t2 t) as [->|Hne].
        * rewrite Ht' in Ht2. inversion Ht2; subst th2. unfold TL. cbn [count]. rewrite Nat.eqb_refl, Esk'.
          exists (cbody o). split; [rewrite Ea'; exact Er|right]. split; [apply cbody_ne|].
          exists o. split; [exists []; reflexivity|].
          destruct o; cbn [seq_results]; rewrite ?Nat.eqb_refl; try (rewrite Hr'; exact Hres).
          exists (find (seq_table bits l) k). split; [|rewrite Hr', Hres; reflexivity].
          rewrite Ea', Er, Hl', Hci, Hck, Hmt, Hwh, Hac, Hmem, Hgs.
          apply rd_compile; [apply seq_table_bits|exact Hag].
        * apply (TL_frame s s' l); [apply HT; apply Hoth; assumption|exact Hmem|exact Hgs
                                   |apply count_other; congruence|apply seq_results_other; congruence].
      + intro t2. cbn [ops_of count]. destruct (Nat.eqb_spec t t2) as [<-|Hne]; [|apply HO].
        rewrite HO, Efn. reflexivity.
    - (* ---- inside an operation *)
      destruct body as [|a0 body']; [contradiction|]. cbn [app] in Eacts. injection Eacts as Ea0 Er. subst a0.
      pose proof (suffix_in _ _ _ Hsuf) as Hin. pose proof (suffix_tl _ _ _ Hsuf) as Hsuf'.
      pose proof (cbody_class o a Hin) as Hcl.
      assert (Hnl : is_lockact a = false).
      { destruct o; [destruct Hcl as [E|[E|[E|[E|E]]]]; subst; reflexivity| | | | |];
          (destruct Hcl as [E|(x & E)]; [destruct a; try discriminate; reflexivity|subst; reflexivity]). }
      assert (Eacq : acquired s s' t = false).
      { unfold acquired. rewrite Ht, Ht'.
        destruct (exec_holds s t th s' th' a r Ht Hex Ea Ht' Hnl) as [E|E]; rewrite E;
          destruct (holds th); reflexivity. }
      rewrite Eacq. cbn [fst snd].
      pose proof (exec_writer s t th s' _ _ Hex Ea) as Hwrt.
      (* the memory changes only when t is the writer, and then the others hold nothing *)
      assert (Hmemw : is_wr a = false -> mem s' = mem s /\ gseal s' = gseal s).
      { intro H. exact (exec_nonwr s t th s' a r Hex Ea H). }
      assert (Others : forall t2 th2, t2 <> t -> nth_error (ths s') t2 = Some th2 -> TL s' l t2 th2).
      { intros t2 th2 Hne H2. pose proof (Hoth t2 th2 Hne H2) as H2o.
        destruct (is_wr a) eqn:Ew.
        - pose proof (others_hold_nothing INS s t t2 th th2 HI Ht (Hwr_x eq_refl) H2o Hne) as Hn.
          destruct (Hth t2 th2 H2o) as ((c2 & Hw2 & _) & _). rewrite Hn in Hw2.
          exact (TL_frame_unlocked s s' l t2 th2 c2 (HT t2 th2 H2o) Hn Hw2).
        - destruct (Hmemw eq_refl) as (Hm & Hg). apply (TL_frame s s' l l); auto. }
      (* the writer parts *)
      assert (PartB_other : forall tw thw, tw <> t -> writer s' = Some tw -> nth_error (ths s') tw = Some thw ->
                writer s = Some tw /\ mem s' = mem s /\ gseal s' = gseal s).
      { intros tw thw Hne Hw2 Htw.
        assert (Ews : writer s = Some tw).
        { destruct a as [[|]|[|]| | | | | | | | | | | |]; try discriminate; try (rewrite <- Hwrt; exact Hw2); congruence. }
        split; [exact Ews|]. apply Hmemw. destruct (is_wr a) eqn:Ew; [|reflexivity].
        pose proof (Hwr_x eq_refl) as Xw. apply HMx in Xw. congruence. }
      unfold LInv.
      destruct o as [k|k v| |k| |ts recs].
      + (* ---------------- find *)
        destruct Hop as (e & Hrd & Hsr).
        remember xf as xx eqn:Exx in *.
        destruct Hcl as [E|[E|[E|[E|E]]]]; subst a.
        * (* ARdSeal *)
          assert (Hrdok : match ARdSeal with ARdSeal | ARdSlot _ _ | ACopy | AUnlock _ => True | _ => False end) by exact I.
          destruct (exec_rd s t th s' th' _ r Ht Hex Ea Ht' Hrdok) as (Hr' & Hacts' & Hrd').
          rewrite Ea in Hrd', Hacts'.
          destruct (Hmemw eq_refl) as (Hm & Hg).
          assert (Hne' : body' <> []).
          { intro Eb; subst body'. destruct (find_suffix_cases k _ Hsuf) as [X|[X|[X|[X|[X|X]]]]]; discriminate. }
          assert (Zs : forall ls, agree (fst (cs_run (gseal s) (mem s) ls (ARdSeal :: r))) (snd (cs_run (gseal s) (mem s) ls (ARdSeal :: r)))
                                  = agree (gseal s) (mem s)).
          { intro ls. rewrite Er.
            exact (cs_find_suffix k (ARdSeal :: body') Hsuf ltac:(discriminate) (gseal s) (mem s) ls _). }
          assert (Zs' : forall ls, agree (fst (cs_run (gseal s') (mem s') ls (acts th'))) (snd (cs_run (gseal s') (mem s') ls (acts th')))
                                   = agree (gseal s') (mem s')).
          { intro ls. destruct Hacts' as [Ea2|(_ & Ea2)]; rewrite Ea2, Er.
            - exact (cs_find_suffix k body' Hsuf' Hne' (gseal s') (mem s') ls _).
            - exact (cs_find_suffix k (ARdSeal :: body') Hsuf ltac:(discriminate) (gseal s') (mem s') ls _). }
          split; [|split; [|split; [|exact HO]]].
          -- intro Hn. rewrite Hm, Hg. cbn in Hwrt. apply HA. congruence.
          -- intros tw thw Hw2 Htw. destruct (Nat.eq_dec tw t) as [->|Hne2].
             ++ rewrite Ht' in Htw. inversion Htw; subst thw.
                assert (Ews : writer s = Some t) by (cbn in Hwrt; congruence).
                pose proof (HB t th Ews Ht) as Y. rewrite Ea in Y.
                destruct (cs_run (gseal s) (mem s) (lseal th) (ARdSeal :: r)) as [g1 m1] eqn:E1.
                destruct (cs_run (gseal s') (mem s') (lseal th') (acts th')) as [g2 m2] eqn:E2.
                pose proof (Zs (lseal th)) as Z1. rewrite E1 in Z1. cbn [fst snd] in Z1.
                pose proof (Zs' (lseal th')) as Z2. rewrite E2 in Z2. cbn [fst snd] in Z2.
                rewrite Z2, Hm, Hg. rewrite Z1 in Y. exact Y.
             ++ destruct (PartB_other tw thw Hne2 Hw2 Htw) as (Ews & Hm2 & Hg2).
                rewrite Hm2, Hg2. exact (HB tw thw Ews (Hoth tw thw Hne2 Htw)).
          -- intros t2 th2 Ht2. destruct (Nat.eq_dec t2 t) as [->|Hne2]; [|exact (Others t2 th2 Hne2 Ht2)].
             rewrite Ht' in Ht2. inversion Ht2; subst th2. unfold TL.
             destruct Hacts' as [Ea2|(_ & Ea2)].
             ++ exists body'. split; [rewrite Ea2; exact Er|right]. split; [exact Hne'|].
                exists (OFind k). split; [exact Hsuf'|]. exists e. split; [rewrite <- Hrd'; exact Hrd|rewrite Hr'; exact Hsr].
             ++ exists (ARdSeal :: body'). split; [rewrite Ea2, Er; reflexivity|right]. split; [discriminate|].
                exists (OFind k). split; [exact Hsuf|]. exists e. split; [rewrite <- Hrd'; exact Hrd|rewrite Hr'; exact Hsr].
        * (* ARdSlot *)
          assert (Hrdok : match (ARdSlot (idx bits k) k) with ARdSeal | ARdSlot _ _ | ACopy | AUnlock _ => True | _ => False end) by exact I.
          destruct (exec_rd s t th s' th' _ r Ht Hex Ea Ht' Hrdok) as (Hr' & Hacts' & Hrd').
          rewrite Ea in Hrd', Hacts'.
          destruct (Hmemw eq_refl) as (Hm & Hg).
          assert (Hne' : body' <> []).
          { intro Eb; subst body'. destruct (find_suffix_cases k _ Hsuf) as [X|[X|[X|[X|[X|X]]]]]; discriminate. }
          assert (Zs : forall ls, agree (fst (cs_run (gseal s) (mem s) ls ((ARdSlot (idx bits k) k) :: r))) (snd (cs_run (gseal s) (mem s) ls ((ARdSlot (idx bits k) k) :: r)))
                                  = agree (gseal s) (mem s)).
          { intro ls. rewrite Er.
            exact (cs_find_suffix k ((ARdSlot (idx bits k) k) :: body') Hsuf ltac:(discriminate) (gseal s) (mem s) ls _). }
          assert (Zs' : forall ls, agree (fst (cs_run (gseal s') (mem s') ls (acts th'))) (snd (cs_run (gseal s') (mem s') ls (acts th')))
                                   = agree (gseal s') (mem s')).
          { intro ls. destruct Hacts' as [Ea2|(_ & Ea2)]; rewrite Ea2, Er.
            - exact (cs_find_suffix k body' Hsuf' Hne' (gseal s') (mem s') ls _).
            - exact (cs_find_suffix k ((ARdSlot (idx bits k) k) :: body') Hsuf ltac:(discriminate) (gseal s') (mem s') ls _). }
          split; [|split; [|split; [|exact HO]]].
          -- intro Hn. rewrite Hm, Hg. cbn in Hwrt. apply HA. congruence.
          -- intros tw thw Hw2 Htw. destruct (Nat.eq_dec tw t) as [->|Hne2].
             ++ rewrite Ht' in Htw. inversion Htw; subst thw.
                assert (Ews : writer s = Some t) by (cbn in Hwrt; congruence).
                pose proof (HB t th Ews Ht) as Y. rewrite Ea in Y.
                destruct (cs_run (gseal s) (mem s) (lseal th) ((ARdSlot (idx bits k) k) :: r)) as [g1 m1] eqn:E1.
                destruct (cs_run (gseal s') (mem s') (lseal th') (acts th')) as [g2 m2] eqn:E2.
                pose proof (Zs (lseal th)) as Z1. rewrite E1 in Z1. cbn [fst snd] in Z1.
                pose proof (Zs' (lseal th')) as Z2. rewrite E2 in Z2. cbn [fst snd] in Z2.
                rewrite Z2, Hm, Hg. rewrite Z1 in Y. exact Y.
             ++ destruct (PartB_other tw thw Hne2 Hw2 Htw) as (Ews & Hm2 & Hg2).
                rewrite Hm2, Hg2. exact (HB tw thw Ews (Hoth tw thw Hne2 Htw)).
          -- intros t2 th2 Ht2. destruct (Nat.eq_dec t2 t) as [->|Hne2]; [|exact (Others t2 th2 Hne2 Ht2)].
             rewrite Ht' in Ht2. inversion Ht2; subst th2. unfold TL.
             destruct Hacts' as [Ea2|(_ & Ea2)].
             ++ exists body'. split; [rewrite Ea2; exact Er|right]. split; [exact Hne'|].
                exists (OFind k). split; [exact Hsuf'|]. exists e. split; [rewrite <- Hrd'; exact Hrd|rewrite Hr'; exact Hsr].
             ++ exists ((ARdSlot (idx bits k) k) :: body'). split; [rewrite Ea2, Er; reflexivity|right]. split; [discriminate|].
                exists (OFind k). split; [exact Hsuf|]. exists e. split; [rewrite <- Hrd'; exact Hrd|rewrite Hr'; exact Hsr].
        * (* ACopy *)
          assert (Hrdok : match ACopy with ARdSeal | ARdSlot _ _ | ACopy | AUnlock _ => True | _ => False end) by exact I.
          destruct (exec_rd s t th s' th' _ r Ht Hex Ea Ht' Hrdok) as (Hr' & Hacts' & Hrd').
          rewrite Ea in Hrd', Hacts'.
          destruct (Hmemw eq_refl) as (Hm & Hg).
          assert (Hne' : body' <> []).
          { intro Eb; subst body'. destruct (find_suffix_cases k _ Hsuf) as [X|[X|[X|[X|[X|X]]]]]; discriminate. }
          assert (Zs : forall ls, agree (fst (cs_run (gseal s) (mem s) ls (ACopy :: r))) (snd (cs_run (gseal s) (mem s) ls (ACopy :: r)))
                                  = agree (gseal s) (mem s)).
          { intro ls. rewrite Er.
            exact (cs_find_suffix k (ACopy :: body') Hsuf ltac:(discriminate) (gseal s) (mem s) ls _). }
          assert (Zs' : forall ls, agree (fst (cs_run (gseal s') (mem s') ls (acts th'))) (snd (cs_run (gseal s') (mem s') ls (acts th')))
                                   = agree (gseal s') (mem s')).
          { intro ls. destruct Hacts' as [Ea2|(_ & Ea2)]; rewrite Ea2, Er.
            - exact (cs_find_suffix k body' Hsuf' Hne' (gseal s') (mem s') ls _).
            - exact (cs_find_suffix k (ACopy :: body') Hsuf ltac:(discriminate) (gseal s') (mem s') ls _). }
          split; [|split; [|split; [|exact HO]]].
          -- intro Hn. rewrite Hm, Hg. cbn in Hwrt. apply HA. congruence.
          -- intros tw thw Hw2 Htw. destruct (Nat.eq_dec tw t) as [->|Hne2].
             ++ rewrite Ht' in Htw. inversion Htw; subst thw.
                assert (Ews : writer s = Some t) by (cbn in Hwrt; congruence).
                pose proof (HB t th Ews Ht) as Y. rewrite Ea in Y.
                destruct (cs_run (gseal s) (mem s) (lseal th) (ACopy :: r)) as [g1 m1] eqn:E1.
                destruct (cs_run (gseal s') (mem s') (lseal th') (acts th')) as [g2 m2] eqn:E2.
                pose proof (Zs (lseal th)) as Z1. rewrite E1 in Z1. cbn [fst snd] in Z1.
                pose proof (Zs' (lseal th')) as Z2. rewrite E2 in Z2. cbn [fst snd] in Z2.
                rewrite Z2, Hm, Hg. rewrite Z1 in Y. exact Y.
             ++ destruct (PartB_other tw thw Hne2 Hw2 Htw) as (Ews & Hm2 & Hg2).
                rewrite Hm2, Hg2. exact (HB tw thw Ews (Hoth tw thw Hne2 Htw)).
          -- intros t2 th2 Ht2. destruct (Nat.eq_dec t2 t) as [->|Hne2]; [|exact (Others t2 th2 Hne2 Ht2)].
             rewrite Ht' in Ht2. inversion Ht2; subst th2. unfold TL.
             destruct Hacts' as [Ea2|(_ & Ea2)].
             ++ exists body'. split; [rewrite Ea2; exact Er|right]. split; [exact Hne'|].
                exists (OFind k). split; [exact Hsuf'|]. exists e. split; [rewrite <- Hrd'; exact Hrd|rewrite Hr'; exact Hsr].
             ++ exists (ACopy :: body'). split; [rewrite Ea2, Er; reflexivity|right]. split; [discriminate|].
                exists (OFind k). split; [exact Hsuf|]. exists e. split; [rewrite <- Hrd'; exact Hrd|rewrite Hr'; exact Hsr].
        * (* AUnlock *)
          assert (Hrdok : match (AUnlock xx) with ARdSeal | ARdSlot _ _ | ACopy | AUnlock _ => True | _ => False end) by exact I.
          destruct (exec_rd s t th s' th' _ r Ht Hex Ea Ht' Hrdok) as (Hr' & Hacts' & Hrd').
          rewrite Ea in Hrd', Hacts'.
          destruct (Hmemw eq_refl) as (Hm & Hg).
          assert (Hne' : body' <> []).
          { intro Eb; subst body'. destruct (find_suffix_cases k _ Hsuf) as [X|[X|[X|[X|[X|X]]]]]; discriminate. }
          assert (Zs : forall ls, agree (fst (cs_run (gseal s) (mem s) ls ((AUnlock xx) :: r))) (snd (cs_run (gseal s) (mem s) ls ((AUnlock xx) :: r)))
                                  = agree (gseal s) (mem s)).
          { intro ls. rewrite Er.
            exact (cs_find_suffix k ((AUnlock xx) :: body') Hsuf ltac:(discriminate) (gseal s) (mem s) ls _). }
          assert (Zs' : forall ls, agree (fst (cs_run (gseal s') (mem s') ls (acts th'))) (snd (cs_run (gseal s') (mem s') ls (acts th')))
                                   = agree (gseal s') (mem s')).
          { intro ls. destruct Hacts' as [Ea2|(_ & Ea2)]; rewrite Ea2, Er.
            - exact (cs_find_suffix k body' Hsuf' Hne' (gseal s') (mem s') ls _).
            - exact (cs_find_suffix k ((AUnlock xx) :: body') Hsuf ltac:(discriminate) (gseal s') (mem s') ls _). }
          split; [|split; [|split; [|exact HO]]].
          -- intro Hn. rewrite Hm, Hg. destruct (wlb_unlock _ _ _ _ Hw) as (Hxh & _).
             destruct xx.
             ++ apply HMx in Hxh. pose proof (HB t th Hxh Ht) as Y. rewrite Ea in Y. cbn in Y. exact Y.
             ++ cbn in Hwrt. apply HA. congruence.
          -- intros tw thw Hw2 Htw. destruct (Nat.eq_dec tw t) as [->|Hne2].
             ++ rewrite Ht' in Htw. inversion Htw; subst thw.
                assert (Ews : writer s = Some t) by (destruct xx; cbn in Hwrt; congruence).
                pose proof (HB t th Ews Ht) as Y. rewrite Ea in Y.
                destruct (cs_run (gseal s) (mem s) (lseal th) ((AUnlock xx) :: r)) as [g1 m1] eqn:E1.
                destruct (cs_run (gseal s') (mem s') (lseal th') (acts th')) as [g2 m2] eqn:E2.
                pose proof (Zs (lseal th)) as Z1. rewrite E1 in Z1. cbn [fst snd] in Z1.
                pose proof (Zs' (lseal th')) as Z2. rewrite E2 in Z2. cbn [fst snd] in Z2.
                rewrite Z2, Hm, Hg. rewrite Z1 in Y. exact Y.
             ++ destruct (PartB_other tw thw Hne2 Hw2 Htw) as (Ews & Hm2 & Hg2).
                rewrite Hm2, Hg2. exact (HB tw thw Ews (Hoth tw thw Hne2 Htw)).
          -- intros t2 th2 Ht2. destruct (Nat.eq_dec t2 t) as [->|Hne2]; [|exact (Others t2 th2 Hne2 Ht2)].
             rewrite Ht' in Ht2. inversion Ht2; subst th2. unfold TL.
             destruct Hacts' as [Ea2|(_ & Ea2)].
             ++ exists body'. split; [rewrite Ea2; exact Er|right]. split; [exact Hne'|].
                exists (OFind k). split; [exact Hsuf'|]. exists e. split; [rewrite <- Hrd'; exact Hrd|rewrite Hr'; exact Hsr].
             ++ exists ((AUnlock xx) :: body'). split; [rewrite Ea2, Er; reflexivity|right]. split; [discriminate|].
                exists (OFind k). split; [exact Hsuf|]. exists e. split; [rewrite <- Hrd'; exact Hrd|rewrite Hr'; exact Hsr].
        *
        (* the return *)
          destruct (exec_ret s t th s' th' r Ht Hex Ea Ht') as (Ea' & Hr').
        destruct (Hmemw eq_refl) as (Hm & Hg). cbn in Hwrt.
        assert (Eb : body' = []).
        { destruct (find_suffix_cases k (ARet :: body') Hsuf) as [X|[X|[X|[X|[X|X]]]]]; try discriminate.
          inversion X. reflexivity. }
        subst body'. cbn [app] in Er.
        assert (Hh' : holds th' = None).
        { rewrite Ea', Er in Hw'. exact (program_head_none _ _ _ Hw'). }
        cbn [rd_run] in Hrd. injection Hrd as Ek Ee.
        split; [|split; [|split; [|exact HO]]].
        -- intro Hn. rewrite Hm, Hg. apply HA. congruence.
        -- intros tw thw Hw2 Htw. destruct (Nat.eq_dec tw t) as [->|Hne2].
          ++ exfalso. rewrite Ht' in Htw. inversion Htw; subst thw.
             assert (X : holds th' = Some true) by (apply HMx'; exact Hw2). congruence.
          ++ destruct (PartB_other tw thw Hne2 Hw2 Htw) as (Ews & Hm2 & Hg2).
             rewrite Hm2, Hg2. exact (HB tw thw Ews (Hoth tw thw Hne2 Htw)).
        -- intros t2 th2 Ht2. destruct (Nat.eq_dec t2 t) as [->|Hne2]; [|exact (Others t2 th2 Hne2 Ht2)].
          rewrite Ht' in Ht2. inversion Ht2; subst th2. unfold TL. exists []. split; [rewrite Ea'; exact Er|left].
          split; [reflexivity|split; [exact Hh'|]]. rewrite Hr', Hsr, Ek, Ee. reflexivity.
      + (* ---------------- insert *)
        cbn beta iota in Hop, Hcl. destruct Hcl as [Hcs|(x & Ex)].
        * destruct (exec_cs s t th s' th' a r Ht Hex Ea Hcs Ht') as (Ea' & Hh' & Hr' & Hcsr).
          assert (Hwrt' : writer s' = writer s) by (destruct a; try discriminate; exact Hwrt).
          split; [|split; [|split; [|exact HO]]].
          -- intro Hn. rewrite Hwrt' in Hn. destruct (is_wr a) eqn:Ew.
             ++ pose proof (Hwr_x eq_refl) as Xw. apply HMx in Xw. congruence.
             ++ destruct (Hmemw eq_refl) as (Hm & Hg). rewrite Hm, Hg. exact (HA Hn).
          -- intros tw thw Hw2 Htw. destruct (Nat.eq_dec tw t) as [->|Hne2].
             ++ rewrite Ht' in Htw. inversion Htw; subst thw. rewrite Hwrt' in Hw2.
                pose proof (HB t th Hw2 Ht) as Y. rewrite Ea, Hcsr in Y. rewrite Ea'. exact Y.
             ++ destruct (PartB_other tw thw Hne2 Hw2 Htw) as (Ews & Hm2 & Hg2).
                rewrite Hm2, Hg2. exact (HB tw thw Ews (Hoth tw thw Hne2 Htw)).
          -- intros t2 th2 Ht2. destruct (Nat.eq_dec t2 t) as [->|Hne2]; [|exact (Others t2 th2 Hne2 Ht2)].
             rewrite Ht' in Ht2. inversion Ht2; subst th2. unfold TL. exists body'.
             split; [rewrite Ea'; exact Er|].
             destruct body' as [|b0 body''].
             ++ left. split; [reflexivity|split; [|rewrite Hr'; exact Hop]].
                cbn [app] in Er. rewrite Ea', Er in Hw'. exact (program_head_none _ _ _ Hw').
             ++ right. split; [discriminate|].
                match type of Hsuf' with suffix _ (cbody ?oo) => exists oo end.
                split; [exact Hsuf'|]. rewrite Hr'. exact Hop.
        * subst a. destruct (exec_unlock s t th s' th' x r Ht Hex Ea Ht') as (Ea' & Hh' & Hr').
          destruct (Hmemw eq_refl) as (Hm & Hg).
          assert (Hx : holds th = Some x) by (destruct (wlb_unlock _ _ _ _ Hw) as (X & _); exact X).
          split; [|split; [|split; [|exact HO]]].
          -- intro Hn. rewrite Hm, Hg. destruct x.
             ++ apply HMx in Hx. pose proof (HB t th Hx Ht) as Y. rewrite Ea in Y. cbn in Y. exact Y.
             ++ cbn in Hwrt. apply HA. congruence.
          -- intros tw thw Hw2 Htw. destruct (Nat.eq_dec tw t) as [->|Hne2].
             ++ exfalso. rewrite Ht' in Htw. inversion Htw; subst thw.
                assert (X : holds th' = Some true) by (apply HMx'; exact Hw2). congruence.
             ++ destruct (PartB_other tw thw Hne2 Hw2 Htw) as (Ews & Hm2 & Hg2).
                rewrite Hm2, Hg2. exact (HB tw thw Ews (Hoth tw thw Hne2 Htw)).
          -- intros t2 th2 Ht2. destruct (Nat.eq_dec t2 t) as [->|Hne2]; [|exact (Others t2 th2 Hne2 Ht2)].
             rewrite Ht' in Ht2. inversion Ht2; subst th2. unfold TL. exists body'.
             split; [rewrite Ea'; exact Er|].
             destruct body' as [|b0 body''].
             ++ left. split; [reflexivity|split; [exact Hh'|rewrite Hr'; exact Hop]].
             ++ right. split; [discriminate|].
                match type of Hsuf' with suffix _ (cbody ?oo) => exists oo end.
                split; [exact Hsuf'|]. rewrite Hr'. exact Hop.
      + (* ---------------- clear *)
        cbn beta iota in Hop, Hcl. destruct Hcl as [Hcs|(x & Ex)].
        * destruct (exec_cs s t th s' th' a r Ht Hex Ea Hcs Ht') as (Ea' & Hh' & Hr' & Hcsr).
          assert (Hwrt' : writer s' = writer s) by (destruct a; try discriminate; exact Hwrt).
          split; [|split; [|split; [|exact HO]]].
          -- intro Hn. rewrite Hwrt' in Hn. destruct (is_wr a) eqn:Ew.
             ++ pose proof (Hwr_x eq_refl) as Xw. apply HMx in Xw. congruence.
             ++ destruct (Hmemw eq_refl) as (Hm & Hg). rewrite Hm, Hg. exact (HA Hn).
          -- intros tw thw Hw2 Htw. destruct (Nat.eq_dec tw t) as [->|Hne2].
             ++ rewrite Ht' in Htw. inversion Htw; subst thw. rewrite Hwrt' in Hw2.
                pose proof (HB t th Hw2 Ht) as Y. rewrite Ea, Hcsr in Y. rewrite Ea'. exact Y.
             ++ destruct (PartB_other tw thw Hne2 Hw2 Htw) as (Ews & Hm2 & Hg2).
                rewrite Hm2, Hg2. exact (HB tw thw Ews (Hoth tw thw Hne2 Htw)).
          -- intros t2 th2 Ht2. destruct (Nat.eq_dec t2 t) as [->|Hne2]; [|exact (Others t2 th2 Hne2 Ht2)].
             rewrite Ht' in Ht2. inversion Ht2; subst th2. unfold TL. exists body'.
             split; [rewrite Ea'; exact Er|].
             destruct body' as [|b0 body''].
             ++ left. split; [reflexivity|split; [|rewrite Hr'; exact Hop]].
                cbn [app] in Er. rewrite Ea', Er in Hw'. exact (program_head_none _ _ _ Hw').
             ++ right. split; [discriminate|].
                match type of Hsuf' with suffix _ (cbody ?oo) => exists oo end.
                split; [exact Hsuf'|]. rewrite Hr'. exact Hop.
        * subst a. destruct (exec_unlock s t th s' th' x r Ht Hex Ea Ht') as (Ea' & Hh' & Hr').
          destruct (Hmemw eq_refl) as (Hm & Hg).
          assert (Hx : holds th = Some x) by (destruct (wlb_unlock _ _ _ _ Hw) as (X & _); exact X).
          split; [|split; [|split; [|exact HO]]].
          -- intro Hn. rewrite Hm, Hg. destruct x.
             ++ apply HMx in Hx. pose proof (HB t th Hx Ht) as Y. rewrite Ea in Y. cbn in Y. exact Y.
             ++ cbn in Hwrt. apply HA. congruence.
          -- intros tw thw Hw2 Htw. destruct (Nat.eq_dec tw t) as [->|Hne2].
             ++ exfalso. rewrite Ht' in Htw. inversion Htw; subst thw.
                assert (X : holds th' = Some true) by (apply HMx'; exact Hw2). congruence.
             ++ destruct (PartB_other tw thw Hne2 Hw2 Htw) as (Ews & Hm2 & Hg2).
                rewrite Hm2, Hg2. exact (HB tw thw Ews (Hoth tw thw Hne2 Htw)).
          -- intros t2 th2 Ht2. destruct (Nat.eq_dec t2 t) as [->|Hne2]; [|exact (Others t2 th2 Hne2 Ht2)].
             rewrite Ht' in Ht2. inversion Ht2; subst th2. unfold TL. exists body'.
             split; [rewrite Ea'; exact Er|].
             destruct body' as [|b0 body''].
             ++ left. split; [reflexivity|split; [exact Hh'|rewrite Hr'; exact Hop]].
             ++ right. split; [discriminate|].
                match type of Hsuf' with suffix _ (cbody ?oo) => exists oo end.
                split; [exact Hsuf'|]. rewrite Hr'. exact Hop.
      + (* ---------------- clear_one *)
        cbn beta iota in Hop, Hcl. destruct Hcl as [Hcs|(x & Ex)].
        * destruct (exec_cs s t th s' th' a r Ht Hex Ea Hcs Ht') as (Ea' & Hh' & Hr' & Hcsr).
          assert (Hwrt' : writer s' = writer s) by (destruct a; try discriminate; exact Hwrt).
          split; [|split; [|split; [|exact HO]]].
          -- intro Hn. rewrite Hwrt' in Hn. destruct (is_wr a) eqn:Ew.
             ++ pose proof (Hwr_x eq_refl) as Xw. apply HMx in Xw. congruence.
             ++ destruct (Hmemw eq_refl) as (Hm & Hg). rewrite Hm, Hg. exact (HA Hn).
          -- intros tw thw Hw2 Htw. destruct (Nat.eq_dec tw t) as [->|Hne2].
             ++ rewrite Ht' in Htw. inversion Htw; subst thw. rewrite Hwrt' in Hw2.
                pose proof (HB t th Hw2 Ht) as Y. rewrite Ea, Hcsr in Y. rewrite Ea'. exact Y.
             ++ destruct (PartB_other tw thw Hne2 Hw2 Htw) as (Ews & Hm2 & Hg2).
                rewrite Hm2, Hg2. exact (HB tw thw Ews (Hoth tw thw Hne2 Htw)).
          -- intros t2 th2 Ht2. destruct (Nat.eq_dec t2 t) as [->|Hne2]; [|exact (Others t2 th2 Hne2 Ht2)].
             rewrite Ht' in Ht2. inversion Ht2; subst th2. unfold TL. exists body'.
             split; [rewrite Ea'; exact Er|].
             destruct body' as [|b0 body''].
             ++ left. split; [reflexivity|split; [|rewrite Hr'; exact Hop]].
                cbn [app] in Er. rewrite Ea', Er in Hw'. exact (program_head_none _ _ _ Hw').
             ++ right. split; [discriminate|].
                match type of Hsuf' with suffix _ (cbody ?oo) => exists oo end.
                split; [exact Hsuf'|]. rewrite Hr'. exact Hop.
        * subst a. destruct (exec_unlock s t th s' th' x r Ht Hex Ea Ht') as (Ea' & Hh' & Hr').
          destruct (Hmemw eq_refl) as (Hm & Hg).
          assert (Hx : holds th = Some x) by (destruct (wlb_unlock _ _ _ _ Hw) as (X & _); exact X).
          split; [|split; [|split; [|exact HO]]].
          -- intro Hn. rewrite Hm, Hg. destruct x.
             ++ apply HMx in Hx. pose proof (HB t th Hx Ht) as Y. rewrite Ea in Y. cbn in Y. exact Y.
             ++ cbn in Hwrt. apply HA. congruence.
          -- intros tw thw Hw2 Htw. destruct (Nat.eq_dec tw t) as [->|Hne2].
             ++ exfalso. rewrite Ht' in Htw. inversion Htw; subst thw.
                assert (X : holds th' = Some true) by (apply HMx'; exact Hw2). congruence.
             ++ destruct (PartB_other tw thw Hne2 Hw2 Htw) as (Ews & Hm2 & Hg2).
                rewrite Hm2, Hg2. exact (HB tw thw Ews (Hoth tw thw Hne2 Htw)).
          -- intros t2 th2 Ht2. destruct (Nat.eq_dec t2 t) as [->|Hne2]; [|exact (Others t2 th2 Hne2 Ht2)].
             rewrite Ht' in Ht2. inversion Ht2; subst th2. unfold TL. exists body'.
             split; [rewrite Ea'; exact Er|].
             destruct body' as [|b0 body''].
             ++ left. split; [reflexivity|split; [exact Hh'|rewrite Hr'; exact Hop]].
             ++ right. split; [discriminate|].
                match type of Hsuf' with suffix _ (cbody ?oo) => exists oo end.
                split; [exact Hsuf'|]. rewrite Hr'. exact Hop.
      + (* ---------------- save *)
        cbn beta iota in Hop, Hcl. destruct Hcl as [Hcs|(x & Ex)].
        * destruct (exec_cs s t th s' th' a r Ht Hex Ea Hcs Ht') as (Ea' & Hh' & Hr' & Hcsr).
          assert (Hwrt' : writer s' = writer s) by (destruct a; try discriminate; exact Hwrt).
          split; [|split; [|split; [|exact HO]]].
          -- intro Hn. rewrite Hwrt' in Hn. destruct (is_wr a) eqn:Ew.
             ++ pose proof (Hwr_x eq_refl) as Xw. apply HMx in Xw. congruence.
             ++ destruct (Hmemw eq_refl) as (Hm & Hg). rewrite Hm, Hg. exact (HA Hn).
          -- intros tw thw Hw2 Htw. destruct (Nat.eq_dec tw t) as [->|Hne2].
             ++ rewrite Ht' in Htw. inversion Htw; subst thw. rewrite Hwrt' in Hw2.
                pose proof (HB t th Hw2 Ht) as Y. rewrite Ea, Hcsr in Y. rewrite Ea'. exact Y.
             ++ destruct (PartB_other tw thw Hne2 Hw2 Htw) as (Ews & Hm2 & Hg2).
                rewrite Hm2, Hg2. exact (HB tw thw Ews (Hoth tw thw Hne2 Htw)).
          -- intros t2 th2 Ht2. destruct (Nat.eq_dec t2 t) as [->|Hne2]; [|exact (Others t2 th2 Hne2 Ht2)].
             rewrite Ht' in Ht2. inversion Ht2; subst th2. unfold TL. exists body'.
             split; [rewrite Ea'; exact Er|].
             destruct body' as [|b0 body''].
             ++ left. split; [reflexivity|split; [|rewrite Hr'; exact Hop]].
                cbn [app] in Er. rewrite Ea', Er in Hw'. exact (program_head_none _ _ _ Hw').
             ++ right. split; [discriminate|].
                match type of Hsuf' with suffix _ (cbody ?oo) => exists oo end.
                split; [exact Hsuf'|]. rewrite Hr'. exact Hop.
        * subst a. destruct (exec_unlock s t th s' th' x r Ht Hex Ea Ht') as (Ea' & Hh' & Hr').
          destruct (Hmemw eq_refl) as (Hm & Hg).
          assert (Hx : holds th = Some x) by (destruct (wlb_unlock _ _ _ _ Hw) as (X & _); exact X).
          split; [|split; [|split; [|exact HO]]].
          -- intro Hn. rewrite Hm, Hg. destruct x.
             ++ apply HMx in Hx. pose proof (HB t th Hx Ht) as Y. rewrite Ea in Y. cbn in Y. exact Y.
             ++ cbn in Hwrt. apply HA. congruence.
          -- intros tw thw Hw2 Htw. destruct (Nat.eq_dec tw t) as [->|Hne2].
             ++ exfalso. rewrite Ht' in Htw. inversion Htw; subst thw.
                assert (X : holds th' = Some true) by (apply HMx'; exact Hw2). congruence.
             ++ destruct (PartB_other tw thw Hne2 Hw2 Htw) as (Ews & Hm2 & Hg2).
                rewrite Hm2, Hg2. exact (HB tw thw Ews (Hoth tw thw Hne2 Htw)).
          -- intros t2 th2 Ht2. destruct (Nat.eq_dec t2 t) as [->|Hne2]; [|exact (Others t2 th2 Hne2 Ht2)].
             rewrite Ht' in Ht2. inversion Ht2; subst th2. unfold TL. exists body'.
             split; [rewrite Ea'; exact Er|].
             destruct body' as [|b0 body''].
             ++ left. split; [reflexivity|split; [exact Hh'|rewrite Hr'; exact Hop]].
             ++ right. split; [discriminate|].
                match type of Hsuf' with suffix _ (cbody ?oo) => exists oo end.
                split; [exact Hsuf'|]. rewrite Hr'. exact Hop.
      + (* ---------------- load *)
        cbn beta iota in Hop, Hcl. destruct Hcl as [Hcs|(x & Ex)].
        * destruct (exec_cs s t th s' th' a r Ht Hex Ea Hcs Ht') as (Ea' & Hh' & Hr' & Hcsr).
          assert (Hwrt' : writer s' = writer s) by (destruct a; try discriminate; exact Hwrt).
          split; [|split; [|split; [|exact HO]]].
          -- intro Hn. rewrite Hwrt' in Hn. destruct (is_wr a) eqn:Ew.
             ++ pose proof (Hwr_x eq_refl) as Xw. apply HMx in Xw. congruence.
             ++ destruct (Hmemw eq_refl) as (Hm & Hg). rewrite Hm, Hg. exact (HA Hn).
          -- intros tw thw Hw2 Htw. destruct (Nat.eq_dec tw t) as [->|Hne2].
             ++ rewrite Ht' in Htw. inversion Htw; subst thw. rewrite Hwrt' in Hw2.
                pose proof (HB t th Hw2 Ht) as Y. rewrite Ea, Hcsr in Y. rewrite Ea'. exact Y.
             ++ destruct (PartB_other tw thw Hne2 Hw2 Htw) as (Ews & Hm2 & Hg2).
                rewrite Hm2, Hg2. exact (HB tw thw Ews (Hoth tw thw Hne2 Htw)).
          -- intros t2 th2 Ht2. destruct (Nat.eq_dec t2 t) as [->|Hne2]; [|exact (Others t2 th2 Hne2 Ht2)].
             rewrite Ht' in Ht2. inversion Ht2; subst th2. unfold TL. exists body'.
             split; [rewrite Ea'; exact Er|].
             destruct body' as [|b0 body''].
             ++ left. split; [reflexivity|split; [|rewrite Hr'; exact Hop]].
                cbn [app] in Er. rewrite Ea', Er in Hw'. exact (program_head_none _ _ _ Hw').
             ++ right. split; [discriminate|].
                match type of Hsuf' with suffix _ (cbody ?oo) => exists oo end.
                split; [exact Hsuf'|]. rewrite Hr'. exact Hop.
        * subst a. destruct (exec_unlock s t th s' th' x r Ht Hex Ea Ht') as (Ea' & Hh' & Hr').
          destruct (Hmemw eq_refl) as (Hm & Hg).
          assert (Hx : holds th = Some x) by (destruct (wlb_unlock _ _ _ _ Hw) as (X & _); exact X).
          split; [|split; [|split; [|exact HO]]].
          -- intro Hn. rewrite Hm, Hg. destruct x.
             ++ apply HMx in Hx. pose proof (HB t th Hx Ht) as Y. rewrite Ea in Y. cbn in Y. exact Y.
             ++ cbn in Hwrt. apply HA. congruence.
          -- intros tw thw Hw2 Htw. destruct (Nat.eq_dec tw t) as [->|Hne2].
             ++ exfalso. rewrite Ht' in Htw. inversion Htw; subst thw.
                assert (X : holds th' = Some true) by (apply HMx'; exact Hw2). congruence.
             ++ destruct (PartB_other tw thw Hne2 Hw2 Htw) as (Ews & Hm2 & Hg2).
                rewrite Hm2, Hg2. exact (HB tw thw Ews (Hoth tw thw Hne2 Htw)).
          -- intros t2 th2 Ht2. destruct (Nat.eq_dec t2 t) as [->|Hne2]; [|exact (Others t2 th2 Hne2 Ht2)].
             rewrite Ht' in Ht2. inversion Ht2; subst th2. unfold TL. exists body'.
             split; [rewrite Ea'; exact Er|].
             destruct body' as [|b0 body''].
             ++ left. split; [reflexivity|split; [exact Hh'|rewrite Hr'; exact Hop]].
             ++ right. split; [discriminate|].
                match type of Hsuf' with suffix _ (cbody ?oo) => exists oo end.
                split; [exact Hsuf'|]. rewrite Hr'. exact Hop.
  Qed.

  (* ------------------------------------------------------------ any schedule *)
  Lemma irun_linv : forall INS sched s l, Inv INS s -> LInv s l ->
    LInv (fst (irun opss sched (s, l))) (snd (irun opss sched (s, l))).
  Proof.
    intros INS sched. induction sched as [|t sched IH]; intros s l HI HL; [exact HL|].
    cbn [irun fold_left]. pose proof (istep_linv INS s l t HI HL) as H.
    destruct (istep opss (s, l) t) as [s1 l1] eqn:E. cbn [fst snd] in H.
    apply IH; [|exact H].
    assert (Es : s1 = step s t).
    { unfold istep in E. destruct (acquired s (step s t) t); inversion E; reflexivity. }
    rewrite Es. apply step_inv. exact HI.
  Qed.

  Lemma init_linv : LInv (init progs) [].
  Proof.
    unfold LInv, init, progs. cbn [writer gseal mem ths seq_table count]. split; [|split; [|split]].
    - intros _. split; reflexivity.
    - intros t th H. discriminate.
    - intros t th Hn. rewrite nth_error_map in Hn. rewrite nth_error_map in Hn.
      destruct (nth_error opss t) as [ops|] eqn:Eo; [|discriminate]. inversion Hn; subst th; clear Hn.
      unfold TL. cbn [count skipn acts holds results init_thread seq_results]. exists [].
      split; [|left; repeat split].
      cbn [app]. f_equal. symmetry. apply nth_error_nth. exact Eo.
    - intro t. reflexivity.
  Qed.

  (* LINEARISATION.  For every schedule: the operations whose lock acquisition
     has happened are, thread by thread, a prefix of that thread's program
     (ops_of); whenever nobody holds the exclusive lock the shared memory IS
     the sequential table obtained by applying them in acquisition order to a
     fresh table; and the finds a thread has completed returned exactly what
     the sequential finds return in that order (a find in flight is the only
     one not yet recorded). *)
  Lemma linearisation : forall sched,
    let s := fst (irun opss sched (init progs, [])) in
    let l := snd (irun opss sched (init progs, [])) in
    s = run sched (init progs) /\
    (forall t, ops_of l t = firstn (count l t) (nth t opss [])) /\
    (writer s = None -> agree (gseal s) (mem s) (seq_table bits l)) /\
    (forall t th, nth_error (ths s) t = Some th ->
       results th = seq_results bits l t \/ exists kr, seq_results bits l t = kr :: results th) /\
    (forall t th, nth_error (ths s) t = Some th -> acts th = [] -> results th = seq_results bits l t).
  Proof.
    intro sched. cbn zeta.
    assert (HI0 : Inv (flat_map ins_of progs) (init progs)).
    { pose proof (reachable_inv progs [] ) as X. cbn in X. apply X.
      apply Forall_forall. intros p Hp. unfold progs in Hp. apply in_map_iff in Hp. destruct Hp as (ops & <- & _).
      destruct (program_ok P bits ops Pok) as ((W & Pp & _) & _). split; assumption. }
    pose proof (irun_linv _ sched _ _ HI0 init_linv) as (HA & HB & HT & HO).
    split; [apply (irun_fst opss sched (init progs, []))|split; [exact HO|split; [exact HA|split]]].
    - intros t th Hn. destruct (HT t th Hn) as (body & Ea & [(_ & _ & Hr)|(_ & o & _ & Ho)]); [left; exact Hr|].
      destruct o; try (left; exact Ho). destruct Ho as (e & _ & Hs). right. eexists. exact Hs.
    - intros t th Hn Hnil. destruct (HT t th Hn) as (body & Ea & [(_ & _ & Hr)|(Hne & _)]); [exact Hr|].
      rewrite Hnil in Ea. destruct body; [contradiction|discriminate].
  Qed.
End Lin.
