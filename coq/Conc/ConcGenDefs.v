(* C15 -- the thread programs of the regenerated protocol (definitions only,
   so that the model still extracts when a proof about the protocol breaks). *)
From Coq Require Import NArith List.
From VV Require Import Cache.CacheDefs Conc.ProtoTypes Conc.ConcDefs Gen.CacheProto.

Definition gen_progs (bits : N) (opss : list (list op)) : list (list action) :=
  map (program gen_protos bits) opss.
