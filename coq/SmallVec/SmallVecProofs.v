(* C20 -- lemmas about the small_vector model. *)
From Coq Require Import ZArith List Bool Arith Lia.
From VV Require Import SmallVec.SmallVecAst Gen.SmallVecOps SmallVec.SmallVecModelled SmallVec.SmallVecDefs.
Import ListNotations.

(* the member definitions of small_vector.tcc, as extracted on this run, are
   the text the hand-written methods were modelled on *)
Lemma bodies_as_modelled : method_bodies = modelled_bodies.
Proof. reflexivity. Qed.

Section Proofs.
  Variable P : params.
  Local Notation S := (pS P).
  Local Notation triv := (ptriv P).
  Local Notation dflt := (pdflt P).
  Local Notation mv := (pmv P).

  (* ---------------------------------------------------------------- ranges *)
  Lemma write_range_nil : forall w b blk, write_range w b [] blk = Ok blk.
  Proof. intros w b blk. destruct blk; reflexivity. Qed.

  (* writing vs over the segment [mid] that follows [pre] *)
  Lemma write_range_app : forall w (mk : V -> cell) (Q : cell -> Prop),
    (forall c v, Q c -> w c v = Ok (mk v)) ->
    forall pre vs mid post b,
      length pre = b -> length mid = length vs -> Forall Q mid ->
      write_range w b vs (pre ++ mid ++ post) = Ok (pre ++ map mk vs ++ post).
  Proof.
    intros w mk Q Hw pre. induction pre as [|c pre IH]; intros vs mid post b Hb Hl HQ.
    - subst b. cbn [app length]. revert mid Hl HQ.
      induction vs as [|v vs IHv]; intros mid Hl HQ.
      + destruct mid; [|discriminate]. cbn. apply write_range_nil.
      + destruct mid as [|m mid]; [discriminate|].
        inversion HQ as [|? ? Hm Hmid]; subst.
        cbn [app map write_range]. rewrite (Hw _ _ Hm). cbn [bind].
        rewrite (IHv mid); [reflexivity| cbn in Hl; lia | assumption].
    - destruct b as [|b]; [discriminate|]. cbn in Hb.
      destruct vs as [|v vs].
      + destruct mid; [|discriminate]. cbn. reflexivity.
      + cbn [app write_range]. rewrite (IH (v :: vs) mid post b); [reflexivity|lia|assumption|assumption].
  Qed.

  Lemma read_range_0 : forall b blk, read_range b 0 blk = Ok [].
  Proof. intros b blk. destruct blk; reflexivity. Qed.

  Lemma read_range_app : forall vs pre post b,
    length pre = b ->
    read_range b (length vs) (pre ++ map AS vs ++ post) = Ok vs.
  Proof.
    intros vs pre. revert vs. induction pre as [|c pre IH]; intros vs post b Hb.
    - subst b. cbn [app length]. induction vs as [|v vs IHv].
      + apply read_range_0.
      + cbn. rewrite IHv. reflexivity.
    - destruct b as [|b]; [discriminate|]. cbn in Hb.
      destruct vs as [|v vs]; [apply read_range_0|].
      cbn [length app read_range]. specialize (IH (v :: vs) post b). cbn [length] in IH. apply IH. lia.
  Qed.

  (* ---------------------------------------------------------------- cells *)
  Definition alive (c : cell) : Prop := is_alive c = true.

  Lemma alive_AS : forall vs, Forall alive (map AS vs).
  Proof. induction vs; constructor; [reflexivity|assumption]. Qed.

  Lemma Forall_repeat : forall (A : Type) (Q : A -> Prop) x n, Q x -> Forall Q (repeat x n).
  Proof. induction n; intros; cbn; constructor; auto. Qed.

  Lemma map_repeat : forall (A B : Type) (f : A -> B) x n, map f (repeat x n) = repeat (f x) n.
  Proof. induction n; cbn; congruence. Qed.

  Lemma assign_ok : forall c v, alive c -> c_assign c v = Ok (AS v).
  Proof. intros [o|] v H; [reflexivity|discriminate]. Qed.

  Lemma construct_ok : forall c v, restP P true c -> c_construct P c v = Ok (AS v).
  Proof.
    unfold restP, c_construct. intros c v H. cbn in H.
    destruct triv; cbn in H.
    - destruct c; [reflexivity|discriminate].
    - subst c. reflexivity.
  Qed.

  Lemma put_ok : forall s c v, restP P (is_heap s) c -> put P s c v = Ok (AS v).
  Proof.
    intros s c v H. unfold put. destruct (is_heap s).
    - apply construct_ok; assumption.
    - apply assign_ok. exact H.
  Qed.

  Lemma destroy_ok : forall c v, alive c -> c_destroy c v = Ok Raw.
  Proof. intros [o|] v H; [reflexivity|discriminate]. Qed.

  Lemma restP_alive_local : forall c, restP P false c <-> alive c.
  Proof. intro c. unfold restP. cbn. reflexivity. Qed.

  (* ------------------------------------------------- specialised writes *)
  Lemma assign_app : forall pre vs mid post b,
    length pre = b -> length mid = length vs -> Forall alive mid ->
    write_range c_assign b vs (pre ++ mid ++ post) = Ok (pre ++ map AS vs ++ post).
  Proof. intros. eapply write_range_app with (Q := alive); eauto using assign_ok. Qed.

  Lemma construct_app : forall pre vs mid post b,
    length pre = b -> length mid = length vs -> Forall (restP P true) mid ->
    write_range (c_construct P) b vs (pre ++ mid ++ post) = Ok (pre ++ map AS vs ++ post).
  Proof. intros. eapply write_range_app with (Q := restP P true); eauto using construct_ok. Qed.

  Lemma put_app : forall s pre vs mid post b,
    length pre = b -> length mid = length vs -> Forall (restP P (is_heap s)) mid ->
    write_range (put P s) b vs (pre ++ mid ++ post) = Ok (pre ++ map AS vs ++ post).
  Proof. intros. eapply write_range_app with (Q := restP P (is_heap s)); eauto using put_ok. Qed.

  Lemma destroy_app : forall pre mid post b e,
    length pre = b -> b + length mid = e -> Forall alive mid ->
    destroy_range P b e (pre ++ mid ++ post) = Ok (pre ++ repeat Raw (length mid) ++ post).
  Proof.
    intros pre mid post b e Hb He Hm. unfold destroy_range.
    replace (b <=? e) with true by (symmetry; apply Nat.leb_le; lia).
    replace (e - b) with (length mid) by lia.
    assert (H : write_range c_destroy b (repeat dflt (length mid)) (pre ++ mid ++ post)
                = Ok (pre ++ map (fun _ => Raw) (repeat dflt (length mid)) ++ post)).
    { apply write_range_app with (Q := alive); auto using destroy_ok.
      rewrite repeat_length; reflexivity. }
    rewrite H, map_repeat. reflexivity.
  Qed.

  (* ------------------------------------------------- element-wise moves *)
  Lemma get_app : forall pre c post i, length pre = i -> get i (pre ++ c :: post) = Ok c.
  Proof.
    intros pre c post i H. subst i. unfold get. rewrite nth_error_app2 by lia.
    rewrite Nat.sub_diag. reflexivity.
  Qed.

  Lemma set_app : forall pre c c' post i, length pre = i ->
    set i c' (pre ++ c :: post) = Ok (pre ++ c' :: post).
  Proof.
    induction pre as [|x pre IH]; intros c c' post i H; subst i; cbn.
    - reflexivity.
    - rewrite (IH c c' post (length pre) eq_refl). reflexivity.
  Qed.

  Ltac norm := repeat rewrite <- app_assoc; cbn [app].

  (* one element moved to a cell further back *)
  Lemma move1_lt : forall w pre v gap dc dc' post s d,
    length pre = s -> d = s + 1 + length gap -> w dc v = Ok dc' ->
    move1 P w s d (pre ++ AS v :: gap ++ dc :: post) = Ok (pre ++ AS (mv v) :: gap ++ dc' :: post).
  Proof.
    intros w pre v gap dc dc' post s d Hs Hd Hw. unfold move1.
    rewrite (get_app pre (AS v) (gap ++ dc :: post) s Hs). cbn [bind c_read AS].
    assert (Hd2 : length (pre ++ AS v :: gap) = d) by (rewrite app_length; cbn [length]; lia).
    assert (Hshape : pre ++ AS v :: gap ++ dc :: post = (pre ++ AS v :: gap) ++ dc :: post) by (norm; reflexivity).
    rewrite Hshape.
    rewrite (get_app _ dc post d Hd2). cbn [bind]. rewrite Hw. cbn [bind].
    rewrite (set_app _ dc dc' post d Hd2). cbn [bind].
    norm. apply (set_app pre (AS v) (AS (mv v)) (gap ++ dc' :: post) s Hs).
  Qed.

  (* forward move to a destination behind the source range *)
  Lemma move_fwd_ok : forall w (Q : cell -> Prop), (forall c v, Q c -> w c v = Ok (AS v)) ->
    forall vs pre gap mid post s d,
      length pre = s -> d = s + length vs + length gap -> length mid = length vs -> Forall Q mid ->
      move_fwd P w s d (length vs) (pre ++ map AS vs ++ gap ++ mid ++ post)
      = Ok (pre ++ map AS (map mv vs) ++ gap ++ map AS vs ++ post).
  Proof.
    intros w Q Hw. induction vs as [|v vs IH]; intros pre gap mid post s d Hs Hd Hm HQ.
    - destruct mid; [|discriminate]. reflexivity.
    - destruct mid as [|m mid]; [discriminate|]. inversion HQ as [|? ? Hm1 Hm2]; subst.
      cbn [length move_fwd map]. norm.
      assert (Hshape : pre ++ AS v :: map AS vs ++ gap ++ m :: mid ++ post
                       = pre ++ AS v :: (map AS vs ++ gap) ++ m :: (mid ++ post)) by (norm; reflexivity).
      rewrite Hshape.
      rewrite (move1_lt w pre v (map AS vs ++ gap) m (AS v) (mid ++ post) (length pre) _ eq_refl);
        [|rewrite app_length, map_length; cbn [length] in *; lia|apply Hw; assumption].
      cbn [bind].
      assert (Hshape2 : pre ++ AS (mv v) :: (map AS vs ++ gap) ++ AS v :: mid ++ post
                        = (pre ++ [AS (mv v)]) ++ map AS vs ++ (gap ++ [AS v]) ++ mid ++ post) by (norm; reflexivity).
      rewrite Hshape2.
      rewrite (IH (pre ++ [AS (mv v)]) (gap ++ [AS v]) mid post);
        [norm; reflexivity|rewrite app_length; cbn [length]; lia
         |rewrite !app_length; cbn [length] in *; lia|cbn [length] in Hm; lia|assumption].
  Qed.

  Lemma firstn_app_le : forall (A : Type) d (X Y : list A), d <= length X -> firstn d (X ++ Y) = firstn d X.
  Proof.
    intros A d X Y H. rewrite firstn_app. replace (d - length X) with 0 by lia. cbn. apply app_nil_r.
  Qed.

  (* std::move_backward by d >= 1 places: ranges may overlap; every cell is
     read before it is overwritten.  The d cells starting at the source hold
     moved-from objects afterwards. *)
  Lemma move_bwd_ok : forall vs pre tail s d,
    length pre = s -> 1 <= d -> d <= length tail -> Forall alive (firstn d tail) ->
    move_bwd P c_assign s (s + d) (length vs) (pre ++ map AS vs ++ tail)
    = Ok (pre ++ firstn d (map AS (map mv vs) ++ tail) ++ map AS vs ++ skipn d tail).
  Proof.
    induction vs as [|v vs IH] using rev_ind; intros pre tail s d Hs Hd1 Hd2 Ha.
    - cbn [length move_bwd map app]. rewrite firstn_skipn. reflexivity.
    - rewrite app_length. cbn [length]. rewrite Nat.add_1_r. cbn [move_bwd].
      (* the cell the last element goes to *)
      set (t1 := firstn (d - 1) tail).
      assert (Ht : exists c t2, tail = t1 ++ c :: t2).
      { destruct (skipn (d - 1) tail) as [|c t2] eqn:E.
        - exfalso. assert (Hl : length (skipn (d - 1) tail) = 0) by (rewrite E; reflexivity).
          rewrite skipn_length in Hl. lia.
        - exists c, t2. unfold t1. rewrite <- E. symmetry. apply firstn_skipn. }
      destruct Ht as (c & t2 & Ht).
      assert (Hl1 : length t1 = d - 1) by (unfold t1; rewrite firstn_length; lia).
      assert (Hfd : firstn d tail = t1 ++ [c]).
      { rewrite Ht. rewrite firstn_app. replace (d - length t1) with 1 by lia.
        rewrite firstn_all2 by lia. reflexivity. }
      rewrite Hfd in Ha. apply Forall_app in Ha. destruct Ha as (Ha1 & Ha2).
      pose proof (Forall_inv Ha2) as Hc.
      rewrite map_app. cbn [map].
      assert (Hshape : pre ++ (map AS vs ++ [AS v]) ++ tail
                       = (pre ++ map AS vs) ++ AS v :: t1 ++ c :: t2).
      { rewrite Ht. norm. reflexivity. }
      rewrite Hshape.
      rewrite (move1_lt c_assign (pre ++ map AS vs) v t1 c (AS v) t2);
        [|rewrite app_length, map_length; lia|lia|apply assign_ok; exact Hc].
      cbn [bind]. norm.
      rewrite (IH pre (AS (mv v) :: t1 ++ AS v :: t2) s d Hs Hd1).
      + f_equal. f_equal.
        assert (Hsk1 : skipn d (AS (mv v) :: t1 ++ AS v :: t2) = AS v :: t2).
        { destruct d as [|d']; [lia|]. cbn [skipn].
          rewrite skipn_app. rewrite skipn_all2 by lia. replace (d' - length t1) with 0 by lia.
          reflexivity. }
        assert (Hsk2 : skipn d tail = t2).
        { rewrite Ht. rewrite skipn_app. rewrite skipn_all2 by lia.
          replace (d - length t1) with 1 by lia. reflexivity. }
        assert (Hf1 : firstn d (map AS (map mv vs) ++ AS (mv v) :: t1 ++ AS v :: t2)
                      = firstn d (map AS (map mv vs) ++ AS (mv v) :: t1)).
        { replace (map AS (map mv vs) ++ AS (mv v) :: t1 ++ AS v :: t2)
            with ((map AS (map mv vs) ++ AS (mv v) :: t1) ++ AS v :: t2) by (norm; reflexivity).
          apply firstn_app_le. rewrite app_length. cbn [length]. lia. }
        assert (Hf2 : firstn d (map AS (map mv (vs ++ [v])) ++ tail)
                      = firstn d (map AS (map mv vs) ++ AS (mv v) :: t1)).
        { rewrite Ht, !map_app. cbn [map]. norm.
          replace (map AS (map mv vs) ++ AS (mv v) :: t1 ++ c :: t2)
            with ((map AS (map mv vs) ++ AS (mv v) :: t1) ++ c :: t2) by (norm; reflexivity).
          apply firstn_app_le. rewrite app_length. cbn [length]. lia. }
        rewrite Hsk1, Hsk2, Hf1, Hf2. reflexivity.
      + cbn [length]. rewrite app_length. cbn [length]. lia.
      + destruct d as [|d']; [lia|]. cbn [firstn]. constructor; [reflexivity|].
        rewrite firstn_app_le by lia. rewrite firstn_all2 by lia. exact Ha1.
  Qed.

  (* element-wise transfer between two blocks *)
  Lemma xfer_ok : forall w (Q : cell -> Prop) moving, (forall c v, Q c -> w c v = Ok (AS v)) ->
    forall vs spost dmid dpost,
      length dmid = length vs -> Forall Q dmid ->
      xfer P w moving (length vs) (map AS vs ++ spost) (dmid ++ dpost)
      = Ok (map AS (if moving then map mv vs else vs) ++ spost, map AS vs ++ dpost).
  Proof.
    intros w Q moving Hw. induction vs as [|v vs IH]; intros spost dmid dpost Hl HQ.
    - destruct dmid; [|discriminate]. destruct moving; reflexivity.
    - destruct dmid as [|m dmid]; [discriminate|]. inversion HQ as [|? ? H1 H2]; subst.
      cbn [length xfer map app bind c_read AS]. rewrite (Hw _ _ H1). cbn [bind].
      rewrite (IH spost dmid dpost); [|cbn [length] in Hl; lia|assumption]. cbn [bind].
      destruct moving; reflexivity.
  Qed.

  (* when the n source cells hold values, the element-wise transfer writes
     exactly those values, in order, and fails exactly where the write fails *)
  Lemma xfer_bridge : forall w moving vs spost dst,
    xfer P w moving (length vs) (map AS vs ++ spost) dst
    = bind (write_range w 0 vs dst)
           (fun r => Ok (map AS (if moving then map mv vs else vs) ++ spost, r)).
  Proof.
    intros w moving. induction vs as [|v vs IH]; intros spost dst.
    - cbn [length xfer map app]. rewrite write_range_nil. destruct moving; reflexivity.
    - destruct dst as [|d dst]; [reflexivity|].
      cbn [length xfer map app bind c_read AS write_range].
      destruct (w d v) as [d'|e]; [|reflexivity]. cbn [bind].
      rewrite IH. destruct (write_range w 0 vs dst) as [r|e]; [|reflexivity]. cbn [bind].
      destruct moving; reflexivity.
  Qed.

  (* ------------------------------------------------- blocks *)
  Lemma alloc_rest : forall n, Forall (restP P true) (alloc P n).
  Proof.
    intro n. unfold alloc. apply Forall_repeat. unfold restP. cbn.
    destruct triv; reflexivity.
  Qed.

  Lemma alloc_length : forall n, length (alloc P n) = n.
  Proof. intro n. apply repeat_length. Qed.

  Lemma alloc_split : forall a b, alloc P (a + b) = alloc P a ++ alloc P b.
  Proof. intros. unfold alloc. apply repeat_app. Qed.

  Lemma fresh_local_length : length (fresh_local P) = S.
  Proof. apply repeat_length. Qed.

  Lemma fresh_local_alive : Forall alive (fresh_local P).
  Proof. unfold fresh_local. apply Forall_repeat. destruct triv; reflexivity. Qed.

  Lemma existsb_alive_raw : forall l, Forall (fun c => c = Raw) l -> existsb is_alive l = false.
  Proof. induction 1; cbn; [reflexivity|]. subst. assumption. Qed.

  Lemma restP_heap_nontriv : forall l, triv = false -> Forall (restP P true) l -> Forall (fun c => c = Raw) l.
  Proof.
    intros l Ht H. eapply Forall_impl; [|exact H]. intros c Hc. unfold restP in Hc. rewrite Ht in Hc. exact Hc.
  Qed.

  Lemma restP_heap_triv : forall l, triv = true -> Forall (restP P true) l -> Forall alive l.
  Proof.
    intros l Ht H. eapply Forall_impl; [|exact H]. intros c Hc. unfold restP in Hc. rewrite Ht in Hc. exact Hc.
  Qed.

  (* ------------------------------------------------- representation *)
  (* s holds exactly the elements vs and is well formed *)
  Definition rep (s : sv) (vs : list V) : Prop :=
    length (loc s) = S /\ Forall alive (loc s) /\
    exists rest, data s = map AS vs ++ rest /\ length vs = size s /\
                 Forall (restP P (is_heap s)) rest /\ S <= capacity s.

  Lemma rep_inv : forall s vs, rep s vs -> sv_inv P s.
  Proof.
    intros s vs (Hl & Ha & rest & Hd & Hn & Hr & Hc).
    split; [assumption|]. split; [exact Ha|]. exists vs, rest. auto.
  Qed.

  Lemma rep_abs : forall s vs, rep s vs -> abs s = Some vs.
  Proof.
    intros s vs (Hl & Ha & rest & Hd & Hn & Hr & Hc).
    unfold abs, contents. rewrite Hd, <- Hn.
    pose proof (read_range_app vs [] rest 0 eq_refl) as H. cbn [app] in H. rewrite H. reflexivity.
  Qed.

  Lemma inv_rep : forall s, sv_inv P s -> exists vs, rep s vs.
  Proof.
    intros s (Hl & Ha & vs & rest & Hd & Hn & Hr & Hc).
    exists vs. split; [assumption|]. split; [exact Ha|]. exists rest. auto.
  Qed.

  Lemma rep_fun : forall s vs ws, rep s vs -> abs s = Some ws -> vs = ws.
  Proof. intros s vs ws H Hw. rewrite (rep_abs _ _ H) in Hw. congruence. Qed.

  Lemma rep_size : forall s vs, rep s vs -> size s = length vs.
  Proof. intros s vs (_ & _ & rest & _ & Hn & _). auto. Qed.

  Hypothesis S_pos : 1 <= S.

  Lemma rep_empty : rep (empty_sv P) [].
  Proof.
    unfold rep, empty_sv. cbn.
    split; [apply fresh_local_length|]. split; [apply fresh_local_alive|].
    exists (fresh_local P). repeat split.
    - apply fresh_local_alive.
    - unfold capacity. cbn. rewrite fresh_local_length. lia.
  Qed.

  Ltac app0 H := cbn [app length] in H.

  Lemma existsb_app_false : forall (A : Type) (f : A -> bool) l1 l2,
    existsb f l1 = false -> existsb f l2 = false -> existsb f (l1 ++ l2) = false.
  Proof. intros. rewrite existsb_app, H, H0. reflexivity. Qed.

  (* free_heap_memory() on a well-formed heap vector *)
  Lemma free_heap_ok : forall h l n vs rest,
    h = map AS vs ++ rest -> length vs = n -> Forall (restP P true) rest ->
    free_heap_memory P (mkSv (Some h) l n) = Ok (mkSv None l 0).
  Proof.
    intros h l n vs rest Hh Hn Hr. unfold free_heap_memory. cbn [heap size loc].
    destruct triv eqn:Ht.
    - cbn [bind]. unfold free_block. rewrite Ht. reflexivity.
    - subst h.
      pose proof (destroy_app [] (map AS vs) rest 0 n eq_refl) as Hd. app0 Hd.
      rewrite Hd; [|rewrite map_length; lia|apply alive_AS].
      cbn [bind]. unfold free_block. rewrite Ht.
      rewrite existsb_app_false; [reflexivity| |].
      + apply existsb_alive_raw. apply Forall_repeat. reflexivity.
      + apply existsb_alive_raw. apply restP_heap_nontriv; assumption.
  Qed.

  Lemma firstn_map_AS_app : forall vs rest, firstn (length vs) (map AS vs ++ rest) = map AS vs.
  Proof.
    intros. rewrite firstn_app, map_length, Nat.sub_diag. cbn.
    rewrite app_nil_r. rewrite <- (map_length AS vs). apply firstn_all.
  Qed.

  (* grow(n) *)
  Lemma grow_ok : forall s vs n, rep s vs -> length vs <= n -> S <= n ->
    exists s', grow_ref P n s = Ok s' /\ rep s' vs /\ is_heap s' = true /\ capacity s' = n.
  Proof.
    intros s vs n (Hll & Hla & rest & Hd & Hn & Hr & Hc) Hle HS.
    unfold grow_ref. rewrite Hd, <- Hn.
    rewrite xfer_bridge. cbn [bind].
    assert (Ha : alloc P n = alloc P (length vs) ++ alloc P (n - length vs)).
    { rewrite <- alloc_split. f_equal. lia. }
    rewrite Ha.
    pose proof (construct_app [] vs (alloc P (length vs)) (alloc P (n - length vs)) 0 eq_refl) as Hk.
    app0 Hk. rewrite Hk; [|apply alloc_length|apply alloc_rest]. cbn [bind].
    assert (Hrep : forall l', length l' = S -> Forall alive l' ->
              rep (mkSv (Some (map AS vs ++ alloc P (n - length vs))) l' (length vs)) vs).
    { intros l' H1 H2. unfold rep. cbn. repeat split; try assumption.
      exists (alloc P (n - length vs)). repeat split.
      - apply alloc_rest.
      - unfold capacity. cbn. rewrite app_length, map_length, alloc_length. lia. }
    destruct s as [[h|] l sz]; cbn [is_heap heap set_data size loc data] in *.
    - erewrite free_heap_ok; [|reflexivity|apply map_length|exact Hr].
      cbn [bind loc]. eexists. split; [reflexivity|]. split; [apply Hrep; assumption|].
      split; [reflexivity|]. unfold capacity. cbn. rewrite app_length, map_length, alloc_length. lia.
    - cbn [bind loc]. eexists. split; [reflexivity|]. split.
      + apply Hrep.
        * rewrite app_length, !map_length. rewrite <- Hll, Hd, app_length, map_length. reflexivity.
        * apply Forall_app. split; [apply alive_AS|].
          eapply Forall_impl; [|exact Hr]. intros c Hcc. exact Hcc.
      + split; [reflexivity|]. unfold capacity. cbn. rewrite app_length, map_length, alloc_length. lia.
  Qed.

  Definition fl : cell := if triv then Alive None else AS dflt.

  Lemma fl_alive : alive fl.
  Proof. unfold fl. destruct triv; reflexivity. Qed.

  Lemma fresh_local_split : forall n, n <= S -> fresh_local P = repeat fl n ++ repeat fl (S - n).
  Proof. intros n H. unfold fresh_local. fold fl. rewrite <- repeat_app. f_equal. lia. Qed.

  Lemma rep_local : forall l vs rest n,
    l = map AS vs ++ rest -> length l = S -> length vs = n -> Forall alive rest ->
    rep (mkSv None l n) vs.
  Proof.
    intros l vs rest n Hl HS Hn Hr. unfold rep. cbn.
    split; [assumption|]. split.
    - subst l. apply Forall_app. split; [apply alive_AS|assumption].
    - exists rest. repeat split; try assumption. unfold capacity. cbn. lia.
  Qed.

  Lemma rep_heap : forall h l vs rest n,
    h = map AS vs ++ rest -> length l = S -> Forall alive l -> length vs = n ->
    Forall (restP P true) rest -> S <= length h ->
    rep (mkSv (Some h) l n) vs.
  Proof.
    intros h l vs rest n Hh HS Hl Hn Hr Hc. unfold rep. cbn.
    split; [assumption|]. split; [assumption|]. exists rest. repeat split; assumption.
  Qed.

  (* the constructors *)
  Lemma build_ok : forall vs, exists s, build P vs = Ok s /\ rep s vs.
  Proof.
    intro vs. unfold build. destruct (length vs <=? S) eqn:E.
    - apply Nat.leb_le in E. rewrite (fresh_local_split (length vs) E).
      pose proof (assign_app [] vs (repeat fl (length vs)) (repeat fl (S - length vs)) 0 eq_refl) as H.
      app0 H. rewrite H; [|apply repeat_length|apply Forall_repeat, fl_alive]. cbn [bind].
      eexists. split; [reflexivity|].
      eapply rep_local; [reflexivity| |reflexivity|apply Forall_repeat, fl_alive].
      rewrite app_length, map_length, repeat_length. lia.
    - apply Nat.leb_gt in E.
      pose proof (construct_app [] vs (alloc P (length vs)) [] 0 eq_refl) as H.
      app0 H. rewrite !app_nil_r in H. rewrite H; [|apply alloc_length|apply alloc_rest]. cbn [bind].
      eexists. split; [reflexivity|].
      eapply rep_heap with (rest := []);
        [rewrite app_nil_r; reflexivity|apply fresh_local_length|apply fresh_local_alive|reflexivity|constructor|].
      rewrite map_length. lia.
  Qed.

  Lemma ctor_n_ok : forall n, exists s, ctor_n_ref P n = Ok s /\ rep s (repeat dflt n).
  Proof.
    intro n. unfold ctor_n_ref. destruct (n <=? S) eqn:E.
    - apply Nat.leb_le in E. destruct triv eqn:Ht.
      + rewrite (fresh_local_split n E).
        pose proof (assign_app [] (repeat dflt n) (repeat fl n) (repeat fl (S - n)) 0 eq_refl) as H.
        app0 H. rewrite H; [|rewrite !repeat_length; reflexivity|apply Forall_repeat, fl_alive]. cbn [bind].
        eexists. split; [reflexivity|].
        eapply rep_local; [reflexivity| |apply repeat_length|apply Forall_repeat, fl_alive].
        rewrite app_length, map_length, !repeat_length. lia.
      + cbn [bind]. eexists. split; [reflexivity|].
        eapply rep_local with (rest := repeat fl (S - n));
          [|apply fresh_local_length|apply repeat_length|apply Forall_repeat, fl_alive].
        rewrite (fresh_local_split n E). f_equal. unfold fl. rewrite Ht. rewrite map_repeat. reflexivity.
    - apply Nat.leb_gt in E.
      pose proof (construct_app [] (repeat dflt n) (alloc P n) [] 0 eq_refl) as H.
      app0 H. rewrite !app_nil_r in H. rewrite H; [|rewrite alloc_length, repeat_length; reflexivity|apply alloc_rest].
      cbn [bind]. eexists. split; [reflexivity|].
      eapply rep_heap with (rest := []);
        [rewrite app_nil_r; reflexivity|apply fresh_local_length|apply fresh_local_alive|apply repeat_length|constructor|].
      rewrite map_length, repeat_length. lia.
  Qed.

  Lemma contents_ok : forall s vs, rep s vs -> read_range 0 (size s) (data s) = Ok vs.
  Proof.
    intros s vs H. pose proof (rep_abs _ _ H) as Ha. unfold abs, contents in Ha.
    destruct (read_range 0 (size s) (data s)); congruence.
  Qed.

  Lemma rep_xfer : forall s vs, rep s vs ->
    exists rest, data s = map AS vs ++ rest /\
      forall w moving dst,
        xfer P w moving (size s) (data s) dst
        = bind (write_range w 0 vs dst)
               (fun r => Ok (map AS (if moving then map mv vs else vs) ++ rest, r)).
  Proof.
    intros s vs (Hll & Hla & rest & Hd & Hn & Hr & Hc). exists rest. split; [exact Hd|].
    intros w moving dst. rewrite Hd, <- Hn. apply xfer_bridge.
  Qed.

  Lemma copy_ctor_ok : forall rhs vs, rep rhs vs -> exists s, copy_ctor P rhs = Ok s /\ rep s vs.
  Proof.
    intros rhs vs H. unfold copy_ctor. destruct (rep_xfer _ _ H) as (rest & _ & Hx).
    rewrite !Hx. rewrite (rep_size _ _ H).
    destruct (build_ok vs) as (s & Hb & Hr). unfold build in Hb.
    destruct (length vs <=? S).
    - destruct (write_range c_assign 0 vs (fresh_local P)) as [l|e]; [|discriminate].
      cbn [bind] in *. inversion Hb; subst. eexists. split; [reflexivity|exact Hr].
    - destruct (write_range (c_construct P) 0 vs (alloc P (length vs))) as [l|e]; [|discriminate].
      cbn [bind] in *. inversion Hb; subst. eexists. split; [reflexivity|exact Hr].
  Qed.

  (* moving out of the elements of a well-formed vector *)
  Lemma rep_moveout : forall s vs, rep s vs ->
    exists d', (forall w dst, xfer P w true (size s) (data s) dst
                              = bind (write_range w 0 vs dst) (fun r => Ok (d', r))) /\
               rep (set_data s d' (size s)) (map mv vs).
  Proof.
    intros s vs H. pose proof H as (Hll & Hla & rest & Hd & Hn & Hr & Hc).
    exists (map AS (map mv vs) ++ rest). split.
    - intros w dst. rewrite Hd, <- Hn. apply xfer_bridge.
    - destruct s as [[h|] l sz]; cbn [set_data heap loc size data is_heap] in *.
      + eapply rep_heap; [reflexivity|assumption|assumption|rewrite map_length; exact Hn|exact Hr|].
        unfold capacity in Hc. cbn in Hc. rewrite Hd in Hc.
        rewrite app_length, !map_length in *. exact Hc.
      + eapply rep_local; [reflexivity| |rewrite map_length; exact Hn|exact Hr].
        rewrite <- Hll, Hd, !app_length, !map_length. reflexivity.
  Qed.

  Lemma move_ctor_ok : forall rhs vs, rep rhs vs ->
    exists s r ws, move_ctor_ref P rhs = Ok (s, r) /\ rep s vs /\ rep r ws.
  Proof.
    intros rhs vs H. unfold move_ctor_ref. destruct (size rhs <=? S) eqn:E.
    - apply Nat.leb_le in E. destruct (rep_moveout _ _ H) as (d' & Hm & Hr').
      rewrite Hm. cbn [bind].
      pose proof (rep_size _ _ H) as Hs. rewrite Hs in E.
      rewrite (fresh_local_split (length vs) E).
      pose proof (assign_app [] vs (repeat fl (length vs)) (repeat fl (S - length vs)) 0 eq_refl) as Ha.
      app0 Ha. rewrite Ha; [|apply repeat_length|apply Forall_repeat, fl_alive]. cbn [bind].
      eexists _, _, _. split; [reflexivity|]. split; [|exact Hr'].
      eapply rep_local; [reflexivity| |symmetry; exact Hs|apply Forall_repeat, fl_alive].
      rewrite app_length, map_length, repeat_length. lia.
    - apply Nat.leb_gt in E.
      destruct H as (Hll & Hla & rest & Hd & Hn & Hr & Hc).
      destruct rhs as [[h|] l sz]; cbn [heap loc size data is_heap] in *.
      + eexists _, _, []. split; [reflexivity|]. split.
        * eapply rep_heap; [exact Hd|apply fresh_local_length|apply fresh_local_alive|exact Hn|exact Hr|].
          exact Hc.
        * eapply rep_local with (rest := l); [reflexivity|assumption|reflexivity|assumption].
      + exfalso. rewrite Hd in Hll. rewrite app_length, map_length in Hll. lia.
  Qed.

  Lemma rep_cap : forall s vs, rep s vs -> length vs <= capacity s /\ S <= capacity s.
  Proof.
    intros s vs (Hll & Hla & rest & Hd & Hn & Hr & Hc). split; [|exact Hc].
    unfold capacity. rewrite Hd, app_length, map_length. lia.
  Qed.

  Lemma skipn_map_AS_app : forall vs rest, skipn (length vs) (map AS vs ++ rest) = rest.
  Proof.
    intros. rewrite skipn_app, map_length, Nat.sub_diag. cbn.
    rewrite <- (map_length AS vs), skipn_all. reflexivity.
  Qed.

  Lemma Forall_firstn_skipn : forall (A : Type) (Q : A -> Prop) n l,
    Forall Q l -> Forall Q (firstn n l) /\ Forall Q (skipn n l).
  Proof. intros A Q n l H. rewrite <- (firstn_skipn n l) in H. apply Forall_app in H. exact H. Qed.

  (* writing xs behind the elements, inside the capacity *)
  Lemma write_end_ok : forall w s vs xs,
    (forall c v, restP P (is_heap s) c -> w c v = Ok (AS v)) ->
    rep s vs -> length vs + length xs <= capacity s ->
    exists d, write_range w (size s) xs (data s) = Ok d /\
              rep (set_data s d (size s + length xs)) (vs ++ xs).
  Proof.
    intros w s vs xs Hw (Hll & Hla & rest & Hd & Hn & Hr & Hc) Hle.
    assert (Hrl : length xs <= length rest).
    { unfold capacity in Hle. rewrite Hd, app_length, map_length in Hle. lia. }
    destruct (Forall_firstn_skipn _ _ (length xs) _ Hr) as (Hr1 & Hr2).
    rewrite Hd, <- (firstn_skipn (length xs) rest).
    rewrite (write_range_app w AS (restP P (is_heap s)) Hw (map AS vs) xs);
      [|rewrite map_length; auto|rewrite firstn_length; lia|exact Hr1].
    eexists. split; [reflexivity|].
    assert (Hshape : map AS vs ++ map AS xs ++ skipn (length xs) rest
                     = map AS (vs ++ xs) ++ skipn (length xs) rest).
    { rewrite map_app, app_assoc. reflexivity. }
    rewrite Hshape.
    destruct s as [[h|] l sz]; cbn [set_data heap loc size data is_heap] in *.
    - eapply rep_heap; [reflexivity|assumption|assumption|rewrite app_length; lia|exact Hr2|].
      unfold capacity in Hc. cbn in Hc. rewrite Hd in Hc.
      rewrite !app_length, !map_length, skipn_length in *. rewrite app_length. lia.
    - eapply rep_local; [reflexivity| |rewrite app_length; lia|exact Hr2].
      rewrite <- Hll, Hd. rewrite !app_length, !map_length, skipn_length, app_length. lia.
  Qed.

  Lemma put_heap : forall s, is_heap s = true -> put P s = c_construct P.
  Proof. intros s H. unfold put. rewrite H. reflexivity. Qed.

  (* assigning onto cells that are live objects anyway *)
  Lemma assign_rest_ok : forall s, (is_heap s && negb triv = false) ->
    forall c v, restP P (is_heap s) c -> c_assign c v = Ok (AS v).
  Proof. intros s H c v Hc. unfold restP in Hc. rewrite H in Hc. apply assign_ok. exact Hc. Qed.

  Lemma construct_rest_ok : forall s, is_heap s = true ->
    forall c v, restP P (is_heap s) c -> c_construct P c v = Ok (AS v).
  Proof. intros s H c v Hc. rewrite H in Hc. apply construct_ok. exact Hc. Qed.

  (* dropping the elements behind the first n *)
  Lemma shrink_destroy_ok : forall s vs n,
    rep s vs -> n <= length vs -> is_heap s = true -> triv = false ->
    exists d, destroy_range P n (size s) (data s) = Ok d /\ rep (set_data s d n) (firstn n vs).
  Proof.
    intros s vs n (Hll & Hla & rest & Hd & Hn & Hr & Hc) Hle Hh Ht.
    assert (Hv : map AS vs = map AS (firstn n vs) ++ map AS (skipn n vs)).
    { rewrite <- map_app, firstn_skipn. reflexivity. }
    rewrite Hd, Hv, <- app_assoc.
    rewrite (destroy_app (map AS (firstn n vs)) (map AS (skipn n vs)) rest n (size s));
      [|rewrite map_length, firstn_length; lia|rewrite map_length, skipn_length; lia|apply alive_AS].
    eexists. split; [reflexivity|].
    destruct s as [[h|] l sz]; cbn [set_data heap loc size data is_heap] in *; [|discriminate].
    eapply rep_heap; [reflexivity|assumption|assumption|rewrite firstn_length; lia| |].
    - apply Forall_app. split; [|exact Hr]. apply Forall_repeat. unfold restP. rewrite Ht. reflexivity.
    - unfold capacity in Hc. cbn in Hc. rewrite Hd in Hc.
      rewrite !app_length, !map_length, repeat_length, firstn_length, skipn_length in *. lia.
  Qed.

  Lemma shrink_keep_ok : forall s vs n,
    rep s vs -> n <= length vs -> (is_heap s && negb triv = false) ->
    rep (set_data s (data s) n) (firstn n vs).
  Proof.
    intros s vs n (Hll & Hla & rest & Hd & Hn & Hr & Hc) Hle Hk.
    assert (Hshape : data s = map AS (firstn n vs) ++ (map AS (skipn n vs) ++ rest)).
    { rewrite Hd. rewrite <- (firstn_skipn n vs) at 1. rewrite map_app, <- app_assoc. reflexivity. }
    assert (Hrest : Forall (restP P (is_heap s)) (map AS (skipn n vs) ++ rest)).
    { apply Forall_app. split; [|exact Hr].
      eapply Forall_impl; [|apply alive_AS]. intros c Hcc. unfold restP. rewrite Hk. exact Hcc. }
    destruct s as [[h|] l sz]; cbn [set_data heap loc size data is_heap] in *.
    - eapply rep_heap; [exact Hshape|assumption|assumption|rewrite firstn_length; lia|exact Hrest|exact Hc].
    - eapply rep_local; [exact Hshape|assumption|rewrite firstn_length; lia|].
      eapply Forall_impl; [|exact Hrest]. intros c Hcc. exact Hcc.
  Qed.

  (* overwriting all the elements *)
  Lemma overwrite_ok : forall s us ws, rep s us -> length ws = length us ->
    exists d, write_range c_assign 0 ws (data s) = Ok d /\ rep (set_data s d (size s)) ws.
  Proof.
    intros s us ws (Hll & Hla & rest & Hd & Hn & Hr & Hc) Hl.
    rewrite Hd. pose proof (assign_app [] ws (map AS us) rest 0 eq_refl) as Ha. app0 Ha.
    rewrite Ha; [|rewrite map_length; lia|apply alive_AS].
    eexists. split; [reflexivity|].
    destruct s as [[h|] l sz]; cbn [set_data heap loc size data is_heap] in *.
    - eapply rep_heap; [reflexivity|assumption|assumption|lia|exact Hr|].
      unfold capacity in Hc. cbn in Hc. rewrite Hd in Hc. rewrite !app_length, !map_length in *. lia.
    - eapply rep_local; [reflexivity| |lia|exact Hr].
      rewrite <- Hll, Hd, !app_length, !map_length. lia.
  Qed.

  Lemma rep_set_size_same : forall s vs, rep s vs -> set_data s (data s) (size s) = s.
  Proof. intros [[h|] l n] vs _; reflexivity. Qed.

  (* ------------------------------------------------- the methods *)
  Lemma filter_alive_all : forall l, Forall alive l -> filter is_alive l = l.
  Proof. induction 1 as [|c l Hc _ IH]; cbn; [reflexivity|]. rewrite Hc, IH. reflexivity. Qed.

  Lemma filter_alive_raw : forall l, Forall (fun c => c = Raw) l -> filter is_alive l = [].
  Proof. induction 1 as [|c l Hc _ IH]; cbn; [reflexivity|]. subst c. exact IH. Qed.

  Lemma destroy_sv_ok : forall s vs, rep s vs -> destroy_sv P s = Ok (live_count P s).
  Proof.
    intros s vs (Hll & Hla & rest & Hd & Hn & Hr & Hc).
    unfold destroy_sv, live_count.
    destruct s as [[h|] l sz]; cbn [heap loc size data is_heap] in *.
    - erewrite free_heap_ok; [|exact Hd|exact Hn|exact Hr]. cbn [bind loc].
      destruct triv eqn:Ht; [reflexivity|].
      pose proof (destroy_app [] l [] 0 S eq_refl) as Hx. app0 Hx. rewrite app_nil_r in Hx.
      rewrite Hx; [|lia|exact Hla]. cbn [bind].
      rewrite (filter_alive_all l Hla), Hd, filter_app.
      rewrite (filter_alive_all _ (alive_AS vs)), app_length, map_length.
      rewrite (filter_alive_raw rest); [|apply restP_heap_nontriv; assumption].
      cbn [length]. f_equal. lia.
    - cbn [bind loc]. destruct triv eqn:Ht; [reflexivity|].
      pose proof (destroy_app [] l [] 0 S eq_refl) as Hx. app0 Hx. rewrite app_nil_r in Hx.
      rewrite Hx; [|lia|exact Hla]. cbn [bind].
      rewrite (filter_alive_all l Hla). f_equal. lia.
  Qed.

  Lemma clear_ok : forall s vs, rep s vs -> exists s', clear P s = Ok s' /\ rep s' [].
  Proof.
    intros s vs (Hll & Hla & rest & Hd & Hn & Hr & Hc). unfold clear.
    destruct s as [[h|] l sz]; cbn [heap loc size data is_heap] in *.
    - erewrite free_heap_ok; [|exact Hd|exact Hn|exact Hr]. cbn [bind loc].
      eexists. split; [reflexivity|]. eapply rep_local with (rest := l); auto.
    - cbn [bind loc]. eexists. split; [reflexivity|]. eapply rep_local with (rest := l); auto.
  Qed.

  Lemma reserve_ok : forall s vs n, rep s vs ->
    exists s', reserve_ref P n s = Ok s' /\ rep s' vs /\ n <= capacity s' /\ capacity s <= capacity s'.
  Proof.
    intros s vs n H. unfold reserve_ref. destruct (capacity s <? n) eqn:E.
    - apply Nat.ltb_lt in E. destruct (rep_cap _ _ H) as (H1 & H2).
      destruct (grow_ok s vs n H) as (s' & Hg & Hr & _ & Hcap); [lia|lia|].
      exists s'. split; [assumption|]. split; [assumption|]. split; lia.
    - apply Nat.ltb_ge in E. exists s. split; [reflexivity|]. split; [assumption|]. split; lia.
  Qed.

  Lemma grow1_size : forall n, n + 1 <= (if 1 <? n then 3 * n / 2 else n + 1).
  Proof.
    intro n. destruct (1 <? n) eqn:E; [|lia]. apply Nat.ltb_lt in E.
    apply Nat.div_le_lower_bound; lia.
  Qed.

  Lemma push_back_ok : forall s vs x, rep s vs ->
    exists s', push_back_ref P x s = Ok s' /\ rep s' (vs ++ [x]).
  Proof.
    intros s vs x H. unfold push_back_ref.
    destruct (rep_cap _ _ H) as (Hc1 & Hc2). pose proof (rep_size _ _ H) as Hs.
    destruct (size s =? capacity s) eqn:E.
    - apply Nat.eqb_eq in E. unfold grow1_ref.
      pose proof (grow1_size (size s)) as Hg.
      destruct (grow_ok s vs (if 1 <? size s then 3 * size s / 2 else size s + 1) H)
        as (s1 & Hg1 & Hr1 & Hh1 & Hcap1); [lia|lia|].
      rewrite Hg1. cbn [bind]. rewrite <- (put_heap s1 Hh1).
      destruct (write_end_ok (put P s1) s1 vs [x] (put_ok s1) Hr1) as (d & Hw & Hr2).
      { cbn [length]. lia. }
      rewrite Hw. cbn [bind]. eexists. split; [reflexivity|].
      cbn [length] in Hr2. rewrite Nat.add_1_r in Hr2. exact Hr2.
    - apply Nat.eqb_neq in E.
      destruct (write_end_ok (put P s) s vs [x] (put_ok s) H) as (d & Hw & Hr2).
      { cbn [length]. lia. }
      rewrite Hw. cbn [bind]. eexists. split; [reflexivity|].
      cbn [length] in Hr2. rewrite Nat.add_1_r in Hr2. exact Hr2.
  Qed.

  Lemma read_one : forall s vs i, rep s vs -> i < length vs ->
    read_range i 1 (data s) = Ok [nth i vs dflt].
  Proof.
    intros s vs i (Hll & Hla & rest & Hd & Hn & Hr & Hc) Hi.
    rewrite Hd.
    assert (Hv : vs = firstn i vs ++ [nth i vs dflt] ++ skipn (Datatypes.S i) vs).
    { rewrite <- (firstn_skipn i vs) at 1. f_equal.
      clear - Hi. revert i Hi. induction vs as [|v vs IH]; intros i Hi; [cbn in Hi; lia|].
      destruct i; [reflexivity|]. cbn. apply IH. cbn in Hi. lia. }
    rewrite Hv at 1. rewrite !map_app, <- !app_assoc.
    pose proof (read_range_app [nth i vs dflt] (map AS (firstn i vs))
                  (map AS (skipn (Datatypes.S i) vs) ++ rest) i) as Hx.
    cbn [length map] in Hx. cbn [map]. apply Hx.
    rewrite map_length, firstn_length. lia.
  Qed.

  Lemma push_back_self_ok : forall s vs i, rep s vs -> i < length vs ->
    exists s', push_back_self_ref P i s = Ok s' /\ rep s' (vs ++ [nth i vs dflt]).
  Proof.
    intros s vs i H Hi. unfold push_back_self_ref. rewrite (read_one s vs i H Hi). cbn [bind].
    apply push_back_ok. exact H.
  Qed.

  Definition resized (n : nat) (vs : list V) : list V := firstn n vs ++ repeat dflt (n - length vs).

  Lemma resized_short : forall n vs, n <= length vs -> resized n vs = firstn n vs.
  Proof. intros. unfold resized. replace (n - length vs) with 0 by lia. cbn. apply app_nil_r. Qed.

  Lemma extend_ok : forall w s vs n,
    (forall c v, restP P (is_heap s) c -> w c v = Ok (AS v)) ->
    rep s vs -> length vs <= n -> n <= capacity s ->
    exists d, write_range w (size s) (repeat dflt (n - size s)) (data s) = Ok d /\
              rep (set_data s d n) (resized n vs).
  Proof.
    intros w s vs n Hw H Hle Hcap. pose proof (rep_size _ _ H) as Hs.
    destruct (write_end_ok w s vs (repeat dflt (n - size s)) Hw H) as (d & Hd & Hr).
    { rewrite repeat_length. lia. }
    exists d. split; [exact Hd|]. rewrite repeat_length in Hr.
    replace (size s + (n - size s)) with n in Hr by lia.
    unfold resized. rewrite firstn_all2 by lia. rewrite <- Hs. exact Hr.
  Qed.

  Lemma resize_ok : forall s vs n, rep s vs ->
    exists s', resize_ref P n s = Ok s' /\ rep s' (resized n vs).
  Proof.
    intros s vs n H. unfold resize_ref.
    destruct (rep_cap _ _ H) as (Hc1 & Hc2). pose proof (rep_size _ _ H) as Hs.
    destruct (n <=? capacity s) eqn:E.
    - apply Nat.leb_le in E. destruct triv eqn:Ht; cbn [negb].
      + destruct (size s <? n) eqn:E2.
        * apply Nat.ltb_lt in E2.
          destruct (extend_ok c_assign s vs n) as (d & Hd & Hr); [|assumption|lia|assumption|].
          { apply assign_rest_ok. rewrite Ht. apply andb_false_r. }
          rewrite Hd. cbn [bind]. eexists. split; [reflexivity|exact Hr].
        * apply Nat.ltb_ge in E2. cbn [bind]. eexists. split; [reflexivity|].
          rewrite resized_short by lia. apply shrink_keep_ok; [assumption|lia|].
          rewrite Ht. apply andb_false_r.
      + destruct (is_heap s) eqn:Hh.
        * destruct (n <? size s) eqn:E2.
          -- apply Nat.ltb_lt in E2.
             destruct (shrink_destroy_ok s vs n H) as (d & Hd & Hr); [lia|assumption|assumption|].
             rewrite Hd. cbn [bind]. eexists. split; [reflexivity|].
             rewrite resized_short by lia. exact Hr.
          -- apply Nat.ltb_ge in E2.
             destruct (extend_ok (c_construct P) s vs n) as (d & Hd & Hr); [|assumption|lia|assumption|].
             { apply construct_rest_ok. exact Hh. }
             rewrite Hd. cbn [bind]. eexists. split; [reflexivity|exact Hr].
        * destruct (size s <=? n) eqn:E2.
          -- apply Nat.leb_le in E2.
             destruct (extend_ok c_assign s vs n) as (d & Hd & Hr); [|assumption|lia|assumption|].
             { apply assign_rest_ok. rewrite Hh. reflexivity. }
             rewrite Hd. cbn [bind]. eexists. split; [reflexivity|exact Hr].
          -- apply Nat.leb_gt in E2. cbn [bind]. eexists. split; [reflexivity|].
             rewrite resized_short by lia. apply shrink_keep_ok; [assumption|lia|].
             rewrite Hh. reflexivity.
    - apply Nat.leb_gt in E.
      destruct (grow_ok s vs n H) as (s1 & Hg & Hr1 & Hh1 & Hcap1); [lia|lia|].
      rewrite Hg. cbn [bind]. rewrite Hcap1.
      destruct (extend_ok (c_construct P) s1 vs n) as (d & Hd & Hr); [|assumption|lia|lia|].
      { apply construct_rest_ok. exact Hh1. }
      rewrite Hd. cbn [bind]. eexists. split; [reflexivity|exact Hr].
  Qed.

  Lemma set_at_ok : forall s vs i x, rep s vs -> i < length vs ->
    exists s', set_at i x s = Ok s' /\ rep s' (firstn i vs ++ x :: skipn (Datatypes.S i) vs).
  Proof.
    intros s vs i x H Hi. unfold set_at. pose proof (rep_size _ _ H) as Hs.
    replace (i <? size s) with true by (symmetry; apply Nat.ltb_lt; lia).
    destruct H as (Hll & Hla & rest & Hd & Hn & Hr & Hc).
    assert (Hv : map AS vs = map AS (firstn i vs) ++ [AS (nth i vs dflt)] ++ map AS (skipn (Datatypes.S i) vs)).
    { change [AS (nth i vs dflt)] with (map AS [nth i vs dflt]). rewrite <- !map_app. f_equal.
      rewrite <- (firstn_skipn i vs) at 1. f_equal.
      clear - Hi. revert i Hi. induction vs as [|v vs IH]; intros i Hi; [cbn in Hi; lia|].
      destruct i; [reflexivity|]. cbn. apply IH. cbn in Hi. lia. }
    rewrite Hd, Hv, <- !app_assoc.
    rewrite (assign_app (map AS (firstn i vs)) [x] [AS (nth i vs dflt)]);
      [|rewrite map_length, firstn_length; lia|reflexivity|constructor; [reflexivity|constructor]].
    cbn [bind]. eexists. split; [reflexivity|].
    assert (Hshape : map AS (firstn i vs) ++ map AS [x] ++ map AS (skipn (Datatypes.S i) vs) ++ rest
                     = map AS (firstn i vs ++ x :: skipn (Datatypes.S i) vs) ++ rest).
    { rewrite map_app. cbn [map app]. rewrite <- app_assoc. reflexivity. }
    rewrite Hshape.
    assert (Hlen : length (firstn i vs ++ x :: skipn (Datatypes.S i) vs) = size s).
    { rewrite app_length, firstn_length. cbn [length]. rewrite skipn_length. lia. }
    destruct s as [[h|] l sz]; cbn [set_data heap loc size data is_heap] in *.
    - eapply rep_heap; [reflexivity|assumption|assumption|exact Hlen|exact Hr|].
      unfold capacity in Hc. cbn in Hc. rewrite Hd, app_length, map_length in Hc.
      rewrite app_length, map_length, Hlen. lia.
    - eapply rep_local; [reflexivity| |exact Hlen|exact Hr].
      rewrite app_length, map_length, Hlen. rewrite <- Hll, Hd, app_length, map_length. lia.
  Qed.

  Lemma data_set_data : forall s d n, data (set_data s d n) = d.
  Proof. intros [[h|] l k] d n; reflexivity. Qed.
  Lemma size_set_data : forall s d n, size (set_data s d n) = n.
  Proof. intros [[h|] l k] d n; reflexivity. Qed.
  Lemma set_data_set_data : forall s d n d' n', set_data (set_data s d n) d' n' = set_data s d' n'.
  Proof. intros [[h|] l k] d n d' n'; reflexivity. Qed.
  Lemma is_heap_set_data : forall s d n, is_heap (set_data s d n) = is_heap s.
  Proof. intros [[h|] l k] d n; reflexivity. Qed.

  (* std::copy over storage whose cells are all live objects *)
  Lemma assign_over_alive : forall s us ws, rep s us -> (is_heap s && negb triv = false) ->
    length ws <= capacity s ->
    exists d, write_range c_assign 0 ws (data s) = Ok d /\ rep (set_data s d (length ws)) ws.
  Proof.
    intros s us ws (Hll & Hla & rest & Hd & Hn & Hr & Hc) Hk Hle.
    assert (Hall : Forall alive (data s)).
    { rewrite Hd. apply Forall_app. split; [apply alive_AS|].
      eapply Forall_impl; [|exact Hr]. intros c Hcc. unfold restP in Hcc. rewrite Hk in Hcc. exact Hcc. }
    destruct (Forall_firstn_skipn _ _ (length ws) _ Hall) as (H1 & H2).
    unfold capacity in *.
    rewrite <- (firstn_skipn (length ws) (data s)).
    pose proof (assign_app [] ws (firstn (length ws) (data s)) (skipn (length ws) (data s)) 0 eq_refl) as Ha.
    app0 Ha. rewrite Ha; [|rewrite firstn_length; lia|exact H1].
    eexists. split; [reflexivity|].
    assert (Hr2 : Forall (restP P (is_heap s)) (skipn (length ws) (data s))).
    { eapply Forall_impl; [|exact H2]. intros c Hcc. unfold restP. rewrite Hk. exact Hcc. }
    assert (Hlen : length (map AS ws ++ skipn (length ws) (data s)) = length (data s)).
    { rewrite app_length, map_length, skipn_length. lia. }
    destruct s as [[h|] l sz]; cbn [set_data heap loc size data is_heap] in *.
    - eapply rep_heap; [reflexivity|assumption|assumption|reflexivity|exact Hr2|]. rewrite Hlen. exact Hc.
    - eapply rep_local; [reflexivity| |reflexivity|].
      + rewrite Hlen. exact Hll.
      + eapply Forall_impl; [|exact Hr2]. intros c Hcc. exact Hcc.
  Qed.

  Lemma copy_assign_ok : forall this rhs us ws, rep this us -> rep rhs ws ->
    exists s, copy_assign_ref P this rhs = Ok s /\ rep s ws.
  Proof.
    intros this rhs us ws Ht Hrhs. unfold copy_assign_ref.
    pose proof (rep_size _ _ Hrhs) as Hsr. pose proof (rep_size _ _ Ht) as Hst.
    destruct (rep_cap _ _ Ht) as (Hc1 & Hc2).
    destruct (rep_xfer _ _ Hrhs) as (rrest & _ & Hx).
    destruct (capacity this <? size rhs) eqn:E.
    - apply Nat.ltb_lt in E.
      assert (H1 : exists this1, (if is_heap this then free_heap_memory P this else Ok this) = Ok this1
                   /\ loc this1 = loc this).
      { destruct Ht as (Hll & Hla & rest & Hd & Hn & Hr & Hc).
        destruct this as [[h|] l sz]; cbn [heap loc size data is_heap] in *.
        - erewrite free_heap_ok; [|exact Hd|exact Hn|exact Hr]. eexists. split; reflexivity.
        - eexists. split; reflexivity. }
      destruct H1 as (this1 & H1 & Hl1). rewrite H1. cbn [bind].
      rewrite Hx, Hsr.
      pose proof (construct_app [] ws (alloc P (length ws)) [] 0 eq_refl) as H.
      app0 H. rewrite !app_nil_r in H. rewrite H; [|apply alloc_length|apply alloc_rest]. cbn [bind].
      eexists. split; [reflexivity|].
      destruct Ht as (Hll & Hla & _).
      eapply rep_heap with (rest := []);
        [rewrite app_nil_r; reflexivity|rewrite Hl1; exact Hll|rewrite Hl1; exact Hla|reflexivity|constructor|].
      rewrite map_length. lia.
    - apply Nat.ltb_ge in E. cbn [bind].
      destruct (negb triv && is_heap this) eqn:Hk.
      + apply andb_true_iff in Hk. destruct Hk as (Hk1 & Hk2). apply negb_true_iff in Hk1.
        assert (Hmid : exists d1 xs, (if size rhs <? size this
                          then destroy_range P (size rhs) (size this) (data this)
                          else write_range (c_construct P) (size this)
                                 (repeat dflt (size rhs - size this)) (data this)) = Ok d1
                       /\ rep (set_data this d1 (size rhs)) xs /\ length xs = size rhs).
        { destruct (size rhs <? size this) eqn:E2.
          - apply Nat.ltb_lt in E2.
            destruct (shrink_destroy_ok this us (size rhs) Ht) as (d & Hd & Hr); [lia|assumption|assumption|].
            exists d, (firstn (size rhs) us). split; [exact Hd|]. split; [exact Hr|].
            rewrite firstn_length. lia.
          - apply Nat.ltb_ge in E2.
            destruct (extend_ok (c_construct P) this us (size rhs)) as (d & Hd & Hr); [|assumption|lia|assumption|].
            { apply construct_rest_ok. exact Hk2. }
            exists d, (resized (size rhs) us). split; [exact Hd|]. split; [exact Hr|].
            unfold resized. rewrite app_length, firstn_length, repeat_length. lia. }
        destruct Hmid as (d1 & xs & Hd1 & Hr1 & Hlx). rewrite Hd1. cbn [bind]. rewrite Hx.
        destruct (overwrite_ok _ xs ws Hr1) as (d2 & Hd2 & Hr2); [lia|].
        rewrite data_set_data in Hd2. rewrite Hd2. cbn [bind].
        rewrite size_set_data, set_data_set_data in Hr2.
        eexists. split; [reflexivity|exact Hr2].
      + cbn [bind]. rewrite Hx.
        destruct (assign_over_alive this us ws Ht) as (d & Hd & Hr).
        { rewrite andb_comm. exact Hk. }
        { lia. }
        rewrite Hd. cbn [bind]. rewrite Hsr. eexists. split; [reflexivity|exact Hr].
  Qed.

  Lemma move_assign_ok : forall this rhs us ws, rep this us -> rep rhs ws ->
    exists s r xs, move_assign_ref P this rhs = Ok (s, r) /\ rep s ws /\ rep r xs.
  Proof.
    intros this rhs us ws Ht Hrhs. unfold move_assign_ref.
    pose proof (rep_size _ _ Hrhs) as Hsr.
    assert (H1 : exists this1, (if is_heap this then free_heap_memory P this else Ok this) = Ok this1
                 /\ loc this1 = loc this).
    { destruct Ht as (Hll & Hla & rest & Hd & Hn & Hr & Hc).
      destruct this as [[h|] l sz]; cbn [heap loc size data is_heap] in *.
      - erewrite free_heap_ok; [|exact Hd|exact Hn|exact Hr]. eexists. split; reflexivity.
      - eexists. split; reflexivity. }
    destruct H1 as (this1 & H1 & Hl1). rewrite H1. cbn [bind]. rewrite Hl1.
    destruct Ht as (Hll & Hla & _).
    destruct (size rhs <=? S) eqn:E.
    - apply Nat.leb_le in E. destruct (rep_moveout _ _ Hrhs) as (d' & Hm & Hr').
      rewrite Hm. cbn [bind].
      destruct (Forall_firstn_skipn _ _ (length ws) _ Hla) as (Ha1 & Ha2).
      rewrite <- (firstn_skipn (length ws) (loc this)).
      pose proof (assign_app [] ws (firstn (length ws) (loc this)) (skipn (length ws) (loc this)) 0 eq_refl) as Ha.
      app0 Ha. rewrite Ha; [|rewrite firstn_length; lia|exact Ha1]. cbn [bind].
      eexists _, _, _. split; [reflexivity|]. split; [|exact Hr'].
      eapply rep_local; [reflexivity| |symmetry; exact Hsr|exact Ha2].
      rewrite app_length, map_length, skipn_length. lia.
    - apply Nat.leb_gt in E.
      destruct Hrhs as (Hrl & Hra & rest & Hd & Hn & Hr & Hc).
      destruct rhs as [[h|] l sz]; cbn [heap loc size data is_heap] in *.
      + eexists _, _, []. split; [reflexivity|]. split.
        * eapply rep_heap; [exact Hd|exact Hll|exact Hla|exact Hn|exact Hr|exact Hc].
        * eapply rep_local with (rest := l); [reflexivity|assumption|reflexivity|assumption].
      + exfalso. rewrite Hd in Hrl. rewrite app_length, map_length in Hrl. lia.
  Qed.

  Lemma append_ok : forall s vs xs, rep s vs ->
    exists s', append_ref P xs s = Ok (s', length vs) /\ rep s' (vs ++ xs).
  Proof.
    intros s vs xs H. unfold append_ref. pose proof (rep_size _ _ H) as Hs.
    destruct (reserve_ok s vs (size s + length xs) H) as (s1 & Hres & Hr1 & Hcap & _).
    rewrite Hres. cbn [bind]. pose proof (rep_size _ _ Hr1) as Hs1.
    destruct (write_end_ok (put P s1) s1 vs xs (put_ok s1) Hr1) as (d & Hw & Hr2); [lia|].
    rewrite Hw. cbn [bind]. rewrite Hs. eexists. split; [reflexivity|exact Hr2].
  Qed.

  (* ------------------------------------------------- the programs extracted
     from the source mean the *_ref methods.  progs_gen is regenerated on
     every run: when a member definition changes these lemmas (and with them
     step_refines) stop building, while the executable model follows the
     source. *)
  Lemma bind_ret : forall A (x : res A), bind x (fun a => Ok a) = x.
  Proof. intros A [a|e]; reflexivity. Qed.

  Ltac simp := cbn [exec exec_act eval_cond eval_nexp use_arg dangle sel with_this with_rhs with_n with_arg
    with_size env0 e_this e_rhs e_nn e_nold e_oldsize e_saved e_arg e_tmp e_newd e_vals
    cs_grow cs_grow_n cs_reserve calls1 calls2 no_calls
    p_copy_assign p_move_assign p_move_ctor p_push_back p_emplace_back p_resize p_grow_n p_grow p_reserve
    p_append p_ctor_n p_ctor_fill progs_gen
    heap loc size data capacity is_heap set_data put bind negb andb fst snd].
  Ltac crunch := repeat first
    [ progress simp
    | reflexivity
    | match goal with H : _ = _ |- _ => (cbn [andb negb] in H; discriminate H) end
    | match goal with s : sv |- _ => destruct s as [[?|] ? ?] end
    | match goal with p : (_ * _)%type |- _ => destruct p end
    | match goal with |- context [ptriv P] => destruct (ptriv P) eqn:? end
    | match goal with |- context [if ?b then _ else _] => destruct b eqn:? end
    | match goal with |- context [bind ?x _] => destruct x as [?r|?e] end
    | match goal with |- context [match ?x with Some _ => _ | None => _ end] => destruct x end
    | match goal with |- context [match ?x with [] => _ | _ :: _ => _ end] => destruct x end ].

  Lemma grow_eq : forall n s, grow_of P progs_gen n s = grow_ref P n s.
  Proof. intros n [[h|] l sz]; reflexivity. Qed.
  Lemma grow1_eq : forall s, grow1_of P progs_gen s = grow1_ref P s.
  Proof. intros s. unfold grow1_of, grow1_ref. simp. rewrite grow_eq. apply bind_ret. Qed.
  Lemma reserve_eq : forall n s, reserve_of P progs_gen n s = reserve_ref P n s.
  Proof.
    intros n s. unfold reserve_of, reserve_ref. simp. destruct (_ <? _); [|reflexivity].
    rewrite grow_eq. apply bind_ret.
  Qed.
  Lemma move_ctor_eq : forall rhs, move_ctor_of P progs_gen rhs = move_ctor_ref P rhs.
  Proof. intros rhs. unfold move_ctor_of, move_ctor_ref. crunch. Qed.
  Lemma move_assign_eq : forall this rhs, move_assign_of P progs_gen this rhs = move_assign_ref P this rhs.
  Proof. intros this rhs. unfold move_assign_of, move_assign_ref. crunch. Qed.
  Lemma copy_assign_eq : forall this rhs, copy_assign_of P progs_gen this rhs = copy_assign_ref P this rhs.
  Proof. intros this rhs. unfold copy_assign_of, copy_assign_ref. crunch. Qed.
  Lemma resize_eq : forall n s, resize_of P progs_gen n s = resize_ref P n s.
  Proof. intros n s. unfold resize_of, resize_ref. simp. rewrite ?grow_eq. crunch. Qed.
  Lemma push_back_eq : forall x s, push_back_of P progs_gen (ArgVal x) s = push_back_ref P x s.
  Proof. intros x s. unfold push_back_of, push_back_ref. simp. rewrite ?grow1_eq. crunch. Qed.
  Lemma push_back_self_eq : forall i s, push_back_of P progs_gen (ArgSelf i) s = push_back_self_ref P i s.
  Proof. intros i s. unfold push_back_of, push_back_self_ref, push_back_ref. simp. rewrite ?grow1_eq. crunch. Qed.
  Lemma emplace_back_eq : forall x s, emplace_back_of P progs_gen (ArgVal x) s = push_back_ref P x s.
  Proof. intros x s. unfold emplace_back_of, push_back_ref. simp. rewrite ?grow1_eq. crunch. Qed.
  Lemma emplace_back_self_eq : forall i s, emplace_back_of P progs_gen (ArgSelf i) s = push_back_self_ref P i s.
  Proof. intros i s. unfold emplace_back_of, push_back_self_ref, push_back_ref. simp. rewrite ?grow1_eq. crunch. Qed.
  Lemma append_eq : forall vs s, append_of P progs_gen vs s = append_ref P vs s.
  Proof. intros vs s. unfold append_of, append_ref. simp. rewrite ?reserve_eq. crunch. Qed.
  Lemma ctor_n_eq : forall n, ctor_n_of P progs_gen n = ctor_n_ref P n.
  Proof. intros n. unfold ctor_n_of, ctor_n_ref. crunch. Qed.
  Lemma ctor_fill_eq : forall n x, ctor_fill_of P progs_gen n x = ctor_fill_ref P n x.
  Proof. intros n x. unfold ctor_fill_of, ctor_fill_ref, build. rewrite repeat_length. crunch. Qed.

  Ltac to_refs :=
    unfold ctor_n, ctor_fill, move_ctor, copy_assign, move_assign, push_back, push_back_self,
      emplace_back, emplace_back_self, resize, reserve, append, grow, grow1;
    rewrite ?ctor_n_eq, ?ctor_fill_eq, ?move_ctor_eq, ?copy_assign_eq, ?move_assign_eq, ?push_back_eq,
      ?push_back_self_eq, ?emplace_back_eq, ?emplace_back_self_eq, ?resize_eq, ?reserve_eq, ?append_eq.

  (* ------------------------------------------------- insert *)
  Ltac lens := rewrite ?app_length, ?map_length, ?firstn_length, ?skipn_length, ?repeat_length; try lia.

  Lemma gen_shape : insert_shape_gen =
    mkInsertShape
      [IGAppendAtEnd; IGReturnIfEmpty]
      ICondTailAtLeastN
      [RAppendMoved (PMinus PEnd Nn) PEnd; RMove Bwd WAssign PI (PMinus POldEnd Nn) POldEnd; RCopyIn WAssign PI]
      [RSizeAdd; RMove Fwd WByStorage PI POldEnd (PMinus PEnd Noverwritten); ROverwrite; RCopyIn WByStorage POldEnd].
  Proof. reflexivity. Qed.

  Ltac interp_cbn := cbn [interp_rcalls interp_rcall eval_ptr eval_num e_pos e_old_end e_n sel].

  (* the "simple" branch of insert as extracted from the source *)
  Lemma insert_simple_ok : forall w (Q : cell -> Prop) A B C R1 R2 xs pos n sz,
    (forall c v, Q c -> w c v = Ok (AS v)) -> Forall Q R1 ->
    pos = length A -> n = length C -> sz = length A + length B + length C ->
    length R1 = n -> length xs = n -> 1 <= n ->
    interp_rcalls P w (mkIenv pos sz n)
      [RAppendMoved (PMinus PEnd Nn) PEnd; RMove Bwd WAssign PI (PMinus POldEnd Nn) POldEnd; RCopyIn WAssign PI]
      (map AS A ++ map AS B ++ map AS C ++ R1 ++ R2, sz, xs)
    = Ok (map AS (A ++ xs ++ B ++ C) ++ R2, sz + n, []).
  Proof.
    intros w Q A B C R1 R2 xs pos n sz Hw HQ Hpos Hn Hsz HR1 Hxs Hn1. interp_cbn.
    (* 1. append(move_iterator(end() - n), move_iterator(end())): forward, element by element *)
    assert (E1 : move_fwd P w (sz - n) sz (sz - (sz - n)) (map AS A ++ map AS B ++ map AS C ++ R1 ++ R2)
                 = Ok (map AS A ++ map AS B ++ map AS (map mv C) ++ map AS C ++ R2)).
    { replace (sz - (sz - n)) with (length C) by lia.
      replace (map AS A ++ map AS B ++ map AS C ++ R1 ++ R2)
        with ((map AS A ++ map AS B) ++ map AS C ++ [] ++ R1 ++ R2) by (norm; reflexivity).
      rewrite (move_fwd_ok w Q Hw C (map AS A ++ map AS B) [] R1 R2); [norm; reflexivity| | | |exact HQ].
      - rewrite app_length, !map_length. lia.
      - cbn [length]. lia.
      - lia. }
    rewrite E1. cbn [bind]. interp_cbn.
    (* 2. std::move_backward(i, old_end - n, old_end): backward, overlapping *)
    set (tail := map AS (map mv C) ++ map AS C ++ R2).
    assert (Hal : Forall alive (firstn n tail)).
    { unfold tail. rewrite firstn_app_le by (rewrite !map_length; lia).
      rewrite firstn_all2 by (rewrite !map_length; lia). apply alive_AS. }
    assert (E2 : move_bwd P c_assign pos (sz - (sz - n - pos)) (sz - n - pos)
                   (map AS A ++ map AS B ++ tail)
                 = Ok (map AS A ++ firstn n (map AS (map mv B) ++ tail) ++ map AS B ++ skipn n tail)).
    { replace (sz - (sz - n - pos)) with (pos + n) by lia.
      replace (sz - n - pos) with (length B) by lia.
      apply move_bwd_ok; [rewrite map_length; lia|lia| |exact Hal].
      unfold tail. rewrite !app_length, !map_length. lia. }
    rewrite E2. cbn [bind]. interp_cbn.
    (* 3. std::copy(b, e, i) *)
    set (M := firstn n (map AS (map mv B) ++ tail)).
    assert (HM : Forall alive M /\ length M = n).
    { unfold M, tail.
      replace (map AS (map mv B) ++ map AS (map mv C) ++ map AS C ++ R2)
        with ((map AS (map mv B) ++ map AS (map mv C)) ++ map AS C ++ R2) by (norm; reflexivity).
      rewrite firstn_app_le by (rewrite app_length, !map_length; lia).
      split.
      - apply (Forall_firstn_skipn _ alive n (map AS (map mv B) ++ map AS (map mv C))).
        apply Forall_app. split; apply alive_AS.
      - rewrite firstn_length, app_length, !map_length. lia. }
    destruct HM as (HM1 & HM2).
    assert (Hsk : skipn n tail = map AS C ++ R2).
    { unfold tail. replace n with (length (map AS (map mv C))) at 1 by (rewrite !map_length; lia).
      rewrite skipn_app, skipn_all, Nat.sub_diag. reflexivity. }
    rewrite Hsk.
    rewrite (assign_app (map AS A) xs M); [| | |exact HM1].
    - cbn [bind]. replace (sz + (sz - (sz - n))) with (sz + n) by lia.
      rewrite !map_app. norm. reflexivity.
    - rewrite map_length. lia.
    - lia.
  Qed.

  (* the other branch: more elements inserted than follow the insertion point *)
  Lemma insert_over_ok : forall w (Q : cell -> Prop) A T R1a R1b R2 xs pos n sz,
    (forall c v, Q c -> w c v = Ok (AS v)) -> Forall Q R1a -> Forall Q R1b ->
    pos = length A -> sz = length A + length T -> length xs = n -> length T < n ->
    length R1a = n - length T -> length R1b = length T ->
    interp_rcalls P w (mkIenv pos sz n)
      [RSizeAdd; RMove Fwd WByStorage PI POldEnd (PMinus PEnd Noverwritten); ROverwrite; RCopyIn WByStorage POldEnd]
      (map AS A ++ map AS T ++ R1a ++ R1b ++ R2, sz, xs)
    = Ok (map AS (A ++ xs ++ T) ++ R2, sz + n, []).
  Proof.
    intros w Q A T R1a R1b R2 xs pos n sz Hw HQa HQb Hpos Hsz Hxs Hlt Hla Hlb. interp_cbn.
    assert (Hsp : sz - pos = length T) by lia.
    cbn [bind]. interp_cbn. rewrite ?Hsp.
    rewrite (move_fwd_ok w Q Hw T (map AS A) R1a R1b R2); [|rewrite map_length; lia|lia|lia|exact HQb].
    cbn [bind]. interp_cbn. rewrite ?Hsp.
    rewrite (assign_app (map AS A) (firstn (length T) xs) (map AS (map mv T))); [| | |apply alive_AS].
    2: rewrite map_length; lia. 2: rewrite !map_length, firstn_length; lia.
    cbn [bind]. interp_cbn. rewrite ?Hsp.
    assert (E4 : write_range w sz (skipn (length T) xs)
                   (map AS A ++ map AS (firstn (length T) xs) ++ R1a ++ map AS T ++ R2)
                 = Ok (map AS A ++ map AS (firstn (length T) xs) ++ map AS (skipn (length T) xs) ++ map AS T ++ R2)).
    { replace (map AS A ++ map AS (firstn (length T) xs) ++ R1a ++ map AS T ++ R2)
        with ((map AS A ++ map AS (firstn (length T) xs)) ++ R1a ++ (map AS T ++ R2))
        by (norm; reflexivity).
      rewrite (write_range_app w AS Q Hw) by (try assumption; lens).
      norm. reflexivity. }
    rewrite E4. cbn [bind]. f_equal. f_equal. f_equal.
    rewrite <- (firstn_skipn (length T) xs) at 3.
    rewrite !map_app. norm. reflexivity.
  Qed.

  Lemma rep_set_data : forall s vs d ws rest' n',
    rep s vs -> d = map AS ws ++ rest' -> Forall (restP P (is_heap s)) rest' ->
    length d = length (data s) -> length ws = n' ->
    rep (set_data s d n') ws.
  Proof.
    intros s vs d ws rest' n' (Hll & Hla & rest & Hd & Hn & Hr & Hc) Hshape Hr' Hlen Hn'.
    unfold capacity in Hc.
    destruct s as [[h|] l sz]; cbn [set_data heap loc size data is_heap] in *.
    - eapply rep_heap; [exact Hshape|assumption|assumption|exact Hn'|exact Hr'|]. rewrite Hlen. exact Hc.
    - eapply rep_local; [exact Hshape| |exact Hn'|].
      + rewrite Hlen. exact Hll.
      + eapply Forall_impl; [|exact Hr']. intros c Hcc. exact Hcc.
  Qed.

  Lemma insert_ok : forall s vs pos xs, rep s vs -> pos <= length vs ->
    exists s', insert P pos xs s = Ok (s', pos) /\ rep s' (firstn pos vs ++ xs ++ skipn pos vs).
  Proof.
    intros s vs pos xs H Hpos. unfold insert, insert_with. rewrite gen_shape. to_refs.
    cbn [ins_guards ins_cond ins_simple ins_over has_guard existsb orb andb].
    pose proof (rep_size _ _ H) as Hs.
    replace (size s <? pos) with false by (symmetry; apply Nat.ltb_ge; lia).
    destruct (pos =? size s) eqn:E.
    - apply Nat.eqb_eq in E. destruct (append_ok s vs xs H) as (s' & Ha & Hr).
      rewrite Ha. replace (length vs) with pos by lia. eexists. split; [reflexivity|].
      rewrite firstn_all2, skipn_all2 by lia. rewrite app_nil_r. exact Hr.
    - apply Nat.eqb_neq in E. destruct (length xs =? 0) eqn:E0.
      + apply Nat.eqb_eq in E0. destruct xs; [|discriminate]. cbn [app].
        rewrite firstn_skipn. eexists. split; [reflexivity|exact H].
      + apply Nat.eqb_neq in E0.
        destruct (reserve_ok s vs (size s + length xs) H) as (s1 & Hres & Hr1 & Hcap & _).
        rewrite Hres. cbn [bind]. pose proof (rep_size _ _ Hr1) as Hs1.
        pose proof Hr1 as (Hll & Hla & rest & Hd & Hn & Hr & Hc).
        assert (Hrl : length xs <= length rest).
        { unfold capacity in Hcap. rewrite Hd, app_length, map_length in Hcap. lia. }
        set (n := length xs) in *. rewrite Hs1.
        destruct (pos + n <=? length vs) eqn:E1.
        * apply Nat.leb_le in E1.
          set (A := firstn pos vs). set (BC := skipn pos vs).
          set (B := firstn (length vs - n - pos) BC). set (C := skipn (length vs - n - pos) BC).
          set (R1 := firstn n rest). set (R2 := skipn n rest).
          assert (Hblk : data s1 = map AS A ++ map AS B ++ map AS C ++ R1 ++ R2).
          { rewrite Hd. unfold A, B, C, R1, R2, BC.
            rewrite (app_assoc (map AS (firstn _ _)) (map AS (skipn _ _))), <- map_app, firstn_skipn.
            rewrite app_assoc, <- map_app, firstn_skipn, firstn_skipn. reflexivity. }
          destruct (Forall_firstn_skipn _ _ n _ Hr) as (Hq1 & Hq2).
          assert (HlA : length A = pos) by (unfold A; rewrite firstn_length; lia).
          assert (HlBC : length BC = length vs - pos) by (unfold BC; rewrite skipn_length; lia).
          assert (HlB : length B = length vs - n - pos) by (unfold B; rewrite firstn_length; lia).
          assert (HlC : length C = n) by (unfold C; rewrite skipn_length; lia).
          rewrite Hblk.
          rewrite (insert_simple_ok (put P s1) (restP P (is_heap s1)) A B C R1 R2 xs pos n (length vs));
            [|apply put_ok|exact Hq1|lia|lia|lia|unfold R1; rewrite firstn_length; lia|reflexivity|lia].
          cbn [bind]. eexists. split; [reflexivity|].
          assert (HBC : BC = B ++ C) by (unfold B, C; rewrite firstn_skipn; reflexivity).
          change (firstn pos vs) with A. change (skipn pos vs) with BC. rewrite HBC.
          eapply rep_set_data; [exact Hr1|reflexivity|exact Hq2| |].
          -- rewrite Hblk. rewrite !app_length, !map_length, !app_length.
             unfold R1, R2. rewrite firstn_length. lia.
          -- rewrite !app_length. lia.
        * apply Nat.leb_gt in E1.
          set (A := firstn pos vs). set (T := skipn pos vs).
          set (R1a := firstn (n - length T) rest). set (R' := skipn (n - length T) rest).
          set (R1b := firstn (length T) R'). set (R2 := skipn (length T) R').
          assert (HlA : length A = pos) by (unfold A; rewrite firstn_length; lia).
          assert (HlT : length T = length vs - pos) by (unfold T; rewrite skipn_length; lia).
          assert (Hblk : data s1 = map AS A ++ map AS T ++ R1a ++ R1b ++ R2).
          { rewrite Hd. unfold A, T, R1a, R1b, R2, R'.
            rewrite (app_assoc (map AS (firstn _ _)) (map AS (skipn _ _))), <- map_app, firstn_skipn.
            rewrite firstn_skipn, firstn_skipn. reflexivity. }
          destruct (Forall_firstn_skipn _ _ (n - length T) _ Hr) as (Hq1 & Hq').
          fold R1a in Hq1. fold R' in Hq'.
          destruct (Forall_firstn_skipn _ _ (length T) _ Hq') as (Hq2 & Hq3).
          fold R1b in Hq2. fold R2 in Hq3.
          assert (HlR' : length R' = length rest - (n - length T)) by (unfold R'; rewrite skipn_length; lia).
          rewrite Hblk.
          rewrite (insert_over_ok (put P s1) (restP P (is_heap s1)) A T R1a R1b R2 xs pos n (length vs));
            [|apply put_ok|exact Hq1|exact Hq2|lia|lia|reflexivity|lia
             |unfold R1a; rewrite firstn_length; lia|unfold R1b; rewrite firstn_length; lia].
          cbn [bind]. eexists. split; [reflexivity|].
          eapply rep_set_data; [exact Hr1|reflexivity|exact Hq3| |].
          -- rewrite Hblk. rewrite !app_length, !map_length, !app_length.
             unfold R1a, R1b. rewrite !firstn_length. lia.
          -- rewrite !app_length. fold n. lia.
  Qed.

  (* ------------------------------------------------- steps *)
  Lemma target_mk : forall t a b, target t (mk_state t a b) = a.
  Proof. intros [|] a b; reflexivity. Qed.
  Lemma other_mk : forall t a b, other t (mk_state t a b) = b.
  Proof. intros [|] a b; reflexivity. Qed.
  Lemma mk_target_other : forall t st, mk_state t (target t st) (other t st) = st.
  Proof. intros [|] [a b]; reflexivity. Qed.

  Definition step_post (o : op) (st' : state) (r : option nat) (tg ot : list V) : Prop :=
    let t := op_target o in
    rep (target t st') (fst (fst (spec_step P o tg ot))) /\
    (match snd (fst (spec_step P o tg ot)) with
     | Some l => rep (other t st') l
     | None => exists l, rep (other t st') l
     end) /\
    r = snd (spec_step P o tg ot).

  Lemma step_ok : forall o st tg ot,
    rep (target (op_target o) st) tg -> rep (other (op_target o) st) ot -> valid_op o tg ->
    exists st' r, step P o st = Ok (st', r) /\ step_post o st' r tg ot.
  Proof.
    intros o st tg ot Ht Ho Hv. unfold step_post.
    destruct o; cbn [op_target step spec_step fst snd valid_op] in *; to_refs.
    - (* CtorN *) unfold reconstruct. rewrite (destroy_sv_ok _ _ Ht). cbn [bind].
      destruct (ctor_n_ok n) as (s & Hc & Hr). rewrite Hc. cbn [bind].
      eexists _, _. split; [reflexivity|]. rewrite target_mk, other_mk. auto.
    - (* CtorFill *) unfold reconstruct, ctor_fill_ref. rewrite (destroy_sv_ok _ _ Ht). cbn [bind].
      destruct (build_ok (repeat x n)) as (s & Hc & Hr). rewrite Hc. cbn [bind].
      eexists _, _. split; [reflexivity|]. rewrite target_mk, other_mk. auto.
    - (* CtorList *) unfold reconstruct, ctor_list. rewrite (destroy_sv_ok _ _ Ht). cbn [bind].
      destruct (build_ok l) as (s & Hc & Hr). rewrite Hc. cbn [bind].
      eexists _, _. split; [reflexivity|]. rewrite target_mk, other_mk. auto.
    - (* CopyCtor *) unfold reconstruct. rewrite (destroy_sv_ok _ _ Ht). cbn [bind].
      destruct (copy_ctor_ok _ _ Ho) as (s & Hc & Hr). rewrite Hc. cbn [bind].
      eexists _, _. split; [reflexivity|]. rewrite target_mk, other_mk. auto.
    - (* MoveCtor *) rewrite (destroy_sv_ok _ _ Ht). cbn [bind].
      destruct (move_ctor_ok _ _ Ho) as (s & r & ws & Hc & Hr & Hr2). rewrite Hc. cbn [bind].
      eexists _, _. split; [reflexivity|]. rewrite target_mk, other_mk. eauto.
    - (* CopyAssign *) unfold upd.
      destruct (copy_assign_ok _ _ _ _ Ht Ho) as (s & Hc & Hr). rewrite Hc. cbn [bind].
      eexists _, _. split; [reflexivity|]. rewrite target_mk, other_mk. auto.
    - (* MoveAssign *)
      destruct (move_assign_ok _ _ _ _ Ht Ho) as (s & r & ws & Hc & Hr & Hr2). rewrite Hc. cbn [bind].
      eexists _, _. split; [reflexivity|]. rewrite target_mk, other_mk. eauto.
    - (* SelfAssign *) eexists _, _. split; [reflexivity|]. auto.
    - (* Clear *) unfold upd.
      destruct (clear_ok _ _ Ht) as (s & Hc & Hr). rewrite Hc. cbn [bind].
      eexists _, _. split; [reflexivity|]. rewrite target_mk, other_mk. auto.
    - (* PushBack *) unfold upd.
      destruct (push_back_ok _ _ x Ht) as (s & Hc & Hr). rewrite Hc. cbn [bind].
      eexists _, _. split; [reflexivity|]. rewrite target_mk, other_mk. auto.
    - (* PushBackSelf *) unfold upd.
      destruct (push_back_self_ok _ _ i Ht Hv) as (s & Hc & Hr). rewrite Hc. cbn [bind].
      eexists _, _. split; [reflexivity|]. rewrite target_mk, other_mk. auto.
    - (* EmplaceBack *) unfold upd.
      destruct (push_back_ok _ _ x Ht) as (s & Hc & Hr). rewrite Hc. cbn [bind].
      eexists _, _. split; [reflexivity|]. rewrite target_mk, other_mk. auto.
    - (* EmplaceBackSelf *) unfold upd.
      destruct (push_back_self_ok _ _ i Ht Hv) as (s & Hc & Hr). rewrite Hc. cbn [bind].
      eexists _, _. split; [reflexivity|]. rewrite target_mk, other_mk. auto.
    - (* Insert *)
      destruct (insert_ok _ _ pos l Ht Hv) as (s & Hc & Hr). rewrite Hc. cbn [bind].
      eexists _, _. split; [reflexivity|]. rewrite target_mk, other_mk. auto.
    - (* Resize *) unfold upd.
      destruct (resize_ok _ _ n Ht) as (s & Hc & Hr). rewrite Hc. cbn [bind].
      eexists _, _. split; [reflexivity|]. rewrite target_mk, other_mk. auto.
    - (* Reserve *) unfold upd.
      destruct (reserve_ok _ _ n Ht) as (s & Hc & Hr & _). rewrite Hc. cbn [bind].
      eexists _, _. split; [reflexivity|]. rewrite target_mk, other_mk. auto.
    - (* SetAt *) unfold upd.
      destruct (set_at_ok _ _ i x Ht Hv) as (s & Hc & Hr). rewrite Hc. cbn [bind].
      eexists _, _. split; [reflexivity|]. rewrite target_mk, other_mk. auto.
  Qed.

  Lemma inv_target_other : forall t st, Inv P st -> sv_inv P (target t st) /\ sv_inv P (other t st).
  Proof. intros [|] [a b] [Ha Hb]; cbn; auto. Qed.

  Lemma inv_of_target_other : forall t st, sv_inv P (target t st) -> sv_inv P (other t st) -> Inv P st.
  Proof. intros [|] [a b] Ha Hb; cbn in *; split; auto. Qed.

  Lemma valid_op_b_spec : forall o tg, valid_op_b o tg = true <-> valid_op o tg.
  Proof.
    intros o tg. destruct o; cbn; try (split; auto; fail).
    - apply Nat.ltb_lt.
    - apply Nat.ltb_lt.
    - apply Nat.leb_le.
    - apply Nat.ltb_lt.
  Qed.

  (* one step: no error, invariant kept, std::vector's result *)
  Lemma step_refines : forall o st tg,
    Inv P st -> abs (target (op_target o) st) = Some tg -> valid_op o tg ->
    exists st' r, step P o st = Ok (st', r) /\ Inv P st' /\ spec_ok P o st st' r.
  Proof.
    intros o st tg HI Ha Hv.
    destruct (inv_target_other (op_target o) st HI) as (H1 & H2).
    destruct (inv_rep _ H1) as (tg' & Ht). destruct (inv_rep _ H2) as (ot & Ho).
    assert (tg' = tg) by (eapply rep_fun; eauto). subst tg'.
    destruct (step_ok o st tg ot Ht Ho Hv) as (st' & r & Hs & Hp1 & Hp2 & Hp3).
    exists st', r. split; [exact Hs|].
    assert (HI' : Inv P st').
    { apply (inv_of_target_other (op_target o)).
      - eapply rep_inv; exact Hp1.
      - destruct (snd (fst (spec_step P o tg ot))); [eapply rep_inv; exact Hp2|].
        destruct Hp2 as (l & Hl). eapply rep_inv; exact Hl. }
    split; [exact HI'|].
    unfold spec_ok. exists tg, ot. split; [exact Ha|]. split; [apply rep_abs; exact Ho|].
    destruct (spec_step P o tg ot) as [[tg2 ot2] r2]. cbn [fst snd] in *.
    split; [apply rep_abs; exact Hp1|]. split; [|exact Hp3].
    destruct ot2; [apply rep_abs; exact Hp2|].
    destruct Hp2 as (l & Hl). exists l. apply rep_abs; exact Hl.
  Qed.

  Lemma finish_ok : forall st, Inv P st ->
    finish P st = Ok (live_count P (sa st) + live_count P (sb st)).
  Proof.
    intros [a b] [Ha Hb]. cbn in *. unfold finish. cbn [sa sb].
    destruct (inv_rep _ Ha) as (xs & Hx). destruct (inv_rep _ Hb) as (ys & Hy).
    rewrite (destroy_sv_ok _ _ Hx). cbn [bind]. rewrite (destroy_sv_ok _ _ Hy). reflexivity.
  Qed.

  (* whole scripts *)
  Lemma run_refines : forall ops st, Inv P st ->
    match run P ops st with
    | Finished tr d => trace_ok P ops st tr /\ length tr = length ops
    | Invalid tr => trace_ok P ops st tr /\ length tr < length ops
    | Failed _ _ => False
    end.
  Proof.
    induction ops as [|o ops IH]; intros st HI.
    - cbn [run]. rewrite (finish_ok st HI). cbn. auto.
    - cbn [run].
      destruct (inv_target_other (op_target o) st HI) as (H1 & _).
      destruct (inv_rep _ H1) as (tg & Ht). rewrite (rep_abs _ _ Ht).
      destruct (valid_op_b o tg) eqn:Ev.
      + apply valid_op_b_spec in Ev.
        destruct (step_refines o st tg HI (rep_abs _ _ Ht) Ev) as (st' & r & Hs & HI' & Hspec).
        rewrite Hs. specialize (IH st' HI').
        destruct (run P ops st') as [tr d|tr e|tr]; cbn [cons_trace trace_ok length].
        * destruct IH as (IH1 & IH2). split; [auto|lia].
        * exact IH.
        * destruct IH as (IH1 & IH2). split; [auto|lia].
      + cbn. split; [exact I|lia].
  Qed.

  (* comparisons *)
  Lemma list_eqb_Forall2 : forall (eq : V -> V -> bool) xs ys,
    list_eqb eq xs ys = true <-> Forall2 (fun x y => eq x y = true) xs ys.
  Proof.
    intro eq. induction xs as [|x xs IH]; intros [|y ys]; cbn; split; intro H;
      try discriminate; try (inversion H; fail); auto.
    - apply andb_true_iff in H. destruct H as (H1 & H2). constructor; [exact H1|apply IH; exact H2].
    - inversion H; subst. apply andb_true_iff. split; [assumption|apply IH; assumption].
  Qed.

  Lemma list_eqb_length : forall (eq : V -> V -> bool) xs ys,
    list_eqb eq xs ys = true -> length xs = length ys.
  Proof.
    intros eq xs ys H. apply list_eqb_Forall2 in H.
    induction H; cbn; [reflexivity|congruence].
  Qed.

  (* for element types whose operator== is equality of values *)
  Lemma list_eqb_eq : forall (eq : V -> V -> bool), (forall x y, eq x y = true <-> x = y) ->
    forall xs ys, list_eqb eq xs ys = true <-> xs = ys.
  Proof.
    intros eq Heq xs ys. rewrite list_eqb_Forall2. split; intro H.
    - induction H as [|x y xs ys H1 _ IH]; [reflexivity|]. apply Heq in H1. congruence.
    - subst ys. induction xs as [|x xs IH]; constructor; [apply Heq; reflexivity|exact IH].
  Qed.

  Lemma compare_ok : forall a b xs ys, sv_inv P a -> sv_inv P b -> abs a = Some xs -> abs b = Some ys ->
    sv_eq P a b = Ok (list_eqb (peq P) xs ys) /\ sv_lt P a b = Ok (lex_ltb (plt P) xs ys).
  Proof.
    intros a b xs ys Ha Hb Hx Hy.
    destruct (inv_rep _ Ha) as (xs' & Hrx). destruct (inv_rep _ Hb) as (ys' & Hry).
    assert (xs' = xs) by (eapply rep_fun; eauto). assert (ys' = ys) by (eapply rep_fun; eauto). subst.
    unfold sv_eq, sv_lt, contents.
    rewrite (contents_ok _ _ Hrx), (contents_ok _ _ Hry). cbn [bind]. split; [|reflexivity].
    rewrite (rep_size _ _ Hrx), (rep_size _ _ Hry).
    destruct (length xs =? length ys) eqn:E; [reflexivity|].
    apply Nat.eqb_neq in E. f_equal. symmetry.
    destruct (list_eqb (peq P) xs ys) eqn:E2; [|reflexivity].
    apply list_eqb_length in E2. congruence.
  Qed.

  Lemma init_inv : Inv P (init P).
  Proof. split; cbn; apply (rep_inv _ []), rep_empty. Qed.
End Proofs.
