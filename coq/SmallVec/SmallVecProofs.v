(* C20 -- lemmas about the small_vector model. *)
From Coq Require Import ZArith List Bool Arith Lia.
From VV Require Import SmallVec.SmallVecDefs.
Import ListNotations.

Section Proofs.
  Variable P : params.
  Local Notation S := (pS P).
  Local Notation triv := (ptriv P).
  Local Notation dflt := (pdflt P).
  Local Notation mv := (pmv P).

  (* ---------------------------------------------------------------- ranges *)
  Lemma write_range_nil : forall w b blk, write_range w b [] blk = Ok blk.
  Proof. intros w b blk. destruct blk; reflexivity. Qed.

  (* writing vs over the segment [mid] that follows [pre] *)
  Lemma write_range_app : forall w (mk : V -> cell) (Q : cell -> Prop),
    (forall c v, Q c -> w c v = Ok (mk v)) ->
    forall pre vs mid post b,
      length pre = b -> length mid = length vs -> Forall Q mid ->
      write_range w b vs (pre ++ mid ++ post) = Ok (pre ++ map mk vs ++ post).
  Proof.
    intros w mk Q Hw pre. induction pre as [|c pre IH]; intros vs mid post b Hb Hl HQ.
    - subst b. cbn [app length]. revert mid Hl HQ.
      induction vs as [|v vs IHv]; intros mid Hl HQ.
      + destruct mid; [|discriminate]. cbn. apply write_range_nil.
      + destruct mid as [|m mid]; [discriminate|].
        inversion HQ as [|? ? Hm Hmid]; subst.
        cbn [app map write_range]. rewrite (Hw _ _ Hm). cbn [bind].
        rewrite (IHv mid); [reflexivity| cbn in Hl; lia | assumption].
    - destruct b as [|b]; [discriminate|]. cbn in Hb.
      destruct vs as [|v vs].
      + destruct mid; [|discriminate]. cbn. reflexivity.
      + cbn [app write_range]. rewrite (IH (v :: vs) mid post b); [reflexivity|lia|assumption|assumption].
  Qed.

  Lemma read_range_0 : forall b blk, read_range b 0 blk = Ok [].
  Proof. intros b blk. destruct blk; reflexivity. Qed.

  Lemma read_range_app : forall vs pre post b,
    length pre = b ->
    read_range b (length vs) (pre ++ map AS vs ++ post) = Ok vs.
  Proof.
    intros vs pre. revert vs. induction pre as [|c pre IH]; intros vs post b Hb.
    - subst b. cbn [app length]. induction vs as [|v vs IHv].
      + apply read_range_0.
      + cbn. rewrite IHv. reflexivity.
    - destruct b as [|b]; [discriminate|]. cbn in Hb.
      destruct vs as [|v vs]; [apply read_range_0|].
      cbn [length app read_range]. specialize (IH (v :: vs) post b). cbn [length] in IH. apply IH. lia.
  Qed.

  (* ---------------------------------------------------------------- cells *)
  Definition alive (c : cell) : Prop := is_alive c = true.

  Lemma alive_AS : forall vs, Forall alive (map AS vs).
  Proof. induction vs; constructor; [reflexivity|assumption]. Qed.

  Lemma Forall_repeat : forall (A : Type) (Q : A -> Prop) x n, Q x -> Forall Q (repeat x n).
  Proof. induction n; intros; cbn; constructor; auto. Qed.

  Lemma map_repeat : forall (A B : Type) (f : A -> B) x n, map f (repeat x n) = repeat (f x) n.
  Proof. induction n; cbn; congruence. Qed.

  Lemma assign_ok : forall c v, alive c -> c_assign c v = Ok (AS v).
  Proof. intros [o|] v H; [reflexivity|discriminate]. Qed.

  Lemma construct_ok : forall c v, restP P true c -> c_construct P c v = Ok (AS v).
  Proof.
    unfold restP, c_construct. intros c v H. cbn in H.
    destruct triv; cbn in H.
    - destruct c; [reflexivity|discriminate].
    - subst c. reflexivity.
  Qed.

  Lemma put_ok : forall s c v, restP P (is_heap s) c -> put P s c v = Ok (AS v).
  Proof.
    intros s c v H. unfold put. destruct (is_heap s).
    - apply construct_ok; assumption.
    - apply assign_ok. exact H.
  Qed.

  Lemma destroy_ok : forall c v, alive c -> c_destroy c v = Ok Raw.
  Proof. intros [o|] v H; [reflexivity|discriminate]. Qed.

  Lemma restP_alive_local : forall c, restP P false c <-> alive c.
  Proof. intro c. unfold restP. cbn. reflexivity. Qed.

  (* ------------------------------------------------- specialised writes *)
  Lemma assign_app : forall pre vs mid post b,
    length pre = b -> length mid = length vs -> Forall alive mid ->
    write_range c_assign b vs (pre ++ mid ++ post) = Ok (pre ++ map AS vs ++ post).
  Proof. intros. eapply write_range_app with (Q := alive); eauto using assign_ok. Qed.

  Lemma construct_app : forall pre vs mid post b,
    length pre = b -> length mid = length vs -> Forall (restP P true) mid ->
    write_range (c_construct P) b vs (pre ++ mid ++ post) = Ok (pre ++ map AS vs ++ post).
  Proof. intros. eapply write_range_app with (Q := restP P true); eauto using construct_ok. Qed.

  Lemma put_app : forall s pre vs mid post b,
    length pre = b -> length mid = length vs -> Forall (restP P (is_heap s)) mid ->
    write_range (put P s) b vs (pre ++ mid ++ post) = Ok (pre ++ map AS vs ++ post).
  Proof. intros. eapply write_range_app with (Q := restP P (is_heap s)); eauto using put_ok. Qed.

  Lemma destroy_app : forall pre mid post b e,
    length pre = b -> b + length mid = e -> Forall alive mid ->
    destroy_range P b e (pre ++ mid ++ post) = Ok (pre ++ repeat Raw (length mid) ++ post).
  Proof.
    intros pre mid post b e Hb He Hm. unfold destroy_range.
    replace (b <=? e) with true by (symmetry; apply Nat.leb_le; lia).
    replace (e - b) with (length mid) by lia.
    assert (H : write_range c_destroy b (repeat dflt (length mid)) (pre ++ mid ++ post)
                = Ok (pre ++ map (fun _ => Raw) (repeat dflt (length mid)) ++ post)).
    { apply write_range_app with (Q := alive); auto using destroy_ok.
      rewrite repeat_length; reflexivity. }
    rewrite H, map_repeat. reflexivity.
  Qed.

  Lemma moveout_app : forall pre vs post b,
    length pre = b ->
    moveout_range P b (length vs) (pre ++ map AS vs ++ post)
    = Ok (vs, pre ++ map AS (map mv vs) ++ post).
  Proof.
    intros pre vs post b Hb. unfold moveout_range.
    rewrite read_range_app by assumption. cbn [bind].
    rewrite assign_app; [reflexivity|assumption| |apply alive_AS].
    rewrite !map_length. reflexivity.
  Qed.

  (* ------------------------------------------------- blocks *)
  Lemma alloc_rest : forall n, Forall (restP P true) (alloc P n).
  Proof.
    intro n. unfold alloc. apply Forall_repeat. unfold restP. cbn.
    destruct triv; reflexivity.
  Qed.

  Lemma alloc_length : forall n, length (alloc P n) = n.
  Proof. intro n. apply repeat_length. Qed.

  Lemma alloc_split : forall a b, alloc P (a + b) = alloc P a ++ alloc P b.
  Proof. intros. unfold alloc. apply repeat_app. Qed.

  Lemma fresh_local_length : length (fresh_local P) = S.
  Proof. apply repeat_length. Qed.

  Lemma fresh_local_alive : Forall alive (fresh_local P).
  Proof. unfold fresh_local. apply Forall_repeat. destruct triv; reflexivity. Qed.

  Lemma existsb_alive_raw : forall l, Forall (fun c => c = Raw) l -> existsb is_alive l = false.
  Proof. induction 1; cbn; [reflexivity|]. subst. assumption. Qed.

  Lemma restP_heap_nontriv : forall l, triv = false -> Forall (restP P true) l -> Forall (fun c => c = Raw) l.
  Proof.
    intros l Ht H. eapply Forall_impl; [|exact H]. intros c Hc. unfold restP in Hc. rewrite Ht in Hc. exact Hc.
  Qed.

  Lemma restP_heap_triv : forall l, triv = true -> Forall (restP P true) l -> Forall alive l.
  Proof.
    intros l Ht H. eapply Forall_impl; [|exact H]. intros c Hc. unfold restP in Hc. rewrite Ht in Hc. exact Hc.
  Qed.

  (* ------------------------------------------------- representation *)
  (* s holds exactly the elements vs and is well formed *)
  Definition rep (s : sv) (vs : list V) : Prop :=
    length (loc s) = S /\ Forall alive (loc s) /\
    exists rest, data s = map AS vs ++ rest /\ length vs = size s /\
                 Forall (restP P (is_heap s)) rest /\ S <= capacity s.

  Lemma rep_inv : forall s vs, rep s vs -> sv_inv P s.
  Proof.
    intros s vs (Hl & Ha & rest & Hd & Hn & Hr & Hc).
    split; [assumption|]. split; [exact Ha|]. exists vs, rest. auto.
  Qed.

  Lemma rep_abs : forall s vs, rep s vs -> abs s = Some vs.
  Proof.
    intros s vs (Hl & Ha & rest & Hd & Hn & Hr & Hc).
    unfold abs, contents. rewrite Hd, <- Hn.
    pose proof (read_range_app vs [] rest 0 eq_refl) as H. cbn [app] in H. rewrite H. reflexivity.
  Qed.

  Lemma inv_rep : forall s, sv_inv P s -> exists vs, rep s vs.
  Proof.
    intros s (Hl & Ha & vs & rest & Hd & Hn & Hr & Hc).
    exists vs. split; [assumption|]. split; [exact Ha|]. exists rest. auto.
  Qed.

  Lemma rep_fun : forall s vs ws, rep s vs -> abs s = Some ws -> vs = ws.
  Proof. intros s vs ws H Hw. rewrite (rep_abs _ _ H) in Hw. congruence. Qed.

  Lemma rep_size : forall s vs, rep s vs -> size s = length vs.
  Proof. intros s vs (_ & _ & rest & _ & Hn & _). auto. Qed.

  Hypothesis S_pos : 1 <= S.

  Lemma rep_empty : rep (empty_sv P) [].
  Proof.
    unfold rep, empty_sv. cbn.
    split; [apply fresh_local_length|]. split; [apply fresh_local_alive|].
    exists (fresh_local P). repeat split.
    - apply fresh_local_alive.
    - unfold capacity. cbn. rewrite fresh_local_length. lia.
  Qed.

  Lemma init_inv : Inv P (init P).
  Proof. split; cbn; apply (rep_inv _ []), rep_empty. Qed.
End Proofs.
