(* C20 -- executable model of vita::small_vector<T,S>
   (src/utility/small_vector.h, small_vector.tcc), method by method, as
   sequences of primitive memory actions over cells.

   Element values are integers (the harness maps them to int / double /
   std::string / Tracked).  The element type enters through three parameters:
     triv : std::is_trivially_default_constructible_v<T>   (int, double)
     dflt : the value of T()                                (0)
     mv   : what a moved-from object holds afterwards       (int, double: the
            same value; std::string: ""; Tracked: -1)
   and the inline capacity through  S >= 1.

   cell  =  Alive (Some v)  a live object holding v
         |  Alive None      a live object of trivial type, content indeterminate
                            (untouched inline buffer / fresh heap block of a
                            small_vector<int,S>); reading it is ReadIndet
         |  Raw             storage without an object.
   For trivially constructible T every piece of storage counts as a live
   object (the library never constructs or destroys those explicitly), so
   [alloc] yields [Alive None] cells for them and [Raw] cells otherwise.

   Range loops are ELEMENT-WISE, in the direction the standard algorithm uses:
     write_range   std::copy / std::fill / uninitialized_copy / destroy_range
                   with values that do not live in the vector: cell b, b+1, ...
     xfer          std::copy / std::move / uninitialized_copy / uninitialized_move
                   from one block into another one (another vector, a new
                   heap block): element 0, 1, ... -- read, write, (move: leave
                   the source moved-from)
     move_fwd      std::move / uninitialized_move inside one block, first to last
     move_bwd      std::move_backward inside one block, last to first
   so overlapping ranges behave as the real loops do (a move assignment of an
   element onto itself leaves a moved-from object).
   The range operations of insert(i, b, e) are not written here: they are the
   lists that translate/smallvec_ops.py extracts from small_vector.tcc
   (Gen/SmallVecOps.v, regenerated on every check run) and that [interp_rcalls]
   executes.

   No proofs in this file. *)
From Coq Require Import ZArith List Bool Arith.
From VV Require Import SmallVec.SmallVecAst Gen.SmallVecOps.
Import ListNotations.

Inductive err :=
| DoubleConstruct | DestroyRaw | AssignRaw | ReadRaw | ReadIndet | Leak | BadRange.

Inductive res (A : Type) :=
| Ok (a : A)
| Err (e : err).
Arguments Ok {A} a.
Arguments Err {A} e.

Definition bind {A B} (r : res A) (f : A -> res B) : res B :=
  match r with Ok a => f a | Err e => Err e end.
Notation "x <- r ;; k" := (bind r (fun x => k)) (at level 61, r at next level, right associativity).
Notation "' p <- r ;; k" := (bind r (fun p => k)) (at level 61, p pattern, r at next level, right associativity).

Definition V := Z.

Inductive cell :=
| Alive (v : option V)
| Raw.

Definition AS (v : V) : cell := Alive (Some v).

Definition is_alive (c : cell) : bool := match c with Alive _ => true | Raw => false end.

Record sv := mkSv { heap : option (list cell); loc : list cell; size : nat }.

(* the two vectors of a script *)
Record state := mkSt { sa : sv; sb : sv }.

(* inline capacity and element type *)
(* peq / plt: the element type's operator== and operator< (on the integer codes
   of the values).  They are arbitrary: for double they are the IEEE comparisons
   (+0.0 == -0.0, NaN != NaN), not structural equality of the codes. *)
Record params := mkParams { pS : nat; ptriv : bool; pdflt : V; pmv : V -> V;
                            peq : V -> V -> bool; plt : V -> V -> bool }.

Section Model.
  Variable P : params.
  Local Notation S := (pS P).
  Local Notation triv := (ptriv P).
  Local Notation dflt := (pdflt P).
  Local Notation mv := (pmv P).

  (* ------------------------------------------------ per-cell actions *)
  Definition c_assign (c : cell) (v : V) : res cell :=
    match c with Alive _ => Ok (AS v) | Raw => Err AssignRaw end.

  Definition c_construct (c : cell) (v : V) : res cell :=
    match c with
    | Raw => Ok (AS v)
    | Alive _ => if triv then Ok (AS v) else Err DoubleConstruct
    end.

  Definition c_destroy (c : cell) (_ : V) : res cell :=
    match c with Alive _ => Ok Raw | Raw => Err DestroyRaw end.

  Definition c_read (c : cell) : res V :=
    match c with
    | Alive (Some v) => Ok v
    | Alive None => Err ReadIndet
    | Raw => Err ReadRaw
    end.

  (* ------------------------------------------------ range loops *)
  (* apply [w] to the cells [b, b + |vs|) with the values vs *)
  Fixpoint write_range (w : cell -> V -> res cell) (b : nat) (vs : list V) (blk : list cell)
    {struct blk} : res (list cell) :=
    match vs with
    | [] => Ok blk
    | v :: vs' =>
      match blk with
      | [] => Err BadRange
      | c :: blk' =>
        match b with
        | Datatypes.S b' => r <- write_range w b' vs blk' ;; Ok (c :: r)
        | O => c' <- w c v ;; r <- write_range w 0 vs' blk' ;; Ok (c' :: r)
        end
      end
    end.

  (* read the cells [b, b + n) *)
  Fixpoint read_range (b n : nat) (blk : list cell) {struct blk} : res (list V) :=
    match n with
    | O => Ok []
    | Datatypes.S n' =>
      match blk with
      | [] => Err BadRange
      | c :: blk' =>
        match b with
        | Datatypes.S b' => read_range b' n blk'
        | O => v <- c_read c ;; r <- read_range 0 n' blk' ;; Ok (v :: r)
        end
      end
    end.

  Definition get (i : nat) (blk : list cell) : res cell :=
    match nth_error blk i with Some c => Ok c | None => Err BadRange end.

  Fixpoint set (i : nat) (c : cell) (blk : list cell) {struct blk} : res (list cell) :=
    match blk with
    | [] => Err BadRange
    | x :: r =>
      match i with
      | O => Ok (c :: r)
      | Datatypes.S i' => r' <- set i' c r ;; Ok (x :: r')
      end
    end.

  (* move assignment (w = c_assign) / move construction by placement new
     (w = c_construct) of cell d from cell s inside one block: read s, write d,
     s is left moved-from (so s = d ends with a moved-from object) *)
  Definition move1 (w : cell -> V -> res cell) (s d : nat) (blk : list cell) : res (list cell) :=
    c <- get s blk ;;
    v <- c_read c ;;
    dc <- get d blk ;;
    dc' <- w dc v ;;
    blk1 <- set d dc' blk ;;
    set s (AS (mv v)) blk1.

  (* first to last: std::move(first, last, d_first), uninitialized_move *)
  Fixpoint move_fwd (w : cell -> V -> res cell) (s d n : nat) (blk : list cell) : res (list cell) :=
    match n with
    | O => Ok blk
    | Datatypes.S n' => blk' <- move1 w s d blk ;; move_fwd w (Datatypes.S s) (Datatypes.S d) n' blk'
    end.

  (* last to first: std::move_backward(first, last, d_last), d = d_last - n *)
  Fixpoint move_bwd (w : cell -> V -> res cell) (s d n : nat) (blk : list cell) : res (list cell) :=
    match n with
    | O => Ok blk
    | Datatypes.S n' => blk' <- move1 w (s + n') (d + n') blk ;; move_bwd w s d n' blk'
    end.

  (* n elements from the front of block src to the front of another block dst,
     element by element; moving = true leaves the sources moved-from *)
  Fixpoint xfer (w : cell -> V -> res cell) (moving : bool) (n : nat) (src dst : list cell)
    : res (list cell * list cell) :=
    match n with
    | O => Ok (src, dst)
    | Datatypes.S n' =>
      match src, dst with
      | c :: src', d :: dst' =>
        v <- c_read c ;;
        d' <- w d v ;;
        '(s2, d2) <- xfer w moving n' src' dst' ;;
        Ok ((if moving then AS (mv v) else c) :: s2, d' :: d2)
      | _, _ => Err BadRange
      end
    end.

  (* destroy_range(b, e): "for (; b != e; ++b) b->~T()".  With e < b the loop
     runs off the end of the block. *)
  Definition destroy_range (b e : nat) (blk : list cell) : res (list cell) :=
    if b <=? e then write_range c_destroy b (repeat dflt (e - b)) blk
    else write_range c_destroy b (repeat dflt (Datatypes.S (length blk - b))) blk.

  Definition alloc (n : nat) : list cell := repeat (if triv then Alive None else Raw) n.

  (* ::operator delete: every object of non-trivial type must be gone *)
  Definition free_block (blk : list cell) : res unit :=
    if triv then Ok tt else if existsb is_alive blk then Err Leak else Ok tt.

  (* T local_storage_[S] of a newly constructed small_vector *)
  Definition fresh_local : list cell := repeat (if triv then Alive None else AS dflt) S.

  (* ------------------------------------------------ accessors *)
  Definition is_heap (s : sv) : bool := match heap s with Some _ => true | None => false end.
  Definition data (s : sv) : list cell := match heap s with Some h => h | None => loc s end.
  Definition capacity (s : sv) : nat := length (data s).
  Definition set_data (s : sv) (d : list cell) (n : nat) : sv :=
    match heap s with
    | Some _ => mkSv (Some d) (loc s) n
    | None => mkSv None d n
    end.
  (* "if (local_storage_used()) assign else placement-new" *)
  Definition put (s : sv) : cell -> V -> res cell := if is_heap s then c_construct else c_assign.

  (* ------------------------------------------------ private helpers *)
  (* free_heap_memory(); afterwards data_ dangles (modelled: no heap block) *)
  Definition free_heap_memory (s : sv) : res sv :=
    match heap s with
    | None => Err BadRange
    | Some h =>
      h1 <- (if triv then Ok h else destroy_range 0 (size s) h) ;;
      _ <- free_block h1 ;;
      Ok (mkSv None (loc s) 0)
    end.

  (* grow(n) *)
  Definition grow_ref (n : nat) (s : sv) : res sv :=
    (* vita::uninitialized_move(begin(), end(), new_data) *)
    '(d', new') <- xfer c_construct true (size s) (data s) (alloc n) ;;
    s1 <- (if is_heap s then free_heap_memory (set_data s d' (size s)) else Ok (set_data s d' (size s))) ;;
    Ok (mkSv (Some new') (loc s1) (size s)).

  (* grow() *)
  Definition grow1_ref (s : sv) : res sv :=
    let n_old := size s in
    grow_ref (if 1 <? n_old then (3 * n_old) / 2 else n_old + 1) s.

  Definition reserve_ref (n : nat) (s : sv) : res sv :=
    if capacity s <? n then grow_ref n s else Ok s.

  (* ------------------------------------------------ constructors *)
  (* shared tail of the constructors: n elements vs written into new storage *)
  Definition build (vs : list V) : res sv :=
    let n := length vs in
    if n <=? S then
      l <- write_range c_assign 0 vs fresh_local ;; Ok (mkSv None l n)
    else
      h <- write_range c_construct 0 vs (alloc n) ;; Ok (mkSv (Some h) fresh_local n).

  (* small_vector(size_type n)  -- repaired *)
  Definition ctor_n_ref (n : nat) : res sv :=
    if n <=? S then
      l <- (if triv then write_range c_assign 0 (repeat dflt n) fresh_local else Ok fresh_local) ;;
      Ok (mkSv None l n)
    else
      h <- write_range c_construct 0 (repeat dflt n) (alloc n) ;;
      Ok (mkSv (Some h) fresh_local n).

  (* small_vector(size_type n, const T &x) *)
  Definition ctor_fill_ref (n : nat) (x : V) : res sv := build (repeat x n).

  (* small_vector(std::initializer_list<T>) *)
  Definition ctor_list (l : list V) : res sv := build l.

  (* small_vector(const small_vector &) *)
  Definition copy_ctor (rhs : sv) : res sv :=
    let n := size rhs in
    if n <=? S then
      (* std::copy(v.begin(), v.end(), begin()) *)
      '(_, l) <- xfer c_assign false n (data rhs) fresh_local ;; Ok (mkSv None l n)
    else
      (* vita::uninitialized_copy(v.begin(), v.end(), data_) *)
      '(_, h) <- xfer c_construct false n (data rhs) (alloc n) ;; Ok (mkSv (Some h) fresh_local n).

  (* small_vector(small_vector &&): returns (new object, rhs afterwards) *)
  Definition move_ctor_ref (rhs : sv) : res (sv * sv) :=
    let n := size rhs in
    if n <=? S then
      (* std::move(rhs.begin(), rhs.end(), begin()) *)
      '(d', l) <- xfer c_assign true n (data rhs) fresh_local ;;
      Ok (mkSv None l n, set_data rhs d' n)
    else
      match heap rhs with
      | Some h => Ok (mkSv (Some h) fresh_local n, mkSv None (loc rhs) 0)
      | None => Err BadRange
      end.

  (* ------------------------------------------------ assignment *)
  (* operator=(const small_vector &), this != &rhs  -- repaired *)
  Definition copy_assign_ref (this rhs : sv) : res sv :=
    let n := size rhs in
    if capacity this <? n then
      this1 <- (if is_heap this then free_heap_memory this else Ok this) ;;
      (* vita::uninitialized_copy(rhs.begin(), rhs.end(), begin()) *)
      '(_, h) <- xfer c_construct false n (data rhs) (alloc n) ;;
      Ok (mkSv (Some h) (loc this1) n)
    else
      d1 <- (if negb triv && is_heap this then
               if n <? size this then destroy_range n (size this) (data this)
               else write_range c_construct (size this) (repeat dflt (n - size this)) (data this)
             else Ok (data this)) ;;
      (* std::copy(rhs.begin(), rhs.end(), begin()) *)
      '(_, d2) <- xfer c_assign false n (data rhs) d1 ;;
      Ok (set_data this d2 n).

  (* operator=(small_vector &&), this != &rhs: (this, rhs) afterwards *)
  Definition move_assign_ref (this rhs : sv) : res (sv * sv) :=
    let n := size rhs in
    this1 <- (if is_heap this then free_heap_memory this else Ok this) ;;
    if n <=? S then
      (* std::move(rhs.begin(), rhs.end(), begin()) *)
      '(d', l) <- xfer c_assign true n (data rhs) (loc this1) ;;
      Ok (mkSv None l n, set_data rhs d' n)
    else
      match heap rhs with
      | Some h => Ok (mkSv (Some h) (loc this1) n, mkSv None (loc rhs) 0)
      | None => Err BadRange
      end.

  (* ------------------------------------------------ modifiers *)
  Definition clear (s : sv) : res sv :=
    s1 <- (if is_heap s then free_heap_memory s else Ok s) ;;
    Ok (mkSv None (loc s1) 0).

  (* push_back_ref(const T &x), x not an element of the vector  -- repaired
     (the temporary copy of x is not a cell of the model) *)
  Definition push_back_ref (x : V) (s : sv) : res sv :=
    if size s =? capacity s then
      s1 <- grow1_ref s ;;
      d <- write_range c_construct (size s1) [x] (data s1) ;;
      Ok (set_data s1 d (Datatypes.S (size s1)))
    else
      d <- write_range (put s) (size s) [x] (data s) ;;
      Ok (set_data s d (Datatypes.S (size s))).

  (* push_back_ref(v[i])  -- repaired: the element is copied first *)
  Definition push_back_self_ref (i : nat) (s : sv) : res sv :=
    vs <- read_range i 1 (data s) ;;
    match vs with
    | [x] => push_back_ref x s
    | _ => Err BadRange
    end.

  (* emplace_back_ref(args...): T(args...) is built as a temporary and
     move-assigned / move-constructed into place: same cell actions *)
  Definition emplace_back_ref (x : V) (s : sv) : res sv := push_back_ref x s.

  (* emplace_back_ref(v[i])  -- repaired: T tmp(v[i]) is built first *)
  Definition emplace_back_self_ref (i : nat) (s : sv) : res sv := push_back_self_ref i s.

  (* append_ref(b, e) (private), range not aliasing the vector; returns the index
     of the iterator it returns  -- repaired *)
  Definition append_ref (vs : list V) (s : sv) : res (sv * nat) :=
    let n := length vs in
    let old_size := size s in
    s1 <- reserve_ref (size s + n) s ;;
    d <- write_range (put s1) (size s1) vs (data s1) ;;
    Ok (set_data s1 d (size s1 + n), old_size).

  (* by_storage: the writer chosen by local_storage_used() *)
  Definition sel (by_storage : cell -> V -> res cell) (w : wsel) : cell -> V -> res cell :=
    match w with WAssign => c_assign | WConstruct => c_construct | WByStorage => by_storage end.

  (* ================================================================
     Interpreter of the programs extracted from small_vector.tcc
     (Gen/SmallVecOps.v, [progs_gen]).  Continuation-passing: the actions of a
     program run in source order on an environment; the methods below are the
     interpretations of the extracted programs, so the model follows the
     source.  The *_ref definitions above are what the programs of the
     current source mean (SmallVecProofs: *_interp lemmas); the theorems are
     proved about them. *)
  Inductive argv :=
  | ArgVal (x : V)          (* a value that does not live in the vector *)
  | ArgSelf (i : nat)       (* a reference to element i of this vector *)
  | ArgLocal (i : nat)      (* ... which now designates a moved-from object of the local storage *)
  | ArgFreed.               (* ... which now designates released memory *)

  Record env := mkEnv {
    e_this : sv; e_rhs : sv; e_nn : nat; e_nold : nat; e_oldsize : nat; e_saved : bool;
    e_arg : argv; e_tmp : option V; e_newd : list cell; e_vals : list V }.

  Definition with_this (e : env) (s : sv) : env :=
    mkEnv s (e_rhs e) (e_nn e) (e_nold e) (e_oldsize e) (e_saved e) (e_arg e) (e_tmp e) (e_newd e) (e_vals e).
  Definition with_rhs (e : env) (s : sv) : env :=
    mkEnv (e_this e) s (e_nn e) (e_nold e) (e_oldsize e) (e_saved e) (e_arg e) (e_tmp e) (e_newd e) (e_vals e).
  Definition with_n (e : env) (n : nat) : env :=
    mkEnv (e_this e) (e_rhs e) n (e_nold e) (e_oldsize e) (e_saved e) (e_arg e) (e_tmp e) (e_newd e) (e_vals e).
  Definition with_arg (e : env) (a : argv) : env :=
    mkEnv (e_this e) (e_rhs e) (e_nn e) (e_nold e) (e_oldsize e) (e_saved e) a (e_tmp e) (e_newd e) (e_vals e).
  Definition with_size (s : sv) (n : nat) : sv := mkSv (heap s) (loc s) n.

  Fixpoint eval_nexp (e : env) (x : nexp) : nat :=
    match x with
    | EN => e_nn e
    | ENOld => e_nold e
    | ESize => size (e_this e)
    | ECap => capacity (e_this e)
    | ERhsSize => size (e_rhs e)
    | ECapS => S
    | EConst k => k
    | EAdd a b => eval_nexp e a + eval_nexp e b
    | EMul a b => eval_nexp e a * eval_nexp e b
    | EDiv a b => eval_nexp e a / eval_nexp e b
    | EMax a b => Nat.max (eval_nexp e a) (eval_nexp e b)
    | EIfGt a b t f => if eval_nexp e b <? eval_nexp e a then eval_nexp e t else eval_nexp e f
    end.

  Definition eval_cond (e : env) (c : cond) : bool :=
    match c with
    | CLe a b => eval_nexp e a <=? eval_nexp e b
    | CLt a b => eval_nexp e a <? eval_nexp e b
    | CEq a b => eval_nexp e a =? eval_nexp e b
    | CLocal => negb (is_heap (e_this e))
    | CHeap => is_heap (e_this e)
    | CTrivial => triv
    | CNonTrivial => negb triv
    | CSavedLocal => e_saved e
    end.

  (* the value of the argument x / args... at this moment *)
  Definition use_arg {A} (e : env) (k : V -> res A) : res A :=
    match e_arg e with
    | ArgVal x => k x
    | ArgSelf i => vs <- read_range i 1 (data (e_this e)) ;; match vs with [x] => k x | _ => Err BadRange end
    | ArgLocal i => vs <- read_range i 1 (loc (e_this e)) ;; match vs with [x] => k x | _ => Err BadRange end
    | ArgFreed => Err ReadRaw
    end.

  (* after grow(): a reference to an element designates the old storage *)
  Definition dangle (was_heap : bool) (a : argv) : argv :=
    match a with ArgSelf i => if was_heap then ArgFreed else ArgLocal i | _ => a end.

  Record callees := mkCallees {
    cs_grow : sv -> res sv; cs_grow_n : nat -> sv -> res sv; cs_reserve : nat -> sv -> res sv }.
  Definition no_calls : callees :=
    mkCallees (fun _ => Err BadRange) (fun _ _ => Err BadRange) (fun _ _ => Err BadRange).

  Definition exec_act {A} (cs : callees) (a : act) (e : env) (k : env -> res A) : res A :=
    let this := e_this e in
    let rhs := e_rhs e in
    let n := e_nn e in
    match a with
    | ALetN x => k (with_n e (eval_nexp e x))
    | ALetNVals => k (with_n e (length (e_vals e)))
    | ALetNOld => k (mkEnv this rhs n (size this) (e_oldsize e) (e_saved e) (e_arg e) (e_tmp e) (e_newd e) (e_vals e))
    | ALetOldSize => k (mkEnv this rhs n (e_nold e) (size this) (e_saved e) (e_arg e) (e_tmp e) (e_newd e) (e_vals e))
    | ASaveLocal => k (mkEnv this rhs n (e_nold e) (e_oldsize e) (negb (is_heap this)) (e_arg e) (e_tmp e) (e_newd e) (e_vals e))
    | ASetLocal x => k (with_this e (mkSv None (loc this) (eval_nexp e x)))
    | ASetHeapNew => k (with_this e (mkSv (Some (alloc n)) (loc this) n))
    | AStealRhs =>
      match heap rhs with
      | Some h => k (with_rhs (with_this e (mkSv (Some h) (loc this) (size rhs))) (mkSv None (loc rhs) 0))
      | None => Err BadRange
      end
    | ASetSize x => k (with_this e (with_size this (eval_nexp e x)))
    | AIncSize => k (with_this e (with_size this (Datatypes.S (size this))))
    | AAddSizeN => k (with_this e (with_size this (size this + n)))
    | ARhsSetSize0 => k (with_rhs e (with_size rhs 0))
    | AFreeHeap => s' <- free_heap_memory this ;; k (with_this e s')
    | AFromRhs moving w =>
      '(d', l) <- xfer (sel (put this) w) moving (size rhs) (data rhs) (data this) ;;
      k (with_rhs (with_this e (set_data this l (size this))) (set_data rhs d' (size rhs)))
    | ADestroyTail =>
      d <- destroy_range n (size this) (data this) ;; k (with_this e (set_data this d (size this)))
    | AConstructUpToN =>
      d <- write_range c_construct (size this) (repeat dflt (n - size this)) (data this) ;;
      k (with_this e (set_data this d (size this)))
    | AFillTailDefault =>
      d <- write_range c_assign (size this) (repeat dflt (n - size this)) (data this) ;;
      k (with_this e (set_data this d (size this)))
    | AFillNDefault =>
      d <- write_range c_assign 0 (repeat dflt n) (data this) ;; k (with_this e (set_data this d (size this)))
    | AFillNArg =>
      use_arg e (fun x => d <- write_range c_assign 0 (repeat x n) (data this) ;;
                          k (with_this e (set_data this d (size this))))
    | AConstructAllDefault =>
      d <- write_range c_construct 0 (repeat dflt n) (data this) ;; k (with_this e (set_data this d (size this)))
    | AConstructAllArg =>
      use_arg e (fun x => d <- write_range c_construct 0 (repeat x n) (data this) ;;
                          k (with_this e (set_data this d (size this))))
    | AConstructToCap =>
      d <- write_range c_construct (size this) (repeat dflt (capacity this - size this)) (data this) ;;
      k (with_this e (set_data this d (capacity this)))
    | ATmpFromArg =>
      use_arg e (fun x => k (mkEnv this rhs n (e_nold e) (e_oldsize e) (e_saved e) (e_arg e) (Some x) (e_newd e) (e_vals e)))
    | AConstructEndTmp =>
      match e_tmp e with
      | Some x => d <- write_range c_construct (size this) [x] (data this) ;;
                  k (with_this e (set_data this d (size this)))
      | None => Err BadRange
      end
    | AAssignEndArg =>
      use_arg e (fun x => d <- write_range c_assign (size this) [x] (data this) ;;
                          k (with_this e (set_data this d (size this))))
    | AConstructEndArg =>
      use_arg e (fun x => d <- write_range c_construct (size this) [x] (data this) ;;
                          k (with_this e (set_data this d (size this))))
    | ANewData => k (mkEnv this rhs n (e_nold e) (e_oldsize e) (e_saved e) (e_arg e) (e_tmp e) (alloc n) (e_vals e))
    | AMoveToNewData =>
      '(d', new') <- xfer c_construct true (size this) (data this) (e_newd e) ;;
      k (mkEnv (set_data this d' (size this)) rhs n (e_nold e) (e_oldsize e) (e_saved e) (e_arg e) (e_tmp e) new' (e_vals e))
    | AAdoptNewData => k (with_this e (mkSv (Some (e_newd e)) (loc this) (e_nold e)))
    | ACallGrow => s' <- cs_grow cs this ;; k (with_arg (with_this e s') (dangle (is_heap this) (e_arg e)))
    | ACallGrowN => s' <- cs_grow_n cs n this ;; k (with_arg (with_this e s') (dangle (is_heap this) (e_arg e)))
    | ACallReserve x => s' <- cs_reserve cs (eval_nexp e x) this ;; k (with_this e s')
    | AWriteVals w =>
      d <- write_range (sel (put this) w) (size this) (e_vals e) (data this) ;;
      k (with_this e (set_data this d (size this)))
    end.

  Fixpoint exec {A} (cs : callees) (p : prog) (e : env) (k : env -> res A) : res A :=
    match p with
    | PNil => k e
    | PAct a r => exec_act cs a e (fun e' => exec cs r e' k)
    | PIf c t f r =>
      if eval_cond e c then exec cs t e (fun e' => exec cs r e' k)
      else exec cs f e (fun e' => exec cs r e' k)
    end.

  Definition env0 (this rhs : sv) (n : nat) (a : argv) (vals : list V) : env :=
    mkEnv this rhs n 0 0 false a None [] vals.

  (* the methods of a given set of programs *)
  Section WithProgs.
    Variable G : progs.

    Definition grow_of (n : nat) (s : sv) : res sv :=
      exec no_calls (p_grow_n G) (env0 s s n (ArgVal dflt) []) (fun e => Ok (e_this e)).
    Definition calls1 : callees := mkCallees (fun _ => Err BadRange) grow_of (fun _ _ => Err BadRange).
    Definition grow1_of (s : sv) : res sv :=
      exec calls1 (p_grow G) (env0 s s 0 (ArgVal dflt) []) (fun e => Ok (e_this e)).
    Definition reserve_of (n : nat) (s : sv) : res sv :=
      exec calls1 (p_reserve G) (env0 s s n (ArgVal dflt) []) (fun e => Ok (e_this e)).
    Definition calls2 : callees := mkCallees grow1_of grow_of reserve_of.

    Definition resize_of (n : nat) (s : sv) : res sv :=
      exec calls2 (p_resize G) (env0 s s n (ArgVal dflt) []) (fun e => Ok (e_this e)).
    Definition push_back_of (a : argv) (s : sv) : res sv :=
      exec calls2 (p_push_back G) (env0 s s 0 a []) (fun e => Ok (e_this e)).
    Definition emplace_back_of (a : argv) (s : sv) : res sv :=
      exec calls2 (p_emplace_back G) (env0 s s 0 a []) (fun e => Ok (e_this e)).
    Definition append_of (vs : list V) (s : sv) : res (sv * nat) :=
      exec calls2 (p_append G) (env0 s s 0 (ArgVal dflt) vs) (fun e => Ok (e_this e, e_oldsize e)).
    Definition copy_assign_of (this rhs : sv) : res sv :=
      exec calls2 (p_copy_assign G) (env0 this rhs 0 (ArgVal dflt) []) (fun e => Ok (e_this e)).
    Definition move_assign_of (this rhs : sv) : res (sv * sv) :=
      exec calls2 (p_move_assign G) (env0 this rhs 0 (ArgVal dflt) []) (fun e => Ok (e_this e, e_rhs e)).
    (* constructors start from a new object: local storage default-initialised *)
    Definition move_ctor_of (rhs : sv) : res (sv * sv) :=
      exec calls2 (p_move_ctor G) (env0 (mkSv None fresh_local 0) rhs 0 (ArgVal dflt) [])
           (fun e => Ok (e_this e, e_rhs e)).
    Definition ctor_n_of (n : nat) : res sv :=
      exec calls2 (p_ctor_n G) (env0 (mkSv None fresh_local 0) (mkSv None fresh_local 0) n (ArgVal dflt) [])
           (fun e => Ok (e_this e)).
    Definition ctor_fill_of (n : nat) (x : V) : res sv :=
      exec calls2 (p_ctor_fill G) (env0 (mkSv None fresh_local 0) (mkSv None fresh_local 0) n (ArgVal x) [])
           (fun e => Ok (e_this e)).
  End WithProgs.

  (* the methods of the current source *)
  Definition grow := grow_of progs_gen.
  Definition grow1 := grow1_of progs_gen.
  Definition reserve := reserve_of progs_gen.
  Definition resize := resize_of progs_gen.
  Definition push_back (x : V) := push_back_of progs_gen (ArgVal x).
  Definition push_back_self (i : nat) := push_back_of progs_gen (ArgSelf i).
  Definition emplace_back (x : V) := emplace_back_of progs_gen (ArgVal x).
  Definition emplace_back_self (i : nat) := emplace_back_of progs_gen (ArgSelf i).
  Definition append := append_of progs_gen.
  Definition copy_assign := copy_assign_of progs_gen.
  Definition move_assign := move_assign_of progs_gen.
  Definition move_ctor := move_ctor_of progs_gen.
  Definition ctor_n := ctor_n_of progs_gen.
  Definition ctor_fill := ctor_fill_of progs_gen.

  (* ---- insert(i, b, e): interpreter of the extracted range operations ---- *)
  (* environment of one branch: insertion index, end() at the start of the
     branch, number of inserted elements *)
  Record ienv := mkIenv { e_pos : nat; e_old_end : nat; e_n : nat }.

  Definition eval_num (en : ienv) (k : num) : nat :=
    match k with Nn => e_n en | Noverwritten => e_old_end en - e_pos en end.

  Fixpoint eval_ptr (en : ienv) (cur_end : nat) (p : ptr) : nat :=
    match p with
    | PI => e_pos en
    | PEnd => cur_end
    | POldEnd => e_old_end en
    | PPlus q k => eval_ptr en cur_end q + eval_num en k
    | PMinus q k => eval_ptr en cur_end q - eval_num en k
    end.

  (* state: block, current end() index, what is left of the inserted range *)
  Definition interp_rcall (by_storage : cell -> V -> res cell) (en : ienv) (c : rcall)
             (st : list cell * nat * list V) : res (list cell * nat * list V) :=
    let '(blk, cur, rem) := st in
    match c with
    | RAppendMoved b e =>
      (* append of a moved range of the vector itself: the capacity has been
         reserved; assign (local storage) or construct behind end() *)
      let sb := eval_ptr en cur b in
      let cnt := eval_ptr en cur e - sb in
      blk' <- move_fwd by_storage sb cur cnt blk ;; Ok (blk', cur + cnt, rem)
    | RMove Fwd w b e dst =>
      let sb := eval_ptr en cur b in
      blk' <- move_fwd (sel by_storage w) sb (eval_ptr en cur dst) (eval_ptr en cur e - sb) blk ;;
      Ok (blk', cur, rem)
    | RMove Bwd w b e dst =>
      let sb := eval_ptr en cur b in
      let cnt := eval_ptr en cur e - sb in
      blk' <- move_bwd (sel by_storage w) sb (eval_ptr en cur dst - cnt) cnt blk ;;
      Ok (blk', cur, rem)
    | RCopyIn w dst =>
      blk' <- write_range (sel by_storage w) (eval_ptr en cur dst) rem blk ;; Ok (blk', cur, [])
    | ROverwrite =>
      let ow := eval_num en Noverwritten in
      blk' <- write_range c_assign (e_pos en) (firstn ow rem) blk ;; Ok (blk', cur, skipn ow rem)
    | RSizeAdd => Ok (blk, cur + e_n en, rem)
    end.

  Fixpoint interp_rcalls (by_storage : cell -> V -> res cell) (en : ienv) (cs : list rcall)
           (st : list cell * nat * list V) : res (list cell * nat * list V) :=
    match cs with
    | [] => Ok st
    | c :: cs' => st' <- interp_rcall by_storage en c st ;; interp_rcalls by_storage en cs' st'
    end.

  Definition has_guard (g : iguard) (gs : list iguard) : bool :=
    existsb (fun x => match x, g with
                      | IGAppendAtEnd, IGAppendAtEnd => true
                      | IGReturnIfEmpty, IGReturnIfEmpty => true
                      | _, _ => false end) gs.

  (* insert(i, b, e) for a given extracted shape; range not aliasing the vector *)
  Definition insert_with (sh : insert_shape) (by_storage_of : sv -> cell -> V -> res cell)
             (reserve_f : nat -> sv -> res sv) (append_f : list V -> sv -> res (sv * nat))
             (pos : nat) (vs : list V) (s : sv) : res (sv * nat) :=
    if size s <? pos then Err BadRange
    else if has_guard IGAppendAtEnd (ins_guards sh) && (pos =? size s) then append_f vs s
    else
      let n := length vs in
      if has_guard IGReturnIfEmpty (ins_guards sh) && (n =? 0) then Ok (s, pos)
      else
        s1 <- reserve_f (size s + n) s ;;
        let sz := size s1 in
        let en := mkIenv pos sz n in
        let simple := match ins_cond sh with ICondTailAtLeastN => pos + n <=? sz | ICondOther => false end in
        '(d, cur, _) <- interp_rcalls (by_storage_of s1) en
                          (if simple then ins_simple sh else ins_over sh) (data s1, sz, vs) ;;
        Ok (set_data s1 d cur, pos).

  (* insert(i, b, e) of the current source  -- repaired *)
  Definition insert (pos : nat) (vs : list V) (s : sv) : res (sv * nat) :=
    insert_with insert_shape_gen put reserve append pos vs s.

  (* resize_ref(n)  -- repaired *)
  Definition resize_ref (n : nat) (s : sv) : res sv :=
    if n <=? capacity s then
      d <- (if negb triv then
              if is_heap s then
                if n <? size s then destroy_range n (size s) (data s)
                else write_range c_construct (size s) (repeat dflt (n - size s)) (data s)
              else
                if size s <=? n then write_range c_assign (size s) (repeat dflt (n - size s)) (data s)
                else Ok (data s)
            else
              if size s <? n then write_range c_assign (size s) (repeat dflt (n - size s)) (data s)
              else Ok (data s)) ;;
      Ok (set_data s d n)
    else
      s1 <- grow_ref n s ;;
      (* for (; size_ < capacity_; ++size_) new (size_) T(); *)
      d <- write_range c_construct (size s1) (repeat dflt (capacity s1 - size s1)) (data s1) ;;
      Ok (set_data s1 d (capacity s1)).

  (* v[i] = x *)
  Definition set_at (i : nat) (x : V) (s : sv) : res sv :=
    if i <? size s then
      d <- write_range c_assign i [x] (data s) ;; Ok (set_data s d (size s))
    else Err BadRange.

  (* ~small_vector(): returns the number of element destructor calls *)
  Definition destroy_sv (s : sv) : res nat :=
    s1 <- (if is_heap s then free_heap_memory s else Ok s) ;;
    if triv then Ok 0
    else
      _ <- destroy_range 0 S (loc s1) ;;
      Ok ((if is_heap s then size s else 0) + S).

  (* ------------------------------------------------ observers *)
  Definition contents (s : sv) : res (list V) := read_range 0 (size s) (data s).

  (* std::equal on ranges of equal length: the element operator== pointwise *)
  Fixpoint list_eqb (eq : V -> V -> bool) (xs ys : list V) : bool :=
    match xs, ys with
    | [], [] => true
    | x :: xs', y :: ys' => eq x y && list_eqb eq xs' ys'
    | _, _ => false
    end.

  (* std::lexicographical_compare with the element operator< *)
  Fixpoint lex_ltb (lt : V -> V -> bool) (xs ys : list V) : bool :=
    match xs, ys with
    | _, [] => false
    | [], _ :: _ => true
    | x :: xs', y :: ys' => if lt x y then true else if lt y x then false else lex_ltb lt xs' ys'
    end.

  (* operator== : size comparison, then std::equal *)
  Definition sv_eq (a b : sv) : res bool :=
    if size a =? size b then
      xs <- contents a ;; ys <- contents b ;; Ok (list_eqb (peq P) xs ys)
    else Ok false.

  (* operator< ; the other four are defined from these two in the source:
     a != b is !(a == b), a > b is b < a, a >= b is !(a < b), a <= b is !(a > b) *)
  Definition sv_lt (a b : sv) : res bool :=
    xs <- contents a ;; ys <- contents b ;; Ok (lex_ltb (plt P) xs ys).

  (* live objects of non-trivial type owned by a vector *)
  Definition live_count (s : sv) : nat :=
    if triv then 0
    else length (filter is_alive (loc s))
         + match heap s with Some h => length (filter is_alive h) | None => 0 end.

  (* ------------------------------------------------ scripts *)
  Inductive op :=
  | CtorN (t : bool) (n : nat)
  | CtorFill (t : bool) (n : nat) (x : V)
  | CtorList (t : bool) (l : list V)
  | CopyCtor (t : bool)
  | MoveCtor (t : bool)
  | CopyAssign (t : bool)
  | MoveAssign (t : bool)
  | SelfAssign (t : bool)
  | Clear (t : bool)
  | PushBack (t : bool) (x : V)
  | PushBackSelf (t : bool) (i : nat)
  | EmplaceBack (t : bool) (x : V)
  | EmplaceBackSelf (t : bool) (i : nat)
  | Insert (t : bool) (pos : nat) (l : list V)
  | Resize (t : bool) (n : nat)
  | Reserve (t : bool) (n : nat)
  | SetAt (t : bool) (i : nat) (x : V).

  (* t = false: slot a is the target and slot b "the other" *)
  Definition target (t : bool) (st : state) : sv := if t then sb st else sa st.
  Definition other (t : bool) (st : state) : sv := if t then sa st else sb st.
  Definition mk_state (t : bool) (tgt oth : sv) : state := if t then mkSt oth tgt else mkSt tgt oth.

  (* "destroy slot t, construct a new object in its place" *)
  Definition reconstruct (t : bool) (st : state) (c : res sv) : res (state * option nat) :=
    _ <- destroy_sv (target t st) ;;
    s <- c ;;
    Ok (mk_state t s (other t st), None).

  Definition upd (t : bool) (st : state) (c : res sv) : res (state * option nat) :=
    s <- c ;; Ok (mk_state t s (other t st), None).

  Definition step (o : op) (st : state) : res (state * option nat) :=
    match o with
    | CtorN t n => reconstruct t st (ctor_n n)
    | CtorFill t n x => reconstruct t st (ctor_fill n x)
    | CtorList t l => reconstruct t st (ctor_list l)
    | CopyCtor t => reconstruct t st (copy_ctor (other t st))
    | MoveCtor t =>
      _ <- destroy_sv (target t st) ;;
      '(s, r) <- move_ctor (other t st) ;;
      Ok (mk_state t s r, None)
    | CopyAssign t => upd t st (copy_assign (target t st) (other t st))
    | MoveAssign t =>
      '(s, r) <- move_assign (target t st) (other t st) ;;
      Ok (mk_state t s r, None)
    | SelfAssign t => Ok (st, None)           (* this == &rhs: nothing happens *)
    | Clear t => upd t st (clear (target t st))
    | PushBack t x => upd t st (push_back x (target t st))
    | PushBackSelf t i => upd t st (push_back_self i (target t st))
    | EmplaceBack t x => upd t st (emplace_back x (target t st))
    | EmplaceBackSelf t i => upd t st (emplace_back_self i (target t st))
    | Insert t pos l =>
      '(s, r) <- insert pos l (target t st) ;;
      Ok (mk_state t s (other t st), Some r)
    | Resize t n => upd t st (resize n (target t st))
    | Reserve t n => upd t st (reserve n (target t st))
    | SetAt t i x => upd t st (set_at i x (target t st))
    end.

  (* small_vector<T,S> a, b; *)
  Definition empty_sv : sv := mkSv None fresh_local 0.
  Definition init : state := mkSt empty_sv empty_sv.

  (* end of the script: both objects are destroyed *)
  Definition finish (st : state) : res nat :=
    na <- destroy_sv (sa st) ;; nb <- destroy_sv (sb st) ;; Ok (na + nb).

  (* ------------------------------------------------ the std::vector side *)
  (* abstract value of a vector: None when some element below size() cannot be
     read *)
  Definition abs (s : sv) : option (list V) :=
    match contents s with Ok l => Some l | Err _ => None end.

  (* arguments the C++ interface requires (positions inside the vector).  The
     range given to insert is a list of values: as for std::vector
     ([sequence.reqmts]: i and j are not iterators into a) it must not alias the
     vector; push_back(v[i]) and emplace_back(v[i]) are legal and are ops of
     their own *)
  Definition valid_op (o : op) (tgt : list V) : Prop :=
    match o with
    | PushBackSelf _ i => i < length tgt
    | EmplaceBackSelf _ i => i < length tgt
    | Insert _ pos _ => pos <= length tgt
    | SetAt _ i _ => i < length tgt
    | _ => True
    end.

  Definition valid_op_b (o : op) (tgt : list V) : bool :=
    match o with
    | PushBackSelf _ i => i <? length tgt
    | EmplaceBackSelf _ i => i <? length tgt
    | Insert _ pos _ => pos <=? length tgt
    | SetAt _ i _ => i <? length tgt
    | _ => true
    end.

  Definition op_target (o : op) : bool :=
    match o with
    | CtorN t _ | CtorFill t _ _ | CtorList t _ | CopyCtor t | MoveCtor t | CopyAssign t
    | MoveAssign t | SelfAssign t | Clear t | PushBack t _ | PushBackSelf t _ | EmplaceBack t _
    | EmplaceBackSelf t _
    | Insert t _ _ | Resize t _ | Reserve t _ | SetAt t _ _ => t
    end.

  (* what std::vector<T> does: new value of the target; new value of the other
     vector (None = valid but unspecified, after it has been moved from);
     returned iterator index *)
  Definition spec_step (o : op) (tgt oth : list V) : list V * option (list V) * option nat :=
    match o with
    | CtorN _ n => (repeat dflt n, Some oth, None)
    | CtorFill _ n x => (repeat x n, Some oth, None)
    | CtorList _ l => (l, Some oth, None)
    | CopyCtor _ => (oth, Some oth, None)
    | MoveCtor _ => (oth, None, None)
    | CopyAssign _ => (oth, Some oth, None)
    | MoveAssign _ => (oth, None, None)
    | SelfAssign _ => (tgt, Some oth, None)
    | Clear _ => ([], Some oth, None)
    | PushBack _ x => (tgt ++ [x], Some oth, None)
    | PushBackSelf _ i => (tgt ++ [nth i tgt dflt], Some oth, None)
    | EmplaceBack _ x => (tgt ++ [x], Some oth, None)
    | EmplaceBackSelf _ i => (tgt ++ [nth i tgt dflt], Some oth, None)
    | Insert _ pos l => (firstn pos tgt ++ l ++ skipn pos tgt, Some oth, Some pos)
    | Resize _ n => (firstn n tgt ++ repeat dflt (n - length tgt), Some oth, None)
    | Reserve _ _ => (tgt, Some oth, None)
    | SetAt _ i x => (firstn i tgt ++ x :: skipn (Datatypes.S i) tgt, Some oth, None)
    end.

  (* the model state st' / output r after op o agrees with std::vector *)
  Definition spec_ok (o : op) (st st' : state) (r : option nat) : Prop :=
    let t := op_target o in
    exists tgt oth,
      abs (target t st) = Some tgt /\ abs (other t st) = Some oth /\
      let '(tgt', oth', r') := spec_step o tgt oth in
      abs (target t st') = Some tgt' /\
      (match oth' with Some l => abs (other t st') = Some l | None => exists l, abs (other t st') = Some l end) /\
      r = r'.

  (* ------------------------------------------------ the invariant *)
  (* storage beyond size(): unconstructed in a heap block of non-trivial
     elements, live objects otherwise (inline buffer; trivial elements) *)
  Definition restP (on_heap : bool) (c : cell) : Prop :=
    if on_heap && negb triv then c = Raw else is_alive c = true.

  Definition sv_inv (s : sv) : Prop :=
    length (loc s) = S /\
    Forall (fun c => is_alive c = true) (loc s) /\
    exists vs rest,
      data s = map AS vs ++ rest /\ length vs = size s /\
      Forall (restP (is_heap s)) rest /\ S <= capacity s.

  Definition Inv (st : state) : Prop := sv_inv (sa st) /\ sv_inv (sb st).

  (* ------------------------------------------------ running a script *)
  Inductive outcome :=
  | Finished (trace : list (state * option nat)) (destroyed : nat)
  | Failed (trace : list (state * option nat)) (e : err)
  | Invalid (trace : list (state * option nat)).    (* the script breaks a precondition *)

  Definition cons_trace (x : state * option nat) (o : outcome) : outcome :=
    match o with
    | Finished tr d => Finished (x :: tr) d
    | Failed tr e => Failed (x :: tr) e
    | Invalid tr => Invalid (x :: tr)
    end.

  Fixpoint run (ops : list op) (st : state) : outcome :=
    match ops with
    | [] => match finish st with Ok d => Finished [] d | Err e => Failed [] e end
    | o :: ops' =>
      match abs (target (op_target o) st) with
      | None => Failed [] ReadRaw
      | Some tgt =>
        if valid_op_b o tgt then
          match step o st with
          | Ok (st', r) => cons_trace (st', r) (run ops' st')
          | Err e => Failed [] e
          end
        else Invalid []
      end
    end.

  (* every recorded step keeps the invariant and agrees with std::vector *)
  Fixpoint trace_ok (ops : list op) (st : state) (tr : list (state * option nat)) : Prop :=
    match tr, ops with
    | [], _ => True
    | (st', r) :: tr', o :: ops' => Inv st' /\ spec_ok o st st' r /\ trace_ok ops' st' tr'
    | _ :: _, [] => False
    end.
End Model.

(* =====================================================================
   The pinned tree (before the six "fix:" commits): the same methods as the
   source had them.  Used by Props/Refuted_C20.v only. *)
Section Pinned.
  Variable P : params.
  Local Notation S := (pS P).
  Local Notation triv := (ptriv P).
  Local Notation dflt := (pdflt P).
  Local Notation mv := (pmv P).

  Definition ctor_n_pinned (n : nat) : res sv :=
    if n <=? S then Ok (mkSv None (fresh_local P) n)
    else
      h <- (if triv then Ok (alloc P n)
            else write_range (c_construct P) 0 (repeat dflt n) (alloc P n)) ;;
      Ok (mkSv (Some h) (fresh_local P) n).

  Definition copy_assign_pinned (this rhs : sv) : res sv :=
    let n := size rhs in
    if capacity this <? n then copy_assign_ref P this rhs
    else
      d1 <- (if negb triv && is_heap this then destroy_range P n (size this) (data this)
             else Ok (data this)) ;;
      vs <- read_range 0 n (data rhs) ;;
      d2 <- write_range c_assign 0 vs d1 ;;
      Ok (set_data this d2 n).

  (* push_back_ref(v[i]): x is a reference into the old storage *)
  Definition push_back_self_pinned (i : nat) (s : sv) : res sv :=
    if size s =? capacity s then
      s1 <- grow1_ref P s ;;
      vs <- (if is_heap s then Err ReadRaw        (* the old block has been released *)
             else read_range i 1 (loc s1)) ;;      (* a moved-from object *)
      match vs with
      | [x] => d <- write_range (c_construct P) (size s1) [x] (data s1) ;;
               Ok (set_data s1 d (Datatypes.S (size s1)))
      | _ => Err BadRange
      end
    else push_back_self_ref P i s.

  Definition append_pinned (vs : list V) (s : sv) : res (sv * nat) :=
    '(s', _) <- append_ref P vs s ;; Ok (s', size s').

  (* insert() as it was: no early exit for an empty range, always
     placement-new in the second branch *)
  Definition insert_shape_pinned : insert_shape :=
    mkInsertShape
      [IGAppendAtEnd]
      ICondTailAtLeastN
      [RAppendMoved (PMinus PEnd Nn) PEnd; RMove Bwd WAssign PI (PMinus POldEnd Nn) POldEnd; RCopyIn WAssign PI]
      [RSizeAdd; RMove Fwd WConstruct PI POldEnd (PMinus PEnd Noverwritten); ROverwrite; RCopyIn WConstruct POldEnd].

  Definition insert_pinned (pos : nat) (vs : list V) (s : sv) : res (sv * nat) :=
    insert_with P insert_shape_pinned (put P) (reserve_ref P) append_pinned pos vs s.

  Definition resize_pinned (n : nat) (s : sv) : res sv :=
    if n <=? capacity s then
      d <- (if negb triv then
              if is_heap s then
                if n <? size s then destroy_range P n (size s) (data s)
                else write_range (c_construct P) (size s) (repeat dflt (n - size s)) (data s)
              else
                if size s <=? n then write_range c_assign (size s) (repeat dflt (n - size s)) (data s)
                else Ok (data s)
            else Ok (data s)) ;;
      Ok (set_data s d n)
    else resize_ref P n s.

  Definition step_pinned (o : op) (st : state) : res (state * option nat) :=
    match o with
    | CtorN t n => reconstruct P t st (ctor_n_pinned n)
    | CopyAssign t => upd t st (copy_assign_pinned (target t st) (other t st))
    | PushBackSelf t i => upd t st (push_back_self_pinned i (target t st))
    | EmplaceBackSelf t i => upd t st (push_back_self_pinned i (target t st))
    | Insert t pos l =>
      '(s, r) <- insert_pinned pos l (target t st) ;;
      Ok (mk_state t s (other t st), Some r)
    | Resize t n => upd t st (resize_pinned n (target t st))
    | _ => step P o st
    end.

  Fixpoint run_pinned (ops : list op) (st : state) : res (state * option nat) :=
    match ops with
    | [] => Ok (st, None)
    | [o] => step_pinned o st
    | o :: ops' => '(st', _) <- step_pinned o st ;; run_pinned ops' st'
    end.
End Pinned.
