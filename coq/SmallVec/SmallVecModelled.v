(* C20 -- the text of the member definitions of src/utility/small_vector.tcc
   (normalised statements, see translate/smallvec_ops.py) that the hand-written
   methods of SmallVec/SmallVecDefs.v were modelled on.  Maintained by hand
   together with the model: `python3 translate/smallvec_ops.py --modelled`
   prints the current text after the model has been brought in line. *)
From Coq Require Import List String.
Import ListNotations.
Local Open Scope string_scope.

Definition modelled_bodies : list (string * list string) :=
  [
   ("small_vector(size_type n)",
    ["if (n <= S)";
     "{";
     "data_ = local_storage_;";
     "size_ = data_ + n;";
     "capacity_ = data_ + S;";
     "if (std::is_trivially_default_constructible_v<T>)";
     "std::fill_n(begin(), n, T());";
     "}";
     "else";
     "{";
     "data_ = static_cast<T *>(::operator new(n * sizeof(T)));";
     "capacity_ = size_ = data_ + n;";
     "for (size_type k(0); k < n; ++k)";
     "new (data_ + k) T();";
     "}"]);
   ("small_vector(size_type n, const T &x)",
    ["if (n <= S)";
     "{";
     "data_ = local_storage_;";
     "size_ = data_ + n;";
     "capacity_ = data_ + S;";
     "std::fill_n(begin(), n, x);";
     "}";
     "else";
     "{";
     "data_ = static_cast<T *>(::operator new(n * sizeof(T)));";
     "capacity_ = size_ = data_ + n;";
     "for (size_type k(0); k < n; ++k)";
     "new (data_ + k) T(x);";
     "}"]);
   ("small_vector(std::initializer_list<T> list)",
    ["const auto n(list.size());";
     "if (n <= S)";
     "{";
     "data_ = local_storage_;";
     "size_ = data_ + n;";
     "capacity_ = data_ + S;";
     "std::copy(list.begin(), list.end(), begin());";
     "}";
     "else";
     "{";
     "data_ = static_cast<T *>(::operator new(n * sizeof(T)));";
     "capacity_ = size_ = data_ + n;";
     "vita::uninitialized_copy(list.begin(), list.end(), begin());";
     "}"]);
   ("small_vector(const small_vector &v)",
    ["const auto n(v.size());";
     "if (n <= S)";
     "{";
     "data_ = local_storage_;";
     "size_ = data_ + n;";
     "capacity_ = data_ + S;";
     "std::copy(v.begin(), v.end(), begin());";
     "}";
     "else";
     "{";
     "data_ = static_cast<T *>(::operator new(n * sizeof(T)));";
     "capacity_ = size_ = data_ + n;";
     "vita::uninitialized_copy(v.begin(), v.end(), data_);";
     "}"]);
   ("small_vector(small_vector &&rhs)",
    ["const auto n(rhs.size());";
     "if (n <= S)";
     "{";
     "data_ = local_storage_;";
     "size_ = data_ + n;";
     "capacity_ = data_ + S;";
     "std::move(rhs.begin(), rhs.end(), begin());";
     "}";
     "else";
     "{";
     "data_ = rhs.data_;";
     "size_ = rhs.size_;";
     "capacity_ = rhs.capacity_;";
     "rhs.data_ = rhs.local_storage_;";
     "rhs.size_ = rhs.local_storage_;";
     "rhs.capacity_ = rhs.local_storage_ + S;";
     "}"]);
   ("operator=(const small_vector &rhs)",
    ["if (this != &rhs)";
     "{";
     "const auto n(rhs.size());";
     "const bool needs_memory(capacity() < n);";
     "if (needs_memory)";
     "{";
     "if (!local_storage_used())";
     "free_heap_memory();";
     "data_ = static_cast<T *>(::operator new(n * sizeof(T)));";
     "capacity_ = size_ = data_ + n;";
     "vita::uninitialized_copy(rhs.begin(), rhs.end(), begin());";
     "}";
     "else";
     "{";
     "if (!std::is_trivially_default_constructible_v<T>)";
     "{";
     "if (!local_storage_used())";
     "{";
     "if (n < size())";
     "destroy_range(begin() + n, end());";
     "else";
     "for (auto k(size()); k < n; ++k)";
     "new (data_ + k) T();";
     "}";
     "}";
     "size_ = begin() + n;";
     "std::copy(rhs.begin(), rhs.end(), begin());";
     "}";
     "}";
     "return *this;"]);
   ("operator=(small_vector &&rhs)",
    ["if (this != &rhs)";
     "{";
     "const auto n(rhs.size());";
     "if (!local_storage_used())";
     "free_heap_memory();";
     "if (n <= S)";
     "{";
     "data_ = local_storage_;";
     "size_ = local_storage_ + n;";
     "capacity_ = local_storage_ + S;";
     "std::move(rhs.begin(), rhs.end(), begin());";
     "}";
     "else";
     "{";
     "data_ = rhs.data_;";
     "size_ = rhs.size_;";
     "capacity_ = rhs.capacity_;";
     "rhs.data_ = rhs.local_storage_;";
     "rhs.size_ = rhs.local_storage_;";
     "rhs.capacity_ = rhs.local_storage_ + S;";
     "}";
     "}";
     "return *this;"]);
   ("~small_vector()",
    ["if (!local_storage_used())";
     "free_heap_memory();"]);
   ("clear()",
    ["if (!local_storage_used())";
     "free_heap_memory();";
     "data_ = local_storage_;";
     "size_ = data_;";
     "capacity_ = data_ + S;"]);
   ("push_back(const T &x)",
    ["if (size_ == capacity_)";
     "{";
     "T tmp(x);";
     "grow();";
     "new (size_) T(std::move(tmp));";
     "}";
     "else";
     "if (local_storage_used())";
     "*size_ = x;";
     "else";
     "new (size_) T(x);";
     "++size_;"]);
   ("emplace_back(Args &&... args)",
    ["if (size_ == capacity_)";
     "{";
     "T tmp(std::forward<Args>(args)...);";
     "grow();";
     "new (size_) T(std::move(tmp));";
     "}";
     "else";
     "if (local_storage_used())";
     "*size_ = T(std::forward<Args>(args)...);";
     "else";
     "new (size_) T(std::forward<Args>(args)...);";
     "++size_;"]);
   ("append(IT b, IT e)",
    ["const auto n(static_cast<size_type>(std::distance(b, e)));";
     "const auto old_size(size());";
     "reserve(size() + n);";
     "if (local_storage_used())";
     "std::copy(b, e, end());";
     "else";
     "vita::uninitialized_copy(b, e, end());";
     "size_ += n;";
     "return begin() + old_size;"]);
   ("insert(iterator i, IT b, IT e)",
    ["if (i == end())";
     "return append(b, e);";
     "const auto insert_index(static_cast<size_type>(i - begin()));";
     "const auto n(static_cast<size_type>(std::distance(b, e)));";
     "if (n == 0)";
     "return i;";
     "reserve(size() + n);";
     "i = begin() + insert_index;";
     "if (i + n <= end())";
     "{";
     "const auto old_end(end());";
     "append(std::move_iterator<iterator>(end() - n), std::move_iterator<iterator>(end()));";
     "std::move_backward(i, old_end - n, old_end);";
     "std::copy(b, e, i);";
     "return i;";
     "}";
     "const auto old_end(end());";
     "size_ += n;";
     "auto overwritten(old_end - i);";
     "if (local_storage_used())";
     "std::move(i, old_end, end() - overwritten);";
     "else";
     "vita::uninitialized_move(i, old_end, end() - overwritten);";
     "for (auto j(i); overwritten; --overwritten, ++j, ++b)";
     "*j = *b;";
     "if (local_storage_used())";
     "std::copy(b, e, old_end);";
     "else";
     "vita::uninitialized_copy(b, e, old_end);";
     "return i;"]);
   ("resize(size_type n)",
    ["if (n <= capacity())";
     "{";
     "if (!std::is_trivially_default_constructible_v<T>)";
     "{";
     "if (local_storage_used())";
     "{";
     "if (n >= size())";
     "std::fill(end(), begin() + n, T());";
     "}";
     "else";
     "{";
     "if (n < size())";
     "destroy_range(begin() + n, end());";
     "else";
     "for (auto k(size()); k < n; ++k)";
     "new (data_ + k) T();";
     "}";
     "}";
     "else";
     "if (n > size())";
     "std::fill(end(), begin() + n, T());";
     "size_ = data_ + n;";
     "}";
     "else";
     "{";
     "grow(n);";
     "for (; size_ < capacity_; ++size_)";
     "new (size_) T();";
     "}"]);
   ("reserve(size_type n)",
    ["if (n > capacity())";
     "grow(n);"]);
   ("free_heap_memory()",
    ["if (!std::is_trivially_default_constructible_v<T>)";
     "destroy_range(begin(), end());";
     "::operator delete(data_);"]);
   ("grow(size_type n)",
    ["const auto n_old(size());";
     "auto new_data(static_cast<T *>(::operator new(n * sizeof(T))));";
     "vita::uninitialized_move(begin(), end(), new_data);";
     "if (!local_storage_used())";
     "free_heap_memory();";
     "data_ = new_data;";
     "capacity_ = data_ + n;";
     "size_ = data_ + n_old;"]);
   ("grow()",
    ["const auto n_old(size());";
     "const auto n(n_old > 1 ? (3 * n_old) / 2 : n_old + 1);";
     "grow(n);"]);
   ("operator==(const small_vector<T, LS> &lhs, const small_vector<T, RS> &rhs)",
    ["return lhs.size() == rhs.size() && std::equal(std::begin(lhs), std::end(lhs), std::begin(rhs));"]);
   ("operator!=(const small_vector<T, LS> &lhs, const small_vector<T, RS> &rhs)",
    ["return !operator==(lhs, rhs);"]);
   ("operator<(const small_vector<T, LS> &lhs, const small_vector<T, RS> &rhs)",
    ["return std::lexicographical_compare(std::begin(lhs), std::end(lhs), std::begin(rhs), std::end(rhs));"]);
   ("operator>(const small_vector<T, LS> &lhs, const small_vector<T, RS> &rhs)",
    ["return operator<(rhs, lhs);"]);
   ("operator>=(const small_vector<T, LS> &lhs, const small_vector<T, RS> &rhs)",
    ["return !operator<(lhs, rhs);"]);
   ("operator<=(const small_vector<T, LS> &lhs, const small_vector<T, RS> &rhs)",
    ["return !operator>(lhs, rhs);"])
  ].
