(* C20 -- the shapes that translate/smallvec_ops.py extracts from
   src/utility/small_vector.tcc (coq/Gen/SmallVecOps.v) and that
   SmallVec/SmallVecDefs.v interprets.  Datatypes only. *)
From Coq Require Import List String.
Import ListNotations.

(* element counts that occur in pointer arithmetic of insert() *)
Inductive num :=
| Nn                (* n = std::distance(b, e) *)
| Noverwritten.     (* overwritten = old_end - i *)

(* pointer expressions of insert() *)
Inductive ptr :=
| PI                          (* i, the insertion point *)
| PEnd                        (* end(), i.e. the current size_ *)
| POldEnd                     (* old_end, end() at the start of the branch *)
| PPlus (p : ptr) (k : num)
| PMinus (p : ptr) (k : num).

Inductive dir := Fwd | Bwd.

(* how a destination cell is written *)
Inductive wsel :=
| WAssign       (* std::copy / std::move / std::move_backward / *j = *b *)
| WConstruct    (* vita::uninitialized_copy / vita::uninitialized_move *)
| WByStorage.   (* if (local_storage_used()) <assigning algorithm> else <constructing one>, same arguments *)

(* the range operations of the two branches of insert(i, b, e) *)
Inductive rcall :=
| RAppendMoved (b e : ptr)                   (* append(move_iterator(b), move_iterator(e)) *)
| RMove (d : dir) (w : wsel) (b e dst : ptr) (* move [b, e): Fwd to d_first = dst, Bwd to d_last = dst *)
| RCopyIn (w : wsel) (dst : ptr)             (* what is left of the inserted range goes to dst *)
| ROverwrite                                 (* for (j = i; overwritten; --overwritten, ++j, ++b) *j = *b; *)
| RSizeAdd.                                  (* size_ += n; *)

(* early exits of insert(), in source order *)
Inductive iguard :=
| IGAppendAtEnd       (* if (i == end()) return append(b, e); *)
| IGReturnIfEmpty.    (* if (n == 0) return i; *)

(* which branch condition selects the "simple" branch *)
Inductive icond :=
| ICondTailAtLeastN   (* if (i + n <= end()) *)
| ICondOther.         (* anything else: not recognised *)

Record insert_shape := mkInsertShape {
  ins_guards : list iguard;
  ins_cond : icond;
  ins_simple : list rcall;
  ins_over : list rcall
}.

(* ---------------------------------------------------------------------
   The other mutating members: a small statement language.  Each member
   definition of small_vector.tcc is translated into a [prog]; the model's
   method is the interpretation of that program (SmallVecDefs.exec). *)

(* unsigned expressions *)
Inductive nexp :=
| EN                          (* n *)
| ENOld                       (* n_old *)
| ESize                       (* size() *)
| ECap                        (* capacity() *)
| ERhsSize                    (* rhs.size() / v.size() *)
| ECapS                       (* the template parameter S *)
| EConst (k : nat)
| EAdd (a b : nexp)
| EMul (a b : nexp)
| EDiv (a b : nexp)
| EMax (a b : nexp)           (* std::max(a, b) *)
| EIfGt (a b t e : nexp).     (* a > b ? t : e *)

Inductive cond :=
| CLe (a b : nexp)            (* a <= b   (b >= a) *)
| CLt (a b : nexp)            (* a < b    (b > a) *)
| CEq (a b : nexp)            (* a == b *)
| CLocal                      (* local_storage_used() *)
| CHeap                       (* !local_storage_used() *)
| CTrivial                    (* std::is_trivially_default_constructible_v<T> *)
| CNonTrivial                 (* its negation *)
| CSavedLocal.                (* a bool initialised with local_storage_used() earlier *)

Inductive act :=
| ALetN (e : nexp)            (* const auto n(e);  n = e; *)
| ALetNVals                   (* const auto n(std::distance(b, e)) *)
| ALetNOld                    (* const auto n_old(size()); *)
| ALetOldSize                 (* const auto old_size(size()); *)
| ASaveLocal                  (* const bool x(local_storage_used()); *)
| ASetLocal (sz : nexp)       (* data_ = local_storage_; size_ = data_ + sz; capacity_ = data_ + S; *)
| ASetHeapNew                 (* data_ = ::operator new(n * sizeof(T)); capacity_ = size_ = data_ + n; *)
| AStealRhs                   (* data_/size_/capacity_ = rhs's; rhs.data_ = rhs.size_ = rhs.local_storage_; ... *)
| ASetSize (e : nexp)         (* size_ = begin() + e; *)
| AIncSize                    (* ++size_; *)
| AAddSizeN                   (* size_ += n; *)
| ARhsSetSize0                (* rhs.size_ = rhs.data_; *)
| AFreeHeap                   (* free_heap_memory(); *)
| AFromRhs (moving : bool) (w : wsel)  (* std::copy / std::move / uninitialized_copy(rhs.begin(), rhs.end(), begin()) *)
| ADestroyTail                (* destroy_range(begin() + n, end()); *)
| AConstructUpToN             (* for (auto k(size()); k < n; ++k) new (data_ + k) T(); *)
| AFillTailDefault            (* std::fill(end(), begin() + n, T()); *)
| AFillNDefault               (* std::fill_n(begin(), n, T()); *)
| AFillNArg                   (* std::fill_n(begin(), n, x); *)
| AConstructAllDefault        (* for (size_type k(0); k < n; ++k) new (data_ + k) T(); *)
| AConstructAllArg            (* ... new (data_ + k) T(x); *)
| AConstructToCap             (* for (; size_ < capacity_; ++size_) new (size_) T(); *)
| ATmpFromArg                 (* T tmp(x);  T tmp(std::forward<Args>(args)...); *)
| AConstructEndTmp            (* new (size_) T(std::move(tmp)); *)
| AAssignEndArg               (* *size_ = x;  *size_ = T(std::forward<Args>(args)...); *)
| AConstructEndArg            (* new (size_) T(x);  new (size_) T(std::forward<Args>(args)...); *)
| ANewData                    (* auto new_data(::operator new(n * sizeof(T))); *)
| AMoveToNewData              (* vita::uninitialized_move(begin(), end(), new_data); *)
| AAdoptNewData               (* data_ = new_data; capacity_ = data_ + n; size_ = data_ + n_old; *)
| ACallGrow                   (* grow(); *)
| ACallGrowN                  (* grow(n); *)
| ACallReserve (e : nexp)     (* reserve(e); *)
| AWriteVals (w : wsel).      (* std::copy(b, e, end()) / vita::uninitialized_copy(b, e, end()) *)

Inductive prog :=
| PNil
| PAct (a : act) (rest : prog)
| PIf (c : cond) (t f : prog) (rest : prog).

(* the programs of one source tree *)
Record progs := mkProgs {
  p_copy_assign : prog; p_move_assign : prog; p_move_ctor : prog;
  p_push_back : prog; p_emplace_back : prog; p_resize : prog;
  p_grow_n : prog; p_grow : prog; p_reserve : prog; p_append : prog;
  p_ctor_n : prog; p_ctor_fill : prog
}.
