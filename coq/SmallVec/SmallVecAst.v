(* C20 -- the shapes that translate/smallvec_ops.py extracts from
   src/utility/small_vector.tcc (coq/Gen/SmallVecOps.v) and that
   SmallVec/SmallVecDefs.v interprets.  Datatypes only. *)
From Coq Require Import List String.
Import ListNotations.

(* element counts that occur in pointer arithmetic of insert() *)
Inductive num :=
| Nn                (* n = std::distance(b, e) *)
| Noverwritten.     (* overwritten = old_end - i *)

(* pointer expressions of insert() *)
Inductive ptr :=
| PI                          (* i, the insertion point *)
| PEnd                        (* end(), i.e. the current size_ *)
| POldEnd                     (* old_end, end() at the start of the branch *)
| PPlus (p : ptr) (k : num)
| PMinus (p : ptr) (k : num).

Inductive dir := Fwd | Bwd.

(* how a destination cell is written *)
Inductive wsel :=
| WAssign       (* std::copy / std::move / std::move_backward / *j = *b *)
| WConstruct    (* vita::uninitialized_copy / vita::uninitialized_move *)
| WByStorage.   (* if (local_storage_used()) <assigning algorithm> else <constructing one>, same arguments *)

(* the range operations of the two branches of insert(i, b, e) *)
Inductive rcall :=
| RAppendMoved (b e : ptr)                   (* append(move_iterator(b), move_iterator(e)) *)
| RMove (d : dir) (w : wsel) (b e dst : ptr) (* move [b, e): Fwd to d_first = dst, Bwd to d_last = dst *)
| RCopyIn (w : wsel) (dst : ptr)             (* what is left of the inserted range goes to dst *)
| ROverwrite                                 (* for (j = i; overwritten; --overwritten, ++j, ++b) *j = *b; *)
| RSizeAdd.                                  (* size_ += n; *)

(* early exits of insert(), in source order *)
Inductive iguard :=
| IGAppendAtEnd       (* if (i == end()) return append(b, e); *)
| IGReturnIfEmpty.    (* if (n == 0) return i; *)

(* which branch condition selects the "simple" branch *)
Inductive icond :=
| ICondTailAtLeastN   (* if (i + n <= end()) *)
| ICondOther.         (* anything else: not recognised *)

Record insert_shape := mkInsertShape {
  ins_guards : list iguard;
  ins_cond : icond;
  ins_simple : list rcall;
  ins_over : list rcall
}.
