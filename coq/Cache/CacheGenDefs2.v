(* C04 -- the model of the code as it is now: the interpreter applied to the
   regenerated facts (definitions only). *)
From Coq Require Import NArith List.
From VV Require Import Cache.CacheDefs Cache.TableTypes Cache.CacheGenDefs Gen.CacheTable.

Definition now_fresh := g_fresh gen_facts.
Definition now_find := g_find gen_facts.
Definition now_insert := g_insert gen_facts.
Definition now_clear := g_clear gen_facts.
Definition now_clear_one := g_clear_one gen_facts.
Definition now_save := g_save gen_facts.
Definition now_load := g_load gen_facts.
Definition now_step := g_step gen_facts.
Definition now_run := g_run gen_facts.
Definition now_proxy_eval := g_proxy_eval gen_facts.
Definition now_dump := g_dump gen_facts.
Definition now_proxy_save := g_proxy_save gen_facts.
Definition now_proxy_load := g_proxy_load gen_facts.
