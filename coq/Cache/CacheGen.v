(* C04 -- the theorems of CacheProofs.v carried over to the model of the code
   as it is NOW (the interpreter of Cache/CacheGenDefs.v applied to the
   regenerated Gen/CacheTable.v).  [gen_is_std] is where a change of
   cache.cc / cache_hash.h that alters a table-level fact stops the proofs:
   it is checked by computation on the generated definition. *)
From Coq Require Import NArith List Bool Lia.
From VV Require Import Cache.CacheDefs Cache.CacheProofs Cache.TableTypes Cache.CacheGenDefs
  Gen.CacheTable Cache.CacheGenDefs2.
Import ListNotations.
Local Open Scope N_scope.

Lemma gen_is_std : gen_facts = std_facts.
Proof. reflexivity. Qed.

(* with the standard facts the interpreter is the hand-written model *)
Lemma g_index_std : forall t k, g_index std_facts t k = index t k.
Proof. reflexivity. Qed.

Lemma g_key_eqb_std : forall a b, g_key_eqb std_facts a b = key_eqb a b.
Proof. reflexivity. Qed.

Lemma g_find_std : forall t k, g_find std_facts t k = find t k.
Proof.
  intros. unfold g_find, find. cbn [f_find_seal f_find_key std_facts forallb g_kcmp].
  rewrite g_index_std, g_key_eqb_std, andb_true_r. reflexivity.
Qed.

Lemma g_insert_std : forall t k v, g_insert std_facts t k v = insert t k v.
Proof. reflexivity. Qed.

Lemma g_clear_std : forall t, g_clear std_facts t = clear t.
Proof. reflexivity. Qed.

Lemma g_clear_one_std : forall t k, g_clear_one std_facts t k = clear_one t k.
Proof. reflexivity. Qed.

Lemma g_fresh_std : forall bits, g_fresh std_facts bits = fresh bits.
Proof. reflexivity. Qed.

Lemma g_live_std : forall t s, g_live std_facts (mklt true true true) t s = saved t s.
Proof. reflexivity. Qed.

Lemma g_save_std : forall t, g_save std_facts t = save t.
Proof.
  intro t. unfold g_save, save. cbn [f_save_count f_save_write std_facts].
  rewrite (filter_ext _ _ (g_live_std t)). reflexivity.
Qed.

Lemma g_load_loop_std : forall n ts s t, g_load_loop std_facts n ts s t = load_loop n ts s t.
Proof.
  induction n as [|n IH]; intros; cbn [g_load_loop load_loop]; [reflexivity|].
  destruct (read_key s) as [[k r]|]; [|reflexivity].
  destruct (read_fitness r) as [[f r']|]; [|reflexivity]. apply IH.
Qed.

Lemma g_load_std : forall s t, g_load std_facts s t = load s t.
Proof.
  intros. unfold g_load, load. destruct (read_num s) as [[ts r]|]; [|reflexivity].
  destruct (M32 <=? ts); [reflexivity|]. destruct (read_num r) as [[n r']|]; [|reflexivity].
  rewrite g_load_loop_std. reflexivity.
Qed.

Lemma g_step_std : forall t o, g_step std_facts t o = step t o.
Proof.
  intros t o. destruct o; cbn [g_step step]; try reflexivity;
    rewrite g_save_std, g_load_std; reflexivity.
Qed.

Lemma g_run_std : forall ops t, g_run std_facts ops t = run ops t.
Proof.
  induction ops as [|o ops IH]; intro t; cbn; [reflexivity|].
  change (fold_left (g_step std_facts) ops ?x) with (g_run std_facts ops x).
  rewrite g_step_std. apply IH.
Qed.

Lemma g_proxy_eval_std : forall t sg now, g_proxy_eval std_facts t sg now = proxy_eval t sg now.
Proof. intros. unfold g_proxy_eval, proxy_eval. rewrite g_find_std. reflexivity. Qed.

(* ------------------------------------------------------------ now_* *)
Ltac to_std := unfold now_fresh, now_find, now_insert, now_clear, now_clear_one, now_save, now_load,
  now_step, now_run, now_proxy_eval; rewrite ?gen_is_std;
  rewrite ?g_run_std, ?g_step_std, ?g_fresh_std, ?g_save_std, ?g_load_std, ?g_insert_std, ?g_clear_one_std,
    ?g_clear_std.

Lemma now_find_eq : forall t k, now_find t k = find t k.
Proof. intros. unfold now_find. rewrite gen_is_std. apply g_find_std. Qed.

Lemma now_inv_fresh : forall bits, Inv (now_fresh bits).
Proof. intros. to_std. apply fresh_inv. Qed.

Lemma now_inv_step : forall t o, Inv t -> Inv (now_step t o).
Proof. intros. to_std. apply step_inv. assumption. Qed.

Lemma now_run_refines : forall ops t k, Inv t -> k <> key0 ->
  now_find (now_run ops t) k = spec_run (tbits t) ops (now_find t) k.
Proof.
  intros ops t k HI Hk. rewrite now_find_eq. to_std. rewrite run_refines by assumption.
  apply spec_run_ext; [|exact Hk]. intros. symmetry. apply now_find_eq.
Qed.

Lemma now_find_sound : forall bits ops k v, k <> key0 ->
  now_find (now_run ops (now_fresh bits)) k = v -> v <> [] ->
  exists pre post, ops = pre ++ Insert k v :: post /\ forallb (untouched bits k) post = true.
Proof.
  intros bits ops k v Hk H Hv. rewrite now_find_eq in H. revert H. to_std. intro H.
  exact (find_sound bits ops k v Hk H Hv).
Qed.

Lemma now_find_complete : forall t pre post k v, Inv t -> k <> key0 ->
  forallb (untouched (tbits t) k) post = true ->
  now_find (now_run (pre ++ Insert k v :: post) t) k = v.
Proof. intros. rewrite now_find_eq. to_std. apply find_complete; assumption. Qed.

Lemma now_find_after_insert : forall t k v, now_find (now_insert t k v) k = v.
Proof. intros. rewrite now_find_eq. to_std. apply find_after_insert. Qed.

Lemma now_find_after_clear_one : forall t k k', k' <> key0 ->
  same_slot (tbits t) k' k = true -> now_find (now_clear_one t k) k' = [].
Proof.
  intros t k k' Hk Hs. rewrite now_find_eq. to_std. rewrite clear_one_refines by exact Hk.
  rewrite Hs. reflexivity.
Qed.

Lemma now_save_load_fresh : forall t, Inv t ->
  exists t', now_load (now_save t) (now_fresh (tbits t)) = (true, t') /\ Inv t' /\ tbits t' = tbits t /\
             forall k, k <> key0 -> now_find t' k = now_find t k.
Proof.
  intros t HI. destruct (save_load_fresh t HI) as (t' & Hl & HI' & Hb & Hf).
  exists t'. to_std. split; [exact Hl|split; [exact HI'|split; [exact Hb|]]].
  intros k Hk. rewrite !now_find_eq. apply Hf. exact Hk.
Qed.
