(* C04 -- the vocabulary of the regenerated table-level facts
   (Gen/CacheTable.v, written by translate/cache_proto.py from cache.cc,
   cache.h and cache_hash.h): which comparisons make a hit in find, what
   insert stamps, what clear() / clear(key) write, which slots save counts and
   writes, what load stamps, how index() selects the slot. *)
From Coq Require Import NArith List Bool.
Import ListNotations.

(* one conjunct of the hit condition of cache::find about the key *)
Inductive kcmp :=
| KEq        (* h == s.hash, i.e. hash_t::operator== *)
| KHalf0     (* h.data[0] == s.hash.data[0] *)
| KHalf1     (* h.data[1] == s.hash.data[1] *)
| KHigh0.    (* the bits of data[0] above the slot mask are equal *)

Inductive clear_kind :=
| CkIncReset   (* if (++seal_ == 0) { every slot seal = 0; seal_ = 1; } *)
| CkInc        (* ++seal_; *)
| CkNone.

Inductive clear_one_kind :=
| CoHash       (* table_[index(h)].hash = hash_t(); *)
| CoSeal       (* table_[index(h)].seal = 0; *)
| CoNone.

(* the test of a slot in the loops of save: s.seal == seal_, !s.hash.empty(), s.fitness.size() *)
Record live_test := mklt { lt_seal : bool; lt_key : bool; lt_fit : bool }.

Record facts := mkfacts {
  f_find_seal : bool;                  (* find tests seal_ == s.seal *)
  f_find_key : list kcmp;              (* the conjuncts of find about the key *)
  f_eq_half0 : bool; f_eq_half1 : bool;          (* hash_t::operator== compares data[0] / data[1] *)
  f_empty_half0 : bool; f_empty_half1 : bool;    (* hash_t::empty tests data[0] / data[1] *)
  f_index_half : bool;                 (* false: index() uses data[0], true: data[1] *)
  f_index_mask : bool;                 (* ... & k_mask with k_mask = 2^bits - 1 *)
  f_ins_hash : bool; f_ins_fit : bool; f_ins_seal : bool;   (* insert: s.hash = h; s.fitness = fitness; s.seal = seal_ *)
  f_clear : clear_kind;
  f_clear_one : clear_one_kind;
  f_save_count : live_test; f_save_write : live_test;
  f_load_slot_seal : bool;             (* load: s.seal = t_seal *)
  f_load_sets_seal : bool;             (* load: seal_ = t_seal after the loop *)
  f_ctor_seal_one : bool }.            (* constructor: seal_(1), table_(1 << bits) value-initialised *)

Definition std_facts : facts :=
  mkfacts true [KEq] true true true true false true true true true CkIncReset CoHash
          (mklt true true true) (mklt true true true) true true true.

Definition kcmp_eqb (a b : kcmp) : bool :=
  match a, b with KEq, KEq | KHalf0, KHalf0 | KHalf1, KHalf1 | KHigh0, KHigh0 => true | _, _ => false end.
Fixpoint kl_eqb (a b : list kcmp) : bool :=
  match a, b with
  | [], [] => true
  | x :: a', y :: b' => kcmp_eqb x y && kl_eqb a' b'
  | _, _ => false
  end.
Definition ck_eqb (a b : clear_kind) : bool :=
  match a, b with CkIncReset, CkIncReset | CkInc, CkInc | CkNone, CkNone => true | _, _ => false end.
Definition co_eqb (a b : clear_one_kind) : bool :=
  match a, b with CoHash, CoHash | CoSeal, CoSeal | CoNone, CoNone => true | _, _ => false end.
Definition lt_eqb (a b : live_test) : bool :=
  Bool.eqb (lt_seal a) (lt_seal b) && Bool.eqb (lt_key a) (lt_key b) && Bool.eqb (lt_fit a) (lt_fit b).

Definition facts_eqb (a b : facts) : bool :=
  Bool.eqb (f_find_seal a) (f_find_seal b) && kl_eqb (f_find_key a) (f_find_key b) &&
  Bool.eqb (f_eq_half0 a) (f_eq_half0 b) && Bool.eqb (f_eq_half1 a) (f_eq_half1 b) &&
  Bool.eqb (f_empty_half0 a) (f_empty_half0 b) && Bool.eqb (f_empty_half1 a) (f_empty_half1 b) &&
  Bool.eqb (f_index_half a) (f_index_half b) && Bool.eqb (f_index_mask a) (f_index_mask b) &&
  Bool.eqb (f_ins_hash a) (f_ins_hash b) && Bool.eqb (f_ins_fit a) (f_ins_fit b) &&
  Bool.eqb (f_ins_seal a) (f_ins_seal b) && ck_eqb (f_clear a) (f_clear b) &&
  co_eqb (f_clear_one a) (f_clear_one b) && lt_eqb (f_save_count a) (f_save_count b) &&
  lt_eqb (f_save_write a) (f_save_write b) && Bool.eqb (f_load_slot_seal a) (f_load_slot_seal b) &&
  Bool.eqb (f_load_sets_seal a) (f_load_sets_seal b) && Bool.eqb (f_ctor_seal_one a) (f_ctor_seal_one b).
