(* C04 -- lemmas about the cache model (Cache/CacheDefs.v). *)
From Coq Require Import NArith List Bool Lia ZifyBool ZifyN.
From VV Require Import Cache.CacheDefs.
Import ListNotations.
Local Open Scope N_scope.

(* ------------------------------------------------------------ keys *)
Lemma key_eqb_spec : forall a b, reflect (a = b) (key_eqb a b).
Proof.
  intros [a0 a1] [b0 b1]. unfold key_eqb. cbn [fst snd].
  destruct (N.eqb_spec a0 b0) as [E0|E0]; destruct (N.eqb_spec a1 b1) as [E1|E1]; cbn;
    constructor; congruence.
Qed.

Lemma key_eqb_refl : forall k, key_eqb k k = true.
Proof. intro k. destruct (key_eqb_spec k k); congruence. Qed.

Lemma key_empty_spec : forall k, reflect (k = key0) (key_empty k).
Proof. intro k. exact (key_eqb_spec k key0). Qed.

Lemma same_slot_index : forall t k k',
  same_slot (tbits t) k k' = (index t k =? index t k').
Proof. reflexivity. Qed.

Lemma index_lt : forall t k, index t k < 2 ^ tbits t.
Proof. intros. unfold index. apply N.mod_lt. apply N.pow_nonzero. lia. Qed.

(* ------------------------------------------------------------ invariant *)
Definition Inv (t : table) : Prop :=
  0 < seal t < M32 /\
  (forall i, sseal (slots t i) <= seal t) /\
  (forall i, i < 2 ^ tbits t -> live t (slots t i) = true -> index t (skey (slots t i)) = i).

Lemma fresh_inv : forall bits, Inv (fresh bits).
Proof.
  intro bits. unfold Inv, fresh, live, M32. cbn.
  split; [lia|split; [intro; lia|intros i _ H; discriminate]].
Qed.

Lemma find_fresh : forall bits k, find (fresh bits) k = [].
Proof. reflexivity. Qed.

Lemma find_after_insert : forall t k v, find (insert t k v) k = v.
Proof.
  intros. unfold find, insert, upd, index. cbn.
  rewrite N.eqb_refl. cbn. rewrite N.eqb_refl, key_eqb_refl. reflexivity.
Qed.

Lemma insert_inv : forall t k v, Inv t -> Inv (insert t k v).
Proof.
  intros t k v (Hs & Hle & Hidx). unfold Inv, insert, upd, live, index in *. cbn.
  split; [exact Hs|split].
  - intro i. destruct (N.eqb_spec i (fst k mod 2 ^ tbits t)); cbn; [lia|apply Hle].
  - intros i Hi. destruct (N.eqb_spec i (fst k mod 2 ^ tbits t)) as [E|E]; cbn.
    + intros _. symmetry. exact E.
    + apply Hidx. exact Hi.
Qed.

Lemma clear_inv : forall t, Inv t -> Inv (clear t).
Proof.
  intros t (Hs & Hle & Hidx). unfold Inv, clear, live in *.
  destruct (N.eqb_spec ((seal t + 1) mod M32) 0) as [E|E]; cbn.
  - unfold M32. repeat split; try lia; try (intros; cbn in *; first [discriminate | lia]).
  - assert (Hlt : seal t + 1 < M32).
    { destruct (N.lt_ge_cases (seal t + 1) M32) as [L|G]; [exact L|].
      assert (seal t + 1 = M32) by lia. rewrite H in E. rewrite N.mod_same in E by (unfold M32; lia).
      congruence. }
    rewrite N.mod_small by exact Hlt.
    repeat split; try lia.
    + intro i. specialize (Hle i). lia.
    + intros i _ H. specialize (Hle i). lia.
Qed.

Lemma clear_one_inv : forall t k, Inv t -> Inv (clear_one t k).
Proof.
  intros t k (Hs & Hle & Hidx). unfold Inv, clear_one, upd, live, index in *. cbn.
  split; [exact Hs|split].
  - intro i. destruct (N.eqb_spec i (fst k mod 2 ^ tbits t)); cbn; apply Hle.
  - intros i Hi. destruct (N.eqb_spec i (fst k mod 2 ^ tbits t)) as [E|E]; cbn.
    + rewrite andb_false_r. discriminate.
    + apply Hidx. exact Hi.
Qed.

(* ------------------------------------------------------------ refinement,
   one operation *)
Lemma insert_refines : forall t k v k',
  find (insert t k v) k' =
  if key_eqb k' k then v else if same_slot (tbits t) k' k then [] else find t k'.
Proof.
  intros. destruct (key_eqb_spec k' k) as [E|E].
  - subst. apply find_after_insert.
  - rewrite same_slot_index. unfold find, insert, upd, index. cbn.
    destruct (N.eqb_spec (fst k' mod 2 ^ tbits t) (fst k mod 2 ^ tbits t)) as [Ei|Ei]; cbn.
    + destruct (key_eqb_spec k' k); [contradiction|]. rewrite andb_false_r. reflexivity.
    + reflexivity.
Qed.

Lemma clear_refines : forall t k', Inv t -> find (clear t) k' = [].
Proof.
  intros t k' (Hs & Hle & _). unfold find, clear, index.
  destruct (N.eqb_spec ((seal t + 1) mod M32) 0) as [E|E]; cbn.
  - reflexivity.
  - assert (Hlt : seal t + 1 < M32).
    { destruct (N.lt_ge_cases (seal t + 1) M32) as [L|G]; [exact L|].
      assert (seal t + 1 = M32) by lia. rewrite H in E. rewrite N.mod_same in E by (unfold M32; lia).
      congruence. }
    rewrite N.mod_small by exact Hlt.
    specialize (Hle (fst k' mod 2 ^ tbits t)).
    destruct (N.eqb_spec (seal t + 1) (sseal (slots t (fst k' mod 2 ^ tbits t)))); [lia|reflexivity].
Qed.

Lemma clear_one_refines : forall t k k', k' <> key0 ->
  find (clear_one t k) k' = if same_slot (tbits t) k' k then [] else find t k'.
Proof.
  intros t k k' Hk. rewrite same_slot_index. unfold find, clear_one, upd, index. cbn.
  destruct (N.eqb_spec (fst k' mod 2 ^ tbits t) (fst k mod 2 ^ tbits t)) as [Ei|Ei]; cbn.
  - destruct (key_eqb_spec k' key0); [contradiction|]. rewrite andb_false_r. reflexivity.
  - reflexivity.
Qed.

(* ------------------------------------------------------------ save / load *)
Lemma in_indices : forall n i, In i (indices n) <-> i < n.
Proof.
  intros. unfold indices. rewrite in_map_iff. split.
  - intros (x & Hx & Hin). apply in_seq in Hin. lia.
  - intro H. exists (N.to_nat i). split; [lia|]. apply in_seq. lia.
Qed.

Lemma filter_map_comm : forall (A B : Type) (f : B -> bool) (g : A -> B) l,
  filter f (map g l) = map g (filter (fun x => f (g x)) l).
Proof.
  intros. induction l as [|a l IH]; cbn; [reflexivity|].
  destruct (f (g a)); cbn; rewrite IH; reflexivity.
Qed.

Lemma take_line_nums : forall f r, take_line (map TNum f ++ TNL :: r) = (f, r).
Proof.
  induction f as [|x f IH]; intro r; cbn; [reflexivity|]. rewrite IH. reflexivity.
Qed.

Lemma read_key_emit : forall s r,
  read_key (emit s ++ r) = Some (skey s, TNL :: map TNum (sfit s) ++ TNL :: r).
Proof.
  intros. unfold emit, read_key, read_num. cbn. destruct (skey s) as [a b]. cbn.
  rewrite <- app_assoc. reflexivity.
Qed.

Lemma read_fitness_line : forall f r, f <> [] ->
  read_fitness (TNL :: map TNum f ++ TNL :: r) = Some (f, r).
Proof.
  intros f r Hf. unfold read_fitness. cbn [skip_nl].
  destruct f as [|x f]; [contradiction|]. cbn [map app skip_nl].
  change (TNum x :: map TNum f ++ TNL :: r) with (map TNum (x :: f) ++ TNL :: r).
  rewrite take_line_nums. reflexivity.
Qed.

Definition put (ts : N) (t : table) (s : slot) : table :=
  mktable (tbits t) (upd (slots t) (index t (skey s)) (mkslot (skey s) (sfit s) ts)) (seal t).

Lemma load_loop_emit : forall ts l t,
  (forall s, In s l -> sfit s <> []) ->
  load_loop (length l) ts (flat_map emit l) t = (true, fold_left (put ts) l t).
Proof.
  intros ts l. induction l as [|s l IH]; intros t Hne; cbn [length flat_map fold_left load_loop].
  - reflexivity.
  - rewrite read_key_emit. rewrite read_fitness_line by (apply Hne; left; reflexivity).
    rewrite IH by (intros; apply Hne; right; assumption). reflexivity.
Qed.

Lemma load_loop_nl : forall n ts s t, load_loop n ts (TNL :: s) t = load_loop n ts s t.
Proof. intros. destruct n; reflexivity. Qed.

Lemma fold_put_bits : forall ts l t, tbits (fold_left (put ts) l t) = tbits t.
Proof. intros ts l. induction l as [|s l IH]; intro t; cbn; [reflexivity|]. rewrite IH. reflexivity. Qed.

Lemma fold_put_seal : forall ts l t, seal (fold_left (put ts) l t) = seal t.
Proof. intros ts l. induction l as [|s l IH]; intro t; cbn; [reflexivity|]. rewrite IH. reflexivity. Qed.

(* the slots written by loading the records of the slots [is] of [t0] *)
Lemma fold_put_slots : forall ts (t0 : table) is t j,
  tbits t = tbits t0 ->
  (forall i, In i is -> index t0 (skey (slots t0 i)) = i) ->
  slots (fold_left (put ts) (map (slots t0) is) t) j =
  if existsb (N.eqb j) is
  then mkslot (skey (slots t0 j)) (sfit (slots t0 j)) ts
  else slots t j.
Proof.
  intros ts t0 is. induction is as [|i is IH]; intros t j Hb Hidx; cbn [map fold_left existsb].
  - reflexivity.
  - rewrite IH; [|cbn; exact Hb|intros; apply Hidx; right; assumption].
    assert (Hi : index t (skey (slots t0 i)) = i).
    { unfold index. rewrite Hb. apply Hidx. left. reflexivity. }
    destruct (existsb (N.eqb j) is) eqn:Ex; [rewrite orb_true_r; reflexivity|].
    rewrite orb_false_r. unfold put, upd. cbn. rewrite Hi.
    destruct (N.eqb_spec j i) as [E|E]; [subst; reflexivity|reflexivity].
Qed.

Lemma existsb_eqb_in : forall j l, existsb (N.eqb j) l = true <-> In j l.
Proof.
  intros. rewrite existsb_exists. split.
  - intros (x & Hin & E). apply N.eqb_eq in E. subst. exact Hin.
  - intro H. exists j. split; [exact H|apply N.eqb_refl].
Qed.

Definition loaded (t : table) : table :=
  mktable (tbits t)
          (fun j => if (j <? 2 ^ tbits t) && saved t (slots t j)
                    then mkslot (skey (slots t j)) (sfit (slots t j)) (seal t) else slot0)
          (seal t).

Lemma save_load_fresh_ext : forall t, Inv t ->
  exists t', load (save t) (fresh (tbits t)) = (true, t') /\
             tbits t' = tbits t /\ seal t' = seal t /\
             forall j, slots t' j = slots (loaded t) j.
Proof.
  intros t (Hs & Hle & Hidx).
  set (is := filter (fun i => saved t (slots t i)) (indices (2 ^ tbits t))).
  assert (HL : filter (saved t) (all_slots t) = map (slots t) is).
  { unfold all_slots, is. apply filter_map_comm. }
  assert (Hne : forall s, In s (map (slots t) is) -> sfit s <> []).
  { intros s Hin. apply in_map_iff in Hin. destruct Hin as (i & <- & Hi).
    apply filter_In in Hi. destruct Hi as (_ & Hsv). unfold saved in Hsv.
    destruct (sfit (slots t i)); cbn in Hsv; [rewrite andb_false_r in Hsv; discriminate|discriminate]. }
  assert (Hix : forall i, In i is -> index t (skey (slots t i)) = i).
  { intros i Hi. apply filter_In in Hi. destruct Hi as (Hin & Hsv). apply in_indices in Hin.
    apply Hidx; [exact Hin|]. unfold saved in Hsv. apply andb_true_iff in Hsv. tauto. }
  eexists. split; [|split; [|split]].
  - unfold load, save. rewrite HL. cbn [app read_num skip_nl].
    destruct (N.leb_spec M32 (seal t)) as [G|L]; [lia|].
    cbn [read_num skip_nl]. rewrite Nnat.Nat2N.id.
    rewrite load_loop_nl, load_loop_emit by exact Hne. reflexivity.
  - cbn. rewrite fold_put_bits. reflexivity.
  - reflexivity.
  - intro j. cbn [slots].
    rewrite fold_put_slots; [|reflexivity|exact Hix].
    unfold loaded. cbn [slots fresh].
    destruct (existsb (N.eqb j) is) eqn:Ex.
    + apply existsb_eqb_in in Ex. apply filter_In in Ex. destruct Ex as (Hin & Hsv).
      apply in_indices in Hin. apply N.ltb_lt in Hin. rewrite Hin, Hsv. reflexivity.
    + destruct ((j <? 2 ^ tbits t) && saved t (slots t j)) eqn:C; [|reflexivity].
      apply andb_true_iff in C. destruct C as (Hlt & Hsv). apply N.ltb_lt in Hlt.
      assert (In j is) by (apply filter_In; split; [apply in_indices; exact Hlt|exact Hsv]).
      apply existsb_eqb_in in H. congruence.
Qed.

Lemma find_ext : forall t t' k, tbits t' = tbits t -> seal t' = seal t ->
  (forall j, slots t' j = slots t j) -> find t' k = find t k.
Proof. intros t t' k Hb Hs Hj. unfold find, index. rewrite Hb, Hs, Hj. reflexivity. Qed.

Lemma find_loaded : forall t k, Inv t -> k <> key0 -> find (loaded t) k = find t k.
Proof.
  intros t k (Hs & Hle & Hidx) Hk. unfold find.
  change (index (loaded t) k) with (index t k).
  change (seal (loaded t)) with (seal t).
  pose proof (index_lt t k) as Hlt. apply N.ltb_lt in Hlt.
  set (i := index t k) in *.
  change (slots (loaded t) i) with
    (if (i <? 2 ^ tbits t) && saved t (slots t i)
     then mkslot (skey (slots t i)) (sfit (slots t i)) (seal t) else slot0).
  rewrite Hlt. cbn [andb]. unfold saved, live.
  destruct (slots t i) as [sk sf ss]. cbn [skey sfit sseal].
  assert (Z0 : forall c : bool, (if c then sfit slot0 else []) = []) by (intros []; reflexivity).
  destruct (N.eqb_spec ss (seal t)) as [Es|Es]; cbn [andb].
  - subst ss. rewrite N.eqb_refl. cbn [andb].
    destruct (key_empty_spec sk) as [Ee|Ee]; cbn [negb andb].
    + rewrite Z0. subst sk. destruct (key_eqb_spec k key0); [contradiction|reflexivity].
    + destruct sf as [|x sf]; cbn [is_nil negb].
      * rewrite Z0. destruct (key_eqb k sk); reflexivity.
      * cbn [skey sfit sseal]. rewrite N.eqb_refl. reflexivity.
  - rewrite Z0. destruct (N.eqb_spec (seal t) ss); [congruence|reflexivity].
Qed.

Lemma loaded_inv : forall t, Inv t -> Inv (loaded t).
Proof.
  intros t (Hs & Hle & Hidx). unfold Inv, loaded. cbn [seal slots tbits].
  split; [exact Hs|split].
  - intro i. destruct ((i <? 2 ^ tbits t) && saved t (slots t i)); cbn; lia.
  - intros i Hi. unfold index. cbn [tbits].
    destruct ((i <? 2 ^ tbits t) && saved t (slots t i)) eqn:C.
    + intros _. cbn [skey]. apply andb_true_iff in C. destruct C as (_ & Hsv).
      apply Hidx; [exact Hi|]. unfold saved in Hsv. apply andb_true_iff in Hsv. tauto.
    + unfold live. cbn. rewrite andb_false_r. discriminate.
Qed.

Lemma inv_ext : forall t t', tbits t' = tbits t -> seal t' = seal t ->
  (forall j, slots t' j = slots t j) -> Inv t -> Inv t'.
Proof.
  intros t t' Hb Hse Hj (Hs & Hle & Hidx). unfold Inv, live, index in *.
  rewrite Hb, Hse. split; [exact Hs|split].
  - intro i. rewrite Hj. apply Hle.
  - intros i Hi. rewrite Hj. apply Hidx. exact Hi.
Qed.

Lemma save_load_fresh : forall t, Inv t ->
  exists t', load (save t) (fresh (tbits t)) = (true, t') /\ Inv t' /\ tbits t' = tbits t /\
             forall k, k <> key0 -> find t' k = find t k.
Proof.
  intros t HI. destruct (save_load_fresh_ext t HI) as (t' & Hl & Hb & Hs & Hj).
  exists t'. split; [exact Hl|split; [|split; [exact Hb|]]].
  - apply (inv_ext (loaded t)); try assumption. apply loaded_inv. exact HI.
  - intros k Hk. rewrite (find_ext (loaded t)) by assumption. apply find_loaded; assumption.
Qed.

(* ------------------------------------------------------------ steps *)
Lemma step_bits : forall t o, Inv t -> tbits (step t o) = tbits t.
Proof.
  intros t o HI. destruct o; cbn [step]; try reflexivity.
  - unfold clear. destruct ((seal t + 1) mod M32 =? 0); reflexivity.
  - destruct (save_load_fresh t HI) as (t' & Hl & _ & Hb & _). rewrite Hl. exact Hb.
Qed.

Lemma step_inv : forall t o, Inv t -> Inv (step t o).
Proof.
  intros t o HI. destruct o; cbn [step].
  - apply insert_inv. exact HI.
  - apply clear_inv. exact HI.
  - apply clear_one_inv. exact HI.
  - destruct (save_load_fresh t HI) as (t' & Hl & HI' & _). rewrite Hl. exact HI'.
Qed.

Lemma step_refines : forall t o k', Inv t -> k' <> key0 ->
  find (step t o) k' = spec_step (tbits t) (find t) o k'.
Proof.
  intros t o k' HI Hk. destruct o; cbn [step spec_step].
  - apply insert_refines.
  - apply clear_refines. exact HI.
  - apply clear_one_refines. exact Hk.
  - destruct (save_load_fresh t HI) as (t' & Hl & _ & _ & Hf). rewrite Hl. cbn. apply Hf. exact Hk.
Qed.

(* ------------------------------------------------------------ histories *)
Lemma run_inv : forall ops t, Inv t -> Inv (run ops t).
Proof.
  induction ops as [|o ops IH]; intros t HI; cbn; [exact HI|]. apply IH. apply step_inv. exact HI.
Qed.

Lemma run_bits : forall ops t, Inv t -> tbits (run ops t) = tbits t.
Proof.
  induction ops as [|o ops IH]; intros t HI; cbn; [reflexivity|].
  rewrite IH by (apply step_inv; exact HI). apply step_bits. exact HI.
Qed.

Lemma spec_step_ext : forall bits m m' o k, (forall k', k' <> key0 -> m k' = m' k') -> k <> key0 ->
  spec_step bits m o k = spec_step bits m' o k.
Proof.
  intros bits m m' o k H Hk. destruct o; cbn; try reflexivity.
  - destruct (key_eqb k k0); [reflexivity|]. destruct (same_slot bits k k0); [reflexivity|]. apply H. exact Hk.
  - destruct (same_slot bits k k0); [reflexivity|]. apply H. exact Hk.
  - apply H. exact Hk.
Qed.

Lemma spec_run_ext : forall bits ops m m' k, (forall k', k' <> key0 -> m k' = m' k') -> k <> key0 ->
  spec_run bits ops m k = spec_run bits ops m' k.
Proof.
  intros bits ops. induction ops as [|o ops IH]; intros m m' k H Hk; cbn; [apply H; exact Hk|].
  apply IH; [|exact Hk]. intros k' Hk'. apply spec_step_ext; assumption.
Qed.

Lemma run_refines : forall ops t k, Inv t -> k <> key0 ->
  find (run ops t) k = spec_run (tbits t) ops (find t) k.
Proof.
  induction ops as [|o ops IH]; intros t k HI Hk; cbn; [reflexivity|].
  rewrite IH by (try apply step_inv; assumption).
  rewrite step_bits by exact HI.
  apply spec_run_ext; [|exact Hk]. intros k' Hk'. apply step_refines; assumption.
Qed.

Lemma spec_run_app : forall bits a b m, spec_run bits (a ++ b) m = spec_run bits b (spec_run bits a m).
Proof. intros. unfold spec_run. apply fold_left_app. Qed.

Lemma spec_run_untouched : forall bits post m k,
  forallb (untouched bits k) post = true -> spec_run bits post m k = m k.
Proof.
  intros bits post. unfold spec_run.
  induction post as [|o post IH]; intros m k H; cbn [fold_left forallb] in *; [reflexivity|].
  apply andb_true_iff in H. destruct H as (Ho & Hp). rewrite IH by exact Hp.
  destruct o; cbn [spec_step untouched] in *; try discriminate; try reflexivity.
  - apply negb_true_iff in Ho. rewrite Ho.
    destruct (key_eqb_spec k k0) as [E|E]; [|reflexivity].
    subst. unfold same_slot in Ho. rewrite N.eqb_refl in Ho. discriminate.
  - apply negb_true_iff in Ho. rewrite Ho. reflexivity.
Qed.

(* what the live map holds under k after a history that starts empty: the
   value of the last Insert k, provided nothing after it touched k's slot *)
Lemma spec_run_sound : forall bits ops k v,
  spec_run bits ops (fun _ => []) k = v -> v <> [] ->
  exists pre post, ops = pre ++ Insert k v :: post /\ forallb (untouched bits k) post = true.
Proof.
  intros bits ops. induction ops as [|o ops IH] using rev_ind; intros k v H Hv.
  - cbn in H. congruence.
  - rewrite spec_run_app in H. cbn in H. destruct o; cbn in H.
    + destruct (key_eqb_spec k k0) as [E|E].
      * subst. exists ops, []. split; reflexivity.
      * destruct (same_slot bits k k0) eqn:Ss; [congruence|].
        destruct (IH k v H Hv) as (pre & post & -> & Hp).
        exists pre, (post ++ [Insert k0 v0]). split; [rewrite <- app_assoc; reflexivity|].
        rewrite forallb_app, Hp. cbn. rewrite Ss. reflexivity.
    + congruence.
    + destruct (same_slot bits k k0) eqn:Ss; [congruence|].
      destruct (IH k v H Hv) as (pre & post & -> & Hp).
      exists pre, (post ++ [ClearOne k0]). split; [rewrite <- app_assoc; reflexivity|].
      rewrite forallb_app, Hp. cbn. rewrite Ss. reflexivity.
    + destruct (IH k v H Hv) as (pre & post & -> & Hp).
      exists pre, (post ++ [SaveLoad]). split; [rewrite <- app_assoc; reflexivity|].
      rewrite forallb_app, Hp. reflexivity.
Qed.

Lemma find_sound : forall bits ops k v, k <> key0 ->
  find (run ops (fresh bits)) k = v -> v <> [] ->
  exists pre post, ops = pre ++ Insert k v :: post /\ forallb (untouched bits k) post = true.
Proof.
  intros bits ops k v Hk H Hv. rewrite (run_refines ops (fresh bits) k (fresh_inv bits) Hk) in H.
  cbn [tbits fresh] in H. apply spec_run_sound; [|exact Hv].
  rewrite <- H. apply spec_run_ext; [|exact Hk]. intros. reflexivity.
Qed.

Lemma find_complete : forall t pre post k v, Inv t -> k <> key0 ->
  forallb (untouched (tbits t) k) post = true ->
  find (run (pre ++ Insert k v :: post) t) k = v.
Proof.
  intros t pre post k v HI Hk Hp. rewrite run_refines by assumption.
  rewrite spec_run_app. cbn [spec_run fold_left].
  change (fold_left (spec_step (tbits t)) post ?m) with (spec_run (tbits t) post m).
  rewrite spec_run_untouched by exact Hp. cbn. rewrite key_eqb_refl. reflexivity.
Qed.

(* ------------------------------------------------------------ many clears *)
Lemma clears_pinned_closed : forall n t,
  clears_pinned n t = mktable (tbits t) (slots t) ((seal t + n) mod M32) \/ n = 0.
Proof.
  intros n t. destruct (N.eq_dec n 0) as [E|E]; [right; exact E|left].
  revert E. unfold clears_pinned. induction n as [|n IH] using N.peano_ind; [congruence|].
  intros _. rewrite N.iter_succ. destruct (N.eq_dec n 0) as [E0|E0].
  - subst. cbn. unfold clear_pinned. reflexivity.
  - rewrite IH by exact E0. unfold clear_pinned. cbn. f_equal.
    rewrite N.add_mod_idemp_l by (unfold M32; lia). f_equal. lia.
Qed.

Lemma clears_closed : forall n t, seal t + n < M32 -> 0 < seal t -> 0 < n ->
  clears n t = mktable (tbits t) (slots t) (seal t + n).
Proof.
  intros n t. unfold clears. induction n as [|n IH] using N.peano_ind; intros Hlt Hs Hn; [lia|].
  rewrite N.iter_succ. destruct (N.eq_dec n 0) as [E0|E0].
  - subst. cbn. unfold clear. rewrite N.mod_small by lia.
    destruct (N.eqb_spec (seal t + 1) 0); [lia|]. f_equal.
  - rewrite IH by lia. unfold clear. cbn. rewrite N.mod_small by lia.
    destruct (N.eqb_spec (seal t + n + 1) 0); [lia|]. f_equal. lia.
Qed.

(* ------------------------------------------------------------ the proxy *)
Section Proxy.
  Variable ind : Type.
  Variable data : Type.
  Variable sig : ind -> key.
  Variable eva : data -> ind -> fitness.   (* the wrapped evaluator on the current data *)
  Variable P : ind -> Prop.                (* the individuals that are ever evaluated *)

  (* A_hash, restricted to the evaluated individuals *)
  Hypothesis A_hash : forall x y, P x -> P y -> sig x = sig y -> forall d, eva d x = eva d y.

  Inductive pev := PEval (x : ind) | PClear | PData (d : data).

  Record pstate := mkp { ptab : table; pdata : data }.

  Definition pstep (s : pstate) (e : pev) : pstate * option fitness :=
    match e with
    | PEval x =>
        let '(f, _, t') := proxy_eval (ptab s) (sig x) (eva (pdata s) x) in
        (mkp t' (pdata s), Some f)
    | PClear => (mkp (clear (ptab s)) (pdata s), None)
    | PData d => (mkp (ptab s) d, None)
    end.

  Fixpoint prun (s : pstate) (evs : list pev) : list (option fitness) :=
    match evs with
    | [] => []
    | e :: r => let (s', o) := pstep s e in o :: prun s' r
    end.

  (* the wrapped evaluator called directly at the same moments *)
  Fixpoint direct (d : data) (evs : list pev) : list (option fitness) :=
    match evs with
    | [] => []
    | PEval x :: r => Some (eva d x) :: direct d r
    | PClear :: r => None :: direct d r
    | PData d' :: r => None :: direct d' r
    end.

  (* every change of the data is followed by a clear before the next
     evaluation; only individuals of P are evaluated *)
  Fixpoint wf_hist (dirty : bool) (evs : list pev) : Prop :=
    match evs with
    | [] => True
    | PEval x :: r => dirty = false /\ P x /\ wf_hist false r
    | PClear :: r => wf_hist false r
    | PData _ :: r => wf_hist true r
    end.

  Definition cache_ok (t : table) (d : data) : Prop :=
    forall x, P x -> find t (sig x) <> [] -> find t (sig x) = eva d x.

  Lemma proxy_transparent_gen : forall evs s dirty,
    Inv (ptab s) -> (dirty = false -> cache_ok (ptab s) (pdata s)) -> wf_hist dirty evs ->
    prun s evs = direct (pdata s) evs.
  Proof.
    induction evs as [|e evs IH]; intros s dirty HI Hok Hwf; [reflexivity|].
    destruct e as [x| |d]; cbn [prun direct pstep].
    - cbn in Hwf. destruct Hwf as (Hd & Px & Hwf). specialize (Hok Hd).
      unfold proxy_eval. destruct (find (ptab s) (sig x)) eqn:Ef.
      + cbn [pdata ptab]. f_equal.
        apply (IH (mkp (insert (ptab s) (sig x) (eva (pdata s) x)) (pdata s)) false);
          [apply insert_inv; exact HI| |exact Hwf].
        intros _ y Py. cbn [ptab pdata]. rewrite insert_refines.
        destruct (key_eqb_spec (sig y) (sig x)) as [E|E].
        * intros _. symmetry. apply A_hash; [exact Py|exact Px|exact E].
        * destruct (same_slot (tbits (ptab s)) (sig y) (sig x)); [congruence|]. apply Hok. exact Py.
      + cbn [pdata ptab]. f_equal.
        * f_equal. rewrite <- Ef. apply Hok; [exact Px|]. rewrite Ef. discriminate.
        * apply (IH (mkp (ptab s) (pdata s)) false); [exact HI| |exact Hwf]. intros _. exact Hok.
    - cbn in Hwf. f_equal.
      apply (IH (mkp (clear (ptab s)) (pdata s)) false); [apply clear_inv; exact HI| |exact Hwf].
      intros _ y Py. cbn [ptab]. rewrite clear_refines by exact HI. congruence.
    - cbn in Hwf. f_equal.
      apply (IH (mkp (ptab s) d) true); [exact HI| |exact Hwf]. discriminate.
  Qed.

  Lemma proxy_transparent : forall bits d evs, wf_hist false evs ->
    prun (mkp (fresh bits) d) evs = direct d evs.
  Proof.
    intros bits d evs Hwf.
    apply (proxy_transparent_gen evs (mkp (fresh bits) d) false); [apply fresh_inv| |exact Hwf].
    intros _ x Px. cbn. congruence.
  Qed.

  (* an empty fitness is never served from the cache: the evaluator is
     called again *)
  Lemma proxy_empty_recomputed : forall t sg now,
    find t sg = [] -> proxy_eval t sg now = (now, true, insert t sg now).
  Proof. intros t sg now H. unfold proxy_eval. rewrite H. reflexivity. Qed.

  Lemma proxy_after_empty : forall t sg now,
    snd (fst (proxy_eval (insert t sg []) sg now)) = true.
  Proof. intros. unfold proxy_eval. rewrite find_after_insert. reflexivity. Qed.
End Proxy.

(* ------------------------------------------------------------ clears_fast
   (the model driver's evaluation of N real clear() calls) is N.iter clear *)
Lemma clears_inv : forall n t, Inv t -> Inv (clears n t).
Proof.
  intros n t HI. unfold clears. induction n as [|n IH] using N.peano_ind; [exact HI|].
  rewrite N.iter_succ. apply clear_inv. exact IH.
Qed.

Lemma clears_add : forall a b t, clears (a + b) t = clears a (clears b t).
Proof. intros. unfold clears. apply N.iter_add. Qed.

Lemma table_eta : forall t, mktable (tbits t) (slots t) (seal t) = t.
Proof. intros [b s z]. reflexivity. Qed.

Lemma clears_fast_ok : forall fuel n t, Inv t ->
  (seal t - 1) + n < N.of_nat fuel * (M32 - 1) ->
  clears_fast fuel n t = clears n t.
Proof.
  induction fuel as [|fuel IH]; intros n t HI Hb.
  - cbn in Hb. lia.
  - cbn [clears_fast]. destruct (N.eqb_spec n 0) as [En|En]; [subst; reflexivity|].
    pose proof HI as (Hs & _ & _).
    destruct (N.ltb_spec (seal t + n) M32) as [L|G].
    + symmetry. apply clears_closed; lia.
    + set (n1 := M32 - 1 - seal t).
      assert (E1 : clears n1 t = mktable (tbits t) (slots t) (M32 - 1)).
      { destruct (N.eq_dec n1 0) as [Z|NZ].
        - rewrite Z. change (clears 0 t) with t.
          assert (Es : M32 - 1 = seal t) by lia. rewrite Es. symmetry. apply table_eta.
        - rewrite clears_closed by lia. f_equal. lia. }
      replace n with ((n - n1 - 1) + (1 + n1)) at 2 by lia.
      rewrite clears_add, clears_add, E1.
      change (clears 1 ?x) with (clear x).
      assert (HI1 : Inv (mktable (tbits t) (slots t) (M32 - 1))) by (rewrite <- E1; apply clears_inv; exact HI).
      apply IH; [apply clear_inv; exact HI1|].
      unfold clear. cbn [seal]. replace ((M32 - 1 + 1) mod M32) with 0
        by (replace (M32 - 1 + 1) with M32 by (unfold M32; lia); rewrite N.mod_same by (unfold M32; lia); reflexivity).
      cbn [N.eqb seal]. rewrite Nnat.Nat2N.inj_succ in Hb. unfold M32 in *. lia.
Qed.

(* ------------------------------------------------------------ the proxy with
   its serialisation (evaluator_proxy::save / load, used by search::close and
   search::init to carry the training evaluator's cache to the next session)
   and the shape of the histories the evolution loop produces *)
Section ProxySessions.
  Variable ind : Type.
  Variable data : Type.
  Variable sig : ind -> key.
  Variable eva : data -> ind -> fitness.
  Variable evaf : data -> ind -> fitness.   (* the wrapped evaluator's approximate fast() *)
  Variable P : ind -> Prop.
  Variable eva_toks : list tok.                       (* what eva_.save writes *)
  Variable eva_load : list tok -> option (list tok).  (* eva_.load: the rest of the stream, or failure *)

  Hypothesis A_hash : forall x y, P x -> P y -> sig x = sig y -> forall d, eva d x = eva d y.
  Hypothesis sig_nonzero : forall x, P x -> sig x <> key0.
  Hypothesis eva_roundtrip : forall r, eva_load (eva_toks ++ r) = Some r.

  Inductive qev :=
  | QEval (x : ind) | QClear | QData (d : data)
  | QFast (x : ind)    (* proxy.fast(x): the approximate fitness, straight from the wrapped evaluator *)
  | QSaveLoad.     (* proxy.save(file); a NEW proxy of the same size loads the file *)

  Definition qstep (s : pstate data) (e : qev) : pstate data * option fitness * bool :=
    match e with
    | QEval x =>
        let '(f, _, t') := proxy_eval (ptab data s) (sig x) (eva (pdata data s) x) in
        (mkp data t' (pdata data s), Some f, true)
    | QClear => (mkp data (proxy_clear (ptab data s)) (pdata data s), None, true)
    | QData d => (mkp data (ptab data s) d, None, true)
    | QFast x =>
        let (f, t') := proxy_fast (ptab data s) (sig x) (evaf (pdata data s) x) in
        (mkp data t' (pdata data s), Some f, true)
    | QSaveLoad =>
        let r := proxy_load eva_load (proxy_save eva_toks (ptab data s)) (fresh (tbits (ptab data s))) in
        (mkp data (snd r) (pdata data s), None, fst r)
    end.

  (* outputs, and whether every load succeeded *)
  Fixpoint qrun (s : pstate data) (evs : list qev) : list (option fitness) * bool :=
    match evs with
    | [] => ([], true)
    | e :: r => let '(s', o, ok) := qstep s e in
                let (os, oks) := qrun s' r in (o :: os, ok && oks)
    end.

  Fixpoint qdirect (d : data) (evs : list qev) : list (option fitness) :=
    match evs with
    | [] => []
    | QEval x :: r => Some (eva d x) :: qdirect d r
    | QFast x :: r => Some (evaf d x) :: qdirect d r
    | QData d' :: r => None :: qdirect d' r
    | _ :: r => None :: qdirect d r
    end.

  Fixpoint qwf (dirty : bool) (evs : list qev) : Prop :=
    match evs with
    | [] => True
    | QEval x :: r => dirty = false /\ P x /\ qwf false r
    | QClear :: r => qwf false r
    | QData _ :: r => qwf true r
    | QFast _ :: r => qwf dirty r       (* fast() never consults the cache: allowed at any time *)
    | QSaveLoad :: r => qwf dirty r
    end.

  Definition qcache_ok (t : table) (d : data) : Prop :=
    forall x, P x -> find t (sig x) <> [] -> find t (sig x) = eva d x.

  Lemma proxy_sessions_gen : forall evs s dirty,
    Inv (ptab data s) -> (dirty = false -> qcache_ok (ptab data s) (pdata data s)) -> qwf dirty evs ->
    qrun s evs = (qdirect (pdata data s) evs, true).
  Proof.
    induction evs as [|e evs IH]; intros s dirty HI Hok Hwf; [reflexivity|].
    destruct e as [x| |d|y|]; cbn [qrun qdirect qstep].
    - cbn in Hwf. destruct Hwf as (Hd & Px & Hwf). specialize (Hok Hd).
      unfold proxy_eval. destruct (find (ptab data s) (sig x)) eqn:Ef.
      + rewrite (IH (mkp data (insert (ptab data s) (sig x) (eva (pdata data s) x)) (pdata data s)) false);
          [reflexivity|apply insert_inv; exact HI| |exact Hwf].
        intros _ y Py. cbn [ptab pdata]. rewrite insert_refines.
        destruct (key_eqb_spec (sig y) (sig x)) as [E|E].
        * intros _. symmetry. apply A_hash; [exact Py|exact Px|exact E].
        * destruct (same_slot (tbits (ptab data s)) (sig y) (sig x)); [congruence|]. apply Hok. exact Py.
      + rewrite (IH (mkp data (ptab data s) (pdata data s)) false); [|exact HI|intros _; exact Hok|exact Hwf].
        cbn [pdata]. repeat f_equal. rewrite <- Ef. apply Hok; [exact Px|]. rewrite Ef. discriminate.
    - cbn in Hwf.
      rewrite (IH (mkp data (proxy_clear (ptab data s)) (pdata data s)) false);
        [reflexivity|apply clear_inv; exact HI| |exact Hwf].
      intros _ y Py. cbn [ptab]. unfold proxy_clear. rewrite clear_refines by exact HI. congruence.
    - cbn in Hwf. rewrite (IH (mkp data (ptab data s) d) true); [reflexivity|exact HI|discriminate|exact Hwf].
    - cbn in Hwf. cbn [proxy_fast].
      rewrite (IH (mkp data (ptab data s) (pdata data s)) dirty); [reflexivity|exact HI|exact Hok|exact Hwf].
    - cbn in Hwf. unfold proxy_load, proxy_save. rewrite eva_roundtrip.
      destruct (save_load_fresh (ptab data s) HI) as (t' & Hl & HI' & Hb & Hf). rewrite Hl. cbn [fst snd].
      rewrite (IH (mkp data t' (pdata data s)) dirty); [reflexivity|exact HI'| |exact Hwf].
      intros Hd y Py. cbn [ptab pdata]. rewrite (Hf (sig y) (sig_nonzero y Py)). apply (Hok Hd). exact Py.
  Qed.

  Lemma proxy_sessions_transparent : forall bits d evs, qwf false evs ->
    qrun (mkp data (fresh bits) d) evs = (qdirect d evs, true).
  Proof.
    intros bits d evs Hwf.
    apply (proxy_sessions_gen evs (mkp data (fresh bits) d) false); [apply fresh_inv| |exact Hwf].
    intros _ x Px. cbn. congruence.
  Qed.

  (* the history one generation of evolution::run produces (evolution.tcc):
       if (shake(gen)) best.fitness = eva_(best);      -- shake = the validation strategy: it changes
                                                          the data and clears the cached evaluators
       for every individual of the population: ... eva_(offspring) ...
     and a whole run, closed by search::close -> proxy.save and reopened by the
     next session's search::init -> proxy.load *)
  Definition generation (shake : option data) (best : ind) (offspring : list ind) : list qev :=
    (match shake with Some d => [QData d; QClear; QEval best] | None => [] end) ++ map QEval offspring.

  Definition evolution_run (first : ind) (gens : list (option data * ind * list ind)) : list qev :=
    QEval first :: flat_map (fun g => generation (fst (fst g)) (snd (fst g)) (snd g)) gens ++ [QSaveLoad].

  Lemma qwf_evals : forall l r, Forall P l -> qwf false r -> qwf false (map QEval l ++ r).
  Proof.
    induction l as [|x l IH]; intros r Hl Hr; cbn; [exact Hr|].
    inversion Hl; subst. split; [reflexivity|split; [assumption|apply IH; assumption]].
  Qed.

  Lemma evolution_run_wf : forall first gens,
    P first -> Forall (fun g => P (snd (fst g)) /\ Forall P (snd g)) gens ->
    qwf false (evolution_run first gens).
  Proof.
    intros first gens Pf Hg. unfold evolution_run. cbn. split; [reflexivity|split; [exact Pf|]].
    induction Hg as [|[[sh b] offs] gens (Pb & Po) _ IH]; cbn [flat_map fst snd]; [exact I|].
    unfold generation. rewrite <- app_assoc. cbn [fst snd].
    destruct sh as [d|]; cbn [app qwf].
    - split; [reflexivity|split; [exact Pb|]]. apply qwf_evals; assumption.
    - apply qwf_evals; assumption.
  Qed.

  Lemma evolution_run_transparent : forall bits d first gens,
    P first -> Forall (fun g => P (snd (fst g)) /\ Forall P (snd g)) gens ->
    qrun (mkp data (fresh bits) d) (evolution_run first gens) =
      (qdirect d (evolution_run first gens), true).
  Proof. intros. apply proxy_sessions_transparent. apply evolution_run_wf; assumption. Qed.
  (* ---- a whole search session, the initial init included.
     validation_strategy::init(run) -- for EVERY run, run 0 included -- and
     close(run) change the data sets and clear the cached evaluators
     (dss::init / dss::close: shake_impl / move_to_validation, then
     clear_evaluators()); before the first init the proxy may already hold
     values: individuals evaluated beforehand, or a cache restored by
     search::load (QSaveLoad). *)
  Fixpoint dirty_after (dirty : bool) (evs : list qev) : bool :=
    match evs with
    | [] => dirty
    | QEval _ :: r => dirty_after false r
    | QClear :: r => dirty_after false r
    | QData _ :: r => dirty_after true r
    | QFast _ :: r => dirty_after dirty r
    | QSaveLoad :: r => dirty_after dirty r
    end.

  Lemma qwf_app : forall a b dirty, qwf dirty a -> qwf (dirty_after dirty a) b -> qwf dirty (a ++ b).
  Proof.
    induction a as [|e a IH]; intros b dirty Ha Hb; [exact Hb|].
    destruct e; cbn [app qwf dirty_after] in *.
    - destruct Ha as (Hd & Px & Ha). split; [exact Hd|split; [exact Px|apply IH; assumption]].
    - apply IH; assumption.
    - apply IH; assumption.
    - apply IH; assumption.
    - apply IH; assumption.
  Qed.

  (* fast() never changes what operator() returns: it leaves the cache alone *)
  Lemma fast_leaves_cache : forall s x, fst (fst (qstep s (QFast x))) = s /\ snd (fst (qstep s (QFast x))) = Some (evaf (pdata data s) x).
  Proof. intros [t d] x. cbn. split; reflexivity. Qed.

  Definition strategy_init (d : data) : list qev := [QData d; QClear].
  Definition strategy_close (d : data) : list qev := [QData d; QClear].

  (* one run: init, first evaluation, the generations, close, and the
     evaluations made on the closed sets (search::calculate_metrics) *)
  Definition one_run (r : data * ind * list (option data * ind * list ind) * data * list ind) : list qev :=
    let '(d0, first, gens, d1, after) := r in
    strategy_init d0 ++ QEval first :: flat_map (fun g => generation (fst (fst g)) (snd (fst g)) (snd g)) gens
      ++ strategy_close d1 ++ map QEval after.

  Definition run_inds (r : data * ind * list (option data * ind * list ind) * data * list ind) : Prop :=
    let '(d0, first, gens, d1, after) := r in
    P first /\ Forall (fun g => P (snd (fst g)) /\ Forall P (snd g)) gens /\ Forall P after.

  Definition search_session (restored : bool) (pre : list ind) runs : list qev :=
    (if restored then [QSaveLoad] else []) ++ map QEval pre ++ flat_map one_run runs ++ [QSaveLoad].

  Lemma qwf_evals_end : forall l, Forall P l -> qwf false (map QEval l) /\ dirty_after false (map QEval l) = false.
  Proof.
    induction l as [|x l IH]; intro Hl; cbn; [split; [exact I|reflexivity]|].
    inversion Hl; subst. destruct (IH H2) as (A & B). repeat split; assumption.
  Qed.

  Lemma generations_wf : forall gens,
    Forall (fun g => P (snd (fst g)) /\ Forall P (snd g)) gens ->
    let l := flat_map (fun g => generation (fst (fst g)) (snd (fst g)) (snd g)) gens in
    qwf false l /\ dirty_after false l = false.
  Proof.
    intros gens Hg. induction Hg as [|[[sh b] offs] gens (Pb & Po) _ (IW & ID)]; cbn [flat_map fst snd];
      [split; [exact I|reflexivity]|].
    destruct (qwf_evals_end offs Po) as (EW & ED).
    unfold generation. destruct sh as [d|]; cbn [app].
    - split.
      + cbn [qwf]. split; [reflexivity|split; [exact Pb|]]. apply qwf_app; [exact EW|rewrite ED; exact IW].
      + cbn [dirty_after]. clear - ED ID. induction offs as [|x offs IH]; cbn in *; [exact ID|apply IH; exact ED].
    - split.
      + apply qwf_app; [exact EW|rewrite ED; exact IW].
      + clear - ED ID. induction offs as [|x offs IH]; cbn in *; [exact ID|apply IH; exact ED].
  Qed.

  Lemma dirty_after_app : forall a b d, dirty_after d (a ++ b) = dirty_after (dirty_after d a) b.
  Proof. induction a as [|e a IH]; intros b d; [reflexivity|]. destruct e; cbn; apply IH. Qed.

  Lemma one_run_wf : forall r dirty, run_inds r -> qwf dirty (one_run r) /\ dirty_after dirty (one_run r) = false.
  Proof.
    intros [[[[d0 first] gens] d1] after] dirty (Pf & Hg & Ha).
    destruct (generations_wf gens Hg) as (GW & GD). destruct (qwf_evals_end after Ha) as (AW & AD).
    unfold one_run, strategy_init, strategy_close. cbn [app qwf dirty_after]. split.
    - split; [reflexivity|split; [exact Pf|]].
      apply qwf_app; [exact GW|]. rewrite GD. cbn [app qwf]. exact AW.
    - rewrite dirty_after_app, GD. cbn [app dirty_after]. exact AD.
  Qed.

  Lemma runs_wf : forall runs, Forall run_inds runs ->
    qwf false (flat_map one_run runs) /\ dirty_after false (flat_map one_run runs) = false.
  Proof.
    intros runs H. induction H as [|r runs Hr _ (IW & ID)]; cbn [flat_map]; [split; [exact I|reflexivity]|].
    destruct (one_run_wf r false Hr) as (W & D). split.
    - apply qwf_app; [exact W|rewrite D; exact IW].
    - rewrite dirty_after_app, D. exact ID.
  Qed.

  Lemma search_session_wf : forall restored pre runs,
    Forall P pre -> Forall run_inds runs -> qwf false (search_session restored pre runs).
  Proof.
    intros restored pre runs Hp Hr. unfold search_session.
    destruct (qwf_evals_end pre Hp) as (PW & PD). destruct (runs_wf runs Hr) as (RW & RD).
    assert (G : qwf false (map QEval pre ++ flat_map one_run runs ++ [QSaveLoad])).
    { apply qwf_app; [exact PW|]. rewrite PD. apply qwf_app; [exact RW|]. rewrite RD. exact I. }
    destruct restored; cbn [app qwf]; exact G.
  Qed.

  Lemma search_session_transparent : forall bits d restored pre runs,
    Forall P pre -> Forall run_inds runs ->
    qrun (mkp data (fresh bits) d) (search_session restored pre runs) =
      (qdirect d (search_session restored pre runs), true).
  Proof. intros. apply proxy_sessions_transparent. apply search_session_wf; assumption. Qed.
End ProxySessions.
