(* C04 -- executable model of the fitness cache of vita
   (src/kernel/cache.{h,cc}, cache_hash.h, evaluator_proxy.tcc), definitions
   only.  One Gallina function per C++ function, same branch structure.

   hash_t        = pair of N (the two 64-bit words; index uses data[0] only)
   fitness_t     = list of 64-bit patterns of the doubles ([] = empty fitness,
                   which is what find returns for "not found")
   cache::table_ = total function N -> slot (only indices < 2^bits are ever
                   addressed: index k = data[0] & k_mask = data[0] mod 2^bits)
   cache::seal_  = N, wrapping at 2^32 exactly where the C++ `unsigned` wraps

   Serialisation is modelled on the token stream of the text file: a token is
   a maximal run of non-blank characters (a number) or an end-of-line; this is
   the level at which `in >> x`, `in >> std::ws` and `std::getline` differ.
   The decimal text of a double is NOT modelled: a finite double is assumed to
   survive "%.16e" / operator>> (H_17digits, exercised by the correspondence
   check), so a float token carries its bit pattern.

   The functions named *_pinned are the code as it was before the three
   `fix:` commits (save count, empty fitness line, seal wrap); they are used
   only by Props/Refuted_C04.v. *)
From Coq Require Import NArith List Bool.
Import ListNotations.
Local Open Scope N_scope.

Definition key := (N * N)%type.
Definition fitness := list N.

(* hash_t::operator== / hash_t::empty / hash_t() *)
Definition key_eqb (a b : key) : bool := (fst a =? fst b) && (snd a =? snd b).
Definition key_empty (k : key) : bool := (fst k =? 0) && (snd k =? 0).
Definition key0 : key := (0, 0).

(* struct slot { hash_t hash; fitness_t fitness; unsigned seal; } *)
Record slot := mkslot { skey : key; sfit : fitness; sseal : N }.
Definition slot0 : slot := mkslot key0 [] 0.         (* value-initialised *)

Record table := mktable { tbits : N; slots : N -> slot; seal : N }.

Definition M32 : N := 4294967296.                     (* 2^32 *)

(* cache::cache(bits): table_(1 << bits), seal_(1) *)
Definition fresh (bits : N) : table := mktable bits (fun _ => slot0) 1.

(* cache::index *)
Definition index (t : table) (k : key) : N := fst k mod 2 ^ tbits t.

Definition upd (f : N -> slot) (i : N) (s : slot) : N -> slot :=
  fun j => if j =? i then s else f j.

(* cache::find : const slot &s(table_[index(h)]);
                 if (seal_ == s.seal && h == s.hash) return s.fitness; return empty; *)
Definition find (t : table) (k : key) : fitness :=
  let s := slots t (index t k) in
  if (seal t =? sseal s) && key_eqb k (skey s) then sfit s else [].

(* cache::insert : slot s{h, fitness, seal_}; table_[index(s.hash)] = s; *)
Definition insert (t : table) (k : key) (v : fitness) : table :=
  mktable (tbits t) (upd (slots t) (index t k) (mkslot k v (seal t))) (seal t).

(* cache::clear() before the fix:  ++seal_;  *)
Definition clear_pinned (t : table) : table :=
  mktable (tbits t) (slots t) ((seal t + 1) mod M32).

(* cache::clear() :  if (++seal_ == 0) { for (auto &s : table_) s.seal = 0; seal_ = 1; } *)
Definition clear (t : table) : table :=
  let s := (seal t + 1) mod M32 in
  if s =? 0
  then mktable (tbits t) (fun i => let x := slots t i in mkslot (skey x) (sfit x) 0) 1
  else mktable (tbits t) (slots t) s.

(* cache::clear(h) : table_[index(h)].hash = hash_t(); *)
Definition clear_one (t : table) (k : key) : table :=
  let i := index t k in
  let x := slots t i in
  mktable (tbits t) (upd (slots t) i (mkslot key0 (sfit x) (sseal x))) (seal t).

(* ------------------------------------------------------------ text stream *)
Inductive tok := TNum (n : N) | TNL.

Fixpoint skip_nl (s : list tok) : list tok :=
  match s with TNL :: r => skip_nl r | _ => s end.

(* in >> n  (skips white space, end-of-lines included) *)
Definition read_num (s : list tok) : option (N * list tok) :=
  match skip_nl s with TNum n :: r => Some (n, r) | _ => None end.

(* hash_t::load : in >> tmp.data[0] >> tmp.data[1] *)
Definition read_key (s : list tok) : option (key * list tok) :=
  match read_num s with
  | None => None
  | Some (a, r) =>
      match read_num r with
      | None => None
      | Some (b, r') => Some ((a, b), r')
      end
  end.

(* std::getline : the rest of the current line, the end-of-line is consumed *)
Fixpoint take_line (s : list tok) : list N * list tok :=
  match s with
  | [] => ([], [])
  | TNL :: r => ([], r)
  | TNum n :: r => let (l, r') := take_line r in (n :: l, r')
  end.

(* basic_fitness_t::load : getline(in >> std::ws, line) fails only at end of
   input; then every number of the line *)
Definition read_fitness (s : list tok) : option (fitness * list tok) :=
  match skip_nl s with
  | [] => None
  | s' => Some (take_line s')
  end.

Definition indices (n : N) : list N := map N.of_nat (seq 0 (N.to_nat n)).
Definition all_slots (t : table) : list slot := map (slots t) (indices (2 ^ tbits t)).

Definition is_nil (f : fitness) : bool := match f with [] => true | _ => false end.

(* s.seal == seal_ && !s.hash.empty() *)
Definition live (t : table) (s : slot) : bool :=
  (sseal s =? seal t) && negb (key_empty (skey s)).
(* ... && s.fitness.size()      (fix: an empty fitness is never a hit, it is not saved) *)
Definition saved (t : table) (s : slot) : bool :=
  live t s && negb (is_nil (sfit s)).

(* hash.save: "d0 d1\n";  fitness.save: "f0 f1 ... \n" *)
Definition emit (s : slot) : list tok :=
  [TNum (fst (skey s)); TNum (snd (skey s)); TNL] ++ map TNum (sfit s) ++ [TNL].

(* cache::save *)
Definition save (t : table) : list tok :=
  let l := filter (saved t) (all_slots t) in
  [TNum (seal t); TNL; TNum (N.of_nat (length l)); TNL] ++ flat_map emit l.

(* cache::save before the fixes: counts every slot with a non-empty key,
   writes the slots of the current seal, empty fitness values included *)
Definition save_pinned (t : table) : list tok :=
  [TNum (seal t); TNL;
   TNum (N.of_nat (length (filter (fun s => negb (key_empty (skey s))) (all_slots t)))); TNL]
  ++ flat_map emit (filter (live t) (all_slots t)).

(* the loop of cache::load; a failure leaves the slots written so far *)
Fixpoint load_loop (n : nat) (ts : N) (s : list tok) (t : table) : bool * table :=
  match n with
  | O => (true, t)
  | S n' =>
      match read_key s with
      | None => (false, t)
      | Some (k, r) =>
          match read_fitness r with
          | None => (false, t)
          | Some (f, r') =>
              load_loop n' ts r'
                (mktable (tbits t) (upd (slots t) (index t k) (mkslot k f ts)) (seal t))
          end
      end
  end.

(* cache::load : `unsigned t_seal` (in >> fails above 2^32-1), `size_t n` *)
Definition load (s : list tok) (t : table) : bool * table :=
  match read_num s with
  | None => (false, t)
  | Some (ts, r) =>
      if M32 <=? ts then (false, t) else
      match read_num r with
      | None => (false, t)
      | Some (n, r') =>
          let (ok, t') := load_loop (N.to_nat n) ts r' t in
          if ok then (true, mktable (tbits t') (slots t') ts) else (false, t')
      end
  end.

(* ------------------------------------------------------------ histories *)
Inductive op :=
| Insert (k : key) (v : fitness)
| Clear
| ClearOne (k : key)
| SaveLoad.                (* save, then load into a fresh table of the same size *)

Definition step (t : table) (o : op) : table :=
  match o with
  | Insert k v => insert t k v
  | Clear => clear t
  | ClearOne k => clear_one t k
  | SaveLoad => snd (load (save t) (fresh (tbits t)))
  end.

Definition run (ops : list op) (t : table) : table := fold_left step ops t.

(* the specification: the "live map" from signatures to fitness values
   ([] = nothing stored) *)
Definition spec := key -> fitness.

Definition same_slot (bits : N) (k k' : key) : bool :=
  fst k mod 2 ^ bits =? fst k' mod 2 ^ bits.

Definition spec_step (bits : N) (m : spec) (o : op) : spec :=
  fun k' =>
    match o with
    | Insert k v => if key_eqb k' k then v else if same_slot bits k' k then [] else m k'
    | Clear => []
    | ClearOne k => if same_slot bits k' k then [] else m k'
    | SaveLoad => m k'
    end.

Definition spec_run (bits : N) (ops : list op) (m : spec) : spec :=
  fold_left (spec_step bits) ops m.

(* o leaves whatever is stored under k alone *)
Definition untouched (bits : N) (k : key) (o : op) : bool :=
  match o with
  | Insert k' _ => negb (same_slot bits k k')
  | Clear => false
  | ClearOne k' => negb (same_slot bits k k')
  | SaveLoad => true
  end.

(* ------------------------------------------------------------ the proxy
   evaluator_proxy::operator() :
     fitness_t f(cache_.find(prg.signature()));
     if (f.size()) ; else { f = eva_(prg); cache_.insert(prg.signature(), f); }
     return f;
   [now] is what the wrapped evaluator returns if it is called at this moment;
   the boolean tells whether it was called. *)
Definition proxy_eval (t : table) (sg : key) (now : fitness) : fitness * bool * table :=
  match find t sg with
  | [] => (now, true, insert t sg now)
  | f => (f, false, t)
  end.

(* evaluator_proxy::save : return eva_.save(out) && cache_.save(out);
   evaluator_proxy::load : return eva_.load(in) && cache_.load(in);
   [eva_toks] is what the wrapped evaluator writes, [eva_load] how it reads it
   back (None = failure); search::close / search::init use the pair to carry
   the cache of the training evaluator from one session to the next. *)
Definition proxy_save (eva_toks : list tok) (t : table) : list tok := eva_toks ++ save t.
Definition proxy_load (eva_load : list tok -> option (list tok)) (s : list tok) (t : table) : bool * table :=
  match eva_load s with
  | None => (false, t)
  | Some r => load r t
  end.
(* evaluator_proxy::fast : return eva_.fast(prg);   -- the approximate fitness is neither looked up
   nor stored: the cache is left alone.  [fnow] is what the wrapped fast() returns now. *)
Definition proxy_fast (t : table) (sg : key) (fnow : fitness) : fitness * table := (fnow, t).
(* evaluator_proxy::clear : cache_.clear(); *)
Definition proxy_clear (t : table) : table := clear t.

(* ------------------------------------------------------------ dump for the
   correspondence check: seal and the slots of the current seal with a
   non-empty key, in index order *)
Definition dump (t : table) : N * list (N * slot) :=
  (seal t,
   filter (fun p => live t (snd p)) (map (fun i => (i, slots t i)) (indices (2 ^ tbits t)))).

(* closed form used to state the wrap without a list of 2^32 operations *)
Definition clears_pinned (n : N) (t : table) : table := N.iter n clear_pinned t.
Definition clears (n : N) (t : table) : table := N.iter n clear t.

(* ------------------------------------------------------------ used by the
   correspondence drivers only.
   [warp t d]: the state d clears before the wrap (the harness writes seal_
   through private access instead of calling clear() 2^32-d-seal times; by
   CacheProofs.clears_closed that is the same state).
   [clears_fast]: n calls of clear() evaluated through the closed form, one
   real [clear] at each wrap. *)
Definition warp (t : table) (d : N) : table :=
  mktable (tbits t) (slots t) ((M32 - d) mod M32).

Fixpoint clears_fast (fuel : nat) (n : N) (t : table) : table :=
  match fuel with
  | O => t
  | S fuel' =>
      if n =? 0 then t
      else if seal t + n <? M32 then mktable (tbits t) (slots t) (seal t + n)
      else
        let n1 := M32 - 1 - seal t in
        clears_fast fuel' (n - n1 - 1) (clear (mktable (tbits t) (slots t) (M32 - 1)))
  end.
