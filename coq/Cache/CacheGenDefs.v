(* C04 -- the cache model as an INTERPRETER of the regenerated table-level
   facts (Gen/CacheTable.v): every g-function below does what cache.cc says
   now, as far as translate/cache_proto.py understands it.  With the facts of
   the repaired tree ([std_facts]) they are the functions of CacheDefs.v
   (Cache/CacheGen.v).  Definitions only: this is what is extracted and run
   against the implementation. *)
From Coq Require Import NArith List Bool.
From VV Require Import Cache.CacheDefs Cache.TableTypes.
Import ListNotations.
Local Open Scope N_scope.

Section G.
  Variable F : facts.

  (* hash_t::operator== / hash_t::empty as the source defines them *)
  Definition g_key_eqb (a b : key) : bool :=
    (if f_eq_half0 F then fst a =? fst b else true) && (if f_eq_half1 F then snd a =? snd b else true).
  Definition g_key_empty (k : key) : bool :=
    (if f_empty_half0 F then fst k =? 0 else true) && (if f_empty_half1 F then snd k =? 0 else true).

  Definition g_index (t : table) (k : key) : N :=
    let w := if f_index_half F then snd k else fst k in
    if f_index_mask F then w mod 2 ^ tbits t else w.

  Definition g_kcmp (t : table) (k sk : key) (c : kcmp) : bool :=
    match c with
    | KEq => g_key_eqb k sk
    | KHalf0 => fst k =? fst sk
    | KHalf1 => snd k =? snd sk
    | KHigh0 => fst k / 2 ^ tbits t =? fst sk / 2 ^ tbits t
    end.

  Definition g_fresh (bits : N) : table :=
    mktable bits (fun _ => slot0) (if f_ctor_seal_one F then 1 else 0).

  Definition g_find (t : table) (k : key) : fitness :=
    let s := slots t (g_index t k) in
    if (if f_find_seal F then seal t =? sseal s else true) &&
       forallb (g_kcmp t k (skey s)) (f_find_key F)
    then sfit s else [].

  (* a member the source does not assign keeps the value of `slot s;`
     (value-initialised key and fitness; the seal is indeterminate, modelled 0) *)
  Definition g_insert (t : table) (k : key) (v : fitness) : table :=
    let s := mkslot (if f_ins_hash F then k else key0) (if f_ins_fit F then v else [])
                    (if f_ins_seal F then seal t else 0) in
    mktable (tbits t) (upd (slots t) (g_index t (skey s)) s) (seal t).

  Definition g_clear (t : table) : table :=
    match f_clear F with
    | CkIncReset => clear t
    | CkInc => clear_pinned t
    | CkNone => t
    end.

  Definition g_clear_one (t : table) (k : key) : table :=
    let i := g_index t k in
    let x := slots t i in
    match f_clear_one F with
    | CoHash => mktable (tbits t) (upd (slots t) i (mkslot key0 (sfit x) (sseal x))) (seal t)
    | CoSeal => mktable (tbits t) (upd (slots t) i (mkslot (skey x) (sfit x) 0)) (seal t)
    | CoNone => t
    end.

  Definition g_live (lt : live_test) (t : table) (s : slot) : bool :=
    (if lt_seal lt then sseal s =? seal t else true) &&
    (if lt_key lt then negb (g_key_empty (skey s)) else true) &&
    (if lt_fit lt then negb (is_nil (sfit s)) else true).

  Definition g_save (t : table) : list tok :=
    [TNum (seal t); TNL;
     TNum (N.of_nat (length (filter (g_live (f_save_count F) t) (all_slots t)))); TNL]
    ++ flat_map emit (filter (g_live (f_save_write F) t) (all_slots t)).

  Fixpoint g_load_loop (n : nat) (ts : N) (s : list tok) (t : table) : bool * table :=
    match n with
    | O => (true, t)
    | S n' =>
        match read_key s with
        | None => (false, t)
        | Some (k, r) =>
            match read_fitness r with
            | None => (false, t)
            | Some (f, r') =>
                g_load_loop n' ts r'
                  (mktable (tbits t)
                           (upd (slots t) (g_index t k) (mkslot k f (if f_load_slot_seal F then ts else 0)))
                           (seal t))
            end
        end
    end.

  Definition g_load (s : list tok) (t : table) : bool * table :=
    match read_num s with
    | None => (false, t)
    | Some (ts, r) =>
        if M32 <=? ts then (false, t) else
        match read_num r with
        | None => (false, t)
        | Some (n, r') =>
            let (ok, t') := g_load_loop (N.to_nat n) ts r' t in
            if ok then (true, if f_load_sets_seal F then mktable (tbits t') (slots t') ts else t')
            else (false, t')
        end
    end.

  Definition g_step (t : table) (o : op) : table :=
    match o with
    | Insert k v => g_insert t k v
    | Clear => g_clear t
    | ClearOne k => g_clear_one t k
    | SaveLoad => snd (g_load (g_save t) (g_fresh (tbits t)))
    end.

  Definition g_run (ops : list op) (t : table) : table := fold_left g_step ops t.

  Definition g_proxy_eval (t : table) (sg : key) (now : fitness) : fitness * bool * table :=
    match g_find t sg with
    | [] => (now, true, g_insert t sg now)
    | f => (f, false, t)
    end.

  (* evaluator_proxy::save / load around an evaluator that writes one marker
     number and checks it when reading (the harness's counting evaluator) *)
  Definition g_proxy_save (m : N) (t : table) : list tok := [TNum m; TNL] ++ g_save t.
  Definition g_proxy_load (m : N) (s : list tok) (t : table) : bool * table :=
    match read_num s with
    | Some (x, r) => if x =? m then g_load r t else (false, t)
    | None => (false, t)
    end.

  (* the dump of the harness: s.seal == seal_ && !s.hash.empty() with the source's empty() *)
  Definition g_dump (t : table) : N * list (N * slot) :=
    (seal t,
     filter (fun p => (sseal (snd p) =? seal t) && negb (g_key_empty (skey (snd p))))
            (map (fun i => (i, slots t i)) (indices (2 ^ tbits t)))).
End G.
