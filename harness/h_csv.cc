// Correspondence harness for the dataset import (C09, C10): runs the REAL
// dataframe::read_csv / read_xrff / src_problem on text given as hex bytes and
// prints one canonical line (same grammar as ocaml/csv_driver.ml).
//
// input : csv  <variant> <texthex|-> <delim> <hdr -1|0|1> <trim 0|1> <out|-1> <filter>
//         prob <variant> <texthex|-> <strong 0|1>
//         xrff <variant> <texthex|-> <filter>
//         line <texthex|-> <delim> <trim> <keep>
//         path <variant> <read|read_csv|read_xrff|prob> <file name>     (reading BY FILE NAME)
//         hist <variant> <k> <step>...                                 (several reads on one dataframe object)
//         (<variant> is for the model only and is ignored here)
// output: OK ret=<n> COLS=<name>:<dom>:<state>,..;.. CLS=<label>=<id>,.. EX=<out>|<in>,..;..
//            [VARS=<name>:<id>:<cat>;.. RUN=<v>,..;..]  [DOM <A-token> <I-token>]
//         EXN <kind>
#include <cstdint>
#include <cstring>
#include <iostream>
#include <map>
#include <memory>
#include <set>
#include <sstream>
#include <string>
#include <vector>
#include <variant>
#include <optional>
#include <functional>
#include <filesystem>
#include <fstream>
#include <algorithm>

#define private public
#define protected public
#include "kernel/vita.h"
#include "kernel/gp/src/variable.h"
#include "kernel/gp/src/category_set.h"
#include "tinyxml2/tinyxml2.h"
#undef private
#undef protected

using namespace vita;

namespace
{
std::string unhex(const std::string &h)
{
  std::string s;
  if (h == "-") return s;
  for (std::size_t i(0); i + 1 < h.size(); i += 2)
    s += static_cast<char>(std::stoi(h.substr(i, 2), nullptr, 16));
  return s;
}

std::string hex(const std::string &s)
{
  if (s.empty()) return "-";
  std::string out;
  for (unsigned char c : s)
  {
    char b[4];
    std::snprintf(b, sizeof(b), "%02x", c);
    out += b;
  }
  return out;
}

std::string hex64(std::uint64_t x)
{
  char buf[32];
  std::snprintf(buf, sizeof(buf), "%016llx", static_cast<unsigned long long>(x));
  return buf;
}

std::string show(const value_t &v)
{
  switch (v.index())
  {
  case d_void: return "v";
  case d_int: return "i:" + std::to_string(std::get<D_INT>(v));
  case d_double:
  {
    const double d(std::get<D_DOUBLE>(v));
    if (d != d) return "d:7ff8000000000000";
    std::uint64_t u;
    std::memcpy(&u, &d, sizeof(u));
    return "d:" + hex64(u);
  }
  default:
  {
    const auto &s(std::get<D_STRING>(v));
    return "s:" + (s.empty() ? std::string() : hex(s));
  }
  }
}

std::vector<std::string> split(const std::string &l, char sep = ' ')
{
  std::vector<std::string> out;
  std::string w;
  std::istringstream ss(l);
  while (std::getline(ss, w, sep))
    if (sep != ' ' || !w.empty()) out.push_back(w);
  return out;
}

dataframe::filter_hook_t parse_filter(const std::string &t)
{
  const auto w(split(t, ':'));
  if (w.empty() || w[0] == "N") return nullptr;
  if (w[0] == "E")
  {
    const std::size_t k(std::stoul(w[1]));
    const std::string b(unhex(w.size() > 2 ? w[2] : "-"));
    return [k, b](dataframe::record_t &r) { return !(k < r.size() && r[k] == b); };
  }
  if (w[0] == "D")
  {
    const std::size_t k(std::stoul(w[1]));
    return [k](dataframe::record_t &r)
           {
             if (k < r.size()) r.erase(r.begin() + static_cast<std::ptrdiff_t>(k));
             return true;
           };
  }
  throw std::runtime_error("bad filter");
}

std::string show_df(const dataframe &d)
{
  std::string out("COLS=");
  for (const auto &c : d.columns)
  {
    out += hex(c.name) + ":" + std::to_string(static_cast<int>(c.domain)) + ":";
    for (const auto &s : c.states)
      out += (std::holds_alternative<D_STRING>(s) ? hex(std::get<D_STRING>(s)) : "?" + show(s)) + ",";
    out += ";";
  }
  out += " CLS=";
  for (const auto &p : d.classes_map_)
    out += hex(p.first) + "=" + std::to_string(p.second) + ",";
  // id -> name through dataframe::class_name, for every id in use
  out += " NAMES=";
  for (class_t i(0); i < d.classes(); ++i)
    out += hex(d.class_name(i)) + ",";
  out += " EX=";
  for (const auto &e : d)
  {
    out += show(e.output) + "|";
    for (const auto &v : e.input) out += show(v) + ",";
    out += ";";
  }
  // the frame's own consistency check (label() may throw)
  try { out += d.is_valid() ? " VALID=1" : " VALID=0"; }
  catch (const std::bad_variant_access &) { out += " VALID=X"; }
  return out;
}

// The DOM exactly as dataframe::read_xrff looks at it (same tinyxml2 calls)
std::string show_dom(const std::string &text)
{
  tinyxml2::XMLDocument doc;
  if (doc.Parse(text.c_str()) != tinyxml2::XML_SUCCESS)
    return "DOM ERR ERR";
  tinyxml2::XMLHandle handle(&doc);
  std::string a, i;
  if (auto *attributes = handle.FirstChildElement("dataset").FirstChildElement("header")
                         .FirstChildElement("attributes").ToElement())
  {
    a = "A=";
    for (auto *attribute(attributes->FirstChildElement("attribute")); attribute;
         attribute = attribute->NextSiblingElement("attribute"))
    {
      const char *s(attribute->Attribute("name"));
      a += hex(s ? s : "") + ":";
      a += attribute->Attribute("class", "yes") ? "1:" : "0:";
      s = attribute->Attribute("type");
      a += hex(s ? s : "") + ":";
      for (auto *l(attribute->FirstChildElement("label")); l; l = l->NextSiblingElement("label"))
        a += hex(l->GetText() ? l->GetText() : "") + ",";
      a += ";";
    }
  }
  else
    a = "A-";
  if (auto *instances = handle.FirstChildElement("dataset").FirstChildElement("body")
                        .FirstChildElement("instances").ToElement())
  {
    i = "I=";
    for (auto *in(instances->FirstChildElement("instance")); in; in = in->NextSiblingElement("instance"))
    {
      for (auto *v(in->FirstChildElement("value")); v; v = v->NextSiblingElement("value"))
        i += hex(v->GetText() ? v->GetText() : "") + ",";
      i += ";";
    }
  }
  else
    i = "I-";
  return "DOM " + a + " " + i;
}

std::size_t open_fds()
{
  std::size_t n(0);
  for (const auto &e : std::filesystem::directory_iterator("/proc/self/fd"))
  {
    (void)e;
    ++n;
  }
  return n;
}

std::string slurp(const std::string &fn)
{
  std::ifstream f(fn, std::ios::binary);
  std::ostringstream ss;
  ss << f.rdbuf();
  return ss.str();
}

std::string show_problem(src_problem &prob, bool strong)
{
  const dataframe &d(prob.data());
  std::string out("OK ret=" + std::to_string(d.size()) + " " + show_df(d));
  std::vector<const variable *> vars;
  for (const auto &s : prob.sset.symbols_)
    if (const auto *v = dynamic_cast<const variable *>(s.get()))
      vars.push_back(v);
  const category_set cs(d.columns, strong ? typing::strong : typing::weak);
  out += " VARS=";
  for (const auto *v : vars)
  {
    // category as assigned by category_set (symbol_set renumbers the undefined one)
    long cat(static_cast<long>(v->category()));
    for (std::size_t i(1); i < d.columns.size(); ++i)
    {
      const auto nm(d.columns[i].name.empty() ? "X" + std::to_string(i) : d.columns[i].name);
      if (nm == v->name() && cs.column(i).category == undefined_category) cat = -1;
    }
    out += hex(v->name()) + ":" + std::to_string(v->var_) + ":" + std::to_string(cat) + ";";
  }
  out += " RUN=";
  std::size_t k(0);
  for (const auto &e : d)
  {
    if (k++ >= 3) break;
    for (const auto *v : vars)
    {
      i_mep ind({gene(std::pair<symbol *, std::vector<index_t>>{const_cast<variable *>(v), {}})});
      ind.best_ = locus{0, v->category()};
      out += show(run(ind, e.input)) + ",";
    }
    out += ";";
  }
  return out;
}

// Reading BY FILE NAME: path <variant> <api> <file>   api: read | read_csv | read_xrff | prob
// The number of open descriptors is compared before/after the call (FDLEAK=<delta> when it grew).
std::string run_path(const std::vector<std::string> &w)
{
  const std::string api(w[2]), fn(w[3]);
  const bool xml(fn.size() > 5 && (fn.substr(fn.size() - 5) == ".xrff" || fn.substr(fn.size() - 4) == ".xml"));
  const std::string dom(api == "read_xrff" || (xml && api != "read_csv") ? " " + show_dom(slurp(fn)) : "");
  const auto before(open_fds());
  std::string out;
  try
  {
    if (api == "prob")
    {
      src_problem prob{std::filesystem::path(fn)};
      out = xml ? "OK ret=" + std::to_string(prob.data().size()) + " " + show_df(prob.data())
                : show_problem(prob, false);
    }
    else
    {
      dataframe d;
      std::size_t n(0);
      if (api == "read") n = d.read(std::filesystem::path(fn));
      else if (api == "read_csv") n = d.read_csv(std::filesystem::path(fn), dataframe::params());
      else if (api == "read_xrff") n = d.read_xrff(std::filesystem::path(fn), dataframe::params());
      else return "BADLINE";
      out = "OK ret=" + std::to_string(n) + " " + show_df(d);
    }
  }
  catch (const exception::data_format &) { out = "EXN data_format"; }
  catch (const exception::insufficient_data &) { out = "EXN insufficient_data"; }
  catch (const std::invalid_argument &) { out = "EXN invalid_argument"; }
  catch (const std::out_of_range &) { out = "EXN out_of_range"; }
  catch (const std::bad_variant_access &) { out = "EXN bad_variant_access"; }
  catch (const std::bad_alloc &) { out = "EXN bad_alloc"; }
  catch (const std::exception &e) { out = std::string("EXN other:") + typeid(e).name(); }
  const auto after(open_fds());
  if (after > before) out += " FDLEAK=" + std::to_string(after - before);
  return out + dom;
}

std::string exn_name(const std::exception &e)
{
  if (dynamic_cast<const exception::data_format *>(&e)) return "data_format";
  if (dynamic_cast<const exception::insufficient_data *>(&e)) return "insufficient_data";
  if (dynamic_cast<const std::invalid_argument *>(&e)) return "invalid_argument";
  if (dynamic_cast<const std::out_of_range *>(&e)) return "out_of_range";
  if (dynamic_cast<const std::bad_variant_access *>(&e)) return "bad_variant_access";
  if (dynamic_cast<const std::bad_alloc *>(&e)) return "bad_alloc";
  return std::string("other:") + typeid(e).name();
}

// Several reads on ONE dataframe object:  hist <variant> <k> <step>...   step: c/<texthex>/<delim>/<hdr>/<trim>/<out>
// or x/<texthex>.  Output: HIST S=<outcome>,.. <frame after the last step> DOMS=<A>|<I>;..  (one DOM per x step)
std::string run_hist(const std::vector<std::string> &w)
{
  dataframe d;
  std::string outcomes, doms;
  const std::size_t k(std::stoul(w[2]));
  for (std::size_t i(0); i < k && 3 + i < w.size(); ++i)
  {
    const auto f(split(w[3 + i], '/'));
    try
    {
      std::size_t n(0);
      if (f[0] == "c" && f.size() == 6)
      {
        std::istringstream is(unhex(f[1]));
        dataframe::params p;
        p.dialect.delimiter = static_cast<char>(std::stoi(f[2]));
        const int h(std::stoi(f[3]));
        p.dialect.has_header = h < 0 ? pocket_csv::dialect::GUESS_HEADER
                               : h == 0 ? pocket_csv::dialect::NO_HEADER : pocket_csv::dialect::HAS_HEADER;
        p.dialect.trim_ws = f[4] == "1";
        if (f[5] == "-1") p.no_output(); else p.output(static_cast<std::size_t>(std::stoull(f[5])));
        n = d.read_csv(is, p);
      }
      else if (f[0] == "x" && f.size() == 2)
      {
        const std::string text(unhex(f[1]));
        const std::string dom(show_dom(text));          // "DOM <A> <I>"
        const auto dw(split(dom));
        doms += dw[1] + "|" + dw[2] + "!";
        std::istringstream is(text);
        n = d.read_xrff(is, dataframe::params());
      }
      else
        return "BADLINE";
      outcomes += "ok" + std::to_string(n) + ",";
    }
    catch (const std::exception &e) { outcomes += "exn:" + exn_name(e) + ","; }
  }
  return "HIST S=" + outcomes + " " + show_df(d) + " DOMS=" + doms;
}

// A history on ONE src_problem object:  probh <variant> <k> <op>...
//   n/<texthex>/<strong>                       src_problem(std::istream &, typing)   (first op)
//   r/<texthex>/<delim>/<hdr>/<trim>/<out>     data().read_csv(stream, params)
//   x/<texthex>                                data().read_xrff(stream)
//   s/<strong>                                 setup_symbols(typing)
// Output: PROBH S=<outcome>,.. <training frame> VARS=.. NSYM=<symbols that are not variables> VARIABLES=<variables()>
//         CLASSES=<classes()> RUN=..  DOMS=..     A variable whose index is not below the width of the example is NOT
//         run (printed OOB): after a failed read the frame may not match the symbol set any more, and running it would
//         be the caller's misuse, not the reader's.
std::string run_probh(const std::vector<std::string> &w)
{
  std::unique_ptr<src_problem> prob;
  std::string outcomes, doms;
  const std::size_t k(std::stoul(w[2]));
  for (std::size_t i(0); i < k && 3 + i < w.size(); ++i)
  {
    const auto f(split(w[3 + i], '/'));
    try
    {
      std::size_t n(0);
      if (f[0] == "n" && f.size() == 3)
      {
        std::istringstream is(unhex(f[1]));
        prob = std::make_unique<src_problem>(is, f[2] == "1" ? typing::strong : typing::weak);
        n = prob->data().size();
      }
      else if (!prob)
      {
        outcomes += "skip,";
        continue;
      }
      else if (f[0] == "r" && f.size() == 6)
      {
        std::istringstream is(unhex(f[1]));
        dataframe::params p;
        p.dialect.delimiter = static_cast<char>(std::stoi(f[2]));
        const int h(std::stoi(f[3]));
        p.dialect.has_header = h < 0 ? pocket_csv::dialect::GUESS_HEADER
                               : h == 0 ? pocket_csv::dialect::NO_HEADER : pocket_csv::dialect::HAS_HEADER;
        p.dialect.trim_ws = f[4] == "1";
        if (f[5] == "-1") p.no_output(); else p.output(static_cast<std::size_t>(std::stoull(f[5])));
        n = prob->data().read_csv(is, p);
      }
      else if (f[0] == "x" && f.size() == 2)
      {
        const std::string text(unhex(f[1]));
        const auto dw(split(show_dom(text)));
        doms += dw[1] + "|" + dw[2] + "!";
        std::istringstream is(text);
        n = prob->data().read_xrff(is);
      }
      else if (f[0] == "s" && f.size() == 2)
        n = prob->setup_symbols(f[1] == "1" ? typing::strong : typing::weak);
      else
        return "BADLINE";
      outcomes += "ok" + std::to_string(n) + ",";
    }
    catch (const std::exception &e) { outcomes += "exn:" + exn_name(e) + ","; }
  }
  if (!prob)
    return "PROBH S=" + outcomes + " NONE DOMS=" + doms;
  const dataframe &d(prob->data());
  std::string out("PROBH S=" + outcomes + " " + show_df(d));
  std::vector<const variable *> vars;
  for (const auto &s : prob->sset.symbols_)
    if (const auto *v = dynamic_cast<const variable *>(s.get()))
      vars.push_back(v);
  out += " VARS=";
  for (const auto *v : vars)
    out += hex(v->name()) + ":" + std::to_string(v->var_) + ";";
  out += " NSYM=" + std::to_string(prob->sset.symbols_.size() - vars.size());
  out += " VARIABLES=" + std::to_string(d.empty() ? 0u : static_cast<unsigned>(d.begin()->input.size()));
  out += " CLASSES=" + std::to_string(prob->classes());
  out += " RUN=";
  std::size_t r(0);
  for (const auto &e : d)
  {
    if (r++ >= 3) break;
    for (const auto *v : vars)
    {
      if (v->var_ >= e.input.size()) { out += "OOB,"; continue; }
      i_mep ind({gene(std::pair<symbol *, std::vector<index_t>>{const_cast<variable *>(v), {}})});
      ind.best_ = locus{0, v->category()};
      out += show(run(ind, e.input)) + ",";
    }
    out += ";";
  }
  return out + " DOMS=" + doms;
}

std::string run_line(const std::vector<std::string> &w)
{
  if (w[0] == "probh" && w.size() >= 3)
    return run_probh(w);
  if (w[0] == "path" && w.size() == 4)
    return run_path(w);
  if (w[0] == "hist" && w.size() >= 3)
    return run_hist(w);
  if (w[0] == "csv" && w.size() == 8)
  {
    std::istringstream is(unhex(w[2]));
    dataframe::params p;
    p.dialect.delimiter = static_cast<char>(std::stoi(w[3]));
    const int h(std::stoi(w[4]));
    p.dialect.has_header = h < 0 ? pocket_csv::dialect::GUESS_HEADER
                           : h == 0 ? pocket_csv::dialect::NO_HEADER : pocket_csv::dialect::HAS_HEADER;
    p.dialect.trim_ws = w[5] == "1";
    // the output index is a std::size_t: every value up to SIZE_MAX is admissible ("-1" = none)
    if (w[6] == "-1") p.no_output(); else p.output(static_cast<std::size_t>(std::stoull(w[6])));
    p.filter = parse_filter(w[7]);
    dataframe d;
    const auto n(d.read_csv(is, p));
    return "OK ret=" + std::to_string(n) + " " + show_df(d);
  }
  if (w[0] == "prob" && w.size() == 4)
  {
    std::istringstream is(unhex(w[2]));
    src_problem prob(is, w[3] == "1" ? typing::strong : typing::weak);
    return show_problem(prob, w[3] == "1");
  }
  if (w[0] == "xrff" && w.size() == 4)
  {
    const std::string text(unhex(w[2]));
    const std::string dom(show_dom(text));
    std::istringstream is(text);
    dataframe::params p;
    p.filter = parse_filter(w[3]);
    dataframe d;
    try
    {
      const auto n(d.read_xrff(is, p));
      return "OK ret=" + std::to_string(n) + " " + show_df(d) + " " + dom;
    }
    catch (const exception::data_format &) { return "EXN data_format " + dom; }
    catch (const exception::insufficient_data &) { return "EXN insufficient_data " + dom; }
    catch (const std::invalid_argument &) { return "EXN invalid_argument " + dom; }
    catch (const std::out_of_range &) { return "EXN out_of_range " + dom; }
    catch (const std::bad_variant_access &) { return "EXN bad_variant_access " + dom; }
  }
  if (w[0] == "line" && w.size() == 5)
  {
    std::istringstream is(unhex(w[1]));
    pocket_csv::dialect dl;
    dl.delimiter = static_cast<char>(std::stoi(w[2]));
    dl.trim_ws = w[3] == "1";
    dl.has_header = pocket_csv::dialect::NO_HEADER;
    dl.quoting = w[4] == "1" ? pocket_csv::dialect::KEEP_QUOTES : pocket_csv::dialect::REMOVE_QUOTES;
    pocket_csv::parser prs(is, dl);
    std::string out("REC=");
    const pocket_csv::parser::record_t rec(*prs.begin());
    for (const auto &f : rec) out += hex(f) + ",";
    return out;
  }
  return "BADLINE";
}
}  // namespace

int main()
{
  log::reporting_level = log::lOFF;
  std::ios::sync_with_stdio(false);
  std::string line;
  while (std::getline(std::cin, line))
  {
    const auto w(split(line));
    if (w.empty()) { std::cout << "BADLINE" << std::endl; continue; }
    std::string out;
    try { out = run_line(w); }
    catch (const exception::data_format &) { out = "EXN data_format"; }
    catch (const exception::insufficient_data &) { out = "EXN insufficient_data"; }
    catch (const std::invalid_argument &) { out = "EXN invalid_argument"; }
    catch (const std::out_of_range &) { out = "EXN out_of_range"; }
    catch (const std::bad_variant_access &) { out = "EXN bad_variant_access"; }
    catch (const std::bad_alloc &) { out = "EXN bad_alloc"; }
    catch (const std::exception &e) { out = std::string("EXN other:") + typeid(e).name(); }
    std::cout << out << std::endl;
  }
}
