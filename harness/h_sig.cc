// C03 correspondence harness: signatures of i_mep / i_ga / i_de / team<i_mep>
// of the REAL code, before and after every public mutating operation.
//
// One scenario per input line, one output line per scenario (records
// separated by " ; ").  Individuals are built through the public API
// (`i_mep(std::vector<gene>)` + `replace` + `get_block`; `i_ga(problem)` /
// `i_de(problem)` + `operator[]`).  After every operation a record is printed:
//
//   <op> <ret> raw=<lo>:<hi> fs=<lo>:<hi> valid=<0|1> [G=<content>]
//
//   raw   the private cached member signature_ (read only; 0:0 = empty)
//   fs    signature() of an equal individual rebuilt from scratch, gene by gene
//   ret   what the operation returned (signature, n, ok, ...)
//
// See checks/c03.py for the grammar of the scenario lines.
#include <bits/stdc++.h>

#define private public
#define protected public
#include "kernel/vita.h"
#undef private
#undef protected

using namespace vita;

namespace
{
std::string hex64(std::uint64_t x)
{
  char buf[32];
  std::snprintf(buf, sizeof(buf), "%016llx", static_cast<unsigned long long>(x));
  return buf;
}
std::uint64_t bits_of(double d) { std::uint64_t u; std::memcpy(&u, &d, 8); return u; }
double double_of(std::uint64_t u) { double d; std::memcpy(&d, &u, 8); return d; }
std::string hs(hash_t h) { return hex64(h.data[0]) + ":" + hex64(h.data[1]); }

std::vector<std::string> split(const std::string &l, char sep = ' ')
{
  std::vector<std::string> out;
  std::string w;
  for (char ch : l)
    if (ch == sep) { if (!w.empty() || sep != ' ') out.push_back(w); w.clear(); }
    else w += ch;
  if (!w.empty() || (sep != ' ' && !l.empty())) out.push_back(w);
  return out;
}

// ---------------------------------------------------------------- symbols
class vterm : public terminal
{
public:
  vterm(const std::string &n, category_t c, bool par) : terminal(n, c), par_(par) {}
  bool parametric() const override { return par_; }
  terminal_param_t init() const override
  {
    if (!par_) return 0.0;
    // a small set of values, so that mutation sometimes redraws an equal /
    // almost equal parameter
    const double vs[] = {0.0, -0.0, 1.0, 1.0000001, -1.5, 3.25, 1e300, 5e-324};
    return vs[random::sup(8u)];
  }
  value_t eval(symbol_params &) const override { return {}; }
private:
  bool par_;
};

class vfun : public function
{
public:
  vfun(const std::string &n, category_t c, cvect a) : function(n, c, a) {}
  value_t eval(symbol_params &) const override { return {}; }
};

struct world
{
  problem p1, p2;                 // one category / two categories
  std::vector<symbol *> syms;     // global index -> symbol
  std::vector<int> set_of;        // 1 or 2
  std::map<const symbol *, int> index;

  void add(problem &p, int set, std::unique_ptr<symbol> s)
  {
    symbol *r(p.sset.insert(std::move(s)));
    index[r] = static_cast<int>(syms.size());
    syms.push_back(r);
    set_of.push_back(set);
  }

  world()
  {
    for (int set(1); set <= 2; ++set)
    {
      problem &p(set == 1 ? p1 : p2);
      add(p, set, std::make_unique<vterm>("X0", 0, false));
      add(p, set, std::make_unique<vterm>("X1", 0, false));
      add(p, set, std::make_unique<vterm>("C0", 0, true));
      add(p, set, std::make_unique<vfun>("F1", 0, cvect{0}));
      add(p, set, std::make_unique<vfun>("F2", 0, cvect{0, 0}));
      add(p, set, std::make_unique<vfun>("G2", 0, cvect{0, 0}));
      add(p, set, std::make_unique<vfun>("F3", 0, cvect{0, 0, 0}));
      add(p, set, std::make_unique<vfun>("F4", 0, cvect{0, 0, 0, 0}));
      add(p, set, std::make_unique<vfun>("F5", 0, cvect{0, 0, 0, 0, 0}));
      if (set == 2)
      {
        add(p, set, std::make_unique<vfun>("H2", 0, cvect{1, 0}));
        add(p, set, std::make_unique<vterm>("Y0", 1, false));
        add(p, set, std::make_unique<vterm>("D0", 1, true));
        add(p, set, std::make_unique<vfun>("K2", 1, cvect{1, 1}));
        add(p, set, std::make_unique<vfun>("K1", 1, cvect{0}));
      }
      p.env.mep.patch_length = 1;
    }
  }

  problem &prob(unsigned ncats, unsigned rows)
  {
    problem &p(ncats == 1 ? p1 : p2);
    p.env.mep.code_length = rows;
    return p;
  }
};

world *W;

// gene token  k:parhex|-:a,b,c|-
gene parse_gene(const std::string &t)
{
  const auto f(split(t, ':'));
  symbol *s(W->syms.at(std::stoul(f.at(0))));
  std::vector<index_t> args;
  if (f.at(2) != "-")
    for (const auto &a : split(f[2], ','))
      args.push_back(static_cast<index_t>(std::stoul(a)));
  gene g(std::pair<symbol *, std::vector<index_t>>{s, args});
  if (f.at(1) != "-")
    g.par = double_of(std::stoull(f[1], nullptr, 16));
  return g;
}

std::string show_gene(const gene &g)
{
  std::string out(std::to_string(W->index.at(g.sym)));
  out += ':';
  if (g.sym->terminal() && terminal::cast(g.sym)->parametric())
    out += hex64(bits_of(g.par));
  else
    out += '-';
  out += ':';
  if (g.args.empty())
    out += '-';
  else
    for (std::size_t i(0); i < g.args.size(); ++i)
      out += (i ? "," : "") + std::to_string(g.args[i]);
  return out;
}

using cells_t = std::map<std::pair<unsigned, unsigned>, gene>;

// cells token list  r,c=gene  ...
cells_t parse_cells(const std::vector<std::string> &w, std::size_t from, std::size_t to)
{
  cells_t cells;
  for (std::size_t i(from); i < to; ++i)
  {
    const auto eq(w[i].find('='));
    const auto rc(split(w[i].substr(0, eq), ','));
    cells.emplace(std::make_pair(std::stoul(rc.at(0)), std::stoul(rc.at(1))),
                  parse_gene(w[i].substr(eq + 1)));
  }
  return cells;
}

// the public way of building an individual gene by gene
i_mep build_mep(unsigned rows, locus best, const cells_t &cells)
{
  std::vector<gene> gv(rows);
  std::vector<int> primary(rows, -1);
  for (const auto &kv : cells)  // ordered by (row, cat): keeps the highest category
  {
    gv.at(kv.first.first) = kv.second;
    primary[kv.first.first] = static_cast<int>(kv.first.second);
  }
  for (unsigned r(0); r < rows; ++r)
    if (primary[r] < 0) throw std::runtime_error("row without gene");
  i_mep x(gv);
  for (const auto &kv : cells)
    if (static_cast<int>(kv.first.second) != primary[kv.first.first])
      x = x.replace(locus{kv.first.first, kv.first.second}, kv.second);
  if (best != locus{0, 0})
    x = x.get_block(best);
  return x;
}

cells_t cells_of(const i_mep &x)
{
  cells_t cells;
  for (index_t r(0); r < x.size(); ++r)
    for (category_t c(0); c < x.categories(); ++c)
    {
      const gene &g(x[locus{r, c}]);
      if (g.sym)
        cells.emplace(std::make_pair(r, c), g);
    }
  return cells;
}

i_mep rebuild(const i_mep &x) { return build_mep(x.size(), x.best(), cells_of(x)); }

std::string show_mep(const i_mep &x)
{
  std::string out(std::to_string(x.best().index) + "," + std::to_string(x.best().category));
  for (const auto &kv : cells_of(x))
    out += "/" + std::to_string(kv.first.first) + "," + std::to_string(kv.first.second) + "="
           + show_gene(kv.second);
  return out;
}

bool full(const i_mep &x)
{
  return cells_of(x).size() == static_cast<std::size_t>(x.size()) * x.categories();
}

std::string rec_mep(const std::string &op, const std::string &ret, const i_mep &x, bool content)
{
  std::string out(op + " " + ret + " raw=" + hs(x.signature_));
  out += " fs=" + hs(rebuild(x).signature());
  // is_valid() walks every cell: only meaningful for a fully populated matrix
  out += std::string(" valid=") + (full(x) ? (x.is_valid() ? "1" : "0") : "-");
  if (content) out += " G=" + show_mep(x);
  return out;
}

// MEP <ncats> <rows> | bi bc cells... | bi bc cells... | ops...
std::string run_mep(const std::vector<std::vector<std::string>> &sec)
{
  const unsigned ncats(std::stoul(sec.at(0).at(1))), rows(std::stoul(sec[0].at(2)));
  auto mk = [&](const std::vector<std::string> &s)
  {
    const locus best{static_cast<index_t>(std::stoul(s.at(0))), static_cast<category_t>(std::stoul(s.at(1)))};
    return build_mep(rows, best, parse_cells(s, 2, s.size()));
  };
  i_mep x(mk(sec.at(1))), y(mk(sec.at(2)));
  problem &prb(W->prob(ncats, rows));
  std::string out(rec_mep("INIT", "-", x, false));
  const auto &ops(sec.at(3));
  for (std::size_t i(0); i < ops.size(); ++i)
  {
    const std::string &o(ops[i]);
    out += " ; ";
    if (o == "S") out += rec_mep("S", hs(x.signature()), x, false);
    else if (o == "SY") { y.signature(); out += rec_mep("SY", "-", x, false); }
    else if (o == "R")
    {
      const locus l{static_cast<index_t>(std::stoul(ops.at(i + 1))), static_cast<category_t>(std::stoul(ops.at(i + 2)))};
      x = x.replace(l, parse_gene(ops.at(i + 3)));
      i += 3;
      out += rec_mep("R", "-", x, false);
    }
    else if (o == "B")
    {
      const locus l{static_cast<index_t>(std::stoul(ops.at(i + 1))), static_cast<category_t>(std::stoul(ops.at(i + 2)))};
      x = x.get_block(l);
      i += 2;
      out += rec_mep("B", "-", x, false);
    }
    else if (o == "D")
    {
      const auto row(static_cast<index_t>(std::stoul(ops.at(i + 1))));
      random::seed(std::stoul(ops.at(i + 2)));
      x = x.destroy_block(row, prb.sset);
      i += 2;
      out += rec_mep("D", "-", x, true);
    }
    else if (o == "M")
    {
      const double pgm(std::stoul(ops.at(i + 1)) / 1000.0);
      random::seed(std::stoul(ops.at(i + 2)));
      const auto n(x.mutation(pgm, prb));
      i += 2;
      out += rec_mep("M", "n=" + std::to_string(n), x, true);
    }
    else if (o == "X")
    {
      const bool x_is_lhs(ops.at(i + 1) == "1");
      random::seed(std::stoul(ops.at(i + 2)));
      const auto fl(static_cast<i_mep::crossover_t>(std::stoul(ops.at(i + 3))));
      x.verif_crossover(fl);
      y.verif_crossover(fl);
      x = x_is_lhs ? crossover(x, y) : crossover(y, x);
      i += 3;
      out += rec_mep("X", "-", x, true);
    }
    else if (o == "C")
    {
      x = x.cse();
      out += rec_mep("C", "-", x, true);
    }
    else if (o == "LB" || o == "LU")
    {
      // load, over an individual that may already have reported its signature,
      // the stream of a closely related one:
      //   LB r c : x.get_block({r,c})            -- same genome, other entry locus
      //   LU r c : x with the constant at {r,c} moved by one ulp (same under gene ==)
      const locus l{static_cast<index_t>(std::stoul(ops.at(i + 1))), static_cast<category_t>(std::stoul(ops.at(i + 2)))};
      i += 2;
      i_mep src(x);
      if (o == "LB")
        src = x.get_block(l);
      else
      {
        gene g(x[l]);
        if (g.sym->terminal() && terminal::cast(g.sym)->parametric())
          g.par = std::nextafter(g.par, std::numeric_limits<double>::infinity());
        src = x.replace(l, g);
      }
      std::stringstream ss;
      src.save(ss);
      std::istringstream in(ss.str());
      const bool ok(x.load(in, prb.sset));
      out += rec_mep(o, ok ? "ok=1" : "ok=0", x, true);
    }
    else if (o == "L" || o == "LY" || o == "LF")
    {
      std::stringstream ss;
      (o == "L" ? x : y).save(ss);
      std::string txt(ss.str());
      if (o == "LF") txt = txt.substr(0, txt.size() / 2);
      std::istringstream in(txt);
      const bool ok(x.load(in, prb.sset));
      out += rec_mep(o, ok ? "ok=1" : "ok=0", x, true);
    }
    else if (o == "A")
    {
      x = y;
      out += rec_mep("A", "-", x, false);
    }
    else if (o == "I")
    {
      const locus l{static_cast<index_t>(std::stoul(ops.at(i + 1))), static_cast<category_t>(std::stoul(ops.at(i + 2)))};
      const gene g(parse_gene(ops.at(i + 3)));
      i += 3;
      bool done(false);
      for (auto it(x.begin()); it != x.end(); ++it)   // the non-const overloads
        if (it.locus() == l) { *it = g; done = true; break; }
      out += rec_mep("I", done ? "done=1" : "done=0", x, false);
    }
    else
      throw std::runtime_error("bad op " + o);
  }
  return out;
}

// ------------------------------------------------------------ i_ga / i_de
std::map<unsigned, std::unique_ptr<problem>> ga_problems, de_problems;

problem &ga_problem_for(unsigned n)
{
  auto &p(ga_problems[n]);
  if (!p)
  {
    p = std::make_unique<problem>();
    for (unsigned c(0); c < n; ++c)
      p->sset.insert(std::make_unique<ga::integer>(range_t<int>{-3, 4}, c));
  }
  return *p;
}
problem &de_problem_for(unsigned n)
{
  auto &p(de_problems[n]);
  if (!p)
  {
    p = std::make_unique<problem>();
    for (unsigned c(0); c < n; ++c)
      p->sset.insert(std::make_unique<ga::real>(range_t<double>{-3.0, 4.0}, c));
  }
  return *p;
}

template<class T> std::string show_vec(const T &x);
template<> std::string show_vec(const i_ga &x)
{
  std::string out;
  for (std::size_t i(0); i < x.parameters(); ++i)
    out += (i ? "," : "") + std::to_string(static_cast<const i_ga &>(x)[i]);
  return out.empty() ? "-" : out;
}
template<> std::string show_vec(const i_de &x)
{
  std::string out;
  for (std::size_t i(0); i < x.parameters(); ++i)
    out += (i ? "," : "") + hex64(bits_of(static_cast<const i_de &>(x)[i]));
  return out.empty() ? "-" : out;
}

i_ga build_ga(unsigned n, const std::vector<std::string> &vals)
{
  i_ga x(ga_problem_for(n));
  for (unsigned i(0); i < n; ++i) x[i] = std::stoi(vals.at(i));
  return x;
}
i_de build_de(unsigned n, const std::vector<std::string> &vals)
{
  i_de x(de_problem_for(n));
  for (unsigned i(0); i < n; ++i) x[i] = double_of(std::stoull(vals.at(i), nullptr, 16));
  return x;
}
i_ga rebuild(const i_ga &x)
{
  i_ga r(ga_problem_for(x.parameters()));
  for (std::size_t i(0); i < x.parameters(); ++i) r[i] = x[i];
  return r;
}
i_de rebuild(const i_de &x)
{
  i_de r(de_problem_for(x.parameters()));
  for (std::size_t i(0); i < x.parameters(); ++i) r[i] = x[i];
  return r;
}

template<class T>
std::string rec_vec(const std::string &op, const std::string &ret, const T &x, bool content)
{
  std::string out(op + " " + ret + " raw=" + hs(x.signature_));
  out += " fs=" + hs(rebuild(x).signature());
  out += std::string(" valid=") + (x.is_valid() ? "1" : "0");
  if (content) out += " G=" + show_vec(x);
  return out;
}

// GA <n> | v... | v... | ops
std::string run_ga(const std::vector<std::vector<std::string>> &sec)
{
  const unsigned n(std::stoul(sec.at(0).at(1)));
  i_ga x(build_ga(n, sec.at(1))), y(build_ga(n, sec.at(2)));
  problem &prb(ga_problem_for(n));
  std::string out(rec_vec("INIT", "-", x, false));
  const auto &ops(sec.at(3));
  for (std::size_t i(0); i < ops.size(); ++i)
  {
    const std::string &o(ops[i]);
    out += " ; ";
    if (o == "S") out += rec_vec("S", hs(x.signature()), x, false);
    else if (o == "SY") { (void)y.signature(); out += rec_vec("SY", "-", x, false); }
    else if (o == "W")
    {
      x[std::stoul(ops.at(i + 1))] = std::stoi(ops.at(i + 2));
      i += 2;
      out += rec_vec("W", "-", x, false);
    }
    else if (o == "WS")
    {
      const auto j(std::stoul(ops.at(i + 1)));
      i += 1;
      const int same(static_cast<const i_ga &>(x)[j]);
      x[j] = same;
      out += rec_vec("WS", "-", x, true);
    }
    else if (o == "M")
    {
      const double pgm(std::stoul(ops.at(i + 1)) / 1000.0);
      random::seed(std::stoul(ops.at(i + 2)));
      const auto k(x.mutation(pgm, prb));
      i += 2;
      out += rec_vec("M", "n=" + std::to_string(k), x, true);
    }
    else if (o == "X")
    {
      const bool x_is_lhs(ops.at(i + 1) == "1");
      random::seed(std::stoul(ops.at(i + 2)));
      x = x_is_lhs ? crossover(x, y) : crossover(y, x);
      i += 2;
      out += rec_vec("X", "-", x, true);
    }
    else if (o == "L" || o == "LY" || o == "LF")
    {
      std::stringstream ss;
      (o == "L" ? x : y).save(ss);
      std::string txt(ss.str());
      if (o == "LF") txt = txt.substr(0, txt.size() / 2);
      std::istringstream in(txt);
      const bool ok(x.load(in, prb.sset));
      out += rec_vec(o, ok ? "ok=1" : "ok=0", x, true);
    }
    else if (o == "A") { x = y; out += rec_vec("A", "-", x, false); }
    else if (o == "I")
    {
      *(x.begin() + std::stoul(ops.at(i + 1))) = std::stoi(ops.at(i + 2));   // non-const begin()
      i += 2;
      out += rec_vec("I", "-", x, false);
    }
    else throw std::runtime_error("bad op " + o);
  }
  return out;
}

// DE <n> | hex... | hex... | ops
std::string run_de(const std::vector<std::vector<std::string>> &sec)
{
  const unsigned n(std::stoul(sec.at(0).at(1)));
  i_de x(build_de(n, sec.at(1))), y(build_de(n, sec.at(2)));
  problem &prb(de_problem_for(n));
  std::string out(rec_vec("INIT", "-", x, false));
  const auto &ops(sec.at(3));
  for (std::size_t i(0); i < ops.size(); ++i)
  {
    const std::string &o(ops[i]);
    out += " ; ";
    if (o == "S") out += rec_vec("S", hs(x.signature()), x, false);
    else if (o == "SY") { (void)y.signature(); out += rec_vec("SY", "-", x, false); }
    else if (o == "W")
    {
      x[std::stoul(ops.at(i + 1))] = double_of(std::stoull(ops.at(i + 2), nullptr, 16));
      i += 2;
      out += rec_vec("W", "-", x, false);
    }
    else if (o == "V")
    {
      std::vector<double> v;
      for (const auto &h : split(ops.at(i + 1), ','))
        v.push_back(double_of(std::stoull(h, nullptr, 16)));
      i += 1;
      x = v;                                    // i_de::operator=(const std::vector<double> &)
      out += rec_vec("V", "-", x, false);
    }
    else if (o == "X")
    {
      random::seed(std::stoul(ops.at(i + 1)));
      i += 1;
      x = x.crossover(0.5, range_t<double>{0.25, 0.75}, y, x, y);
      out += rec_vec("X", "-", x, true);
    }
    else if (o == "VS" || o == "VZ")
    {
      // x = <its own vector> (VS) / <its own vector with the sign of every zero
      // flipped> (VZ): equal under operator==, VZ bitwise different
      std::vector<double> v(static_cast<std::vector<double>>(x));
      if (o == "VZ")
        for (auto &e : v)
          if (e == 0.0) e = -e;
      x = v;                                    // i_de::operator=(const std::vector<double> &)
      out += rec_vec(o, "-", x, true);
    }
    else if (o == "LZ")
    {
      // a vector equal to x under operator== but bitwise different (+0.0 / -0.0)
      i_de src(x);
      for (std::size_t j(0); j < src.parameters(); ++j)
        if (static_cast<const i_de &>(x)[j] == 0.0)
          src[j] = -static_cast<const i_de &>(x)[j];
      std::stringstream ss;
      src.save(ss);
      std::istringstream in(ss.str());
      const bool ok(x.load(in, prb.sset));
      out += rec_vec(o, ok ? "ok=1" : "ok=0", x, true);
    }
    else if (o == "L" || o == "LY" || o == "LF")
    {
      std::stringstream ss;
      (o == "L" ? x : y).save(ss);
      std::string txt(ss.str());
      if (o == "LF") txt = txt.substr(0, txt.size() / 2);
      std::istringstream in(txt);
      const bool ok(x.load(in, prb.sset));
      out += rec_vec(o, ok ? "ok=1" : "ok=0", x, true);
    }
    else if (o == "A") { x = y; out += rec_vec("A", "-", x, false); }
    else if (o == "I")
    {
      *(x.begin() + std::stoul(ops.at(i + 1))) = double_of(std::stoull(ops.at(i + 2), nullptr, 16));
      i += 2;
      out += rec_vec("I", "-", x, false);
    }
    else throw std::runtime_error("bad op " + o);
  }
  return out;
}

// ------------------------------------------------------------------ team
using team_t = team<i_mep>;

// members separated by '@' tokens:  bi bc cells... @ bi bc cells...
team_t build_team(unsigned rows, const std::vector<std::string> &s)
{
  std::vector<i_mep> ms;
  std::size_t from(0);
  for (std::size_t i(0); i <= s.size(); ++i)
    if (i == s.size() || s[i] == "@")
    {
      const locus best{static_cast<index_t>(std::stoul(s.at(from))), static_cast<category_t>(std::stoul(s.at(from + 1)))};
      ms.push_back(build_mep(rows, best, parse_cells(s, from + 2, i)));
      from = i + 1;
    }
  return team_t(ms);
}

team_t rebuild(const team_t &t)
{
  std::vector<i_mep> ms;
  for (const auto &m : t) ms.push_back(rebuild(m));
  return team_t(ms);
}

std::string rec_team(const std::string &op, const std::string &ret, const team_t &t, bool content)
{
  std::string out(op + " " + ret + " raw=" + hs(t.signature_));
  out += " fs=" + hs(rebuild(t).signature());
  out += std::string(" valid=") + (t.is_valid() ? "1" : "0");
  {
    // the same members in reverse order (team::hash must depend on the order)
    std::vector<i_mep> rev;
    for (const auto &m : t) rev.insert(rev.begin(), rebuild(m));
    out += " rfs=" + hs(team_t(rev).signature());
  }
  out += " mraw=";
  for (unsigned i(0); i < t.individuals(); ++i) out += (i ? "," : "") + hs(t[i].signature_);
  out += " mfs=";
  for (unsigned i(0); i < t.individuals(); ++i) out += (i ? "," : "") + hs(rebuild(t[i]).signature());
  if (content)
  {
    out += " G=";
    for (unsigned i(0); i < t.individuals(); ++i) out += (i ? "@" : "") + show_mep(t[i]);
  }
  return out;
}

// TEAM <k> <rows> | members | members | ops
std::string run_team(const std::vector<std::vector<std::string>> &sec)
{
  const unsigned rows(std::stoul(sec.at(0).at(2)));
  team_t x(build_team(rows, sec.at(1))), y(build_team(rows, sec.at(2)));
  problem &prb(W->prob(1, rows));
  std::string out(rec_team("INIT", "-", x, false));
  const auto &ops(sec.at(3));
  for (std::size_t i(0); i < ops.size(); ++i)
  {
    const std::string &o(ops[i]);
    out += " ; ";
    if (o == "S") out += rec_team("S", hs(x.signature()), x, false);
    else if (o == "SY") { (void)y.signature(); out += rec_team("SY", "-", x, false); }
    else if (o == "SM")
    {
      const auto j(std::stoul(ops.at(i + 1)));
      i += 1;
      out += rec_team("SM", hs(x[j].signature()), x, false);
    }
    else if (o == "M")
    {
      const double pgm(std::stoul(ops.at(i + 1)) / 1000.0);
      random::seed(std::stoul(ops.at(i + 2)));
      const auto n(x.mutation(pgm, prb));
      i += 2;
      out += rec_team("M", "n=" + std::to_string(n), x, true);
    }
    else if (o == "X")
    {
      const bool x_is_lhs(ops.at(i + 1) == "1");
      random::seed(std::stoul(ops.at(i + 2)));
      i += 2;
      x = x_is_lhs ? crossover(x, y) : crossover(y, x);
      out += rec_team("X", "-", x, true);
    }
    else if (o == "L" || o == "LY" || o == "LF")
    {
      std::stringstream ss;
      (o == "L" ? x : y).save(ss);
      std::string txt(ss.str());
      if (o == "LF") txt = txt.substr(0, txt.size() / 2);
      std::istringstream in(txt);
      const bool ok(x.load(in, prb.sset));
      out += rec_team(o, ok ? "ok=1" : "ok=0", x, true);
    }
    else if (o == "A") { x = y; out += rec_team("A", "-", x, false); }
    else throw std::runtime_error("bad op " + o);
  }
  return out;
}
}  // namespace

int main()
{
  log::reporting_level = log::lOFF;
  world w;
  W = &w;

  std::ios::sync_with_stdio(false);
  std::string line;
  while (std::getline(std::cin, line))
  {
    try
    {
      if (line == "SYMS")
      {
        std::string out("SYMS");
        for (std::size_t k(0); k < w.syms.size(); ++k)
        {
          const symbol *s(w.syms[k]);
          out += " " + std::to_string(k) + ":" + std::to_string(s->opcode()) + ":"
                 + std::to_string(s->category()) + ":"
                 + (s->terminal() && terminal::cast(s)->parametric() ? "1" : "0") + ":";
          if (s->arity() == 0) out += "-";
          for (unsigned a(0); a < s->arity(); ++a)
            out += (a ? "," : "") + std::to_string(function::cast(s)->arg_category(a));
          out += ":" + std::to_string(w.set_of[k]);
        }
        std::cout << out << '\n';
        continue;
      }
      std::vector<std::vector<std::string>> sec(1);
      for (const auto &t : split(line))
        if (t == "|") sec.emplace_back(); else sec.back().push_back(t);
      if (sec.size() != 4) { std::cout << "BADLINE\n"; continue; }
      const std::string kind(sec[0].at(0));
      if (kind == "MEP") std::cout << run_mep(sec) << '\n';
      else if (kind == "GA") std::cout << run_ga(sec) << '\n';
      else if (kind == "DE") std::cout << run_de(sec) << '\n';
      else if (kind == "TEAM") std::cout << run_team(sec) << '\n';
      else std::cout << "BADLINE\n";
    }
    catch (const std::exception &e)
    {
      std::cout << "EXC " << e.what() << '\n';
    }
    std::cout.flush();
  }
}
