// ThreadSanitizer harness for C15: several threads share one REAL vita::cache.
//
// input, one case per line:
//   S <bits> <yield-permille> <seed> | <op>... | <op>... | ...
//       one '|' section per thread; ops:  F,k0,k1  find   I,k0,k1,w...  insert
//       C  clear()   X,k0,k1  clear(key)     (hex 64-bit patterns)
//       V  save(stream)   L,<seal>,k0,k1,w...  load(stream with that seal and one record)
//       The H3 scheduling points (vita::verif::sched_point) record the order
//       in which the threads pass them and, with the given probability, yield
//       or sleep a little there (seeded), so the critical sections interleave.
//   R <bits> <k0> <k1> <n1> <n2>
//       the refuted schedule of Props/Refuted_C15.v at call level: the reader
//       obtains the result of find, THEN the writer stores a value of n2
//       components over the n1 stored before, THEN the reader copies what
//       find handed out.
// output:
//   S: one token per thread  r<t>=<fit>;<fit>...  (results of its finds, in
//      order; fit = w,w,.. or -), then  trace=<t>:<id>,...  in passing order
//   R: R=<copied value>
// ThreadSanitizer reports go to stderr; the exit status is then 97.
#include <algorithm>
#include <atomic>
#include <chrono>
#include <cstdint>
#include <cstring>
#include <iostream>
#include <memory>
#include <sstream>
#include <string>
#include <thread>
#include <vector>

#include "kernel/cache.h"

using namespace vita;

static std::string hex64(std::uint64_t x)
{
  char buf[32];
  std::snprintf(buf, sizeof(buf), "%llx", static_cast<unsigned long long>(x));
  return buf;
}

static std::vector<std::string> split(const std::string &l, char sep)
{
  std::vector<std::string> out;
  std::string w;
  std::istringstream ss(l);
  while (std::getline(ss, w, sep))
    if (!w.empty()) out.push_back(w);
  return out;
}

static std::uint64_t unhex(const std::string &s) { return std::stoull(s, nullptr, 16); }

static std::string show_fit(const fitness_t &f)
{
  if (!f.size()) return "-";
  std::string out;
  for (std::size_t i(0); i < f.size(); ++i)
  {
    const double d(f[i]);
    std::uint64_t u;
    std::memcpy(&u, &d, sizeof(u));
    if (i) out += ",";
    out += hex64(u);
  }
  return out;
}

static fitness_t parse_fit(const std::vector<std::string> &p, std::size_t from)
{
  if (p.size() <= from) return fitness_t();
  fitness_t f(with_size(p.size() - from), 0.0);
  for (std::size_t i(from); i < p.size(); ++i)
  {
    const std::uint64_t u(unhex(p[i]));
    double d;
    std::memcpy(&d, &u, sizeof(d));
    f[i - from] = d;
  }
  return f;
}

// ---- H3 callback state
struct event { unsigned seq; int id; };
static std::atomic<unsigned> g_seq{0};
static unsigned g_permille = 0;
thread_local int t_id = -1;
thread_local std::uint64_t t_rng = 0;
thread_local std::vector<event> *t_events = nullptr;

static std::uint64_t next_rand()
{
  t_rng ^= t_rng << 13; t_rng ^= t_rng >> 7; t_rng ^= t_rng << 17;
  return t_rng;
}

static void maybe_yield()
{
  if (!g_permille) return;
  const auto r(next_rand() % 1000);
  if (r < g_permille)
  {
    if (r % 3 == 0)
      std::this_thread::sleep_for(std::chrono::microseconds(20 + r % 200));
    else
      std::this_thread::yield();
  }
}

static void sched_cb(int id)
{
  if (t_id < 0) return;
  if (t_events)
    t_events->push_back({g_seq.fetch_add(1, std::memory_order_relaxed), id});
  maybe_yield();
}

static void stress(const std::vector<std::string> &sections, std::ostream &out)
{
  const auto head(split(sections[0], ' '));
  const unsigned bits(static_cast<unsigned>(std::stoul(head[1])));
  g_permille = static_cast<unsigned>(std::stoul(head[2]));
  const std::uint64_t seed(std::stoull(head[3]));
  const std::size_t nt(sections.size() - 1);

  cache c(bits);
  std::vector<std::vector<std::string>> progs(nt);
  for (std::size_t t(0); t < nt; ++t)
    progs[t] = split(sections[t + 1], ' ');
  std::vector<std::string> results(nt);
  std::vector<std::vector<event>> events(nt);
  std::atomic<bool> go{false};
  g_seq = 0;

  std::vector<std::thread> th;
  for (std::size_t t(0); t < nt; ++t)
    th.emplace_back([&, t]()
    {
      t_id = static_cast<int>(t);
      t_rng = seed * 2654435761u + 88172645463325252ull * (t + 1);
      events[t].reserve(4 * progs[t].size() + 4);
      t_events = &events[t];
      while (!go.load(std::memory_order_acquire)) std::this_thread::yield();
      std::string res;
      for (const auto &o : progs[t])
      {
        const auto p(split(o, ','));
        switch (p[0][0])
        {
        case 'F':
        {
          // written so that it compiles with either signature of find: with
          // `const fitness_t &find()` the copy below reads the table after
          // the lock has been released
          const fitness_t &r(c.find(hash_t(unhex(p[1]), unhex(p[2]))));
          maybe_yield();
          const fitness_t f(r);
          if (!res.empty()) res += ";";
          res += show_fit(f);
          break;
        }
        case 'I': c.insert(hash_t(unhex(p[1]), unhex(p[2])), parse_fit(p, 3)); break;
        case 'C': c.clear(); break;
        case 'X': c.clear(hash_t(unhex(p[1]), unhex(p[2]))); break;
        case 'V':
        {
          std::ostringstream o;
          c.save(o);
          break;
        }
        case 'L':   // L,<seal>,k0,k1,w...  : load a stream holding that seal and one record
        {
          std::ostringstream o;
          o << std::stoul(p[1]) << " \n1\n";
          hash_t(unhex(p[2]), unhex(p[3])).save(o);
          parse_fit(p, 4).save(o);
          std::istringstream in(o.str());
          c.load(in);
          break;
        }
        default: break;
        }
        maybe_yield();
      }
      results[t] = res;
      t_events = nullptr;
      t_id = -1;
    });
  go.store(true, std::memory_order_release);
  for (auto &x : th) x.join();

  for (std::size_t t(0); t < nt; ++t)
    out << 'r' << t << '=' << (results[t].empty() ? "." : results[t]) << ' ';
  // merge the per-thread event lists by sequence number
  std::vector<std::pair<unsigned, std::pair<int, int>>> all;
  for (std::size_t t(0); t < nt; ++t)
    for (const auto &e : events[t])
      all.push_back({e.seq, {static_cast<int>(t), e.id}});
  std::sort(all.begin(), all.end());
  out << "trace=";
  for (std::size_t i(0); i < all.size(); ++i)
    out << (i ? "," : "") << all[i].second.first << ':' << all[i].second.second;
  out << '\n';
}

static void refuted(const std::vector<std::string> &w, std::ostream &out)
{
  const unsigned bits(static_cast<unsigned>(std::stoul(w[1])));
  const hash_t k(unhex(w[2]), unhex(w[3]));
  const std::size_t n1(std::stoul(w[4])), n2(std::stoul(w[5]));
  cache c(bits);
  c.insert(k, fitness_t(with_size(n1), 1.0));

  // relaxed flags: they order the two threads in real time without creating
  // a happens-before edge, exactly like the unsynchronised caller of find
  std::atomic<int> stage{0};
  std::string res;
  std::thread reader([&]()
  {
    const fitness_t &r(c.find(k));             // reader gets what find hands out, lock released
    stage.store(1, std::memory_order_relaxed);
    while (stage.load(std::memory_order_relaxed) != 2) std::this_thread::yield();
    const fitness_t f(r);                       // ... and copies it afterwards
    res = show_fit(f);
  });
  std::thread writer([&]()
  {
    while (stage.load(std::memory_order_relaxed) != 1) std::this_thread::yield();
    c.insert(k, fitness_t(with_size(n2), 2.0));  // overwrites (and reallocates) the slot's value
    stage.store(2, std::memory_order_relaxed);
  });
  reader.join();
  writer.join();
  out << "R=" << res << '\n';
}

int main()
{
  vita::verif::sched_point = sched_cb;
  std::string line;
  while (std::getline(std::cin, line))
  {
    std::ostringstream out;
    try
    {
      if (line.size() && line[0] == 'S')
        stress(split(line, '|'), out);
      else if (line.size() && line[0] == 'R')
        refuted(split(line, ' '), out);
      else
        out << "BADLINE\n";
    }
    catch (const std::exception &e)
    {
      out << "EXC " << e.what() << '\n';
    }
    std::cout << out.str() << std::flush;
  }
  return 0;
}
