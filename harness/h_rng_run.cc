// Whole-run determinism driver (C07, labelled TESTING, not proof).
//
// usage: h_rng_run <kind> <seed> key=value...
//   kind: ga | de | sr_std | sr_alps | sr_mse | class_std | pickup (population.tcc:pickup on given layer sizes: 'd' draws carry the weights)
//         inproc_mep_fixed | inproc_mep_distinct | inproc_mep_random | inproc_ga | inproc_de | inproc_sr
//   keys: gen pop layers pcross pmut tour brood code runs
//         sleepgen=<g> sleepms=<ms>   hold the process up for <ms> inside the after_generation callback of generation <g>
//         sleepeval=<n> sleepms=<ms>  (ga, de) hold it up inside the n-th fitness evaluation, i.e. in the middle of a generation
//   inproc_*: the same seeded execution is performed several times IN THIS PROCESS (sections "=== <label>"): with the
//   problem / symbol set built afresh, after unrelated symbols have been created, and on a shared problem object.
//   There individuals and symbols are printed by NAME (opcodes come from a process-wide counter and legitimately differ).
// Runs one search with vita::random::seed(seed) and prints a transcript:
//   D <kind> <lo> <hi> <value>         every random draw (hook H1), long doubles as 20 hex digits
//   G <gen> ...                        one block per after_generation callback:
//                                      summary (gen, last_imp, crossovers, mutations, analyzer stats),
//                                      best (signature, fitness bits), and the whole population
//                                      (layer, index, age, signature, saved text)
//   F ...                              final summary
// No wall-clock field, no address is printed.  The check runs the program twice
// in separately perturbed processes and compares the transcripts byte by byte.
#include <algorithm>
#include <cstdint>
#include <cstring>
#include <iostream>
#include <limits>
#include <map>
#include <memory>
#include <sstream>
#include <string>
#include <vector>
#include <set>
#include <functional>
#include <fstream>
#include <filesystem>
#include <variant>
#include <any>
#include <random>
#include <chrono>
#include <thread>
#include <shared_mutex>
#include <mutex>
#include <iomanip>
#include <numeric>
#include <cmath>
#include <list>
#include <queue>
#include <stack>
#include <array>
#include <atomic>
#include <future>
#include <optional>
#include <regex>
#include <type_traits>
#include <utility>
#include <cassert>
#include <climits>
#include <cstdlib>
#include <iterator>
#include <locale>
#include <stdexcept>
#include <unordered_map>
#include <unordered_set>
#include <bitset>
#include <charconv>
#include <string_view>
#include <typeinfo>
#include <typeindex>
#include <tuple>
#include <initializer_list>
#include <exception>
#include <new>
#include <condition_variable>
#include <csignal>
#include <cstdio>
#include <ctime>
#include <cctype>
#include <cfloat>
#include <cinttypes>
#include <cstddef>
#include <deque>
#include <forward_list>
#include <ios>
#include <iosfwd>
#include <istream>
#include <ostream>
#include <ratio>
#include <scoped_allocator>
#include <streambuf>
#include <system_error>
#include <valarray>
#include <complex>
#include <codecvt>
#include <fcntl.h>
#include <unistd.h>

// evolution::pop_ is read by the draw sink (layer sizes at the moment of a discrete_distribution draw)
#define private public
#define protected public
#include "kernel/vita.h"
#undef private
#undef protected

#include "common.h"
#include "kernel/gp/src/primitive/factory.h"

using namespace vita;

namespace
{
std::string tr_;  // transcript (kept in memory, printed at exit)
bool by_name(false);          // in-process comparisons: names instead of opcodes / signatures
long sleep_gen(-1), sleep_eval(-1), sleep_ms(0), eval_count(0);
void hold_up() { std::this_thread::sleep_for(std::chrono::milliseconds(sleep_ms)); }
void count_eval() { if (++eval_count == sleep_eval) hold_up(); }

std::string hexld(long double v)
{
  unsigned char b[16];
  std::memset(b, 0, sizeof(b));
  std::memcpy(b, &v, 10);  // x86-64 extended precision: 10 significant bytes
  std::string s;
  char buf[4];
  for (int i(9); i >= 0; --i)
  {
    std::snprintf(buf, sizeof(buf), "%02x", b[i]);
    s += buf;
  }
  return s;
}

std::function<std::string()> layer_sizes;  // set by the kinds that own their evolution object
bool draw_plain(false);  // drawfmt=1: draws as  D i:<lo>:<hi>:<v> (decimal) | D r:<bits>:<bits>:<bits> | D b:<bits p>:<0|1> | D d:<n>:<v>
std::string dec(long double v)
{
  char buf[64];
  std::snprintf(buf, sizeof(buf), "%.0Lf", v);
  return buf;
}
void sink(char k, long double lo, long double hi, long double v)
{
  if (draw_plain)
  {
    tr_ += "D ";
    tr_ += k;
    if (k == 'i') tr_ += ":" + dec(lo) + ":" + dec(hi) + ":" + dec(v);
    else if (k == 'r') tr_ += ":" + vv::hex64(vv::bits_of(static_cast<double>(lo))) + ":" + vv::hex64(vv::bits_of(static_cast<double>(hi)))
                              + ":" + vv::hex64(vv::bits_of(static_cast<double>(v)));
    else if (k == 'b') tr_ += ":" + vv::hex64(vv::bits_of(static_cast<double>(hi))) + ":" + dec(v);
    else
    {
      tr_ += ":" + dec(hi) + ":" + dec(v);
      if (k == 'd' && layer_sizes) tr_ += ":" + layer_sizes();  // the weights population.tcc:pickup gave to discrete_distribution
    }
    tr_ += "\n";
    return;
  }
  tr_ += "D ";
  tr_ += k;
  tr_ += " " + hexld(lo) + " " + hexld(hi) + " " + hexld(v) + "\n";
}

std::string fit(const fitness_t &f)
{
  std::string s("(");
  for (std::size_t i(0); i < f.size(); ++i)
    s += (i ? " " : "") + vv::hex64(vv::bits_of(f[i]));
  return s + ")";
}

template<class T> std::string sig(const T &i)
{
  if (by_name) return "-";
  const auto h(i.signature());
  return vv::hex64(h.data[0]) + vv::hex64(h.data[1]);
}

template<class T> std::string text(const T &i)
{
  std::ostringstream ss;
  if (by_name)
    ss << out::dump << i;
  else
    i.save(ss);
  std::string s(ss.str());
  for (auto &c : s)
    if (c == '\n') c = ';';
  return s;
}

template<class T> std::string dist(const distribution<T> &d)
{
  std::ostringstream ss;
  ss << d.count();
  return ss.str();
}

template<class T>
void dump_generation(const population<T> &pop, const summary<T> &s)
{
  std::ostringstream ss;
  ss << "G " << s.gen << " last_imp=" << s.last_imp << " cross=" << s.crossovers
     << " mut=" << s.mutations << " layers=" << pop.layers()
     << " n=" << pop.individuals()
     << " az_fit_n=" << s.az.fit_dist().count()
     << " az_fit_mean=" << fit(s.az.fit_dist().count() ? s.az.fit_dist().mean() : fitness_t())
     << " az_len_mean=" << vv::hex64(vv::bits_of(s.az.length_dist().count() ? s.az.length_dist().mean() : 0.0))
     << " az_age_mean=" << vv::hex64(vv::bits_of(s.az.age_dist().count() ? s.az.age_dist().mean() : 0.0))
     << " f=" << s.az.functions(false) << "/" << s.az.functions(true)
     << " t=" << s.az.terminals(false) << "/" << s.az.terminals(true) << "\n";
  ss << "S";
  for (const auto &sc : s.az)  // ordered by opcode, not by address
  {
    if (by_name) ss << " " << sc.first->name();
    else ss << " " << sc.first->opcode();
    ss << ":" << sc.second.counter[0] << ":" << sc.second.counter[1];
  }
  ss << "\n";
  ss << "B " << sig(s.best.solution) << " " << fit(s.best.score.fitness) << " age="
     << s.best.solution.age() << "\n";
  for (unsigned l(0); l < pop.layers(); ++l)
    for (unsigned i(0); i < pop.individuals(l); ++i)
    {
      const T &ind(pop[{l, i}]);
      ss << "P " << l << " " << i << " age=" << ind.age() << " " << sig(ind) << " " << text(ind) << "\n";
    }
  tr_ += ss.str();
  if (static_cast<long>(s.gen) == sleep_gen)
    hold_up();
}

template<class T> void dump_final(const summary<T> &s)
{
  std::ostringstream ss;
  ss << "F gen=" << s.gen << " last_imp=" << s.last_imp << " best=" << sig(s.best.solution) << " "
     << fit(s.best.score.fitness) << " acc=" << vv::hex64(vv::bits_of(s.best.score.accuracy))
     << " solution=" << s.best.score.is_solution << " " << text(s.best.solution) << "\n";
  tr_ += ss.str();
}

std::map<std::string, double> kv;
double opt(const std::string &k, double d)
{
  const auto it(kv.find(k));
  return it == kv.end() ? d : it->second;
}

void set_env(environment &env)
{
  env.generations = static_cast<unsigned>(opt("gen", 6));
  env.individuals = static_cast<unsigned>(opt("pop", 30));
  if (kv.count("layers")) env.layers = static_cast<unsigned>(opt("layers", 1));
  if (kv.count("pcross")) env.p_cross = opt("pcross", 0.9);
  if (kv.count("pmut")) env.p_mutation = opt("pmut", 0.04);
  if (kv.count("tour")) env.tournament_size = static_cast<unsigned>(opt("tour", 5));
  if (kv.count("brood")) env.brood_recombination = static_cast<unsigned>(opt("brood", 1));
  if (kv.count("elitism")) env.elitism = opt("elitism", 1) != 0 ? trilean::yes : trilean::no;
  if (kv.count("code")) env.mep.code_length = static_cast<std::size_t>(opt("code", 20));
}

const char sr_data[] = R"(
    -9.456,-10.0
    -8.989, -8.0
    -5.721, -6.0
    -3.243, -4.0
    -2.909, -2.0
     0.000,  0.0
     2.909,  2.0
     3.243,  4.0
     5.721,  6.0
     8.989,  8.0
     9.5,   10.1
    11.25,  12.0
)";

// the same relation at a hundredth of the scale: errors (hence fitnesses) of magnitude < 1
const char small_data[] = R"(
    -0.09456,-0.100
    -0.08989,-0.080
    -0.05721,-0.060
    -0.03243,-0.040
    -0.02909,-0.020
     0.00000, 0.000
     0.02909, 0.020
     0.03243, 0.040
     0.05721, 0.060
     0.08989, 0.080
     0.09500, 0.101
     0.11250, 0.120
)";

const char class_data[] = R"(
   "A", 1.0, 2.5
   "A", 1.5, 2.0
   "A", 0.5, 3.5
   "B", 5.0, 7.5
   "B", 6.5, 6.0
   "B", 5.5, 8.5
   "C", -4.0, 0.5
   "C", -3.5, 1.0
   "C", -5.5, 0.0
   "A", 1.2, 2.2
   "B", 6.1, 7.1
   "C", -4.4, 0.4
)";

template<template<class> class ES>
int run_sr(unsigned seed, const char *data, evaluator_id ev)
{
  std::istringstream is(data);
  src_problem prob(is);
  prob.insert<real::sin>();
  prob.insert<real::cos>();
  prob.insert<real::add>();
  prob.insert<real::sub>();
  prob.insert<real::div>();
  prob.insert<real::mul>();
  prob.insert<real::ifl>();
  set_env(prob.env);
  // persistent evaluation cache (search::close() saves it, search::init() reloads it): the file is an optimisation,
  // an execution that finds the file written by an identical earlier execution must give the same results
  if (const char *sf = std::getenv("VV_C07_SERFILE"))
    prob.env.misc.serialization_file = sf;
  random::verif::draw_sink = sink;  // before seeding: no draw between the seed and the log may be missed
  random::seed(seed);
  src_search<i_mep, ES> s(prob);
  if (ev != evaluator_id::undefined)
    s.evaluator(ev);
  s.after_generation([](const population<i_mep> &p, const summary<i_mep> &sm) { dump_generation(p, sm); });
  random::verif::draw_sink = sink;
  const auto res(s.run(static_cast<unsigned>(opt("runs", 1))));
  random::verif::draw_sink = nullptr;
  dump_final(res);
  return 0;
}
void run_ga(unsigned seed)
{
  constexpr int N(8);
  ga_problem prob(N, {0, N});
  set_env(prob.env);
  auto f = [](const i_ga &x) -> fitness_t
  {
    count_eval();
    double attacks(0);
    for (int q(0); q < N - 1; ++q)
      for (int i(q + 1); i < N; ++i)
        if (x[i] == x[q] || std::abs(x[i] - x[q]) == i - q)
          ++attacks;
    return {-attacks};
  };
  random::verif::draw_sink = sink;  // before seeding: no draw between the seed and the log may be missed
  random::seed(seed);
  ga_search<decltype(f)> s(prob, f);
  s.after_generation([](const population<i_ga> &p, const summary<i_ga> &sm) { dump_generation(p, sm); });
  random::verif::draw_sink = sink;
  const auto res(s.run(static_cast<unsigned>(opt("runs", 1))));
  random::verif::draw_sink = nullptr;
  dump_final(res);
}

void run_de(unsigned seed)
{
  de_problem prob(5, {-5.12, 5.12});
  set_env(prob.env);
  auto f = [](const std::vector<double> &x)
  {
    count_eval();
    double r(10.0 * x.size());
    for (double xi : x)
      r += xi * xi - 10.0 * std::cos(2 * 3.141592653589793 * xi);
    return -r;
  };
  random::verif::draw_sink = sink;  // before seeding: no draw between the seed and the log may be missed
  random::seed(seed);
  de_search<decltype(f)> s(prob, f);
  s.after_generation([](const population<i_de> &p, const summary<i_de> &sm) { dump_generation(p, sm); });
  random::verif::draw_sink = sink;
  const auto res(s.run(static_cast<unsigned>(opt("runs", 1))));
  random::verif::draw_sink = nullptr;
  dump_final(res);
}

// --- several executions in one process
std::unique_ptr<problem> setup_mep()
{
  auto prob(std::make_unique<problem>());
  prob->env.init();
  symbol_factory factory;
  for (const char *s : {"REAL", "FADD", "FSUB", "FMUL", "FIFL", "FIFE"})
    prob->sset.insert(factory.make(s));
  prob->env.individuals = static_cast<unsigned>(opt("pop", 30));
  prob->env.generations = static_cast<unsigned>(opt("gen", 6));
  prob->env.mep.code_length = static_cast<std::size_t>(opt("code", 20));
  prob->env = std_es<i_mep>::shape(prob->env);
  return prob;
}

void run_mep(unsigned seed, test_evaluator_type et, const problem &prob)
{
  random::verif::draw_sink = sink;  // before seeding: no draw between the seed and the log may be missed
  random::seed(seed);
  test_evaluator<i_mep> eva(et);
  evolution<i_mep, std_es> evo(prob, eva);
  evo.after_generation([](const population<i_mep> &p, const summary<i_mep> &sm) { dump_generation(p, sm); });
  random::verif::draw_sink = sink;
  const auto &res(evo.run(1));
  random::verif::draw_sink = nullptr;
  dump_final(res);
}

// population.tcc:pickup(pop) on a population of several layers: the layer is drawn with std::discrete_distribution
// over the layer sizes, then an individual inside it.  (No shipped strategy combination reaches this branch: only
// ALPS populations have several layers and ALPS selection does not call pickup(pop); it is exercised directly.)
//   pickup <seed> calls=<n> s0=<size> s1=<size> ...
void run_pickup(unsigned seed)
{
  ga_problem prob(2, {0, 10});
  prob.env.init();
  std::vector<unsigned> sizes;
  for (unsigned l(0); kv.count("s" + std::to_string(l)); ++l)
    sizes.push_back(static_cast<unsigned>(opt("s" + std::to_string(l), 1)));
  prob.env.individuals = sizes.at(0);
  random::seed(12345);
  population<i_ga> pop(prob);
  for (std::size_t l(1); l < sizes.size(); ++l)
  {
    pop.pop_.push_back(std::vector<i_ga>(sizes[l], pop.pop_[0][0]));
    pop.allowed_.push_back(sizes[l]);
  }
  layer_sizes = [&pop]
  {
    std::string s;
    for (unsigned l(0); l < pop.layers(); ++l)
      s += (l ? "," : "") + std::to_string(pop.individuals(l));
    return s;
  };
  random::verif::draw_sink = sink;
  random::seed(seed);
  for (unsigned k(0), n(static_cast<unsigned>(opt("calls", 10))); k < n; ++k)
  {
    const auto c(pickup(pop));
    tr_ += "C " + std::to_string(c.layer) + " " + std::to_string(c.index) + "\n";
  }
  random::verif::draw_sink = nullptr;
  layer_sizes = nullptr;
}

void section(const std::string &label);
// several pickup experiments IN ONE PROCESS, each on a population built afresh AT THE SAME ADDRESS (std::optional storage),
// each started with the same seed:  pickup_seq <seed> calls=<n> e0s0=30 e0s1=10 e1s0=5 e1s1=5 e1s2=30 ...
// optional e<k>t<l>: the sizes the SAME population is reshaped to after half of the calls (same object, maybe same total).
// Hidden state kept between populations (or not refreshed when the split changes) shows up as draws that differ between
// two experiments with the same sizes, and as draws that are not the ones std::discrete_distribution gives on the live sizes.
void run_pickup_seq(unsigned seed)
{
  ga_problem prob(2, {0, 10});
  prob.env.init();
  std::optional<population<i_ga>> pop;
  layer_sizes = [&pop]
  {
    std::string s;
    for (unsigned l(0); l < pop->layers(); ++l)
      s += (l ? "," : "") + std::to_string(pop->individuals(l));
    return s;
  };
  auto shape = [&](const std::vector<unsigned> &sizes)
  {
    const i_ga proto(pop->pop_[0][0]);
    pop->pop_.assign(sizes.size(), {});
    pop->allowed_.assign(sizes.size(), 0);
    for (std::size_t l(0); l < sizes.size(); ++l)
    {
      pop->pop_[l].assign(sizes[l], proto);
      pop->allowed_[l] = sizes[l];
    }
  };
  auto sizes_of = [&](unsigned e, char tag)
  {
    std::vector<unsigned> sizes;
    for (unsigned l(0); kv.count("e" + std::to_string(e) + tag + std::to_string(l)); ++l)
      sizes.push_back(static_cast<unsigned>(opt("e" + std::to_string(e) + tag + std::to_string(l), 1)));
    return sizes;
  };
  const unsigned n(static_cast<unsigned>(opt("calls", 10)));
  for (unsigned e(0); kv.count("e" + std::to_string(e) + "s0"); ++e)
  {
    const auto sizes(sizes_of(e, 's')), later(sizes_of(e, 't'));
    prob.env.individuals = 1;
    random::seed(12345);
    pop.emplace(prob);   // always the same address
    shape(sizes);
    section("experiment " + std::to_string(e) + " sizes " + layer_sizes());
    random::verif::draw_sink = sink;
    random::seed(seed);
    for (unsigned k(0); k < n; ++k)
    {
      if (!later.empty() && k == n / 2)
        shape(later);   // the same population object, another split
      const auto c(pickup(*pop));
      tr_ += "C " + std::to_string(c.layer) + " " + std::to_string(c.index) + "\n";
    }
    random::verif::draw_sink = nullptr;
    pop.reset();
  }
  layer_sizes = nullptr;
}

// what an unrelated part of a program would do between two runs: create symbols
void unrelated_symbols()
{
  symbol_factory factory;
  std::vector<std::unique_ptr<symbol>> junk;
  for (const char *s : {"FSIN", "FCOS", "FLN", "FABS", "FMAX"})
    junk.push_back(factory.make(s));
  problem other;
  other.env.init();
  for (const char *s : {"REAL", "FADD", "FDIV"})
    other.sset.insert(factory.make(s));
}

void section(const std::string &label) { tr_ += "=== " + label + "\n"; }
}  // namespace

int main(int argc, char *argv[])
{
  if (argc < 3)
    return 2;
  const std::string kind(argv[1]);
  const unsigned seed(static_cast<unsigned>(std::stoul(argv[2])));
  for (int i(3); i < argc; ++i)
  {
    const std::string a(argv[i]);
    const auto p(a.find('='));
    if (p != std::string::npos)
      kv[a.substr(0, p)] = std::stod(a.substr(p + 1));
  }
  log::reporting_level = log::lOFF;
  sleep_gen = static_cast<long>(opt("sleepgen", -1));
  sleep_eval = static_cast<long>(opt("sleepeval", -1));
  sleep_ms = static_cast<long>(opt("sleepms", 0));
  draw_plain = opt("drawfmt", 0) != 0;

  int rc(0);
  if (kind == "ga")
    run_ga(seed);
  else if (kind == "de")
    run_de(seed);
  else if (kind == "sr_std")
    rc = run_sr<std_es>(seed, sr_data, evaluator_id::undefined);
  else if (kind == "sr_alps")
    rc = run_sr<alps_es>(seed, sr_data, evaluator_id::undefined);
  else if (kind == "sr_small")
    rc = run_sr<std_es>(seed, small_data, evaluator_id::undefined);
  else if (kind == "sr_small_mse")
    rc = run_sr<std_es>(seed, small_data, evaluator_id::mse);
  else if (kind == "sr_mse")
    rc = run_sr<std_es>(seed, sr_data, evaluator_id::mse);
  else if (kind == "sr_count")
    rc = run_sr<std_es>(seed, sr_data, evaluator_id::count);
  else if (kind == "class_std")
    rc = run_sr<std_es>(seed, class_data, evaluator_id::undefined);
  else if (kind == "class_alps")
    rc = run_sr<alps_es>(seed, class_data, evaluator_id::gaussian);
  else if (kind == "pickup")
    run_pickup(seed);
  else if (kind == "pickup_seq")
    run_pickup_seq(seed);
  else if (kind.rfind("inproc_mep_", 0) == 0)
  {
    by_name = true;
    const std::string k(kind.substr(11));
    const test_evaluator_type et(k == "fixed" ? test_evaluator_type::fixed
                                 : k == "distinct" ? test_evaluator_type::distinct : test_evaluator_type::random);
    {
      const auto prob(setup_mep());
      section("first execution (problem set up)");
      run_mep(seed, et, *prob);
      section("same problem object again");
      run_mep(seed, et, *prob);
    }
    {
      const auto prob(setup_mep());
      section("problem set up again");
      run_mep(seed, et, *prob);
    }
    unrelated_symbols();
    {
      const auto prob(setup_mep());
      section("problem set up again after unrelated symbols were created");
      run_mep(seed, et, *prob);
    }
  }
  else if (kind == "inproc_ga" || kind == "inproc_de" || kind == "inproc_sr" || kind == "inproc_sr_alps")
  {
    by_name = true;
    auto once = [&]
    {
      eval_count = 0;
      if (kind == "inproc_ga") run_ga(seed);
      else if (kind == "inproc_de") run_de(seed);
      else if (kind == "inproc_sr") run_sr<std_es>(seed, sr_data, evaluator_id::undefined);
      else run_sr<alps_es>(seed, sr_data, evaluator_id::undefined);
    };
    section("first execution (problem set up)");
    once();
    section("problem set up again");
    once();
    unrelated_symbols();
    section("problem set up again after unrelated symbols were created");
    once();
  }
  else
    return 2;

  std::fwrite(tr_.data(), 1, tr_.size(), stdout);
  return rc;
}
