// Correspondence harness for the random engine (C07): runs the REAL
// vigna::xoshiro256ss / vita::random::seed and the real operator<< /
// operator>> on the cases of ocaml/rng_driver.ml (same line protocol).
#include <algorithm>
#include <array>
#include <cstdint>
#include <cstdio>
#include <cstring>
#include <iostream>
#include <limits>
#include <memory>
#include <random>
#include <sstream>
#include <string>
#include <vector>

#define private public
#include "utility/xoshiro256ss.h"
#undef private
#include "kernel/random.h"

namespace
{
std::string hex64(std::uint64_t x)
{
  char buf[32];
  std::snprintf(buf, sizeof(buf), "%016llx", static_cast<unsigned long long>(x));
  return buf;
}
std::uint64_t u64(const std::string &s) { return std::stoull(s, nullptr, 16); }
std::string bytes_of_hex(const std::string &h)
{
  std::string s;
  if (h == "-") return s;
  for (std::size_t i(0); i + 1 < h.size(); i += 2)
    s += static_cast<char>(std::stoi(h.substr(i, 2), nullptr, 16));
  return s;
}
std::string hex_of_bytes(const std::string &s)
{
  if (s.empty()) return "-";
  std::string out;
  for (unsigned char c : s)
  {
    char b[4];
    std::snprintf(b, sizeof(b), "%02x", c);
    out += b;
  }
  return out;
}
std::vector<std::string> split(const std::string &l)
{
  std::istringstream ss(l);
  std::vector<std::string> out;
  std::string w;
  while (ss >> w) out.push_back(w);
  return out;
}
using eng = vigna::xoshiro256ss;
std::string show_state(const eng &e)
{
  return hex64(e.state[0]) + " " + hex64(e.state[1]) + " " + hex64(e.state[2]) + " " + hex64(e.state[3]);
}
std::string draw(eng &e, unsigned n)
{
  std::string out;
  for (unsigned i(0); i < n; ++i)
  {
    if (i) out += " ";
    out += hex64(e());
  }
  return out;
}
// what is left unread in a stream that has not failed
std::string rest_of(std::istringstream &in, const std::string &all)
{
  if (in.eof()) return "";
  const auto pos(in.tellg());
  if (pos < 0) return "?";
  return all.substr(static_cast<std::size_t>(pos));
}
}  // namespace

int main()
{
  std::string line;
  while (std::getline(std::cin, line))
  {
    const auto w(split(line));
    if (w.empty()) { std::cout << "BADLINE" << std::endl; continue; }
    const std::string &c(w[0]);
    // engines live on the heap in exactly sized blocks so that AddressSanitizer
    // sees stores outside the object
    if (c == "seq" && w.size() == 3)
    {
      auto e(std::make_unique<eng>(u64(w[1])));
      const auto o(draw(*e, std::stoul(w[2])));
      std::cout << o << " | " << show_state(*e) << std::endl;
    }
    else if (c == "st" && w.size() == 6)
    {
      auto e(std::make_unique<eng>());
      for (int i(0); i < 4; ++i) e->state[i] = u64(w[1 + i]);
      const auto o(draw(*e, std::stoul(w[5])));
      std::cout << o << " | " << show_state(*e) << std::endl;
    }
    else if (c == "rseed" && w.size() == 5)
    {
      vita::random::engine.seed(u64(w[1]));
      for (unsigned long i(0), k(std::stoul(w[2])); i < k; ++i) (void)vita::random::engine();
      vita::random::seed(static_cast<unsigned>(u64(w[3])));
      const auto o(draw(vita::random::engine, std::stoul(w[4])));
      std::cout << o << " | " << show_state(vita::random::engine) << std::endl;
    }
    else if (c == "save" && w.size() == 5)
    {
      auto e(std::make_unique<eng>());
      for (int i(0); i < 4; ++i) e->state[i] = u64(w[1 + i]);
      std::ostringstream os;
      os << *e;
      std::cout << hex_of_bytes(os.str()) << std::endl;
    }
    else if (c == "load" && w.size() == 6)
    {
      auto e(std::make_unique<eng>());
      for (int i(0); i < 4; ++i) e->state[i] = u64(w[1 + i]);
      const std::string txt(bytes_of_hex(w[5]));
      std::istringstream in(txt);
      in >> *e;
      if (in.fail())
        std::cout << "FAIL " << show_state(*e) << std::endl;
      else
        std::cout << "OK " << show_state(*e) << " " << hex_of_bytes(rest_of(in, txt)) << std::endl;
    }
    else if (c == "reload" && w.size() == 6)
    {
      auto e(std::make_unique<eng>(u64(w[1])));
      for (unsigned long i(0), k(std::stoul(w[2])); i < k; ++i) (void)(*e)();
      std::ostringstream os;
      os << *e;
      const std::string txt(os.str() + bytes_of_hex(w[5]));
      auto f(std::make_unique<eng>(u64(w[3])));
      std::istringstream in(txt);
      in >> *f;
      if (in.fail())
        std::cout << "FAIL" << std::endl;
      else
      {
        const std::string rest(rest_of(in, txt));
        const unsigned n(std::stoul(w[4]));
        const bool eq_before(*e == *f);
        const auto of(draw(*f, n));
        const auto oe(draw(*e, n));
        (void)eq_before;
        std::cout << "OK " << of << " | " << oe << " | " << hex_of_bytes(rest) << std::endl;
      }
    }
    else if (c == "readu" && w.size() == 2)
    {
      const std::string txt(bytes_of_hex(w[1]));
      std::istringstream in(txt);
      std::uint64_t v(0x5555);
      in >> v;
      if (in.fail())
        std::cout << "FAIL " << hex64(v) << std::endl;
      else
        std::cout << "OK " << hex64(v) << " " << hex_of_bytes(rest_of(in, txt)) << std::endl;
    }
    else if (c == "showu" && w.size() == 2)
    {
      std::ostringstream os;
      os << u64(w[1]);
      std::cout << hex_of_bytes(os.str()) << std::endl;
    }
    else
      std::cout << "BADLINE" << std::endl;
  }
  return 0;
}
