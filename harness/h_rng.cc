// Correspondence harness for the random engine (C07): runs the REAL
// vigna::xoshiro256ss / vita::random::seed and the real operator<< /
// operator>> on the cases of ocaml/rng_driver.ml (same line protocol).
#include <algorithm>
#include <array>
#include <cstdint>
#include <cstdio>
#include <cstring>
#include <iostream>
#include <limits>
#include <locale>
#include <memory>
#include <random>
#include <sstream>
#include <string>
#include <vector>

#define private public
#include "utility/xoshiro256ss.h"
#undef private
#include "kernel/random.h"

namespace
{
std::string hex64(std::uint64_t x)
{
  char buf[32];
  std::snprintf(buf, sizeof(buf), "%016llx", static_cast<unsigned long long>(x));
  return buf;
}
std::uint64_t u64(const std::string &s) { return std::stoull(s, nullptr, 16); }
std::string bytes_of_hex(const std::string &h)
{
  std::string s;
  if (h == "-") return s;
  for (std::size_t i(0); i + 1 < h.size(); i += 2)
    s += static_cast<char>(std::stoi(h.substr(i, 2), nullptr, 16));
  return s;
}
std::string hex_of_bytes(const std::string &s)
{
  if (s.empty()) return "-";
  std::string out;
  for (unsigned char c : s)
  {
    char b[4];
    std::snprintf(b, sizeof(b), "%02x", c);
    out += b;
  }
  return out;
}
std::vector<std::string> split(const std::string &l)
{
  std::istringstream ss(l);
  std::vector<std::string> out;
  std::string w;
  while (ss >> w) out.push_back(w);
  return out;
}
using eng = vigna::xoshiro256ss;
std::string show_state(const eng &e)
{
  return hex64(e.state[0]) + " " + hex64(e.state[1]) + " " + hex64(e.state[2]) + " " + hex64(e.state[3]);
}
std::string draw(eng &e, unsigned n)
{
  std::string out;
  for (unsigned i(0); i < n; ++i)
  {
    if (i) out += " ";
    out += hex64(e());
  }
  return out;
}
// what is left unread in a stream that has not failed
std::string rest_of(std::istringstream &in, const std::string &all)
{
  if (in.eof()) return "";
  const auto pos(in.tellg());
  if (pos < 0) return "?";
  return all.substr(static_cast<std::size_t>(pos));
}
}  // namespace

int main()
{
  std::string line;
  while (std::getline(std::cin, line))
  {
    const auto w(split(line));
    if (w.empty()) { std::cout << "BADLINE" << std::endl; continue; }
    const std::string &c(w[0]);
    // engines live on the heap in exactly sized blocks so that AddressSanitizer
    // sees stores outside the object
    if (c == "seq" && w.size() == 3)
    {
      auto e(std::make_unique<eng>(u64(w[1])));
      const auto o(draw(*e, std::stoul(w[2])));
      std::cout << o << " | " << show_state(*e) << std::endl;
    }
    else if (c == "st" && w.size() == 6)
    {
      auto e(std::make_unique<eng>());
      for (int i(0); i < 4; ++i) e->state[i] = u64(w[1 + i]);
      const auto o(draw(*e, std::stoul(w[5])));
      std::cout << o << " | " << show_state(*e) << std::endl;
    }
    else if (c == "rseed" && w.size() == 5)
    {
      vita::random::engine.seed(u64(w[1]));
      for (unsigned long i(0), k(std::stoul(w[2])); i < k; ++i) (void)vita::random::engine();
      vita::random::seed(static_cast<unsigned>(u64(w[3])));
      const auto o(draw(vita::random::engine, std::stoul(w[4])));
      std::cout << o << " | " << show_state(vita::random::engine) << std::endl;
    }
    else if (c == "save" && w.size() == 5)
    {
      auto e(std::make_unique<eng>());
      for (int i(0); i < 4; ++i) e->state[i] = u64(w[1 + i]);
      std::ostringstream os;
      os << *e;
      std::cout << hex_of_bytes(os.str()) << std::endl;
    }
    else if (c == "load" && w.size() == 6)
    {
      auto e(std::make_unique<eng>());
      for (int i(0); i < 4; ++i) e->state[i] = u64(w[1 + i]);
      const std::string txt(bytes_of_hex(w[5]));
      std::istringstream in(txt);
      in >> *e;
      if (in.fail())
        std::cout << "FAIL " << show_state(*e) << std::endl;
      else
        std::cout << "OK " << show_state(*e) << " " << hex_of_bytes(rest_of(in, txt)) << std::endl;
    }
    else if (c == "reload" && w.size() == 6)
    {
      auto e(std::make_unique<eng>(u64(w[1])));
      for (unsigned long i(0), k(std::stoul(w[2])); i < k; ++i) (void)(*e)();
      std::ostringstream os;
      os << *e;
      const std::string txt(os.str() + bytes_of_hex(w[5]));
      auto f(std::make_unique<eng>(u64(w[3])));
      std::istringstream in(txt);
      in >> *f;
      if (in.fail())
        std::cout << "FAIL" << std::endl;
      else
      {
        const std::string rest(rest_of(in, txt));
        const unsigned n(std::stoul(w[4]));
        const bool eq_before(*e == *f);
        const auto of(draw(*f, n));
        const auto oe(draw(*e, n));
        (void)eq_before;
        std::cout << "OK " << of << " | " << oe << " | " << hex_of_bytes(rest) << std::endl;
      }
    }
    else if (c == "reloadfmt" && w.size() == 6)
    {
      // save and reload through ONE stream whose locale groups digits (a custom numpunct facet: no dependence on the
      // locales installed on the machine): reloadfmt <seed> <k> <other> <n> <variant>
      struct grouping : std::numpunct<char>
      {
        grouping(char s, std::string g) : sep(s), grp(std::move(g)) {}
        char do_thousands_sep() const override { return sep; }
        std::string do_grouping() const override { return grp; }
        char sep;
        std::string grp;
      };
      const int variant(std::stoi(w[5]));
      auto e(std::make_unique<eng>(u64(w[1])));
      for (unsigned long i(0), k(std::stoul(w[2])); i < k; ++i) (void)(*e)();
      std::stringstream ss;
      ss.imbue(std::locale(std::locale::classic(),
                           variant == 0 ? new grouping(',', "\3") : variant == 1 ? new grouping('.', "\3\2") : new grouping('\'', "\1")));
      ss << *e;
      const std::string txt(ss.str());
      auto f(std::make_unique<eng>(u64(w[3])));
      ss >> *f;
      if (ss.fail())
        std::cout << "FAIL | - | " << hex_of_bytes(txt) << std::endl;
      else
      {
        const unsigned n(std::stoul(w[4]));
        const auto of(draw(*f, n));
        const auto oe(draw(*e, n));
        std::cout << "OK " << of << " | " << oe << " | " << hex_of_bytes(txt) << std::endl;
      }
    }
    else if (c == "readu" && w.size() == 2)
    {
      const std::string txt(bytes_of_hex(w[1]));
      std::istringstream in(txt);
      std::uint64_t v(0x5555);
      in >> v;
      if (in.fail())
        std::cout << "FAIL " << hex64(v) << std::endl;
      else
        std::cout << "OK " << hex64(v) << " " << hex_of_bytes(rest_of(in, txt)) << std::endl;
    }
    else if (c == "draws" && w.size() >= 2)
    {
      // vita::random::seed(seed), then the requested draws through the real vita::random / libstdc++ code
      vita::random::seed(static_cast<unsigned>(u64(w[1])));
      std::string out;
      for (std::size_t k(2); k < w.size(); ++k)
      {
        std::vector<std::string> f;
        {
          std::istringstream ss(w[k]);
          std::string x;
          while (std::getline(ss, x, ':')) f.push_back(x);
        }
        if (!out.empty()) out += " ";
        if (f[0] == "i" && f.size() == 3)
        {
          auto sh = [](const std::string &s) -> __int128
          {
            const bool neg(!s.empty() && s[0] == '-');
            const __int128 v(static_cast<__int128>(std::stoull(neg ? s.substr(1) : s, nullptr, 16)));
            return neg ? -v : v;
          };
          const __int128 lo(sh(f[1])), hi(sh(f[2]));
          __int128 v;
          // the integral types vita instantiates between<> with
          if (lo >= std::numeric_limits<int>::min() && hi <= std::numeric_limits<int>::max())
            v = vita::random::between<int>(static_cast<int>(lo), static_cast<int>(hi));
          else if (lo >= 0 && hi <= std::numeric_limits<unsigned>::max())
            v = vita::random::between<unsigned>(static_cast<unsigned>(lo), static_cast<unsigned>(hi));
          else if (lo >= 0 && hi <= static_cast<__int128>(std::numeric_limits<std::uint64_t>::max()))
            v = vita::random::between<std::uint64_t>(static_cast<std::uint64_t>(lo), static_cast<std::uint64_t>(hi));
          else
            v = vita::random::between<long long>(static_cast<long long>(lo), static_cast<long long>(hi));
          char buf[64];
          if (v < 0)
            std::snprintf(buf, sizeof(buf), "i:-%llx", static_cast<unsigned long long>(-v));
          else
            std::snprintf(buf, sizeof(buf), "i:%llx", static_cast<unsigned long long>(v));
          out += buf;
        }
        else if (f[0] == "r" && f.size() == 3)
        {
          auto d = [](const std::string &s) { const std::uint64_t u(u64(s)); double x; std::memcpy(&x, &u, 8); return x; };
          const double v(vita::random::between<double>(d(f[1]), d(f[2])));
          std::uint64_t u;
          std::memcpy(&u, &v, 8);
          out += "r:" + (v != v ? std::string("7ff8000000000000") : hex64(u));
        }
        else if (f[0] == "b" && f.size() == 2)
        {
          const std::uint64_t u(u64(f[1]));
          double p;
          std::memcpy(&p, &u, 8);
          out += vita::random::boolean(p) ? "b:1" : "b:0";
        }
        else if (f[0] == "d" && f.size() == 2)
        {
          std::vector<unsigned> ws;
          std::istringstream ss(f[1]);
          std::string x;
          while (std::getline(ss, x, ',')) ws.push_back(static_cast<unsigned>(std::stoul(x)));
          std::discrete_distribution<unsigned> dd(ws.begin(), ws.end());   // as population.tcc:pickup builds it
          char buf[32];
          std::snprintf(buf, sizeof(buf), "d:%x", dd(vita::random::engine));
          out += buf;
        }
        else if (f[0] == "s")
        {
          std::discrete_distribution<unsigned> dd({3.0, 1.0, 2.0});
          (void)dd(vita::random::engine);
          out += "s";
        }
        else
          out += "?";
      }
      std::cout << out << std::endl;
    }
    else if (c == "showu" && w.size() == 2)
    {
      std::ostringstream os;
      os << u64(w[1]);
      std::cout << hex_of_bytes(os.str()) << std::endl;
    }
    else
      std::cout << "BADLINE" << std::endl;
  }
  return 0;
}
