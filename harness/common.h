// Shared helpers of the correspondence harnesses (line protocol, canonical
// printing).  Values are printed as  <tag>:<payload>
//   v            undefined (monostate)
//   i:<decimal>  int
//   d:<hex64>    double, raw bit pattern
//   s:<hex bytes> string
#if !defined(VV_HARNESS_COMMON_H)
#define VV_HARNESS_COMMON_H

#include <cstdint>
#include <cstring>
#include <iostream>
#include <sstream>
#include <string>
#include <vector>

#include "kernel/vita.h"

namespace vv
{
inline std::string hex64(std::uint64_t x)
{
  char buf[32];
  std::snprintf(buf, sizeof(buf), "%016llx", static_cast<unsigned long long>(x));
  return buf;
}

inline std::uint64_t bits_of(double d)
{
  std::uint64_t u;
  std::memcpy(&u, &d, sizeof(u));
  return u;
}

inline double double_of(std::uint64_t u)
{
  double d;
  std::memcpy(&d, &u, sizeof(d));
  return d;
}

inline std::string show(const vita::value_t &v)
{
  switch (v.index())
  {
  case vita::d_void: return "v";
  case vita::d_int: return "i:" + std::to_string(std::get<vita::D_INT>(v));
  case vita::d_double:
  {
    const double d(std::get<vita::D_DOUBLE>(v));
    // all NaNs print alike
    if (d != d) return "d:7ff8000000000000";
    return "d:" + hex64(bits_of(d));
  }
  default:
  {
    std::string out("s:");
    for (unsigned char c : std::get<vita::D_STRING>(v))
    {
      char b[4];
      std::snprintf(b, sizeof(b), "%02x", c);
      out += b;
    }
    return out;
  }
  }
}

inline vita::value_t parse_value(const std::string &t)
{
  if (t == "v") return {};
  if (t.size() >= 2 && t[1] == ':')
  {
    const std::string p(t.substr(2));
    if (t[0] == 'i') return static_cast<vita::D_INT>(std::stol(p));
    if (t[0] == 'd') return double_of(std::stoull(p, nullptr, 16));
    if (t[0] == 's')
    {
      std::string s;
      for (std::size_t i(0); i + 1 < p.size(); i += 2)
        s += static_cast<char>(std::stoi(p.substr(i, 2), nullptr, 16));
      return s;
    }
  }
  throw std::runtime_error("bad value token " + t);
}

inline std::vector<std::string> split(const std::string &l)
{
  std::istringstream ss(l);
  std::vector<std::string> out;
  std::string w;
  while (ss >> w) out.push_back(w);
  return out;
}
}  // namespace vv

#endif
