// Correspondence harness for the shipped primitives (C13, C14, primitive
// layer of C01): calls symbol::eval of each primitive through a stub
// symbol_params and prints the result canonically.
//
// input  : <ident> <param|-> <argc> <value>...      (ident as emitted by translate/cxx_mini.py)
// output : <value>  [fetched i j ...]   |  EXC <what>  |  UNKNOWN
#include <map>
#include <memory>

#include "common.h"
#include "kernel/gp/src/primitive/int.h"
#include "kernel/gp/src/primitive/real.h"
#include "kernel/gp/src/primitive/bool.h"
#include "kernel/gp/src/primitive/string.h"

using namespace vita;

struct stub : symbol_params
{
  std::vector<value_t> args;
  std::vector<unsigned> fetched;
  bool has_param = false;
  double param = 0.0;

  value_t fetch_arg(unsigned i) override
  {
    fetched.push_back(i);
    if (i >= args.size()) throw std::out_of_range("argument not provided");
    return args[i];
  }
  value_t fetch_opaque_arg(unsigned i) override { return fetch_arg(i); }
  terminal_param_t fetch_param() const override
  {
    if (!has_param) throw std::out_of_range("parameter not provided");
    return param;
  }
};

int main()
{
  std::map<std::string, std::unique_ptr<symbol>> prims;
#define P(ident, ...) prims[#ident] = std::unique_ptr<symbol>(new __VA_ARGS__)
  P(int_number, integer::number({0}));
  P(int_add, integer::add({0}));
  P(int_div, integer::div({0}));
  P(int_ife, integer::ife({0, 0}));
  P(int_ifl, integer::ifl({0, 0}));
  P(int_ifz, integer::ifz({0}));
  P(int_mod, integer::mod({0}));
  P(int_mul, integer::mul({0}));
  P(int_shl, integer::shl({0}));
  P(int_sub, integer::sub({0}));
  P(real_real, real::real({0}));
  P(real_integer, real::integer({0}));
  P(real_abs, real::abs({0}));
  P(real_add, real::add({0}));
  P(real_aq, real::aq({0}));
  P(real_cos, real::cos({0}));
  P(real_div, real::div({0}));
  P(real_gt, real::gt({0, 0}));
  P(real_idiv, real::idiv({0}));
  P(real_ifb, real::ifb({0, 0}));
  P(real_ife, real::ife({0, 0}));
  P(real_ifl, real::ifl({0, 0}));
  P(real_ifz, real::ifz({0}));
  P(real_length, real::length({0, 0}));
  P(real_ln, real::ln({0}));
  P(real_lt, real::lt({0, 0}));
  P(real_max, real::max({0}));
  P(real_mod, real::mod({0}));
  P(real_mul, real::mul({0}));
  P(real_sin, real::sin({0}));
  P(real_sqrt, real::sqrt({0}));
  P(real_sub, real::sub({0}));
  P(real_sigmoid, real::sigmoid({0}));
  P(bool_zero, boolean::zero({0}));
  P(bool_one, boolean::one({0}));
  P(bool_l_and, boolean::l_and({0}));
  P(bool_l_not, boolean::l_not({0}));
  P(bool_l_or, boolean::l_or({0}));
  P(string_ife, str::ife({0, 0}));

  std::ios::sync_with_stdio(false);
  std::string line;
  while (std::getline(std::cin, line))
  {
    const auto w(vv::split(line));
    if (w.size() < 3) { std::cout << "BADLINE\n"; continue; }
    const auto it(prims.find(w[0]));
    if (it == prims.end()) { std::cout << "UNKNOWN\n"; continue; }
    stub s;
    if (w[1] != "-")
    {
      s.has_param = true;
      s.param = vv::double_of(std::stoull(w[1], nullptr, 16));
    }
    const auto argc(std::stoul(w[2]));
    for (std::size_t i(0); i < argc; ++i)
      s.args.push_back(vv::parse_value(w[3 + i]));
    try
    {
      const value_t r(it->second->eval(s));
      std::cout << vv::show(r) << " f";
      for (auto i : s.fetched) std::cout << ' ' << i;
      std::cout << '\n';
    }
    catch (const std::bad_variant_access &)
    {
      std::cout << "THROW\n";
    }
    catch (const std::exception &e)
    {
      std::cout << "EXC " << e.what() << '\n';
    }
  }
}
