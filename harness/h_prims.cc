// Correspondence harness for the shipped primitives (C13, C14, primitive
// layer of C01): calls symbol::eval of each primitive through a stub
// symbol_params and prints the result canonically.
//
// input  : <ident> <param|-> <argc> <value>...      (ident as emitted by translate/cxx_mini.py)
// output : <value>  [fetched i j ...]   |  EXC <what>  |  UNKNOWN
//
// input  : TREE <nvars> <value>... <node>...       (C13: a whole program, nodes in prefix order)
//            node = P:<ident>:<c0[,c1]>:<cat>:<argcats|->:<param|->    shipped primitive built with cvect {c0[,c1]}
//                 | V:<var index>:<cat>                                input variable
//          the program is built as an i_mep (one gene per row, root at row 0) and run by vita::run, i.e. by
//          the real src_interpreter; the categories announced in the node are checked against the symbol's
// output : <value>  |  THROW  |  EXC <what>  |  MISMATCH <what>
//
// input  : LIBM <sin|cos|exp|log> <hex64>           (C13: the C library function itself, for the H_libm hypotheses)
// output : <hex64>   (all NaNs alike)
#include <map>
#include <memory>

#include "common.h"
#include "kernel/gp/src/primitive/int.h"
#include "kernel/gp/src/primitive/real.h"
#include "kernel/gp/src/primitive/bool.h"
#include "kernel/gp/src/primitive/string.h"
#include "kernel/gp/src/variable.h"

using namespace vita;

struct stub : symbol_params
{
  std::vector<value_t> args;
  std::vector<unsigned> fetched;
  bool has_param = false;
  double param = 0.0;

  value_t fetch_arg(unsigned i) override
  {
    fetched.push_back(i);
    if (i >= args.size()) throw std::out_of_range("argument not provided");
    return args[i];
  }
  value_t fetch_opaque_arg(unsigned i) override { return fetch_arg(i); }
  terminal_param_t fetch_param() const override
  {
    if (!has_param) throw std::out_of_range("parameter not provided");
    return param;
  }
};

// ---------------------------------------------------------------- TREE
static symbol *make_prim(const std::string &ident, const cvect &c)
{
#define Q(id, ...) if (ident == #id) return new __VA_ARGS__
  Q(real_real, real::real(c));
  Q(real_integer, real::integer(c));
  Q(real_abs, real::abs(c));
  Q(real_add, real::add(c));
  Q(real_aq, real::aq(c));
  Q(real_cos, real::cos(c));
  Q(real_div, real::div(c));
  Q(real_gt, real::gt(c));
  Q(real_idiv, real::idiv(c));
  Q(real_ifb, real::ifb(c));
  Q(real_ife, real::ife(c));
  Q(real_ifl, real::ifl(c));
  Q(real_ifz, real::ifz(c));
  Q(real_length, real::length(c));
  Q(real_ln, real::ln(c));
  Q(real_lt, real::lt(c));
  Q(real_max, real::max(c));
  Q(real_mod, real::mod(c));
  Q(real_mul, real::mul(c));
  Q(real_sin, real::sin(c));
  Q(real_sqrt, real::sqrt(c));
  Q(real_sub, real::sub(c));
  Q(real_sigmoid, real::sigmoid(c));
  Q(string_ife, str::ife(c));
#undef Q
  return nullptr;
}

static std::vector<std::string> split_on(const std::string &s, char sep)
{
  std::vector<std::string> out(1);
  for (char ch : s)
    if (ch == sep) out.emplace_back(); else out.back() += ch;
  return out;
}

struct tree_ctx
{
  const std::vector<std::string> &w;
  std::size_t pos;
  std::vector<gene> genes;
  std::map<std::string, std::unique_ptr<symbol>> &cache;
  std::string problem;

  // parses the node at w[pos], appends its gene; returns its row
  std::size_t node()
  {
    const std::size_t row(genes.size());
    genes.emplace_back();
    if (pos >= w.size()) { problem = "truncated"; return row; }
    const std::string tok(w[pos++]);
    const auto f(split_on(tok, ':'));
    if (f[0] == "V" && f.size() == 3)
    {
      auto &sp(cache[tok]);
      if (!sp)
        sp.reset(new variable("X" + f[1], std::stoul(f[1]), static_cast<category_t>(std::stoul(f[2]))));
      genes[row] = gene(*terminal::cast(sp.get()));
      return row;
    }
    if (f[0] != "P" || f.size() != 6) { problem = "bad node " + tok; return row; }
    const std::string key(f[1] + ":" + f[2]);
    auto &sp(cache[key]);
    if (!sp)
    {
      cvect c;
      for (const auto &x : split_on(f[2], ',')) c.push_back(static_cast<category_t>(std::stoul(x)));
      sp.reset(make_prim(f[1], c));
    }
    symbol *sy(sp.get());
    if (!sy) { problem = "unknown primitive " + f[1]; return row; }
    if (sy->category() != std::stoul(f[3])) problem = "category of " + tok;
    std::vector<category_t> ac;
    if (f[4] != "-")
      for (const auto &x : split_on(f[4], ',')) ac.push_back(static_cast<category_t>(std::stoul(x)));
    if (ac.size() != sy->arity()) { problem = "arity of " + tok; return row; }
    std::vector<index_t> args;
    for (std::size_t i(0); i < ac.size(); ++i)
    {
      if (function::cast(sy)->arg_category(i) != ac[i]) problem = "argument category of " + tok;
      args.push_back(static_cast<index_t>(node()));
    }
    gene g(std::pair<symbol *, std::vector<index_t>>{sy, args});
    if (f[5] != "-") g.par = vv::double_of(std::stoull(f[5], nullptr, 16));
    genes[row] = g;
    return row;
  }
};

static void run_tree_line(const std::vector<std::string> &w,
                          std::map<std::string, std::unique_ptr<symbol>> &cache)
{
  const std::size_t nv(std::stoul(w[1]));
  std::vector<value_t> example;
  for (std::size_t i(0); i < nv; ++i) example.push_back(vv::parse_value(w[2 + i]));
  tree_ctx ctx{w, 2 + nv, {}, cache, ""};
  ctx.node();
  if (ctx.problem.empty() && ctx.pos != w.size()) ctx.problem = "trailing tokens";
  if (!ctx.problem.empty()) { std::cout << "MISMATCH " << ctx.problem << '\n'; return; }
  try
  {
    const i_mep prg(ctx.genes);
    const value_t r(run(prg, example));
    std::cout << vv::show(r) << '\n';
  }
  catch (const std::bad_variant_access &)
  {
    std::cout << "THROW\n";
  }
  catch (const std::exception &e)
  {
    std::cout << "EXC " << e.what() << '\n';
  }
}

int main()
{
  std::map<std::string, std::unique_ptr<symbol>> tree_syms;
  std::map<std::string, std::unique_ptr<symbol>> prims;
#define P(ident, ...) prims[#ident] = std::unique_ptr<symbol>(new __VA_ARGS__)
  P(int_number, integer::number({0}));
  P(int_add, integer::add({0}));
  P(int_div, integer::div({0}));
  P(int_ife, integer::ife({0, 0}));
  P(int_ifl, integer::ifl({0, 0}));
  P(int_ifz, integer::ifz({0}));
  P(int_mod, integer::mod({0}));
  P(int_mul, integer::mul({0}));
  P(int_shl, integer::shl({0}));
  P(int_sub, integer::sub({0}));
  P(real_real, real::real({0}));
  P(real_integer, real::integer({0}));
  P(real_abs, real::abs({0}));
  P(real_add, real::add({0}));
  P(real_aq, real::aq({0}));
  P(real_cos, real::cos({0}));
  P(real_div, real::div({0}));
  P(real_gt, real::gt({0, 0}));
  P(real_idiv, real::idiv({0}));
  P(real_ifb, real::ifb({0, 0}));
  P(real_ife, real::ife({0, 0}));
  P(real_ifl, real::ifl({0, 0}));
  P(real_ifz, real::ifz({0}));
  P(real_length, real::length({0, 0}));
  P(real_ln, real::ln({0}));
  P(real_lt, real::lt({0, 0}));
  P(real_max, real::max({0}));
  P(real_mod, real::mod({0}));
  P(real_mul, real::mul({0}));
  P(real_sin, real::sin({0}));
  P(real_sqrt, real::sqrt({0}));
  P(real_sub, real::sub({0}));
  P(real_sigmoid, real::sigmoid({0}));
  P(bool_zero, boolean::zero({0}));
  P(bool_one, boolean::one({0}));
  P(bool_l_and, boolean::l_and({0}));
  P(bool_l_not, boolean::l_not({0}));
  P(bool_l_or, boolean::l_or({0}));
  P(string_ife, str::ife({0, 0}));

  std::ios::sync_with_stdio(false);
  std::string line;
  while (std::getline(std::cin, line))
  {
    const auto w(vv::split(line));
    if (w.size() < 3) { std::cout << "BADLINE\n"; continue; }
    if (w[0] == "TREE") { run_tree_line(w, tree_syms); continue; }
    if (w[0] == "LIBM")
    {
      const double x(vv::double_of(std::stoull(w[2], nullptr, 16)));
      double r(0.0);
      if (w[1] == "sin") r = std::sin(x);
      else if (w[1] == "cos") r = std::cos(x);
      else if (w[1] == "exp") r = std::exp(x);
      else if (w[1] == "log") r = std::log(x);
      else { std::cout << "UNKNOWN\n"; continue; }
      std::cout << (r != r ? std::string("7ff8000000000000") : vv::hex64(vv::bits_of(r))) << '\n';
      continue;
    }
    const auto it(prims.find(w[0]));
    if (it == prims.end()) { std::cout << "UNKNOWN\n"; continue; }
    stub s;
    if (w[1] != "-")
    {
      s.has_param = true;
      s.param = vv::double_of(std::stoull(w[1], nullptr, 16));
    }
    const auto argc(std::stoul(w[2]));
    for (std::size_t i(0); i < argc; ++i)
      s.args.push_back(vv::parse_value(w[3 + i]));
    try
    {
      const value_t r(it->second->eval(s));
      std::cout << vv::show(r) << " f";
      for (auto i : s.fetched) std::cout << ' ' << i;
      std::cout << '\n';
    }
    catch (const std::bad_variant_access &)
    {
      std::cout << "THROW\n";
    }
    catch (const std::exception &e)
    {
      std::cout << "EXC " << e.what() << '\n';
    }
  }
}
