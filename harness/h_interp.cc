// Correspondence harness for C01 (the MEP interpreter).
//
// One case per line:
//   <ncats> <nrows> <best idx> <best cat> <ncells> {cell} <nruns> {run}
//   cell := <row> <sym> <par hex|-> <nargs> <arg>*
//   sym  := P/<ident>/<c0[,c1]>      shipped primitive built with that category vector
//         | V/<var id>/<cat>         vita::variable
//         | KD/<decimal text>/<cat>  constant<double>     KI/<int>/<cat>   constant<int>
//         | KS/<hex bytes>/<cat>     constant<std::string>
//   run  := <mode> <locus idx> <locus cat> <nvals> <value>*
//     b  vita::run(ind)                      B  one interpreter<i_mep> object, run()
//     e  vita::run(ind, example)             s  one src_interpreter<i_mep> object, run(example)
//     k  vita::run(ind.get_block(l), ex)     l  the same src_interpreter object, run_locus(l)
//     L  one reg_lambda_f<i_mep> object, operator()(example)
//     p  penalty_locus(l) on that src_interpreter object (result p:<n>)
//     T:<loci>  one reg_lambda_f<team<i_mep>> of the blocks at the loci, operator()(example)
//     H  long history, see do_case (output " | H <N> <#disagreements> {<run>=<used>~<fresh>}*")
//     C  that object replaced by a copy of itself, then operator()(example)
// Output (one line):
//   C <row>:<cat>:<argcats|-> ... {| R <res> F <res|-> S <state|->}*
//   R   result of the run            F  result of the same run on a FRESH interpreter
//   S   <ip idx>,<ip cat> <#valid> {<idx>,<cat>=<value>}*   (persistent objects only)
//
// The genome is built through the public constructor i_mep(std::vector<gene>)
// and get_block; cells beyond the first of a row and the interpreter's ip_/cache_
// are reached with `#define private public`.
#include <bits/stdc++.h>

#define private public
#define protected public
#include "kernel/vita.h"
#include "kernel/gp/src/constant.h"
#include "kernel/gp/src/variable.h"
#include "kernel/gp/src/lambda_f.h"
#undef private
#undef protected

#include "common.h"

using namespace vita;

namespace
{
cvect parse_cvect(const std::string &s)
{
  cvect v;
  std::stringstream ss(s);
  std::string w;
  while (std::getline(ss, w, ',')) v.push_back(std::stoul(w));
  return v;
}

std::vector<std::string> split_on(const std::string &s, char sep)
{
  std::vector<std::string> out;
  std::stringstream ss(s);
  std::string w;
  while (std::getline(ss, w, sep)) out.push_back(w);
  if (!s.empty() && s.back() == sep) out.push_back("");
  return out;
}

std::unique_ptr<symbol> make_prim(const std::string &id, const cvect &c)
{
#define P(ident, ...) if (id == #ident) return std::unique_ptr<symbol>(new __VA_ARGS__)
  P(int_number, integer::number(c));
  P(int_add, integer::add(c));
  P(int_div, integer::div(c));
  P(int_ife, integer::ife(c));
  P(int_ifl, integer::ifl(c));
  P(int_ifz, integer::ifz(c));
  P(int_mod, integer::mod(c));
  P(int_mul, integer::mul(c));
  P(int_shl, integer::shl(c));
  P(int_sub, integer::sub(c));
  P(real_real, real::real(c));
  P(real_integer, real::integer(c));
  P(real_abs, real::abs(c));
  P(real_add, real::add(c));
  P(real_aq, real::aq(c));
  P(real_cos, real::cos(c));
  P(real_div, real::div(c));
  P(real_gt, real::gt(c));
  P(real_idiv, real::idiv(c));
  P(real_ifb, real::ifb(c));
  P(real_ife, real::ife(c));
  P(real_ifl, real::ifl(c));
  P(real_ifz, real::ifz(c));
  P(real_length, real::length(c));
  P(real_ln, real::ln(c));
  P(real_lt, real::lt(c));
  P(real_max, real::max(c));
  P(real_mod, real::mod(c));
  P(real_mul, real::mul(c));
  P(real_sin, real::sin(c));
  P(real_sqrt, real::sqrt(c));
  P(real_sub, real::sub(c));
  P(real_sigmoid, real::sigmoid(c));
  P(bool_zero, boolean::zero(c));
  P(bool_one, boolean::one(c));
  P(bool_l_and, boolean::l_and(c));
  P(bool_l_not, boolean::l_not(c));
  P(bool_l_or, boolean::l_or(c));
  P(string_ife, str::ife(c));
#undef P
  return nullptr;
}

std::unique_ptr<symbol> make_symbol(const std::string &tok)
{
  const auto f(split_on(tok, '/'));
  if (f.size() != 3) return nullptr;
  if (f[0] == "P") return make_prim(f[1], parse_cvect(f[2]));
  const category_t cat(std::stoul(f[2]));
  if (f[0] == "V")
    return std::make_unique<variable>("X" + f[1], std::stoul(f[1]), cat);
  if (f[0] == "KD") return std::make_unique<constant<double>>(f[1], cat);
  if (f[0] == "KI") return std::make_unique<constant<int>>(f[1], cat);
  if (f[0] == "KS")
  {
    std::string s;
    for (std::size_t i(0); i + 1 < f[1].size(); i += 2)
      s += static_cast<char>(std::stoi(f[1].substr(i, 2), nullptr, 16));
    return std::make_unique<constant<std::string>>(s, cat);
  }
  return nullptr;
}

template<class F> std::string guarded(F f)
{
  try
  {
    return vv::show(f());
  }
  catch (const std::bad_variant_access &)
  {
    return "THROW";
  }
  catch (const std::exception &)
  {
    return "EXC";   // e.g. std::stod inside lexical_cast<double>(string): outside the model
  }
}

// The memo and ip_ are private details: they are printed when they still have
// the shape the model knows (a rows x categories matrix of {valid, value} and
// a locus); after a refactoring of the representation the harness keeps
// compiling, prints "?" and the check goes on with the results alone.
template<class I, class = void> struct state_printer
{
  static std::string show(const I &) { return "?"; }
};

template<class I>
struct state_printer<I, std::void_t<
  decltype(std::declval<const I &>().ip_.index),
  decltype(std::declval<const I &>().ip_.category),
  decltype(std::declval<const I &>().cache_.rows()),
  decltype(std::declval<const I &>().cache_.cols()),
  decltype(std::declval<const I &>().cache_(std::size_t(0), std::size_t(0)).valid),
  decltype(std::declval<const I &>().cache_(std::size_t(0), std::size_t(0)).value)>>
{
  static std::string show(const I &in)
  {
    std::ostringstream o;
    o << in.ip_.index << ',' << in.ip_.category;
    std::size_t n(0);
    std::ostringstream e;
    for (std::size_t r(0); r < in.cache_.rows(); ++r)
      for (std::size_t c(0); c < in.cache_.cols(); ++c)
        if (in.cache_(r, c).valid)
        {
          ++n;
          e << ' ' << r << ',' << c << '=' << vv::show(in.cache_(r, c).value);
        }
    o << ' ' << n << e.str();
    return o.str();
  }
};

std::string show_state(const interpreter<i_mep> &in)
{
  return state_printer<interpreter<i_mep>>::show(in);
}

// one value of a long-history example template:
//   #        the run number as a double        #i   the run number as an int
//   @a|b     value a on the runs listed as "taken", value b on the others
//   anything else: a literal value
value_t template_value(const std::string &t, std::size_t r, bool taken)
{
  if (t == "#") return static_cast<double>(r);
  if (t == "#i") return static_cast<D_INT>(r);
  if (!t.empty() && t[0] == '@')
  {
    const auto bar(t.find('|'));
    return vv::parse_value(taken ? t.substr(1, bar - 1) : t.substr(bar + 1));
  }
  return vv::parse_value(t);
}

struct cell_t { std::size_t row; gene g; };

std::string do_case(const std::vector<std::string> &w)
{
  std::size_t p(0);
  auto next = [&]() -> const std::string &
  {
    if (p >= w.size()) throw std::runtime_error("short line");
    return w[p++];
  };

  // CHAIN <function P/..> <constant K?/..> <N>: the program
  //   [i] F [i+1] [N+1]  (i < N),  [N] X0,  [N+1] the constant
  // i.e. F(F(...F(X0, c)..., c), c) nested N deep, built here instead of being spelled out
  const bool chain(!w.empty() && w[0] == "CHAIN");
  std::size_t ncats, nrows;
  locus best{0, 0};
  std::vector<std::unique_ptr<symbol>> syms;
  std::vector<cell_t> cells;
  std::ostringstream out;
  out << 'C';

  if (chain)
  {
    next();
    auto fs(make_symbol(next()));
    auto cs(make_symbol(next()));
    if (!fs || !cs || fs->arity() != 2) throw std::runtime_error("bad chain symbols");
    const std::size_t n(std::stoul(next()));
    ncats = 1;
    nrows = n + 2;
    syms.push_back(std::move(fs));
    syms.push_back(std::make_unique<variable>("X0", 0, 0));
    syms.push_back(std::move(cs));
    for (std::size_t i(0); i < n; ++i)
      cells.push_back({i, gene(std::pair<symbol *, std::vector<index_t>>{syms[0].get(), {i + 1, n + 1}})});
    cells.push_back({n, gene(std::pair<symbol *, std::vector<index_t>>{syms[1].get(), {}})});
    cells.push_back({n + 1, gene(std::pair<symbol *, std::vector<index_t>>{syms[2].get(), {}})});
    out << " chain";
  }
  else
  {
  ncats = std::stoul(next());
  nrows = std::stoul(next());
  best = locus{std::stoul(next()), std::stoul(next())};
  const std::size_t ncells(std::stoul(next()));

  for (std::size_t k(0); k < ncells; ++k)
  {
    const std::size_t row(std::stoul(next()));
    auto s(make_symbol(next()));
    if (!s) throw std::runtime_error("unknown symbol");
    const std::string par(next());
    const std::size_t nargs(std::stoul(next()));
    std::vector<index_t> args;
    for (std::size_t i(0); i < nargs; ++i) args.push_back(std::stoul(next()));
    if (nargs != s->arity()) throw std::runtime_error("arity mismatch");

    gene g(std::pair<symbol *, std::vector<index_t>>{s.get(), args});
    if (par != "-") g.par = vv::double_of(std::stoull(par, nullptr, 16));

    out << ' ' << row << ':' << s->category() << ':';
    if (s->arity() == 0)
      out << '-';
    else
      for (unsigned i(0); i < s->arity(); ++i)
        out << (i ? "," : "") << function::cast(s.get())->arg_category(i);

    cells.push_back({row, g});
    syms.push_back(std::move(s));
  }

  }

  // public constructor from the first cell of every row
  std::vector<gene> firsts;
  std::vector<bool> used(cells.size(), false);
  for (std::size_t r(0); r < nrows; ++r)
  {
    bool found(false);
    if (chain)
    {
      firsts.push_back(cells[r].g);
      used[r] = true;
      continue;
    }
    for (std::size_t k(0); k < cells.size() && !found; ++k)
      if (cells[k].row == r)
      {
        firsts.push_back(cells[k].g);
        used[k] = true;
        found = true;
      }
    if (!found) throw std::runtime_error("empty row");
  }
  i_mep ind(firsts);
  if (ind.categories() != ncats)
  {
    matrix<gene> m(nrows, ncats);
    for (std::size_t r(0); r < nrows; ++r)
      m(r, firsts[r].sym->category()) = firsts[r];
    ind.genome_ = m;
  }
  for (std::size_t k(0); k < cells.size(); ++k)
    if (!used[k])
      ind.genome_(cells[k].row, cells[k].g.sym->category()) = cells[k].g;
  if (!(ind.best() == best)) ind = ind.get_block(best);

  std::unique_ptr<src_interpreter<i_mep>> si;
  std::unique_ptr<interpreter<i_mep>> bi;
  std::unique_ptr<reg_lambda_f<i_mep>> lam;
  std::map<std::string, std::unique_ptr<reg_lambda_f<team<i_mep>>>> teams;

  const std::size_t nruns(std::stoul(next()));
  for (std::size_t k(0); k < nruns; ++k)
  {
    const std::string mode(next());
    if (mode == "H")
    {
      // H <s|L> <N> <nvals> <template>* <ntaken> <run>* : one persistent object run N times
      // (runs numbered from 1); every run is compared with a fresh interpreter here, only the
      // taken runs and the first disagreements are printed
      const std::string obj(next());
      const std::size_t n_runs(std::stoul(next())), nv(std::stoul(next()));
      std::vector<std::string> tpl;
      for (std::size_t i(0); i < nv; ++i) tpl.push_back(next());
      std::set<std::size_t> taken;
      const std::size_t nt(std::stoul(next()));
      for (std::size_t i(0); i < nt; ++i) taken.insert(std::stoul(next()));

      if (obj == "s" && !si) si = std::make_unique<src_interpreter<i_mep>>(&ind);
      if (obj == "L" && !lam) lam = std::make_unique<reg_lambda_f<i_mep>>(ind);
      std::size_t nmis(0);
      std::ostringstream shown;
      dataframe::example e;
      for (std::size_t r(1); r <= n_runs; ++r)
      {
        const bool tk(taken.count(r));
        e.input.clear();
        for (const auto &t : tpl) e.input.push_back(template_value(t, r, tk));
        const std::string used(obj == "s" ? guarded([&] { return si->run(e.input); })
                                          : guarded([&] { return (*lam)(e); }));
        const std::string fresh(guarded([&] { return run(ind, e.input); }));
        const bool mis(used != fresh);
        if (mis) ++nmis;
        if (tk || (mis && nmis <= 8))
          shown << ' ' << r << '=' << used << '~' << fresh;
      }
      out << " | H " << n_runs << ' ' << nmis << shown.str();
      continue;
    }
    const locus l{std::stoul(next()), std::stoul(next())};
    const std::size_t nvals(std::stoul(next()));
    std::vector<value_t> ex;
    for (std::size_t i(0); i < nvals; ++i) ex.push_back(vv::parse_value(next()));

    std::string r, f("-"), s("-");
    if (mode == "b")
      r = guarded([&] { return run(ind); });
    else if (mode == "e")
      r = guarded([&] { return run(ind, ex); });
    else if (mode == "k")
      r = guarded([&] { const i_mep blk(ind.get_block(l)); return run(blk, ex); });
    else if (mode == "B")
    {
      if (!bi) bi = std::make_unique<interpreter<i_mep>>(&ind);
      r = guarded([&] { return bi->run(); });
      s = show_state(*bi);
      f = guarded([&] { return run(ind); });
    }
    else if (mode == "s")
    {
      if (!si) si = std::make_unique<src_interpreter<i_mep>>(&ind);
      r = guarded([&] { return si->run(ex); });
      s = show_state(*si);
      f = guarded([&] { return run(ind, ex); });
    }
    else if (mode == "l")
    {
      if (!si) si = std::make_unique<src_interpreter<i_mep>>(&ind);
      r = guarded([&] { si->example_ = &ex; return si->run_locus(l); });
      s = show_state(*si);
      f = guarded([&] { const i_mep blk(ind.get_block(l)); return run(blk, ex); });
    }
    else if (mode == "L")
    {
      if (!lam) lam = std::make_unique<reg_lambda_f<i_mep>>(ind);
      dataframe::example e;
      e.input = ex;
      r = guarded([&] { return (*lam)(e); });
      s = show_state(lam->int_);
      f = guarded([&] { return run(ind, ex); });
    }
    else if (mode == "p")
    {
      // penalty_locus(l) on the persistent src_interpreter (private: reached like run_locus)
      if (!si) si = std::make_unique<src_interpreter<i_mep>>(&ind);
      const double pv(si->penalty_locus(l));
      r = "p:" + std::to_string(static_cast<long>(pv));
      s = show_state(*si);
    }
    else if (mode.size() > 2 && mode[0] == 'T' && mode[1] == ':')
    {
      // T:<i>,<c>;<i>,<c>...  one reg_lambda_f<team<i_mep>> object per member list (members are
      // blocks of the genome); F lists what every member returns on a fresh interpreter
      auto &tl(teams[mode]);
      std::vector<i_mep> members;
      for (const auto &m : split_on(mode.substr(2), ';'))
      {
        const auto ic(split_on(m, ','));
        members.push_back(ind.get_block(locus{std::stoul(ic[0]), std::stoul(ic[1])}));
      }
      if (!tl) tl = std::make_unique<reg_lambda_f<team<i_mep>>>(team<i_mep>(members));
      dataframe::example e;
      e.input = ex;
      r = guarded([&] { return (*tl)(e); });
      f.clear();
      for (const auto &m : members)
        f += (f.empty() ? "" : ";") + guarded([&] { return run(m, ex); });
    }
    else if (mode == "C")
    {
      // a copy of the (possibly used) lambda replaces it: the copy must own a
      // working interpreter bound to its own individual
      if (!lam) lam = std::make_unique<reg_lambda_f<i_mep>>(ind);
      auto copy(std::make_unique<reg_lambda_f<i_mep>>(*lam));
      lam = std::move(copy);
      dataframe::example e;
      e.input = ex;
      r = guarded([&] { return (*lam)(e); });
      s = show_state(lam->int_);
      f = guarded([&] { return run(ind, ex); });
    }
    else
      throw std::runtime_error("unknown mode");

    if (chain) s = "-";   // tens of thousands of memo entries: results only
    out << " | R " << r << " F " << f << " S " << s;
  }

  return out.str();
}
}  // namespace

int main()
{
  std::ios::sync_with_stdio(false);
  std::string line;
  while (std::getline(std::cin, line))
  {
    try
    {
      std::cout << do_case(vv::split(line)) << std::endl;
    }
    catch (const std::exception &e)
    {
      std::cout << "BADLINE " << e.what() << std::endl;
    }
  }
}
