// C06 correspondence harness: drives the REAL selection / recombination /
// replacement / after_generation code of morinim/vita and prints, for every
// step, the random draws it made (hook H1), the parents, the offspring and a
// dump of the whole population and of the summary.
//
// input (one case per line; all input is read before anything runs because
// evolution::run polls stdin for a key press):
//   run  <kind mep|team|ga|de> <strat std|alps|de|dealps> <mode step|whole|search> <seed>
//        <individuals> <min_individuals> <layers> <tournament> <mate_zone> <elitism 0|1>
//        <age_gap> <p_same> <p_cross> <p_mutation> <brood> <generations> <cache 0|1>
//        <eval h|v|r|n> <evalmod> <shake_every> [<max_stuck_time> [<shake at generation 0: 0|1> [<further run() calls on the SAME evolution object (whole mode)>]]]
//   mode sel: an ALPS population with <layers> layers of UNEQUAL sizes (real add_layer / set_allowed /
//        pop_from_layer), then <generations> * 50 calls of selection.run() from that fixed state
//   tune <class search|ga|de|src> <strat std|alps|de> <validator asis|holdout|dss> <rows>
//        code_length patch_length elitism(-1|0|1) p_mutation p_cross brood layers individuals
//        min_individuals tournament mate_zone generations max_stuck_time(-1=unset) dss(-1) validation(-1)
// output: one line per case (see checks/c06.py and ocaml/evo_driver.ml for
// the grammar of a trace).
#include <algorithm>
#include <cmath>
#include <cstdint>
#include <cstdio>
#include <cstring>
#include <functional>
#include <iostream>
#include <limits>
#include <map>
#include <memory>
#include <set>
#include <sstream>
#include <string>
#include <typeinfo>
#include <vector>
#include <fcntl.h>
#include <unistd.h>

#define private public
#define protected public
#include "kernel/vita.h"
#undef private
#undef protected

using namespace vita;

namespace
{
// ------------------------------------------------------------------ draws
struct draw_t { char kind; long double lo, hi, v; };
std::vector<draw_t> g_draws;
void sink(char k, long double lo, long double hi, long double v)
{
  g_draws.push_back({k, lo, hi, v});
}

std::string hex64(std::uint64_t x)
{
  char b[32];
  std::snprintf(b, sizeof(b), "%016llx", static_cast<unsigned long long>(x));
  return b;
}
std::uint64_t bits_of(double d)
{
  std::uint64_t u;
  std::memcpy(&u, &d, sizeof(u));
  return u;
}

std::string show_fit(const fitness_t &f)
{
  if (f.size() == 0) return "-";
  std::string s;
  for (std::size_t i(0); i < f.size(); ++i)
  {
    if (i) s += '/';
    s += hex64(bits_of(f[i]));
  }
  return s;
}

// ------------------------------------------------------------- evaluators
int g_salt = 0;

// fitness = a function of the signature only (plus a global "dataset" salt
// changed by the shake function); `mod` small => many ties
template<class T>
class hash_eva : public evaluator<T>
{
public:
  hash_eva(char type, unsigned mod) : type_(type), mod_(mod ? mod : 1) {}
  fitness_t operator()(const T &x) override
  {
    const auto s(x.signature());
    const std::uint64_t h((s.data[0] ^ (s.data[1] >> 7))
                          + 0x9e3779b97f4a7c15ull * static_cast<unsigned>(g_salt));
    // 'n': distinct values that differ by about 1e-11 of their magnitude (an
    // absolute or relative tolerance in a comparison makes them look equal)
    if (type_ == 'n')
      return {-(1000000.0 + static_cast<double>(h % mod_) * 1e-5)};
    const double a(-static_cast<double>(h % mod_));
    if (type_ == 'v')
      return {a, -static_cast<double>((h >> 20) % 3)};
    return {a};
  }
private:
  char type_;
  unsigned mod_;
};

double sphere_ga(const i_ga &x)
{
  double s(0);
  for (unsigned i(0); i < x.parameters(); ++i) s += static_cast<double>(x[i]) * x[i];
  return -s - g_salt;
}
double sphere_de(const i_de &x)
{
  double s(0);
  for (unsigned i(0); i < x.parameters(); ++i) s += x[i] * x[i];
  return -s - g_salt;
}

template<class T> struct real_eva;
template<> struct real_eva<i_ga> : evaluator<i_ga>
{
  fitness_t operator()(const i_ga &x) override { return {sphere_ga(x)}; }
};
template<> struct real_eva<i_de> : evaluator<i_de>
{
  fitness_t operator()(const i_de &x) override { return {sphere_de(x)}; }
};
template<> struct real_eva<i_mep> : evaluator<i_mep>
{
  fitness_t operator()(const i_mep &x) override
  {
    return {-std::fabs(static_cast<double>(x.active_symbols()) - 5.0 - g_salt)};
  }
};

template<> struct real_eva<team<i_mep>> : evaluator<team<i_mep>>
{
  fitness_t operator()(const team<i_mep> &x) override
  {
    double a(0);
    for (const auto &i : x) a += i.active_symbols();
    return {-std::fabs(a - 12.0 - g_salt)};
  }
};

template<class T>
std::unique_ptr<evaluator<T>> make_eva(char type, unsigned mod, bool cache)
{
  if (type == 'r')
  {
    if (cache)
      return std::make_unique<evaluator_proxy<T, real_eva<T>>>(real_eva<T>(), 7);
    return std::make_unique<real_eva<T>>();
  }
  if (cache)
    return std::make_unique<evaluator_proxy<T, hash_eva<T>>>(hash_eva<T>(type, mod), 7);
  return std::make_unique<hash_eva<T>>(type, mod);
}

// ------------------------------------------------------------------ dumps
template<class T> std::string show_ind(const T &x, evaluator<T> &eva)
{
  const auto s(x.signature());
  return hex64(s.data[0]) + hex64(s.data[1]) + " " + std::to_string(x.age()) + " "
         + show_fit(eva(x));
}

template<class T> std::string show_pop(const population<T> &p, evaluator<T> &eva)
{
  std::string s("P " + std::to_string(p.layers()));
  bool valid(true);
  for (unsigned l(0); l < p.layers(); ++l)
  {
    s += " " + std::to_string(p.allowed(l)) + " " + std::to_string(p.individuals(l));
    for (unsigned i(0); i < p.individuals(l); ++i)
    {
      const T &x(p.pop_[l][i]);
      s += " " + show_ind(x, eva);
      valid = valid && x.is_valid();
    }
  }
  s += valid ? " V 1" : " V 0";
  return s;
}

template<class T> std::string show_sum(const summary<T> &sm, evaluator<T> &eva, unsigned gen)
{
  return "B " + show_ind(sm.best.solution, eva) + " " + show_fit(sm.best.score.fitness) + " "
         + std::to_string(sm.last_imp) + " " + std::to_string(gen);
}

std::string show_double(double d) { return hex64(bits_of(d)); }

// the analyzer fields read by basic_alps_es::after_generation and
// std_es::stop_condition:  AZ <groups> {fit mean, fit sd, age mean}*groups <fit variance>
template<class T> std::string show_az(const analyzer<T> &az, unsigned groups)
{
  std::string s("AZ ");
  unsigned present(0);
  while (present < groups && az.group_stat_.find(present) != az.group_stat_.end()) ++present;
  s += std::to_string(present);
  for (unsigned l(0); l < present; ++l)
    s += " " + show_fit(az.fit_dist(l).mean()) + " " + show_fit(az.fit_dist(l).standard_deviation())
         + " " + show_double(az.age_dist(l).mean());
  s += " " + (az.fit_dist().count() ? show_fit(az.fit_dist().variance()) : std::string("-"));
  return s;
}

template<class T> std::string show_coords(const std::vector<typename population<T>::coord> &cs)
{
  std::string s(std::to_string(cs.size()));
  for (const auto &c : cs)
    s += " " + std::to_string(c.layer) + " " + std::to_string(c.index);
  return s;
}

std::string ull(long double v) { return std::to_string(static_cast<unsigned long long>(v)); }

// ----------------------------------------------------------- configuration
struct config
{
  std::string kind, strat, mode;
  unsigned seed, individuals, min_individuals, layers, tournament, mate_zone;
  int elitism;
  unsigned age_gap;
  double p_same, p_cross, p_mutation;
  unsigned brood, generations;
  int cache;
  char eval;
  unsigned evalmod, shake_every, max_stuck, shake0, reruns;

  // does the user's shake function change the data before generation `g`?
  bool shakes(unsigned g) const
  {
    return (shake0 && g == 0) || (shake_every && g && g % shake_every == 0);
  }
};

void apply(const config &c, environment &env)
{
  env.init();
  env.individuals = c.individuals;
  env.min_individuals = c.min_individuals;
  env.layers = c.layers;
  env.tournament_size = c.tournament;
  env.mate_zone = c.mate_zone;
  env.elitism = c.elitism ? trilean::yes : trilean::no;
  env.alps.age_gap = c.age_gap;
  env.alps.p_same_layer = c.p_same;
  env.p_cross = c.p_cross;
  env.p_mutation = c.p_mutation;
  env.brood_recombination = c.brood;
  env.generations = c.generations;
  env.mep.code_length = 12;
  env.mep.patch_length = 1;
  env.cache_size = 7;
  env.max_stuck_time = c.max_stuck;
}

template<class T> struct problem_of;
template<> struct problem_of<i_mep>
{
  problem prob;
  symbol_factory factory;
  problem_of()
  {
    prob.sset.insert(factory.make("REAL", {0}));
    prob.sset.insert(factory.make("FADD", {0}));
    prob.sset.insert(factory.make("FSUB", {0}));
    prob.sset.insert(factory.make("FMUL", {0}));
    prob.sset.insert(factory.make("FIFL", {0}));
    prob.sset.insert(factory.make("FLN", {0}));
    prob.sset.insert(factory.make("FABS", {0}));
  }
};
template<> struct problem_of<team<i_mep>> : problem_of<i_mep>
{
  problem_of() { prob.env.team.individuals = 3; }
};
template<> struct problem_of<i_ga>
{
  ga_problem prob;
  problem_of() : prob(5, {-40, 40}) {}
};
template<> struct problem_of<i_de>
{
  de_problem prob;
  problem_of() : prob(4, {-10.0, 10.0}) {}
};

// ------------------------------------------------------------- trace tools
// what the selection / recombination / replacement just did, read off the
// draw log in source order
template<class T>
std::string describe_selection(const std::string &strat, const population<T> &pop,
                               const std::vector<typename population<T>::coord> &parents)
{
  std::string s;
  if (strat == "std")
  {
    // pickup(pop) [one layer: a single `sup`], then `rounds` ring draws
    std::size_t k(0);
    unsigned tl(0);
    if (pop.layers() > 1)
      tl = static_cast<unsigned>(g_draws[k++].v);
    const unsigned ti(static_cast<unsigned>(g_draws[k++].v));
    s = "ST " + std::to_string(tl) + " " + std::to_string(ti) + " " + std::to_string(g_draws.size() - k);
    for (; k < g_draws.size(); ++k) s += " " + ull(g_draws[k].v);
  }
  else if (strat == "de")
    s = "SR " + show_coords<T>(parents);
  else
  {
    // layer, then picks: ['b'] 'i'
    std::size_t k(0);
    const unsigned layer(static_cast<unsigned>(g_draws[k++].v));
    std::vector<std::pair<int, unsigned>> pk;
    std::string bounds;
    while (k < g_draws.size())
    {
      int same(1);
      if (g_draws[k].kind == 'b') same = g_draws[k++].v != 0 ? 1 : 0;
      bounds += " " + ull(g_draws[k].hi);
      pk.push_back({same, static_cast<unsigned>(g_draws[k++].v)});
    }
    s = "SA " + std::to_string(layer);
    for (std::size_t i(0); i < 2 && i < pk.size(); ++i)
      s += " " + std::to_string(pk[i].first) + " " + std::to_string(pk[i].second);
    s += " " + std::to_string(pk.size() >= 2 ? pk.size() - 2 : 0);
    for (std::size_t i(2); i < pk.size(); ++i)
      s += " " + std::to_string(pk[i].first) + " " + std::to_string(pk[i].second);
    // the upper bounds the index draws were made with (random::sup(n)), in order
    s += " SUP " + std::to_string(pk.size()) + bounds;
  }
  return s;
}

std::string describe_recombination(bool de)
{
  if (de)
    return "RD " + ull(g_draws.at(0).v) + " " + ull(g_draws.at(1).v);
  // boolean(p_cross), then (no crossover) boolean() ? r1 : r2
  if (g_draws.at(0).v != 0) return "RB C";
  return g_draws.at(1).v != 0 ? "RB 1" : "RB 2";
}

std::string describe_int_draws(std::size_t cap)
{
  std::vector<std::string> v;
  for (const auto &d : g_draws)
    if (d.kind == 'i' && d.lo == 0 && v.size() < cap) v.push_back(ull(d.v));
  std::string s("D " + std::to_string(v.size()));
  for (const auto &x : v) s += " " + x;
  return s;
}

std::ostringstream g_out;

template<class T> analyzer<T> get_stats(const population<T> &pop, evaluator<T> &eva)
{
  analyzer<T> az;
  for (auto it(pop.begin()), end(pop.end()); it != end; ++it)
    az.add(*it, eva(*it), it.layer());
  return az;
}

// ---------------------------------------------------------------- step mode
// The loop of evolution::run, with the real strategy objects driven one call
// at a time.
template<class T, template<class> class ES>
void run_step(const config &c)
{
  problem_of<T> pr;
  apply(c, pr.prob.env);
  auto eva_ptr(make_eva<T>(c.eval, c.evalmod, c.cache));
  evaluator<T> &eva(*eva_ptr);

  random::seed(c.seed);
  g_salt = 0;

  population<T> pop(pr.prob);
  summary<T> sum;
  ES<T> es(pop, eva, &sum);

  sum.clear();
  sum.best.solution = pop[{0, 0}];
  sum.best.score.fitness = eva(sum.best.solution);
  es.init();

  g_out << "INIT " << show_pop(pop, eva) << " " << show_sum(sum, eva, 0);

  const bool de(c.strat == "de" || c.strat == "dealps");
  const std::string sel_strat(c.strat == "std" ? "std" : c.strat == "de" ? "de" : "alps");

  for (sum.gen = 0; sum.gen <= c.generations; ++sum.gen)
  {
    {
      // strategy specific stop condition (evolution::stop_condition), evaluated
      // on the analyzer of the previous generation
      const bool stop(es.stop_condition());
      g_out << " STOP " << show_az(sum.az, 0) << " " << sum.gen << " " << sum.last_imp << " "
            << c.max_stuck << " " << (stop ? 1 : 0);
      if (stop) break;
    }

    if (c.shakes(sum.gen))
    {
      ++g_salt;
      eva.clear();
      sum.best.score.fitness = eva(sum.best.solution);
      g_out << " SHAKE " << show_pop(pop, eva) << " " << show_sum(sum, eva, sum.gen);
    }

    sum.az = get_stats(pop, eva);

    for (unsigned k(0); k < pop.individuals(); ++k)
    {
      g_draws.clear();
      auto parents(es.selection.run());
      const std::string s_sel(describe_selection<T>(sel_strat, pop, parents));

      g_draws.clear();
      auto off(es.recombination.run(parents));
      const std::string s_rec(describe_recombination(de));
      const std::string s_off("O " + show_ind(off[0], eva));

      g_draws.clear();
      es.replacement.run(parents, off, &sum);
      const std::string s_rep(describe_int_draws(100000));

      g_out << " STEP " << s_sel << " " << s_rec << " " << s_off << " " << s_rep
          << " PAR " << show_coords<T>(parents)
          << " " << show_pop(pop, eva) << " " << show_sum(sum, eva, sum.gen);
    }

    g_draws.clear();
    const std::string s_az(show_az(sum.az, pop.layers()));
    es.after_generation();
    g_out << " GEN " << s_az << " " << describe_int_draws(4096) << " " << show_pop(pop, eva) << " "
        << show_sum(sum, eva, sum.gen + 1);
  }
  g_out << " END";
}

// ---------------------------------------------------------------- sel mode
// Many ALPS selections from one population whose layers have different sizes
// (what after_generation leaves behind when some layers have converged).
template<class T, template<class> class ES>
void run_sel(const config &c)
{
  problem_of<T> pr;
  apply(c, pr.prob.env);
  auto eva_ptr(make_eva<T>(c.eval, c.evalmod, c.cache));
  evaluator<T> &eva(*eva_ptr);

  random::seed(c.seed);
  g_salt = 0;

  population<T> pop(pr.prob);
  summary<T> sum;
  ES<T> es(pop, eva, &sum);
  sum.clear();
  sum.best.solution = pop[{0, 0}];
  sum.best.score.fitness = eva(sum.best.solution);

  // layers (newest first), ages growing with the layer
  for (unsigned l(1); l < c.layers; ++l)
  {
    for (unsigned k(0); k <= c.age_gap; ++k) pop.inc_age();
    pop.add_layer();
  }
  // unequal sizes: a private generator, so that the library's stream is not disturbed
  std::uint64_t x(0x9e3779b97f4a7c15ull ^ c.seed);
  auto next([&x]() { x ^= x << 13; x ^= x >> 7; x ^= x << 17; return x; });
  for (unsigned l(0); l < pop.layers(); ++l)
  {
    const unsigned lo(std::max(1u, std::min(c.min_individuals, c.individuals)));
    const unsigned target(lo + static_cast<unsigned>(next() % (c.individuals - lo + 1)));
    if (next() % 2)
      pop.set_allowed(l, target);                   // as basic_alps_es::after_generation does
    else
      while (pop.individuals(l) > target) pop.pop_from_layer(l);
  }

  g_out << "INITSEL CB " << show_pop(pop, eva) << " " << show_sum(sum, eva, 0);
  const unsigned n(50 * std::max(1u, c.generations));
  for (unsigned k(0); k < n; ++k)
  {
    g_draws.clear();
    const auto parents(es.selection.run());
    g_out << " SEL " << describe_selection<T>("alps", pop, parents) << " PAR " << show_coords<T>(parents);
  }
  g_out << " END";
}

// --------------------------------------------------------------- whole mode
// evolution::run itself, with strategy components that log around the real
// ones (std / de), or with the after_generation callback only (alps).
struct trace_ctx
{
  std::string sel, rec, off;
  bool pending_shake = false;
};
trace_ctx g_ctx;

template<class T> void flush_shake(const population<T> &pop, evaluator<T> &eva, const summary<T> &sum)
{
  if (g_ctx.pending_shake)
  {
    g_ctx.pending_shake = false;
    g_out << " SHAKE " << show_pop(pop, eva) << " " << show_sum(sum, eva, sum.gen);
  }
}

template<class T> struct tr_sel_tournament : selection::tournament<T>
{
  using selection::tournament<T>::tournament;
  typename selection::strategy<T>::parents_t run()
  {
    flush_shake(this->pop_, this->eva_, this->sum_);
    g_draws.clear();
    auto p(selection::tournament<T>::run());
    g_ctx.sel = describe_selection<T>("std", this->pop_, p);
    return p;
  }
};
template<class T> struct tr_sel_random : selection::random<T>
{
  using selection::random<T>::random;
  typename selection::strategy<T>::parents_t run()
  {
    flush_shake(this->pop_, this->eva_, this->sum_);
    g_draws.clear();
    auto p(selection::random<T>::run());
    g_ctx.sel = describe_selection<T>("de", this->pop_, p);
    return p;
  }
};
template<class T> struct tr_rec_base : recombination::base<T>
{
  using recombination::base<T>::base;
  typename recombination::strategy<T>::offspring_t run(
    const typename recombination::strategy<T>::parents_t &parent)
  {
    g_draws.clear();
    auto o(recombination::base<T>::run(parent));
    g_ctx.rec = describe_recombination(false);
    g_ctx.off = "O " + show_ind(o[0], this->eva_);
    return o;
  }
};
template<class T> struct tr_rec_de : recombination::de<T>
{
  using recombination::de<T>::de;
  typename recombination::strategy<T>::offspring_t run(
    const typename recombination::strategy<T>::parents_t &parent)
  {
    g_draws.clear();
    auto o(recombination::de<T>::run(parent));
    g_ctx.rec = describe_recombination(true);
    g_ctx.off = "O " + show_ind(o[0], this->eva_);
    return o;
  }
};
template<class T> struct tr_rep_tournament : replacement::tournament<T>
{
  using replacement::tournament<T>::tournament;
  void run(const typename replacement::strategy<T>::parents_t &parent,
           const typename replacement::strategy<T>::offspring_t &offspring, summary<T> *s)
  {
    g_draws.clear();
    replacement::tournament<T>::run(parent, offspring, s);
    g_out << " STEP " << g_ctx.sel << " " << g_ctx.rec << " " << g_ctx.off << " "
        << describe_int_draws(100000) << " PAR " << show_coords<T>(parent) << " "
        << show_pop(this->pop_, this->eva_) << " " << show_sum(*s, this->eva_, s->gen);
  }
};

template<class T>
class traced_std_es : public evolution_strategy<T, tr_sel_tournament, tr_rec_base, tr_rep_tournament>
{
public:
  using traced_std_es::evolution_strategy::evolution_strategy;
};
template<class T>
class traced_de_es : public evolution_strategy<T, tr_sel_random, tr_rec_de, tr_rep_tournament>
{
public:
  using traced_de_es::evolution_strategy::evolution_strategy;
};

template<class T, template<class> class ES>
void run_whole(const config &c, bool traced)
{
  problem_of<T> pr;
  apply(c, pr.prob.env);
  auto eva_ptr(make_eva<T>(c.eval, c.evalmod, c.cache));
  evaluator<T> &eva(*eva_ptr);

  random::seed(c.seed);
  g_salt = 0;
  g_ctx = trace_ctx();

  evolution<T, ES> evo(pr.prob, eva);
  g_out << "INIT " << show_pop(evo.pop_, eva) << " ";
  {
    // what evolution::run is about to set up
    summary<T> s0;
    s0.best.solution = evo.pop_[{0, 0}];
    s0.best.score.fitness = eva(s0.best.solution);
    g_out << show_sum(s0, eva, 0);
  }

  evo.after_generation(
    [&](const population<T> &pop, const summary<T> &sum)
    {
      if (traced)
        g_out << " GEN " << show_az(sum.az, pop.layers()) << " D 0 " << show_pop(pop, eva) << " "
              << show_sum(sum, eva, sum.gen + 1);
      else
        g_out << " CB " << show_pop(pop, eva) << " " << show_sum(sum, eva, sum.gen);
    });

  auto shake([&](unsigned g)
             {
               if (c.shakes(g))
               {
                 ++g_salt;
                 eva.clear();
                 if (traced) g_ctx.pending_shake = true; else g_out << " SHAKEN";
                 return true;
               }
               return false;
             });
  evo.run(1, shake);
  // a history of runs on the same object: every run() starts from a clean summary
  for (unsigned r(0); r < c.reruns; ++r)
  {
    g_ctx = trace_ctx();
    g_out << " RERUN " << show_pop(evo.pop_, eva);
    evo.run(2 + r, shake);
  }
  g_out << " END";
}

// -------------------------------------------------------------- search mode
// search::run (tune_parameters + several evolutions), observed through the
// after_generation callback; the tuned environment is printed at the end.
std::string show_env(const environment &e)
{
  std::ostringstream s;
  s << "ENV " << e.mep.code_length << " " << e.mep.patch_length << " "
    << (e.elitism == trilean::unknown ? -1 : e.elitism == trilean::yes ? 1 : 0) << " "
    << hex64(bits_of(e.p_mutation)) << " " << hex64(bits_of(e.p_cross)) << " "
    << e.brood_recombination << " " << e.layers << " " << e.individuals << " " << e.min_individuals
    << " " << e.tournament_size << " " << e.mate_zone << " " << e.generations << " ";
  if (e.max_stuck_time.has_value()) s << *e.max_stuck_time; else s << -1;
  s << " ";
  if (e.dss.has_value()) s << *e.dss; else s << -1;
  s << " ";
  if (e.validation_percentage.has_value()) s << *e.validation_percentage; else s << -1;
  s << " " << e.alps.age_gap << " " << hex64(bits_of(e.alps.p_same_layer)) << " " << e.team.individuals
    << " VALID " << (e.is_valid(true) ? 1 : 0);
  return s.str();
}

template<class T, template<class> class ES>
void run_search(const config &c)
{
  problem_of<T> pr;
  apply(c, pr.prob.env);
  random::seed(c.seed);
  g_salt = 0;

  search<T, ES> s(pr.prob);
  if (c.eval == 'r')
    s.template training_evaluator<real_eva<T>>();
  else
    s.template training_evaluator<hash_eva<T>>(c.eval, c.evalmod);
  evaluator<T> &eva(*s.eva1_);

  g_out << "SEARCH";
  s.after_generation(
    [&](const population<T> &pop, const summary<T> &sum)
    {
      if (sum.gen == 0) g_out << " NEWRUN";
      g_out << " CB " << show_pop(pop, eva) << " " << show_sum(sum, eva, sum.gen);
    });
  const auto res(s.run(2));
  g_out << " RESULT " << show_fit(res.best.score.fitness) << " " << show_fit(eva(res.best.solution))
      << " " << show_env(pr.prob.env) << " END";
}

// ---------------------------------------------------------------- tune mode
struct tune_cfg
{
  std::string cls, strat, validator;
  unsigned rows;
  std::vector<std::string> f;
};

void user_env(const tune_cfg &t, environment &e)
{
  e = environment();
  auto u([&](std::size_t i) { return static_cast<unsigned>(std::stoul(t.f[i])); });
  e.mep.code_length = u(0);
  e.mep.patch_length = u(1);
  const int el(std::stoi(t.f[2]));
  e.elitism = el < 0 ? trilean::unknown : el ? trilean::yes : trilean::no;
  e.p_mutation = std::stod(t.f[3]);
  e.p_cross = std::stod(t.f[4]);
  e.brood_recombination = u(5);
  e.layers = u(6);
  e.individuals = u(7);
  e.min_individuals = u(8);
  e.tournament_size = u(9);
  e.mate_zone = u(10);
  e.generations = u(11);
  if (std::stol(t.f[12]) >= 0) e.max_stuck_time = u(12);
  if (std::stol(t.f[13]) >= 0) e.dss = u(13);
  if (std::stol(t.f[14]) >= 0) e.validation_percentage = u(14);
}

template<class S> void tune_and_show(S &s, const problem &p)
{
  const auto terms(p.sset.terminals(0));
  s.tune_parameters();
  g_out << "TUNED TERMS " << terms << " " << show_env(p.env);
}

double ga_f(const i_ga &) { return 0.0; }
double de_f(const i_de &) { return 0.0; }

void run_tune(const tune_cfg &t)
{
  if (t.cls == "search")
  {
    problem_of<i_mep> pr;
    user_env(t, pr.prob.env);
    if (t.strat == "alps") { search<i_mep, alps_es> s(pr.prob); tune_and_show(s, pr.prob); }
    else { search<i_mep, std_es> s(pr.prob); tune_and_show(s, pr.prob); }
  }
  else if (t.cls == "ga")
  {
    problem_of<i_ga> pr;
    user_env(t, pr.prob.env);
    ga_search<decltype(&ga_f)> s(pr.prob, &ga_f);
    tune_and_show(s, pr.prob);
  }
  else if (t.cls == "de")
  {
    problem_of<i_de> pr;
    user_env(t, pr.prob.env);
    de_search<decltype(&de_f)> s(pr.prob, &de_f);
    tune_and_show(s, pr.prob);
  }
  else
  {
    // symbolic regression problem with `rows` training examples y = x
    std::ostringstream csv;
    for (unsigned i(0); i < t.rows; ++i) csv << i << "," << i << "\n";
    std::istringstream is(csv.str());
    src_problem pr(is);
    pr.setup_symbols();
    user_env(t, pr.env);
    auto go([&](auto &s)
            {
              if (t.validator == "holdout") s.validation_strategy(validator_id::holdout);
              else if (t.validator == "dss") s.validation_strategy(validator_id::dss);
              tune_and_show(s, pr);
            });
    if (t.strat == "alps") { src_search<i_mep, alps_es> s(pr); go(s); }
    else { src_search<i_mep, std_es> s(pr); go(s); }
  }
}

config parse_run(const std::vector<std::string> &w)
{
  config c;
  std::size_t i(1);
  c.kind = w.at(i++); c.strat = w.at(i++); c.mode = w.at(i++);
  c.seed = std::stoul(w.at(i++));
  c.individuals = std::stoul(w.at(i++));
  c.min_individuals = std::stoul(w.at(i++));
  c.layers = std::stoul(w.at(i++));
  c.tournament = std::stoul(w.at(i++));
  c.mate_zone = std::stoul(w.at(i++));
  c.elitism = std::stoi(w.at(i++));
  c.age_gap = std::stoul(w.at(i++));
  c.p_same = std::stod(w.at(i++));
  c.p_cross = std::stod(w.at(i++));
  c.p_mutation = std::stod(w.at(i++));
  c.brood = std::stoul(w.at(i++));
  c.generations = std::stoul(w.at(i++));
  c.cache = std::stoi(w.at(i++));
  c.eval = w.at(i++)[0];
  c.evalmod = std::stoul(w.at(i++));
  c.shake_every = std::stoul(w.at(i++));
  c.max_stuck = i < w.size() ? static_cast<unsigned>(std::stoul(w.at(i++)))
                             : std::numeric_limits<unsigned>::max();
  c.shake0 = i < w.size() ? static_cast<unsigned>(std::stoul(w.at(i++))) : 0;
  c.reruns = i < w.size() ? static_cast<unsigned>(std::stoul(w.at(i++))) : 0;
  return c;
}

template<class T, template<class> class ES, template<class> class TES>
void dispatch_mode(const config &c, bool traceable)
{
  if (c.mode == "step") run_step<T, ES>(c);
  else if (c.mode == "sel") run_sel<T, ES>(c);
  else if (c.mode == "search") run_search<T, ES>(c);
  else if (traceable) run_whole<T, TES>(c, true);
  else run_whole<T, ES>(c, false);
}

void run_case(const config &c)
{
  if (c.kind == "mep")
  {
    if (c.strat == "std") dispatch_mode<i_mep, std_es, traced_std_es>(c, true);
    else dispatch_mode<i_mep, alps_es, alps_es>(c, false);
  }
  else if (c.kind == "team")
  {
    if (c.strat == "std") dispatch_mode<team<i_mep>, std_es, traced_std_es>(c, true);
    else dispatch_mode<team<i_mep>, alps_es, alps_es>(c, false);
  }
  else if (c.kind == "ga")
  {
    if (c.strat == "std") dispatch_mode<i_ga, std_es, traced_std_es>(c, true);
    else dispatch_mode<i_ga, alps_es, alps_es>(c, false);
  }
  else
  {
    if (c.strat == "de") dispatch_mode<i_de, de_es, traced_de_es>(c, true);
    else dispatch_mode<i_de, de_alps_es, de_alps_es>(c, false);
  }
}

std::vector<std::string> split(const std::string &l)
{
  std::istringstream ss(l);
  std::vector<std::string> v;
  std::string w;
  while (ss >> w) v.push_back(w);
  return v;
}
}  // namespace

int main()
{
  std::vector<std::string> lines;
  {
    std::string line;
    while (std::getline(std::cin, line)) lines.push_back(line);
  }
  // evolution::run polls stdin (term::user_stop): give it an empty one
  const int fd(open("/dev/null", O_RDONLY));
  if (fd >= 0) { dup2(fd, 0); close(fd); }

  log::reporting_level = log::lOFF;
  random::verif::draw_sink = &sink;

  for (const auto &line : lines)
  {
    const auto w(split(line));
    g_out.str("");
    try
    {
      if (w.empty()) g_out << "BADLINE";
      else if (w[0] == "run") run_case(parse_run(w));
      else if (w[0] == "tune")
      {
        tune_cfg t;
        t.cls = w.at(1); t.strat = w.at(2); t.validator = w.at(3);
        t.rows = std::stoul(w.at(4));
        t.f.assign(w.begin() + 5, w.end());
        if (t.f.size() < 15) throw std::runtime_error("tune: fields");
        run_tune(t);
      }
      else g_out << "BADLINE";
    }
    catch (const std::exception &e)
    {
      g_out << " EXC " << e.what();
    }
    std::string s(g_out.str());
    std::cout << s << std::endl;
  }
  return 0;
}
