// Correspondence harness for C16 (validation strategies): drives the REAL
// holdout_validation / dss objects directly (mode D) and through
// src_search::run (mode S), logs the random draws through hook H1 and dumps
// both dataframes after every call.
//
// uid = row number, carried in the last input column; an example is printed
// as  uid:difficulty:age:hash   (hash = FNV-1a over output and inputs).
//
// D <n> <perc|-> <gap|-> <seed> <op>...
//     n  = <rows>  |  <rows>/<classes>/<m|s>   (classification dataset, see dataset_text)
//     op = hi:<run> | di:<run> | ds:<gen> | dc:<run> | ev:<seed>:<mod>:<t|v|b> | sz:<target>
//   -> OK I <T> <V> # <op> <ret> <clrT> <clrV> <draws> <T> <V> # ...
// S <h|d|a> <n> <perc|-> <gap|-> <seed> <runs> <gens> [<cache bits, 0 = no cache>]
//   -> OK I <T> <V> # G <run> <gen> <draws> <T> <V> [F<0|1>] # C <t|v> <clrT> <clrV> <draws> <T> <V> ...
//      with a cache (the REAL evaluator_proxy around the training evaluator) F tells whether, at the end
//      of the generation, the fitness of the best individual obtained through the proxy equals the one a
//      brand new cache-less evaluator computes on the current training set (F0 = a stale cached value)
//      # E <perc> <dss> <T> <V>
// T <s>   -> the C++ value of static_cast<ptrdiff_t>(target_size) for size s
#include <algorithm>
#include <cstddef>
#include <cstdio>
#include <filesystem>
#include <fstream>
#include <functional>
#include <map>
#include <memory>
#include <random>
#include <set>
#include <sstream>
#include <string>
#include <variant>
#include <vector>

// search<T, ES>::eva1_ / eva2_ are protected: the harness installs a spying
// cache proxy there (no source change)
#define protected public
#include "common.h"
#undef protected

using namespace vita;

namespace
{
struct drec { char k; long double lo, hi, v; };
std::vector<drec> g_draws;

void sink(char k, long double lo, long double hi, long double v)
{
  g_draws.push_back({k, lo, hi, v});
}

std::string show_draw(const drec &d)
{
  char buf[96];
  if (d.k == 'b')
    std::snprintf(buf, sizeof(buf), "b/%d/%s", d.v != 0 ? 1 : 0,
                  vv::hex64(vv::bits_of(static_cast<double>(d.hi))).c_str());
  else
    std::snprintf(buf, sizeof(buf), "%c/%lld/%lld/%lld", d.k, static_cast<long long>(d.lo),
                  static_cast<long long>(d.hi), static_cast<long long>(d.v));
  return buf;
}

std::string show_draws(std::size_t from, std::size_t to)
{
  if (from >= to) return "-";
  std::string out;
  for (std::size_t i(from); i < to; ++i)
  {
    if (i > from) out += ',';
    out += show_draw(g_draws[i]);
  }
  return out;
}

std::uint64_t fnv(std::uint64_t h, std::uint64_t x)
{
  for (int i(0); i < 8; ++i)
  {
    h ^= (x >> (8 * i)) & 0xff;
    h *= 1099511628211ull;
  }
  return h;
}

std::uint64_t hash_value(std::uint64_t h, const value_t &v)
{
  h = fnv(h, v.index());
  switch (v.index())
  {
  case d_int: return fnv(h, static_cast<std::uint64_t>(std::get<D_INT>(v)));
  case d_double: return fnv(h, vv::bits_of(std::get<D_DOUBLE>(v)));
  case d_string:
    for (unsigned char c : std::get<D_STRING>(v)) h = fnv(h, c);
    return h;
  default: return h;
  }
}

std::string show_example(const dataframe::example &e)
{
  std::uint64_t h(14695981039346656037ull);
  h = hash_value(h, e.output);
  h = fnv(h, e.input.size());
  for (const auto &i : e.input) h = hash_value(h, i);
  long long uid(-1);
  if (!e.input.empty() && std::holds_alternative<D_DOUBLE>(e.input.back()))
    uid = static_cast<long long>(std::get<D_DOUBLE>(e.input.back()));
  char buf[128];
  std::snprintf(buf, sizeof(buf), "%lld:%llu:%u:%s", uid,
                static_cast<unsigned long long>(e.difficulty), e.age, vv::hex64(h).c_str());
  return buf;
}

std::string dump(const dataframe &d)
{
  if (d.empty()) return "-";
  std::string out;
  bool first(true);
  for (const auto &e : d)
  {
    if (!first) out += ',';
    first = false;
    out += show_example(e);
  }
  return out;
}

// dataset spec:  <n>  (regression)  |  <n>/<k>/<m|s>  (classification with k classes:
//   m: class = uid % k;  s: classes 0..k-2 are singletons (uid = class), the others are class k-1)
struct dspec { unsigned n = 0, k = 0; char pat = 'm'; };

dspec parse_dspec(const std::string &t)
{
  dspec d;
  std::istringstream ss(t);
  std::string a;
  std::getline(ss, a, '/');
  d.n = static_cast<unsigned>(std::stoul(a));
  if (std::getline(ss, a, '/')) d.k = static_cast<unsigned>(std::stoul(a));
  if (std::getline(ss, a, '/') && !a.empty()) d.pat = a[0];
  return d;
}

std::string dataset_text(const dspec &d)
{
  // y (or class label), x1, x2, uid: payloads are a fixed function of the uid
  std::ostringstream ss;
  for (unsigned i(0); i < d.n; ++i)
  {
    const double x1((i * 37 % 101) / 7.0 - 5.0), x2((i * 53 % 89) / 3.0);
    if (d.k >= 2)
    {
      const unsigned c(d.pat == 's' ? std::min(i, d.k - 1) : i % d.k);
      ss << "c" << c;
    }
    else
      ss << (x1 * 2.0 + x2 - 1.5);
    ss << ',' << x1 << ',' << x2 << ',' << i << '\n';
  }
  return ss.str();
}

std::uint64_t mix(std::uint64_t uid, std::uint64_t seed)
{
  std::uint64_t z(uid * 0x9E3779B97F4A7C15ull + seed * 0xBF58476D1CE4E5B9ull + 1);
  z ^= z >> 31;
  z *= 0x94D049BB133111EBull;
  z ^= z >> 29;
  return z;
}

struct spy : cached_evaluator
{
  unsigned long long clears = 0;
  void clear() override { ++clears; }
};

unsigned uns(const std::string &s) { return static_cast<unsigned>(std::stoul(s)); }

std::string mode_direct(const std::vector<std::string> &w)
{
  const dspec dsp(parse_dspec(w[1]));
  const unsigned n(dsp.n);
  std::istringstream iss(dataset_text(dsp));
  src_problem p(iss);
  if (w[2] != "-") p.env.validation_percentage = uns(w[2]);
  if (w[3] != "-") p.env.dss = uns(w[3]);
  random::seed(uns(w[4]));

  dataframe &tr(p.data(dataset_t::training));
  dataframe &va(p.data(dataset_t::validation));

  spy ct, cv;
  holdout_validation hv(p);
  dss ds(p, ct, cv);

  std::string out("OK I " + dump(tr) + " " + dump(va));
  for (std::size_t k(5); k < w.size(); ++k)
  {
    const std::string &o(w[k]);
    const std::string kind(o.substr(0, 2));
    std::vector<std::string> a;
    {
      std::istringstream ss(o.substr(3));
      std::string t;
      while (std::getline(ss, t, ':')) a.push_back(t);
    }
    const std::size_t d0(g_draws.size());
    std::string ret("-");
    if (kind == "hi") hv.init(uns(a[0]));
    else if (kind == "di") ds.init(uns(a[0]));
    else if (kind == "ds") ret = ds.shake(uns(a[0])) ? "1" : "0";
    else if (kind == "dc") ds.close(uns(a[0]));
    else if (kind == "ev")
    {
      const std::uint64_t seed(std::stoull(a[0])), mod(std::stoull(a[1]));
      if (a[2] == "t" || a[2] == "b")
        for (auto &e : tr)
          e.difficulty += mix(static_cast<std::uint64_t>(std::get<D_DOUBLE>(e.input.back())), seed) % mod;
      if (a[2] == "v" || a[2] == "b")
        for (auto &e : va)
          e.difficulty += mix(static_cast<std::uint64_t>(std::get<D_DOUBLE>(e.input.back())), seed + 1) % mod;
    }
    else if (kind == "sz")
    {
      // difficulty profile whose weights (difficulty + age^3 after the age increment of the next shake,
      // uintmax_t arithmetic) sum to <target> modulo 2^64: two examples weigh 2^63 (+ target), the others 0
      const std::uint64_t target(std::stoull(a[0]));
      std::size_t j(0);
      auto set([&](dataframe::example &e)
               {
                 const unsigned na(e.age + 1);
                 const std::uint64_t cube(static_cast<std::uint64_t>(na) * na * na);
                 const std::uint64_t want(j == 0 ? (1ull << 63) + target : j == 1 ? (1ull << 63) : 0);
                 e.difficulty = want - cube;
                 ++j;
               });
      for (auto &e : va) set(e);
      for (auto &e : tr) set(e);
    }
    else return "BADOP " + o;
    out += " # " + o + " " + ret + " " + std::to_string(ct.clears) + " " + std::to_string(cv.clears) + " "
           + show_draws(d0, g_draws.size()) + " " + dump(tr) + " " + dump(va);
  }
  g_draws.clear();
  return out;
}

// ---- through src_search
struct search_log
{
  dataframe *tr = nullptr, *va = nullptr;
  unsigned long long ct = 0, cv = 0;
  std::string out;
  std::size_t mark = 0;      // draws before this index were already attributed

  // the last `want` boolean draws, or all integer draws, since the mark
  std::string last_bools(std::size_t want)
  {
    std::vector<std::size_t> idx;
    for (std::size_t i(g_draws.size()); i > mark && idx.size() < want; --i)
      if (g_draws[i - 1].k == 'b') idx.push_back(i - 1);
    std::reverse(idx.begin(), idx.end());
    if (idx.empty()) return "-";
    std::string s;
    for (std::size_t j(0); j < idx.size(); ++j)
    {
      if (j) s += ',';
      s += show_draw(g_draws[idx[j]]);
    }
    return s;
  }
};
search_log *g_log = nullptr;

template<class B>
struct spy_eval final : B
{
  char which;
  spy_eval(dataframe &d, char w) : B(d), which(w) {}
  void clear() override
  {
    search_log &L(*g_log);
    (which == 't' ? L.ct : L.cv)++;
    // dss::clear_evaluators clears the training evaluator first: the draws of
    // the partition are the last |T|+|V| boolean draws before that call
    const std::string dr(which == 't' ? L.last_bools(L.tr->size() + L.va->size()) : std::string("-"));
    L.out += std::string(" # C ") + which + " " + std::to_string(L.ct) + " " + std::to_string(L.cv) + " " + dr
             + " " + dump(*L.tr) + " " + dump(*L.va);
    if (which == 'v')
    {
      g_draws.clear();
      L.mark = 0;
    }
  }
};

void log_clear(char which)
{
  search_log &L(*g_log);
  (which == 't' ? L.ct : L.cv)++;
  const std::string dr(which == 't' ? L.last_bools(L.tr->size() + L.va->size()) : std::string("-"));
  L.out += std::string(" # C ") + which + " " + std::to_string(L.ct) + " " + std::to_string(L.cv) + " " + dr
           + " " + dump(*L.tr) + " " + dump(*L.va);
  if (which == 'v')
  {
    g_draws.clear();
    L.mark = 0;
  }
}

unsigned long long g_raw_evals = 0;

struct counting_rmae final : rmae_evaluator<i_mep>
{
  explicit counting_rmae(dataframe &d) : rmae_evaluator<i_mep>(d) {}
  fitness_t operator()(const i_mep &p) override
  {
    ++g_raw_evals;
    return rmae_evaluator<i_mep>::operator()(p);
  }
};

// the real cache proxy; clear() = the real clear() + a log entry
struct spy_proxy final : evaluator_proxy<i_mep, counting_rmae>
{
  spy_proxy(dataframe &d, unsigned bits) : evaluator_proxy<i_mep, counting_rmae>(counting_rmae(d), bits) {}
  void clear() override
  {
    evaluator_proxy<i_mep, counting_rmae>::clear();
    log_clear('t');
  }
};

std::string mode_search(const std::vector<std::string> &w)
{
  const dspec dsp(parse_dspec(w[2]));
  const unsigned n(dsp.n);
  std::istringstream iss(dataset_text(dsp));
  src_problem p(iss);
  p.insert<real::add>();
  p.insert<real::sub>();
  p.insert<real::mul>();
  if (w[3] != "-") p.env.validation_percentage = uns(w[3]);
  if (w[4] != "-") p.env.dss = uns(w[4]);
  random::seed(uns(w[5]));
  const unsigned runs(uns(w[6]));
  p.env.generations = uns(w[7]);
  p.env.individuals = 12;
  p.env.layers = 1;
  p.env.mep.code_length = 12;
  p.env.cache_size = 0;       // no proxy: the spies below are the evaluators dss clears

  search_log L;
  L.tr = &p.data(dataset_t::training);
  L.va = &p.data(dataset_t::validation);
  g_log = &L;
  L.out = "OK I " + dump(*L.tr) + " " + dump(*L.va);

  src_search<i_mep, std_es> s(p);
  // regression evaluators also on classification datasets (labels are read as numbers): the stock
  // classification evaluators index a per-class table sized by dataframe::classes(), which is 0 for the
  // validation dataframe (examples arrive there by push_back only) -- outside this property
  s.template training_evaluator<spy_eval<rmae_evaluator<i_mep>>>(*L.tr, 't');
  s.template validation_evaluator<spy_eval<rmae_evaluator<i_mep>>>(*L.va, 'v');
  const unsigned cache_bits(w.size() > 8 ? uns(w[8]) : 0);
  if (cache_bits)
    s.eva1_ = std::make_unique<spy_proxy>(*L.tr, cache_bits);
  if (w[1] == "h") s.validation_strategy(validator_id::holdout);
  else if (w[1] == "d") s.validation_strategy(validator_id::dss);
  else s.validation_strategy(validator_id::as_is);

  unsigned run(0);
  bool seen(false);
  s.after_generation([&](const population<i_mep> &, const summary<i_mep> &st)
                     {
                       if (st.gen == 0 && seen) ++run;
                       seen = true;
                       // for hold-out the integer draws of init(0) are the first draws of the search
                       std::string dr("-");
                       if (w[1] == "h" && run == 0 && st.gen == 0)
                       {
                         std::size_t k(0);
                         while (k < g_draws.size() && g_draws[k].k == 'i' && g_draws[k].lo == 0
                                && k + L.tr->size() < n)
                           ++k;
                         dr = show_draws(0, k);
                       }
                       std::string fresh;
                       if (cache_bits && !L.tr->empty())
                       {
                         const fitness_t via_proxy((*s.eva1_)(st.best.solution));
                         rmae_evaluator<i_mep> brand_new(*L.tr);
                         const fitness_t direct(brand_new(st.best.solution));
                         const bool same(via_proxy.size() == direct.size() && via_proxy.size()
                                         && vv::bits_of(via_proxy[0]) == vv::bits_of(direct[0]));
                         fresh = same ? " F1" : " F0";
                       }
                       L.out += " # G " + std::to_string(run) + " " + std::to_string(st.gen) + " " + dr + " "
                                + dump(*L.tr) + " " + dump(*L.va) + fresh;
                       if (w[1] != "d") g_draws.clear();
                     });
  g_draws.clear();
  s.run(runs);

  auto show_fac([](const facultative<unsigned> &f) { return f.has_value() ? std::to_string(*f) : std::string("-"); });
  L.out += " # E " + show_fac(p.env.validation_percentage) + " " + show_fac(p.env.dss) + " " + dump(*L.tr) + " "
           + dump(*L.va);
  g_draws.clear();
  g_log = nullptr;
  return L.out;
}

std::string mode_target(const std::vector<std::string> &w)
{
  // the expression of dss::shake_impl, same compiler and flags as the library
  const auto s(static_cast<double>(std::stoull(w[1])));
  const double ratio(std::min(0.6, 0.2 + 100.0 / (s + 100.0)));
  const double target_size(std::max(1.0, s * ratio));
  return "OK " + std::to_string(static_cast<std::ptrdiff_t>(target_size));
}
}  // namespace

int main()
{
  log::reporting_level = log::lOFF;
  random::verif::draw_sink = sink;

  std::vector<std::string> lines;
  for (std::string l; std::getline(std::cin, l);) lines.push_back(l);

  for (const auto &l : lines)
  {
    const auto w(vv::split(l));
    std::string out;
    try
    {
      if (w.empty()) out = "BADLINE";
      else if (w[0] == "D") out = mode_direct(w);
      else if (w[0] == "S") out = mode_search(w);
      else if (w[0] == "T") out = mode_target(w);
      else out = "BADLINE";
    }
    catch (const std::exception &e)
    {
      out = std::string("EXC ") + e.what();
      g_draws.clear();
    }
    std::cout << out << std::endl;
  }
  return 0;
}
