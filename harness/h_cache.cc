// Correspondence harness for the fitness cache (C04): executes operation
// scripts on the REAL vita::cache and on the REAL evaluator_proxy (wrapped
// around a counting evaluator) and prints every observable canonically.
//
// input, one script per line:
//   T <bits> <op>...     table level
//   P <bits> <op>...     proxy level (bits > 6)
// table ops:  I,k0,k1[,w...]  insert      F,k0,k1  find        C  clear()
//             X,k0,k1  clear(key)         S  save, load into a fresh table of
//             the same size, go on with the loaded table
//             W,d  seal_ := 2^32-d (stands for the clear() calls that lead
//                  there; private member access)     N,n  n real clear() calls
// proxy ops:  E,k0,k1[,w...]  evaluate an individual whose signature is
//             (k0,k1); w... is what the wrapped evaluator returns at this
//             moment if it is called          C  proxy.clear()
//             A,k0,k1[,w...]  proxy.fast(individual); w... is what the wrapped
//             evaluator's fast() returns now; output a=<fit>/<fast calls><exact calls>
//             S  proxy.save(stream); a newly built proxy loads the stream
//                (evaluator_proxy::save/load, the path of search::close/init)
//   D <bits> <examples> <gap> <seed> <op>...   the proxy around an evaluator
//             that reads the CURRENT training set of a src_problem driven by
//             the real vita::dss (oracle only, no model), one proxy on the
//             training and one on the validation side: E,k0,k1 evaluate
//             through the training proxy and directly, U,k0,k1 the same on
//             the validation side; N,<run> dss.init(run) (nothing is initialised
//             before the first N: the proxies can be consulted on the full data
//             first); G,<generation> dss.shake(g); Q dss.close(run); R both
//             proxies save their cache and load it back
//             output e=<proxy>/<called>|<direct>, u=<...>, g=<0|1>, r=<ok>
// keys and fitness components are hexadecimal 64-bit patterns.
// output: one line, one token per F / S / E op, then the dump of the table:
//   f=<w,w|->   s=<ok>|<dump>|<dump>   e=<w,w|->/<evaluator called 0|1>
//   D=<seal>;<index>:<k0>:<k1>:<w,w|->;...      (slots of the current seal
//   with a non-empty key, index order)
#include <cstdint>
#include <cstring>
#include <iostream>
#include <memory>
#include <sstream>
#include <string>
#include <vector>

#define private public
#define protected public
#include "kernel/cache.h"
#include "kernel/evaluator_proxy.h"
#undef private
#undef protected
#include "kernel/random.h"
#include "kernel/gp/src/dss.h"

using namespace vita;

static std::string hex64(std::uint64_t x)
{
  char buf[32];
  std::snprintf(buf, sizeof(buf), "%llx", static_cast<unsigned long long>(x));
  return buf;
}

static std::vector<std::string> split(const std::string &l, char sep)
{
  std::vector<std::string> out;
  std::string w;
  std::istringstream ss(l);
  while (std::getline(ss, w, sep))
    if (!w.empty()) out.push_back(w);
  return out;
}

static std::uint64_t unhex(const std::string &s) { return std::stoull(s, nullptr, 16); }

static std::string show_fit(const fitness_t &f)
{
  if (!f.size()) return "-";
  std::string out;
  for (std::size_t i(0); i < f.size(); ++i)
  {
    const double d(f[i]);
    std::uint64_t u;
    std::memcpy(&u, &d, sizeof(u));
    if (i) out += ",";
    out += hex64(u);
  }
  return out;
}

static fitness_t parse_fit(const std::vector<std::string> &p, std::size_t from)
{
  if (p.size() <= from) return fitness_t();
  fitness_t f(with_size(p.size() - from), 0.0);
  for (std::size_t i(from); i < p.size(); ++i)
  {
    const std::uint64_t u(unhex(p[i]));
    double d;
    std::memcpy(&d, &u, sizeof(d));
    f[i - from] = d;
  }
  return f;
}

static std::string dump(const cache &c)
{
  std::string out(std::to_string(c.seal_));
  for (std::size_t i(0); i < c.table_.size(); ++i)
  {
    const auto &s(c.table_[i]);
    if (s.seal == c.seal_ && !s.hash.empty())
      out += ";" + std::to_string(i) + ":" + hex64(s.hash.data[0]) + ":" + hex64(s.hash.data[1])
             + ":" + show_fit(s.fitness);
  }
  return out;
}

struct ind
{
  hash_t sig;
  hash_t signature() const { return sig; }
};

struct counting_evaluator : public evaluator<ind>
{
  fitness_t now;            // what an evaluation returns at this moment
  unsigned calls = 0;
  fitness_t fnow;           // what the approximate evaluation fast() returns at this moment
  unsigned fcalls = 0;
  fitness_t operator()(const ind &) override { ++calls; return now; }
  fitness_t fast(const ind &) override { ++fcalls; return fnow; }
  // its own serialisation: one marker number, checked when read back
  bool save(std::ostream &out) const override { out << 4242 << '\n'; return out.good(); }
  bool load(std::istream &in) override { unsigned m; return (in >> m) && m == 4242; }
};

static void table_script(unsigned bits, const std::vector<std::string> &ops, std::size_t from,
                         std::ostream &out)
{
  auto c(std::make_unique<cache>(bits));
  for (std::size_t n(from); n < ops.size(); ++n)
  {
    const auto p(split(ops[n], ','));
    const char o(p[0][0]);
    if (o == 'I')
      c->insert(hash_t(unhex(p[1]), unhex(p[2])), parse_fit(p, 3));
    else if (o == 'F')
    {
      const fitness_t f(c->find(hash_t(unhex(p[1]), unhex(p[2]))));
      out << "f=" << show_fit(f) << ' ';
    }
    else if (o == 'C')
      c->clear();
    else if (o == 'X')
      c->clear(hash_t(unhex(p[1]), unhex(p[2])));
    else if (o == 'S')
    {
      std::stringstream ss;
      const bool ok_s(c->save(ss));
      auto c2(std::make_unique<cache>(bits));
      const bool ok_l(c2->load(ss));
      out << "s=" << (ok_s && ok_l) << '|' << dump(*c) << '|' << dump(*c2) << ' ';
      c = std::move(c2);
    }
    else if (o == 'W')
      c->seal_ = static_cast<unsigned>(0u - static_cast<unsigned>(std::stoul(p[1])));
    else if (o == 'N')
    {
      const unsigned long long k(std::stoull(p[1]));
      for (unsigned long long i(0); i < k; ++i)
        c->clear();
    }
    else
      out << "BADOP ";
  }
  out << "D=" << dump(*c) << '\n';
}

static void proxy_script(unsigned bits, const std::vector<std::string> &ops, std::size_t from,
                         std::ostream &out)
{
  using proxy_t = evaluator_proxy<ind, counting_evaluator>;
  auto proxy(std::make_unique<proxy_t>(counting_evaluator(), bits));
  for (std::size_t n(from); n < ops.size(); ++n)
  {
    const auto p(split(ops[n], ','));
    const char o(p[0][0]);
    if (o == 'E')
    {
      ind x{hash_t(unhex(p[1]), unhex(p[2]))};
      proxy->eva_.now = parse_fit(p, 3);
      const unsigned before(proxy->eva_.calls);
      const fitness_t f((*proxy)(x));
      out << "e=" << show_fit(f) << '/' << (proxy->eva_.calls - before) << ' ';
    }
    else if (o == 'A')
    {
      // evaluator_proxy::fast: the approximate fitness (never stored in the cache)
      ind x{hash_t(unhex(p[1]), unhex(p[2]))};
      proxy->eva_.fnow = parse_fit(p, 3);
      const unsigned before(proxy->eva_.fcalls), before_exact(proxy->eva_.calls);
      const fitness_t f(proxy->fast(x));
      out << "a=" << show_fit(f) << '/' << (proxy->eva_.fcalls - before) << (proxy->eva_.calls - before_exact) << ' ';
    }
    else if (o == 'C')
      proxy->clear();
    else if (o == 'S')
    {
      // what search::close() / the next session's search::init() do with the
      // training evaluator: evaluator_proxy::save, then evaluator_proxy::load
      // into a newly built proxy
      std::stringstream ss;
      const bool ok_s(proxy->save(ss));
      auto p2(std::make_unique<proxy_t>(counting_evaluator(), bits));
      const bool ok_l(p2->load(ss));
      out << "s=" << (ok_s && ok_l) << '|' << dump(proxy->cache_) << '|' << dump(p2->cache_) << ' ';
      proxy = std::move(p2);
    }
    else
      out << "BADOP ";
  }
  out << "D=" << dump(proxy->cache_) << '\n';
}

// fitness = f(signature, current training set): the sum of the labels of the
// training examples mixed with the signature, and the size of the set
struct data_evaluator : public evaluator<ind>
{
  const dataframe *training = nullptr;
  unsigned calls = 0;
  fitness_t operator()(const ind &x) override
  {
    ++calls;
    double sum(0.0);
    for (const auto &e : *training)
      sum += label_as<double>(e);
    fitness_t f(with_size(2), 0.0);
    f[0] = sum + static_cast<double>(x.sig.data[0] % 1000);
    f[1] = static_cast<double>(training->size());
    return f;
  }
};

static void dss_script(const std::vector<std::string> &w, std::ostream &out)
{
  const unsigned bits(static_cast<unsigned>(std::stoul(w[1])));
  const unsigned examples(static_cast<unsigned>(std::stoul(w[2])));
  const unsigned gap(static_cast<unsigned>(std::stoul(w[3])));
  random::seed(static_cast<unsigned>(std::stoul(w[4])));

  std::ostringstream csv;
  for (unsigned i(0); i < examples; ++i)
    csv << (i * i + 1) << ".5," << i << "\n";
  std::istringstream in(csv.str());
  src_problem prob(in);
  prob.env.dss = gap;

  // one caching proxy on the training side and one on the validation side,
  // each around an evaluator that reads the CURRENT content of its data set
  data_evaluator direct, direct_v;
  direct.training = &prob.data(dataset_t::training);
  direct_v.training = &prob.data(dataset_t::validation);
  evaluator_proxy<ind, data_evaluator> proxy_t(direct, bits);
  evaluator_proxy<ind, data_evaluator> proxy_v(direct_v, bits);
  dss d(prob, proxy_t, proxy_v);
  bool initialised(false);     // shake / close before the first init are skipped (BADOP)

  for (std::size_t n(5); n < w.size(); ++n)
  {
    const auto p(split(w[n], ','));
    const char o(p[0][0]);
    if (o == 'E')
    {
      ind x{hash_t(unhex(p[1]), unhex(p[2]))};
      const unsigned before(proxy_t.eva_.calls);
      const fitness_t f(proxy_t(x));
      out << "e=" << show_fit(f) << '/' << (proxy_t.eva_.calls - before) << '|'
          << show_fit(direct(x)) << ' ';
    }
    else if (o == 'U')
    {
      ind x{hash_t(unhex(p[1]), unhex(p[2]))};
      const unsigned before(proxy_v.eva_.calls);
      const fitness_t f(proxy_v(x));
      out << "u=" << show_fit(f) << '/' << (proxy_v.eva_.calls - before) << '|'
          << show_fit(direct_v(x)) << ' ';
    }
    else if (o == 'N')
    {
      d.init(static_cast<unsigned>(std::stoul(p[1])));     // start of run p[1]
      initialised = true;
    }
    else if (o == 'R')
    {
      // both caches restored from a saved stream (evaluator_proxy::save / load,
      // what search::load does before the first run)
      std::stringstream st, sv;
      const bool ok(proxy_t.save(st) && proxy_v.save(sv) && proxy_t.load(st) && proxy_v.load(sv));
      out << "r=" << ok << ' ';
    }
    else if (o == 'G' && initialised)
      out << "g=" << d.shake(static_cast<unsigned>(std::stoul(p[1]))) << ' ';
    else if (o == 'Q' && initialised)
      d.close(p.size() > 1 ? static_cast<unsigned>(std::stoul(p[1])) : 0);
    else
      out << "BADOP ";
  }
  out << "D=" << dump(proxy_t.cache_) << '\n';
}

int main()
{
  log::reporting_level = log::lOFF;
  std::string line;
  while (std::getline(std::cin, line))
  {
    const auto w(split(line, ' '));
    std::ostringstream out;
    try
    {
      if (w.size() < 2)
        out << "BADLINE\n";
      else if (w[0] == "T")
        table_script(static_cast<unsigned>(std::stoul(w[1])), w, 2, out);
      else if (w[0] == "P")
        proxy_script(static_cast<unsigned>(std::stoul(w[1])), w, 2, out);
      else if (w[0] == "D" && w.size() >= 5)
        dss_script(w, out);
      else
        out << "BADLINE\n";
    }
    catch (const std::exception &e)
    {
      out << "EXC " << e.what() << '\n';
    }
    std::cout << out.str() << std::flush;
  }
  return 0;
}
