// Correspondence harness for property C08 (lambda_f.h / lambda_f.tcc /
// detail/lambda_f.h / discretization.h / distribution.tcc / model_metric.cc /
// the classification evaluators).  Runs the REAL model objects under
// ASan/UBSan.
//
// One case per input line, one output line per case.
//
//   T <scheme> <comp> <classes> <xslot> <nmem> <prog>...
//     <ntrain> {<label> <in0> <in1> <in2>}...  <nquery> {<in0> <in1> <in2>}...
//   V ... (as T) <holdout|dss> <perc> <seed>: evaluator / lambdify on the validation frame filled by the real strategy
//   D ... (as T): damaged copies of the saved model text are fed to serialize::lambda::load;
//        output  R d <variants> ok <n> null <n> df <n> other <n> <first other exception|->
//   H <scheme> <comp> <classes> <xslot> <npool> <prog>...
//     <ntrain> {...}  <nquery> {...}  <nops> <op>...
//
//   scheme: reg dyn gauss bin          comp: ind team(reg) wta mv
//   prog:   x0 x1 x2 (the program is the variable: output = that input)
//           r<seed>  (random individual drawn by vita after random::seed(seed))
//   label:  i:<class>  or  d:<hex64>   inputs: v | d:<hex64>
//   op:     N:<p,p,..> C:<s> M:<s> A:<d>:<s> D:<s> P:<s> E:<k>
//
// output:  O <per program: outputs on train rows then query rows>  R <results>
//   T: q <pred>...  t <pred>...  acc <hex>  fit <hex|->  l <pred>... (lambdify'ed model on the queries)
//      rt <pred>... (the model after serialize::save + serialize::lambda::load, on the queries)
//      ser <hex of the saved text>  inds <hex of each member individual's own save text>
//      [var <hex>... per-class variance, gauss/ind only]
//      [mat <rows> <cols> <counts>..  cls <slot classes>..  slots <slot of each query, then of each train row>, dyn/ind only]
//   H: after each op  "| <slot>=<pred>,<pred>.. <slot>=..."
//   pred: regression a value token; classification <label>/<hex64 sureness>
#include <algorithm>
#include <any>
#include <array>
#include <atomic>
#include <bitset>
#include <chrono>
#include <cmath>
#include <complex>
#include <condition_variable>
#include <cstdint>
#include <cstring>
#include <deque>
#include <filesystem>
#include <fstream>
#include <functional>
#include <future>
#include <iomanip>
#include <iostream>
#include <iterator>
#include <limits>
#include <list>
#include <map>
#include <memory>
#include <mutex>
#include <numeric>
#include <optional>
#include <queue>
#include <random>
#include <set>
#include <shared_mutex>
#include <sstream>
#include <stack>
#include <string>
#include <thread>
#include <tuple>
#include <type_traits>
#include <unordered_map>
#include <unordered_set>
#include <utility>
#include <variant>
#include <vector>

#define private public
#define protected public
#include "common.h"
#undef private
#undef protected

using namespace vita;

using IND = i_mep;
using TEAM = team<i_mep>;

static src_problem *PR = nullptr;

struct rowdata
{
  std::vector<value_t> in;
  value_t label;
};

struct reader
{
  std::vector<std::string> t;
  std::size_t p = 0;
  const std::string &next()
  {
    if (p >= t.size()) throw std::runtime_error("short line");
    return t[p++];
  }
  long num() { return std::stol(next()); }
};

static IND make_prog(const std::string &spec)
{
  if (spec[0] == 'x')
  {
    symbol *s(PR->sset.decode("X" + std::to_string(std::stoi(spec.substr(1)) + 1)));
    if (!s) throw std::runtime_error("no variable");
    return IND(std::vector<gene>{gene(std::pair<symbol *, std::vector<index_t>>{s, {}})});
  }
  random::seed(static_cast<unsigned>(std::stoul(spec.substr(1))));
  return IND(*PR);
}

static std::vector<rowdata> read_rows(reader &r, bool with_label)
{
  const long n(r.num());
  std::vector<rowdata> out;
  for (long i(0); i < n; ++i)
  {
    rowdata rd;
    if (with_label) rd.label = vv::parse_value(r.next());
    for (int k(0); k < 3; ++k) rd.in.push_back(vv::parse_value(r.next()));
    out.push_back(rd);
  }
  return out;
}

static void fill(dataframe &d, const std::vector<rowdata> &rows, long classes)
{
  d.clear();
  d.classes_map_.clear();
  for (long c(0); c < classes; ++c)
    d.classes_map_["c" + std::to_string(c)] = static_cast<class_t>(c);
  for (const auto &r : rows)
  {
    dataframe::example e;
    e.input = r.in;
    e.output = r.label;
    d.push_back(e);
  }
}

static dataframe::example mk_example(const rowdata &r)
{
  dataframe::example e;
  e.input = r.in;
  e.output = r.label;
  return e;
}

static std::string show_tag(const classification_result &c)
{
  double s(c.sureness);
  std::string h(s != s ? "7ff8000000000000" : vv::hex64(vv::bits_of(s)));
  return std::to_string(c.label) + "/" + h;
}

static std::string showd(double d)
{
  return d != d ? "7ff8000000000000" : vv::hex64(vv::bits_of(d));
}

template<class M> std::string predict(const M &m, const dataframe::example &e)
{
  if constexpr (std::is_base_of_v<core_class_lambda_f, M>)
    return show_tag(m.tag(e));
  else
    return vv::show(m(e));
}

static std::string predict_dyn(const basic_lambda_f *l, const dataframe::example &e, bool cls)
{
  const auto *s(dynamic_cast<const basic_src_lambda_f *>(l));
  if (!s) return "?";
  if (cls) return show_tag(s->tag(e));
  return vv::show((*s)(e));
}

template<class P> P make_program(const std::vector<std::string> &specs);
template<> IND make_program<IND>(const std::vector<std::string> &specs)
{
  return make_prog(specs.at(0));
}
template<> TEAM make_program<TEAM>(const std::vector<std::string> &specs)
{
  std::vector<IND> v;
  for (const auto &s : specs) v.push_back(make_prog(s));
  return TEAM(v);
}

struct casedata
{
  std::string scheme, comp;
  long classes, xslot;
  std::vector<std::string> progs;
  std::vector<rowdata> train, query;
};

static std::string oracle_part(const casedata &c)
{
  std::string o("O");
  for (const auto &sp : c.progs)
  {
    const IND ind(make_prog(sp));
    for (const auto &r : c.train) o += " " + vv::show(run(ind, r.in));
    for (const auto &r : c.query) o += " " + vv::show(run(ind, r.in));
  }
  return o;
}

// ---------------------------------------------------------------- T cases
template<class M, class P, class MK, class EV>
std::string t_case(const casedata &c, MK mk, EV *ev)
{
  constexpr bool cls = std::is_base_of_v<core_class_lambda_f, M>;
  dataframe &d(PR->data());
  fill(d, c.train, c.classes);

  std::unique_ptr<P> prg(new P(make_program<P>(c.progs)));
  std::unique_ptr<M> m(new M(mk(*prg, d)));
  std::unique_ptr<basic_lambda_f> lam;
  std::string fit("-");
  if constexpr (!std::is_same_v<EV, void>)
  {
    if (ev)
    {
      if constexpr (cls)      // regression fitness is property C05's
      {
        const fitness_t f((*ev)(*prg));
        fit = showd(f[0]);
      }
      lam = ev->lambdify(*prg);
    }
  }
  prg.reset();     // the original is gone

  std::string out("R q");
  for (const auto &r : c.query) out += " " + predict(*m, mk_example(r));
  out += " t";
  for (const auto &e : d) out += " " + predict(*m, e);
  out += " acc ";
  out += d.empty() ? std::string("-") : showd(m->measure(accuracy_metric(), d));
  out += " fit " + fit;
  out += " l";
  if (lam)
    for (const auto &r : c.query) out += " " + predict_dyn(lam.get(), mk_example(r), cls);
  {
    // serialize::save / serialize::lambda::load round trip of this model
    std::stringstream ss;
    const bool saved(serialize::save(ss, *m));
    const std::string text(ss.str());
    std::unique_ptr<basic_src_lambda_f> l2;
    std::string err;
    try { l2 = serialize::lambda::load<P>(ss, PR->sset); }
    catch (const std::exception &e) { err = e.what(); }
    out += " rt";
    if (!saved || !l2)
      out += " FAIL";
    else
      for (const auto &r : c.query) out += " " + predict_dyn(l2.get(), mk_example(r), cls);
    auto hexs = [](const std::string &t)
    {
      std::string h;
      for (unsigned char ch : t) { char b[4]; std::snprintf(b, sizeof(b), "%02x", ch); h += b; }
      return h.empty() ? std::string("-") : h;
    };
    out += " ser " + hexs(text) + " inds";
    for (const auto &sp : c.progs)
    {
      std::stringstream si;
      make_prog(sp).save(si);
      out += " " + hexs(si.str());
    }
  }
  if constexpr (std::is_same_v<M, dyn_slot_lambda_f<IND>>)
  {
    // internal tables: the python oracle recomputes the slot -> class rule from them
    out += " mat " + std::to_string(m->slot_matrix_.rows()) + " " + std::to_string(m->slot_matrix_.cols());
    for (std::size_t i(0); i < m->slot_matrix_.rows(); ++i)
      for (std::size_t j(0); j < m->slot_matrix_.cols(); ++j)
        out += " " + std::to_string(m->slot_matrix_(i, j));
    out += " cls";
    for (auto cl : m->slot_class_) out += " " + std::to_string(cl);
    out += " slots";
    for (const auto &r : c.query) out += " " + std::to_string(m->slot(mk_example(r)));
    for (const auto &e : d) out += " " + std::to_string(m->slot(e));
  }
  if constexpr (std::is_same_v<M, gaussian_lambda_f<IND>>)
  {
    // per-class statistics the confidences are computed from
    out += " var";
    for (const auto &g : m->gauss_dist_) out += " " + showd(g.variance());
  }
  return out;
}

// ---------------------------------------------------------------- D cases
// damaged model streams: the saved text cut at every token boundary (-1, 0,
// +1 characters) and with single tokens substituted / removed, fed to
// serialize::lambda::load.  Documented outcomes: a model, nullptr (no / unknown
// id) or exception::data_format.
template<class M, class P, class MK>
std::string d_case(const casedata &c, MK mk)
{
  constexpr bool cls = std::is_base_of_v<core_class_lambda_f, M>;
  dataframe &d(PR->data());
  fill(d, c.train, c.classes);

  std::unique_ptr<P> prg(new P(make_program<P>(c.progs)));
  std::unique_ptr<M> m(new M(mk(*prg, d)));
  prg.reset();
  std::stringstream ss;
  serialize::save(ss, *m);
  const std::string text(ss.str());

  // token boundaries
  std::vector<std::pair<std::size_t, std::size_t>> toks;   // [begin, end)
  for (std::size_t i(0); i < text.size();)
  {
    while (i < text.size() && std::isspace(static_cast<unsigned char>(text[i]))) ++i;
    const std::size_t b(i);
    while (i < text.size() && !std::isspace(static_cast<unsigned char>(text[i]))) ++i;
    if (i > b) toks.push_back({b, i});
  }

  // the text of the member individuals is property C11/C12's (i_mep::load):
  // tokens inside it are only cut, not substituted, and a stream damaged
  // there is not run after a successful load
  std::vector<std::pair<std::size_t, std::size_t>> spans;
  {
    std::size_t pos(0);
    for (const auto &sp : c.progs)
    {
      std::stringstream si;
      make_prog(sp).save(si);
      const auto at(text.find(si.str(), pos));
      if (at == std::string::npos) break;
      spans.push_back({at, at + si.str().size()});
      pos = at + si.str().size();
    }
  }
  auto inside = [&](std::size_t k)
  {
    for (const auto &sp : spans)
      if (toks[k].first >= sp.first && toks[k].second <= sp.second) return true;
    return false;
  };
  std::vector<std::size_t> outer, inner;
  for (std::size_t k(0); k < toks.size(); ++k) (inside(k) ? inner : outer).push_back(k);
  auto pick = [&](std::size_t j) { return outer.size() <= 40 || j < 25 || j + 15 >= outer.size(); };

  std::vector<std::string> variants;
  std::vector<std::string> what;
  std::vector<bool> runnable;
  auto add_cuts = [&](std::size_t k, bool run)
  {
    for (int dlt(-1); dlt <= 1; ++dlt)
    {
      const long cut(static_cast<long>(toks[k].second) + dlt);
      if (cut < 0 || cut > static_cast<long>(text.size())) continue;
      variants.push_back(text.substr(0, static_cast<std::size_t>(cut)));
      what.push_back("cut@" + std::to_string(k) + (dlt < 0 ? "-1" : dlt > 0 ? "+1" : ""));
      runnable.push_back(run);
    }
  };
  for (std::size_t j(0); j < outer.size(); ++j)
    if (pick(j)) add_cuts(outer[j], true);
  for (std::size_t j(0); j < inner.size(); j += std::max<std::size_t>(1, inner.size() / 4))
    add_cuts(inner[j], false);
  const char *subs[] = {"0", "-1", "99999999999999999999", "4294967296", "x", ""};
  for (std::size_t j(0); j < outer.size(); ++j)
    if (pick(j))
      for (const char *sb : subs)
      {
        const std::size_t k(outer[j]);
        variants.push_back(text.substr(0, toks[k].first) + sb + text.substr(toks[k].second));
        what.push_back("sub@" + std::to_string(k) + "=" + (sb[0] ? sb : "<removed>"));
        runnable.push_back(true);
      }

  std::size_t n_ok(0), n_null(0), n_df(0), n_other(0);
  std::string first_other;
  // at most `budget` variants per case (environment C08_D_BUDGET, default 60), strided;
  // the offset depends on the text so that different cases cover different variants
  const char *be(std::getenv("C08_D_BUDGET"));
  const std::size_t budget(be ? std::max(1l, std::atol(be)) : 60);
  const std::size_t stride((variants.size() + budget - 1) / budget);
  std::size_t off(0);
  for (unsigned char ch : text) off += ch;
  for (std::size_t v(stride ? off % stride : 0); v < variants.size(); v += std::max<std::size_t>(1, stride))
  {
    std::istringstream in(variants[v]);
    try
    {
      std::cerr << "D-LOAD " << what[v] << std::endl;
      auto l(serialize::lambda::load<P>(in, PR->sset));
      if (!l) { ++n_null; continue; }
      ++n_ok;
      // a stream that still loads: the object must be usable as far as it says it is valid
      // run it only when the member individuals came through intact (a shifted
      // stream can make i_mep::load accept garbage: that is property C12's)
      bool intact(runnable[v]);
      if (intact)
      {
        std::stringstream s2;
        serialize::save(s2, l.get());
        const std::string t2(s2.str());
        std::size_t pos(0);
        for (const auto &sp : spans)
        {
          const std::string it(text.substr(sp.first, sp.second - sp.first));
          const auto at(t2.find(it, pos));
          if (at == std::string::npos) { intact = false; break; }
          pos = at + it.size();
        }
      }
      if (intact && l->is_valid())
      {
        std::cerr << "D-RUN " << what[v] << std::endl;    // names the variant in a sanitizer report
        for (const auto &r : c.query) (void)predict_dyn(l.get(), mk_example(r), cls);
      }
    }
    catch (const exception::data_format &) { ++n_df; }
    catch (const std::exception &e)
    {
      ++n_other;
      if (first_other.empty()) first_other = what[v] + ":" + typeid(e).name();
    }
  }
  return "R d " + std::to_string(variants.size()) + " ok " + std::to_string(n_ok) + " null " + std::to_string(n_null)
         + " df " + std::to_string(n_df) + " other " + std::to_string(n_other) + " " + (first_other.empty() ? "-" : first_other);
}

// ---------------------------------------------------------------- V cases
// the training frame is split by the REAL validation strategy (holdout / dss
// move examples to the validation frame with push_back); the classification
// evaluator and lambdify are then used on the validation frame, as
// search::calculate_metrics does with eva2_.
//   extra tokens after the queries: <holdout|dss> <percentage> <seed>
//   output: R vc <classes() of the validation frame> vs <its size> ts <training size left>
//           vrows <index of the original training row of each validation example, in order>
//           fit <hex> l <pred on each query of the model lambdify'ed from the validation frame>
struct nocache : cached_evaluator
{
};

template<class M, class P, class MK, class EV>
std::string v_case(const casedata &c, MK, EV *, reader &rd)
{
  constexpr bool cls = std::is_base_of_v<core_class_lambda_f, M>;
  const std::string strategy(rd.next());
  const long perc(rd.num());
  const unsigned seed(static_cast<unsigned>(rd.num()));

  dataframe &tr(PR->data(dataset_t::training));
  dataframe &va(PR->data(dataset_t::validation));
  fill(tr, c.train, c.classes);
  // a fresh validation frame, as src_problem creates it
  const auto saved_columns(tr.columns);
  va = dataframe();

  std::unique_ptr<P> prg(new P(make_program<P>(c.progs)));
  random::seed(seed);
  nocache ct, cv;
  if (strategy == "holdout")
  {
    PR->env.validation_percentage = static_cast<unsigned>(perc);
    holdout_validation hv(*PR);
    hv.init(0);
  }
  else
  {
    PR->env.dss = 1;
    dss ds(*PR, ct, cv);
    ds.init(0);
  }

  std::string out("R vc " + std::to_string(va.classes()) + " vs " + std::to_string(va.size()) + " ts "
                  + std::to_string(tr.size()) + " vrows");
  std::vector<bool> used(c.train.size(), false);
  auto key = [](const value_t &label, const std::vector<value_t> &in)
  {
    std::string k(vv::show(label));
    for (const auto &v : in) k += " " + vv::show(v);
    return k;
  };
  for (const auto &e : va)
  {
    long found(-1);
    for (std::size_t i(0); i < c.train.size(); ++i)
      if (!used[i] && key(c.train[i].label, c.train[i].in) == key(e.output, e.input))
      {
        found = static_cast<long>(i);
        used[i] = true;
        break;
      }
    out += " " + std::to_string(found);
  }

  std::string fit("-");
  std::unique_ptr<basic_lambda_f> lam;
  if constexpr (!std::is_same_v<EV, void>)
  {
    if (!va.empty())
    {
      // the evaluator over the VALIDATION frame (eva2_)
      std::unique_ptr<EV> ev2;
      if constexpr (std::is_constructible_v<EV, dataframe &, unsigned>)
        ev2.reset(new EV(va, static_cast<unsigned>(c.xslot)));
      else
        ev2.reset(new EV(va));
      const fitness_t f((*ev2)(*prg));
      fit = showd(f[0]);
      lam = ev2->lambdify(*prg);
    }
  }
  prg.reset();
  out += " fit " + fit + " l";
  if (lam)
    for (const auto &r : c.query) out += " " + predict_dyn(lam.get(), mk_example(r), cls);

  // leave the problem as the other cases expect it
  va = dataframe();
  tr.columns = saved_columns;
  PR->env.validation_percentage = 20;
  return out;
}

// ---------------------------------------------------------------- H cases
template<class M, class P, class MK>
std::string h_case(const casedata &c, MK mk, reader &rd)
{
  dataframe &d(PR->data());
  fill(d, c.train, c.classes);

  std::vector<std::unique_ptr<M>> heap_slot;   // slot id -> heap object (or null)
  std::vector<int> where;            // slot id -> -2 dead, -1 heap, >= 0 index in vec
  std::vector<M> vec;
  std::vector<int> vec_slots;

  auto get = [&](long s) -> M &
  {
    if (s < 0 || s >= static_cast<long>(where.size()) || where[s] == -2)
      throw std::runtime_error("history uses a dead slot");
    return where[s] == -1 ? *heap_slot[s] : vec[where[s]];
  };
  auto add_heap = [&](M *m) { heap_slot.emplace_back(m); where.push_back(-1); };

  std::string out("R");
  const long nops(rd.num());
  for (long k(0); k < nops; ++k)
  {
    const std::string op(rd.next());
    std::vector<std::string> f;
    {
      std::stringstream ss(op);
      std::string w;
      while (std::getline(ss, w, ':')) f.push_back(w);
    }
    switch (op[0])
    {
    case 'N':
    {
      std::vector<std::string> specs;
      std::stringstream ss(f.at(1));
      std::string w;
      while (std::getline(ss, w, ',')) specs.push_back(c.progs.at(std::stoul(w)));
      std::unique_ptr<P> prg(new P(make_program<P>(specs)));
      add_heap(new M(mk(*prg, d)));
      prg.reset();     // the original is gone
      break;
    }
    case 'C': add_heap(new M(get(std::stol(f.at(1))))); break;
    case 'M':
    {
      // move construction; the moved-from source (a heap slot) is deleted
      const long s(std::stol(f.at(1)));
      if (where.at(s) != -1) throw std::runtime_error("M on a non-heap slot");
      add_heap(new M(std::move(*heap_slot[s])));
      heap_slot[s].reset();
      where[s] = -2;
      break;
    }
    case 'A':
    {
      M &dst(get(std::stol(f.at(1))));
      const M &src(get(std::stol(f.at(2))));
      dst = src;
      break;
    }
    case 'D':
    {
      const long s(std::stol(f.at(1)));
      if (where.at(s) != -1) throw std::runtime_error("D on a non-heap slot");
      heap_slot[s].reset();
      where[s] = -2;
      break;
    }
    case 'P':
    {
      vec.reserve(vec.capacity() + 1);
      vec.push_back(get(std::stol(f.at(1))));
      heap_slot.emplace_back(nullptr);
      where.push_back(static_cast<int>(vec.size()) - 1);
      vec_slots.push_back(static_cast<int>(where.size()) - 1);
      break;
    }
    case 'E':
    {
      const long i(std::stol(f.at(1)));
      if (i < 0 || i >= static_cast<long>(vec.size())) throw std::runtime_error("E out of range");
      vec.erase(vec.begin() + i);
      where[vec_slots.back()] = -2;
      vec_slots.pop_back();
      break;
    }
    default: throw std::runtime_error("bad op " + op);
    }

    out += " |";
    for (std::size_t s(0); s < where.size(); ++s)
      if (where[s] != -2)
      {
        out += " " + std::to_string(s) + "=";
        bool first(true);
        for (const auto &r : c.query)
        {
          out += (first ? "" : ",") + predict(get(static_cast<long>(s)), mk_example(r));
          first = false;
        }
      }
  }

  return out;
}

// ---------------------------------------------------------------- dispatch
using MV_DYN = team_class_lambda_f<IND, true, true, basic_dyn_slot_lambda_f, team_composition::mv>;
using MV_GAUSS = team_class_lambda_f<IND, true, true, basic_gaussian_lambda_f, team_composition::mv>;
using MV_BIN = team_class_lambda_f<IND, true, true, basic_binary_lambda_f, team_composition::mv>;

template<class P> struct mk_reg
{
  reg_lambda_f<P> operator()(const P &p, dataframe &) const { return reg_lambda_f<P>(p); }
};
template<class M, class P> struct mk_xs
{
  unsigned xs;
  M operator()(const P &p, dataframe &d) const { return M(p, d, xs); }
};
template<class M, class P> struct mk_d
{
  M operator()(const P &p, dataframe &d) const { return M(p, d); }
};

static std::string do_line(const std::string &line)
{
  reader rd;
  rd.t = vv::split(line);
  const std::string kind(rd.next());
  casedata c;
  c.scheme = rd.next();
  c.comp = rd.next();
  c.classes = rd.num();
  c.xslot = rd.num();
  const long np(rd.num());
  for (long i(0); i < np; ++i) c.progs.push_back(rd.next());
  c.train = read_rows(rd, true);
  c.query = read_rows(rd, false);

  const std::string o(oracle_part(c));
  dataframe &d(PR->data());
  const unsigned xs(static_cast<unsigned>(c.xslot));
  const bool T(kind == "T");
  const std::string key(c.scheme + "/" + c.comp);
  std::string r;

#define CASE(K, M, P, MKEXPR, EVTYPE, EVEXPR)                                   \
  if (key == K)                                                                 \
  {                                                                             \
    auto mk(MKEXPR);                                                            \
    if (T)                                                                      \
    {                                                                           \
      fill(d, c.train, c.classes);                                              \
      EVEXPR;                                                                   \
      r = t_case<M, P>(c, mk, evp);                                             \
    }                                                                           \
    else if (kind == "D")                                                       \
      r = d_case<M, P>(c, mk);                                                  \
    else if (kind == "V")                                                       \
    {                                                                           \
      EVEXPR;                                                                   \
      r = v_case<M, P>(c, mk, evp, rd);                                         \
    }                                                                           \
    else                                                                        \
      r = h_case<M, P>(c, mk, rd);                                              \
  }

  {
    using EVT = mae_evaluator<IND>;
    CASE("reg/ind", reg_lambda_f<IND>, IND, (mk_reg<IND>{}), EVT,
         EVT ev(d); EVT *evp(d.empty() ? nullptr : &ev))
  }
  {
    using EVT = mae_evaluator<TEAM>;
    CASE("reg/team", reg_lambda_f<TEAM>, TEAM, (mk_reg<TEAM>{}), EVT,
         EVT ev(d); EVT *evp(d.empty() ? nullptr : &ev))
  }
  {
    using EVT = dyn_slot_evaluator<IND>;
    CASE("dyn/ind", dyn_slot_lambda_f<IND>, IND, (mk_xs<dyn_slot_lambda_f<IND>, IND>{xs}), EVT,
         EVT ev(d, xs); EVT *evp(&ev))
  }
  {
    using EVT = dyn_slot_evaluator<TEAM>;
    CASE("dyn/wta", dyn_slot_lambda_f<TEAM>, TEAM, (mk_xs<dyn_slot_lambda_f<TEAM>, TEAM>{xs}), EVT,
         EVT ev(d, xs); EVT *evp(&ev))
  }
  {
    using EVT = void;
    CASE("dyn/mv", MV_DYN, TEAM, (mk_xs<MV_DYN, TEAM>{xs}), EVT, EVT *evp(nullptr))
  }
  {
    using EVT = gaussian_evaluator<IND>;
    CASE("gauss/ind", gaussian_lambda_f<IND>, IND, (mk_d<gaussian_lambda_f<IND>, IND>{}), EVT,
         EVT ev(d); EVT *evp(&ev))
  }
  {
    using EVT = gaussian_evaluator<TEAM>;
    CASE("gauss/wta", gaussian_lambda_f<TEAM>, TEAM, (mk_d<gaussian_lambda_f<TEAM>, TEAM>{}), EVT,
         EVT ev(d); EVT *evp(&ev))
  }
  {
    using EVT = void;
    CASE("gauss/mv", MV_GAUSS, TEAM, (mk_d<MV_GAUSS, TEAM>{}), EVT, EVT *evp(nullptr))
  }
  {
    using EVT = binary_evaluator<IND>;
    CASE("bin/ind", binary_lambda_f<IND>, IND, (mk_d<binary_lambda_f<IND>, IND>{}), EVT,
         EVT ev(d); EVT *evp(&ev))
  }
  {
    using EVT = binary_evaluator<TEAM>;
    CASE("bin/wta", binary_lambda_f<TEAM>, TEAM, (mk_d<binary_lambda_f<TEAM>, TEAM>{}), EVT,
         EVT ev(d); EVT *evp(&ev))
  }
  {
    using EVT = void;
    CASE("bin/mv", MV_BIN, TEAM, (mk_d<MV_BIN, TEAM>{}), EVT, EVT *evp(nullptr))
  }
#undef CASE
  if (r.empty()) return "BADCASE " + key;
  return o + " " + r;
}

int main()
{
  log::reporting_level = log::lOFF;
  src_problem pr;
  {
    std::istringstream csv("1.0,1.0,2.0,3.0\n2.0,4.0,5.0,6.0\n3.0,7.0,8.0,9.5\n");
    pr.data().read_csv(csv);
  }
  pr.env.init();
  pr.env.mep.code_length = 12;
  pr.setup_symbols();
  PR = &pr;

  std::string line;
  while (std::getline(std::cin, line))
  {
    if (line.empty()) { std::cout << "\n"; continue; }
    try
    {
      std::cout << do_line(line) << std::endl;
    }
    catch (const std::exception &e)
    {
      std::cout << "EXC " << e.what() << std::endl;
    }
  }
  return 0;
}
