// Correspondence harness for the vector individuals (C17): runs the REAL
// i_ga / i_de constructors, i_ga::mutation, crossover(i_ga,i_ga) and
// i_de::crossover with the H1 draw sink installed, and prints the result
// followed by the draws that were made (protocol: ocaml/ga_driver.ml).
#include <algorithm>
#include <cstdint>
#include <cstring>
#include <iostream>
#include <limits>
#include <map>
#include <memory>
#include <sstream>
#include <string>
#include <vector>
#include <set>
#include <functional>
#include <fstream>
#include <filesystem>
#include <variant>
#include <any>
#include <random>
#include <chrono>
#include <thread>
#include <shared_mutex>
#include <mutex>
#include <iomanip>
#include <numeric>
#include <cmath>
#include <list>
#include <queue>
#include <stack>
#include <array>
#include <atomic>
#include <future>
#include <optional>
#include <regex>
#include <type_traits>
#include <utility>
#include <cassert>
#include <climits>
#include <cstdlib>
#include <iterator>
#include <locale>
#include <stdexcept>
#include <unordered_map>
#include <unordered_set>
#include <bitset>
#include <charconv>
#include <string_view>
#include <typeinfo>
#include <typeindex>
#include <tuple>
#include <initializer_list>
#include <exception>
#include <new>
#include <condition_variable>
#include <csignal>
#include <cstdio>
#include <ctime>
#include <cctype>
#include <cfloat>
#include <cinttypes>
#include <cstddef>
#include <deque>
#include <forward_list>
#include <ios>
#include <iosfwd>
#include <istream>
#include <ostream>
#include <ratio>
#include <scoped_allocator>
#include <streambuf>
#include <system_error>
#include <valarray>
#include <complex>
#include <codecvt>
#include <fcntl.h>
#include <unistd.h>

#define private public
#define protected public
#include "kernel/vita.h"
#undef private
#undef protected

using namespace vita;

namespace
{
std::string hex64(std::uint64_t x)
{
  char buf[32];
  std::snprintf(buf, sizeof(buf), "%016llx", static_cast<unsigned long long>(x));
  return buf;
}
std::string hexd(double d)
{
  if (d != d) return "7ff8000000000000";
  std::uint64_t u;
  std::memcpy(&u, &d, sizeof(u));
  return hex64(u);
}
double dbl(const std::string &s)
{
  const std::uint64_t u(std::stoull(s, nullptr, 16));
  double d;
  std::memcpy(&d, &u, sizeof(d));
  return d;
}
std::vector<std::string> split(const std::string &l)
{
  std::istringstream ss(l);
  std::vector<std::string> out;
  std::string w;
  while (ss >> w) out.push_back(w);
  return out;
}

std::string draws;
void sink(char k, long double lo, long double hi, long double v)
{
  std::ostringstream ss;
  switch (k)
  {
  case 'i':
    ss << " i:" << static_cast<long long>(lo) << ":" << static_cast<long long>(hi) << ":" << static_cast<long long>(v);
    break;
  case 'r':
    ss << " r:" << hexd(static_cast<double>(lo)) << ":" << hexd(static_cast<double>(hi)) << ":" << hexd(static_cast<double>(v));
    break;
  case 'b':
    ss << " b:" << hexd(static_cast<double>(hi)) << ":" << (v != 0 ? 1 : 0);
    break;
  default:
    ss << " " << k << ":?";
  }
  draws += ss.str();
}
struct logging
{
  logging() { draws.clear(); random::verif::draw_sink = sink; }
  ~logging() { random::verif::draw_sink = nullptr; }
};

i_ga make_ga(const std::vector<int> &g, unsigned age)
{
  i_ga x;
  x.genome_ = g;
  x.age_ = age;
  return x;
}
i_de make_de(const std::vector<double> &g, unsigned age)
{
  i_de x;
  x.genome_ = g;
  x.age_ = age;
  return x;
}
std::string show(const i_ga &x)
{
  std::string s("g");
  for (auto v : x) s += " " + std::to_string(v);
  return s + " age " + std::to_string(x.age());
}
std::string show(const i_de &x)
{
  std::string s("g");
  for (auto v : x) s += " " + hexd(v);
  return s + " age " + std::to_string(x.age());
}
}  // namespace

int main()
{
  log::reporting_level = log::lOFF;
  // all cases are read before the first one runs: the evolution loop of `garun` polls the keyboard through
  // stdio (term::user_stop -> getchar), which would otherwise eat the beginning of the following case
  std::vector<std::string> all_lines;
  for (std::string l; std::getline(std::cin, l);)
    all_lines.push_back(l);
  for (const std::string &line : all_lines)
  {
    const auto w(split(line));
    if (w.size() < 3) { std::cout << "BADLINE" << std::endl; continue; }
    const std::string &c(w[0]);
    random::seed(static_cast<unsigned>(std::stoul(w[1])));
    std::size_t k(2);
    auto next = [&]() -> const std::string & { return w.at(k++); };
    try
    {
      if (c == "gacreate")
      {
        const std::size_t n(std::stoul(next()));
        std::vector<range_t<int>> rg;
        for (std::size_t i(0); i < n; ++i) { const int lo(std::stoi(next())); const int hi(std::stoi(next())); rg.push_back({lo, hi}); }
        ga_problem prob(rg);
        std::string res;
        {
          logging l;
          const i_ga x(prob);
          res = show(x) + (x.is_valid() ? "" : " INVALID");
        }
        std::cout << res << " |" << draws << std::endl;
      }
      else if (c == "gamut")
      {
        const double pgm(dbl(next()));
        const std::size_t n(std::stoul(next()));
        std::vector<range_t<int>> rg;
        for (std::size_t i(0); i < n; ++i) { const int lo(std::stoi(next())); const int hi(std::stoi(next())); rg.push_back({lo, hi}); }
        const unsigned age(std::stoul(next()));
        std::vector<int> g;
        for (std::size_t i(0); i < n; ++i) g.push_back(std::stoi(next()));
        ga_problem prob(rg);
        i_ga x(make_ga(g, age));
        unsigned cnt;
        {
          logging l;
          cnt = x.mutation(pgm, prob);
        }
        std::cout << show(x) << " n " << cnt << (x.is_valid() ? "" : " INVALID") << " |" << draws << std::endl;
      }
      else if (c == "gacross")
      {
        const std::size_t n(std::stoul(next()));
        const unsigned agel(std::stoul(next()));
        std::vector<int> l, r;
        for (std::size_t i(0); i < n; ++i) l.push_back(std::stoi(next()));
        const unsigned ager(std::stoul(next()));
        for (std::size_t i(0); i < n; ++i) r.push_back(std::stoi(next()));
        const i_ga lhs(make_ga(l, agel)), rhs(make_ga(r, ager));
        std::string res;
        {
          logging lg;
          const i_ga x(crossover(lhs, rhs));
          res = show(x) + (x.is_valid() ? "" : " INVALID");
        }
        std::cout << res << " |" << draws << std::endl;
      }
      else if (c == "decreate")
      {
        const std::size_t n(std::stoul(next()));
        std::vector<range_t<double>> rg;
        for (std::size_t i(0); i < n; ++i) { const double lo(dbl(next())); const double hi(dbl(next())); rg.push_back({lo, hi}); }
        de_problem prob(rg);
        std::string res;
        {
          logging l;
          const i_de x(prob);
          res = show(x) + (x.is_valid() ? "" : " INVALID");
        }
        std::cout << res << " |" << draws << std::endl;
      }
      else if (c == "decross")
      {
        const double p(dbl(next()));
        const double flo(dbl(next())), fhi(dbl(next()));
        const std::size_t n(std::stoul(next()));
        auto ind = [&]()
        {
          const unsigned age(std::stoul(next()));
          std::vector<double> g;
          for (std::size_t i(0); i < n; ++i) g.push_back(dbl(next()));
          return make_de(g, age);
        };
        const i_de t(ind()), a(ind()), b(ind()), cc(ind());
        std::string res;
        {
          logging l;
          const i_de x(t.crossover(p, {flo, fhi}, a, b, cc));
          res = show(x) + (x.is_valid() ? "" : " INVALID");
        }
        std::cout << res << " |" << draws << std::endl;
      }
      else if (c == "gaacc")
      {
        // the other public members of i_ga: size, empty, operator[] const, operator[] (write), conversion to vector,
        // operator==, inc_age
        const std::size_t n(std::stoul(next()));
        const unsigned age(std::stoul(next()));
        std::vector<int> g;
        for (std::size_t i(0); i < n; ++i) g.push_back(std::stoi(next()));
        const std::size_t i(std::stoul(next()));
        const int v(std::stoi(next()));
        const i_ga x(make_ga(g, age));
        std::string out("size " + std::to_string(x.parameters()) + " empty " + (x.empty() ? "1" : "0") + " get ");
        out += i < n ? std::to_string(x[i]) : "OOB";
        out += " set ";
        if (i < n)
        {
          i_ga y(x);
          y[i] = v;
          const std::vector<int> vec(y);  // operator std::vector<value_type>
          std::string s("g");
          for (auto e : vec) s += " " + std::to_string(e);
          out += s + " age " + std::to_string(y.age()) + " eq " + (x == y ? "1" : "0");
        }
        else
          out += "OOB";
        i_ga z(x);
        z.inc_age();
        out += " incage " + std::to_string(z.age()) + " self " + (x == x ? "1" : "0");
        std::cout << out << std::endl;
      }
      else if (c == "deacc")
      {
        const std::size_t n(std::stoul(next()));
        const unsigned age(std::stoul(next()));
        std::vector<double> g;
        for (std::size_t i(0); i < n; ++i) g.push_back(dbl(next()));
        const std::size_t i(std::stoul(next()));
        const double v(dbl(next()));
        const std::size_t m(std::stoul(next()));
        std::vector<double> w;
        for (std::size_t k2(0); k2 < m; ++k2) w.push_back(dbl(next()));
        const i_de x(make_de(g, age));
        std::string out("size " + std::to_string(x.parameters()) + " get ");
        out += i < n ? hexd(x[i]) : "OOB";
        out += " set ";
        if (i < n)
        {
          i_de y(x);
          y[i] = v;
          out += show(y) + " eq " + (x == y ? "1" : "0");
        }
        else
          out += "OOB";
        out += " assign ";
        if (m == n)
        {
          i_de y(x);
          y = w;
          out += show(y) + " eq " + (x == y ? "1" : "0");
        }
        else
          out += "SIZE";
        i_de z(x);
        z.inc_age();
        out += " incage " + std::to_string(z.age()) + " self " + (x == x ? "1" : "0");
        std::cout << out << std::endl;
      }
      else if (c == "decrossa")
      {
        // i_de::crossover with ALIASED operands: <alias> = four digits, equal digits = the same C++ object in those roles.
        // recombination::de picks a and b independently, so they may be the very same individual of the population.
        const std::string al(next());
        const double p(dbl(next()));
        const double flo(dbl(next())), fhi(dbl(next()));
        const std::size_t n(std::stoul(next()));
        std::vector<i_de> obj;
        for (int r(0); r < 4; ++r)
        {
          const unsigned age(std::stoul(next()));
          std::vector<double> g;
          for (std::size_t i(0); i < n; ++i) g.push_back(dbl(next()));
          obj.push_back(make_de(g, age));
        }
        // the line lists target, a, b, c; roles sharing a digit of <alias> are served by ONE object (the first such role's)
        auto pick = [&](std::size_t r) -> const i_de & { return obj.at(al.find(al.at(r))); };
        const i_de &t(pick(0)), &a(pick(1)), &b(pick(2)), &cc(pick(3));
        std::string res;
        {
          logging l;
          const i_de x(t.crossover(p, {flo, fhi}, a, b, cc));
          res = show(x) + (x.is_valid() ? "" : " INVALID");
        }
        std::cout << res << " |" << draws << std::endl;
      }
      else if (c == "deruns")
      {
        // in situ, a HISTORY of differential-evolution searches in one process, each with its own control parameters:
        // deruns <seed> <gens> <pop> <k> { <pcross> <flo> <fhi> } x k   (box [-5.12, 5.12]^3)
        // -> per run: the distinct bounds of the real draws that are not the box (= the weight intervals F was drawn from)
        //    and the distinct probabilities of the boolean draws:   R <flo>:<fhi> ... B <p> ... ;
        const unsigned gens(std::stoul(next())), pop(std::stoul(next()));
        const unsigned runs(std::stoul(next()));
        static std::set<std::string> *rs, *bs;
        std::string out;
        for (unsigned r(0); r < runs; ++r)
        {
          const double pc(dbl(next())), flo(dbl(next())), fhi(dbl(next()));
          de_problem prob(3, {-5.12, 5.12});
          prob.env.individuals = pop;
          prob.env.generations = gens;
          prob.env.p_cross = pc;
          prob.env.de.weight = {flo, fhi};
          auto f = [](const std::vector<double> &x) { double s(0); for (double v : x) s -= v * v; return s; };
          std::set<std::string> rset, bset;
          rs = &rset;
          bs = &bset;
          de_search<decltype(f)> s(prob, f);
          random::verif::draw_sink = [](char k, long double lo, long double hi, long double)
          {
            if (k == 'r' && !(static_cast<double>(lo) == -5.12 && static_cast<double>(hi) == 5.12))
              rs->insert(hexd(static_cast<double>(lo)) + ":" + hexd(static_cast<double>(hi)));
            if (k == 'b')
              bs->insert(hexd(static_cast<double>(hi)));
          };
          {
            const int saved(dup(0));
            const int nul(open("/dev/null", O_RDONLY));
            dup2(nul, 0);
            s.run(1);
            dup2(saved, 0);
            close(nul);
            close(saved);
          }
          random::verif::draw_sink = nullptr;
          out += "R";
          for (const auto &x : rset) out += " " + x;
          out += " B";
          for (const auto &x : bset) out += " " + x;
          out += " ;";
        }
        std::cout << out << std::endl;
      }
      else if (c == "garun")
      {
        // in situ: the operators as evolution_recombination.tcc / ga_search use them.
        // garun <seed> <gens> <pop> <pcross> <pmut> <n> lo hi ...  -> OK <individuals seen> <draws> | BAD ...
        const unsigned gens(std::stoul(next())), pop(std::stoul(next()));
        const double pc(dbl(next())), pm(dbl(next()));
        const std::size_t n(std::stoul(next()));
        std::vector<range_t<int>> rg;
        for (std::size_t i(0); i < n; ++i) { const int lo(std::stoi(next())); const int hi(std::stoi(next())); rg.push_back({lo, hi}); }
        ga_problem prob(rg);
        prob.env.individuals = pop;
        prob.env.generations = gens;
        prob.env.p_cross = pc;
        prob.env.p_mutation = pm;
        auto f = [](const i_ga &x) -> fitness_t
        {
          double s(0);
          for (auto v : x) s += std::fabs(static_cast<double>(v));
          return {-s};
        };
        std::string bad;
        unsigned long seen(0), ndraws(0);
        static unsigned long *pd;
        pd = &ndraws;
        ga_search<decltype(f)> s(prob, f);
        s.after_generation([&](const population<i_ga> &p, const summary<i_ga> &sm)
        {
          for (unsigned l(0); l < p.layers(); ++l)
            for (unsigned i(0); i < p.individuals(l); ++i)
            {
              const i_ga &x(p[{l, i}]);
              ++seen;
              if (!bad.empty()) continue;
              if (x.parameters() != n)
                bad = "gen " + std::to_string(sm.gen) + " individual " + std::to_string(i) + " has " + std::to_string(x.parameters()) + " genes";
              else
                for (std::size_t k(0); k < n; ++k)
                  if (x[k] < rg[k].first || x[k] >= rg[k].second)
                  {
                    bad = "gen " + std::to_string(sm.gen) + " individual " + std::to_string(i) + " gene " + std::to_string(k) + " = " + std::to_string(x[k]);
                    break;
                  }
            }
        });
        random::verif::draw_sink = [](char, long double, long double, long double) { ++*pd; };
        {
          // the evolution loop polls the keyboard (term::user_stop reads file descriptor 0): keep it away from
          // the case stream
          const int saved(dup(0));
          const int nul(open("/dev/null", O_RDONLY));
          dup2(nul, 0);
          s.run(1);
          dup2(saved, 0);
          close(nul);
          close(saved);
        }
        random::verif::draw_sink = nullptr;
        if (bad.empty())
          std::cout << "OK " << seen << " " << ndraws << std::endl;
        else
          std::cout << "BAD " << bad << std::endl;
      }
      else
        std::cout << "BADLINE" << std::endl;
    }
    catch (const std::exception &e)
    {
      std::cout << "BADLINE " << e.what() << std::endl;
    }
  }
  return 0;
}
