// Correspondence harness for C19: prints hand-built individuals through the
// real out::c_language / cpp_language / mql_language / python_language
// manipulators and evaluates them with the real src_interpreter.
//
// input  (one case per line, three or four blank-separated fields)
//   S <sym>;<sym>;...   G <gene>;<gene>;...   [X <v>,<v>;<v>,<v>;...]
//   sym  ::= K:<ident>:<c0>[,<c1>]        shipped primitive class built with cvect {c0[,c1]}
//          | D:<hex64>:<cat>              constant<double>
//          | I:<int>:<cat>                constant<int>
//          | Q:<hexbytes>:<cat>           constant<std::string>
//          | V:<hexname>:<cat>            variable (ids in order of appearance)
//          | U:<hexname>:<cat>:<a0,a1,..> function with the default display
//          | T:<hexname>:<cat>:<0|1>      terminal with the default display (1 = parametric)
//   gene ::= <symbol index>:<param hex64|->:<row,row,...>[:<own row>]   (default: gene i on row i; best = {0,0})
//   v    ::= hex64 of a double (one per variable, in order of appearance)
// output
//   c:<hex> cpp:<hex> mql:<hex> py:<hex> [R <value> <value> ...]
// A gene may carry a 4th field, its row: several genes (of different categories)
// can then sit on the same row of the genome; such genomes are installed in the
// private matrix (`#define private public`), the others go through the public
// constructor i_mep(std::vector<gene>).
#include <bits/stdc++.h>

#define private public
#define protected public
#include "kernel/vita.h"
#include "kernel/gp/src/constant.h"
#include "kernel/gp/src/variable.h"
#include "kernel/gp/src/primitive/int.h"
#include "kernel/gp/src/primitive/real.h"
#include "kernel/gp/src/primitive/bool.h"
#include "kernel/gp/src/primitive/string.h"
#undef private
#undef protected

#include "common.h"

using namespace vita;

namespace
{
std::vector<std::string> split_on(const std::string &s, char sep)
{
  std::vector<std::string> out;
  std::string cur;
  for (char c : s)
    if (c == sep) { out.push_back(cur); cur.clear(); }
    else cur += c;
  out.push_back(cur);
  return out;
}

std::string unhex(const std::string &p)
{
  std::string s;
  for (std::size_t i(0); i + 1 < p.size(); i += 2)
    s += static_cast<char>(std::stoi(p.substr(i, 2), nullptr, 16));
  return s;
}

std::string hex(const std::string &s)
{
  std::string out;
  for (unsigned char c : s)
  {
    char b[4];
    std::snprintf(b, sizeof(b), "%02x", c);
    out += b;
  }
  return out.empty() ? "-" : out;
}

cvect cats(const std::string &s)
{
  cvect c;
  if (s.empty()) return c;
  for (const auto &w : split_on(s, ','))
    c.push_back(static_cast<category_t>(std::stoul(w)));
  return c;
}

class user_function : public function
{
public:
  user_function(const std::string &n, category_t c, cvect a) : function(n, c, std::move(a)) {}
  value_t eval(symbol_params &) const final { return {}; }
};

class user_terminal : public terminal
{
public:
  user_terminal(const std::string &n, category_t c, bool p) : terminal(n, c), p_(p) {}
  bool parametric() const final { return p_; }
  terminal_param_t init() const final { return 0.0; }
  value_t eval(symbol_params &) const final { return {}; }
private:
  bool p_;
};

using factory = std::function<symbol *(const cvect &)>;
std::map<std::string, factory> factories()
{
  std::map<std::string, factory> f;
#define K(ident, ...) f[#ident] = [](const cvect &c) -> symbol * { return new __VA_ARGS__(c); }
  K(int_number, integer::number);
  K(int_add, integer::add);
  K(int_div, integer::div);
  K(int_ife, integer::ife);
  K(int_ifl, integer::ifl);
  K(int_ifz, integer::ifz);
  K(int_mod, integer::mod);
  K(int_mul, integer::mul);
  K(int_shl, integer::shl);
  K(int_sub, integer::sub);
  K(real_real, real::real);
  K(real_integer, real::integer);
  K(real_abs, real::abs);
  K(real_add, real::add);
  K(real_aq, real::aq);
  K(real_cos, real::cos);
  K(real_div, real::div);
  K(real_gt, real::gt);
  K(real_idiv, real::idiv);
  K(real_ifb, real::ifb);
  K(real_ife, real::ife);
  K(real_ifl, real::ifl);
  K(real_ifz, real::ifz);
  K(real_length, real::length);
  K(real_ln, real::ln);
  K(real_lt, real::lt);
  K(real_max, real::max);
  K(real_mod, real::mod);
  K(real_mul, real::mul);
  K(real_sin, real::sin);
  K(real_sqrt, real::sqrt);
  K(real_sub, real::sub);
  K(real_sigmoid, real::sigmoid);
  K(bool_zero, boolean::zero);
  K(bool_one, boolean::one);
  K(bool_l_and, boolean::l_and);
  K(bool_l_not, boolean::l_not);
  K(bool_l_or, boolean::l_or);
  K(string_ife, str::ife);
#undef K
  return f;
}
}  // namespace

int main()
{
  const auto fac(factories());
  std::ios::sync_with_stdio(false);
  std::string line;
  while (std::getline(std::cin, line))
  {
    const auto w(vv::split(line));
    if (w.size() < 4 || w[0] != "S" || w[2] != "G") { std::cout << "BADLINE\n"; continue; }
    try
    {
      std::vector<std::unique_ptr<symbol>> syms;
      unsigned nvars(0);
      for (const auto &sd : split_on(w[1], ';'))
      {
        const auto p(split_on(sd, ':'));
        if (p.size() < 3) throw std::runtime_error("bad symbol " + sd);
        symbol *s(nullptr);
        if (p[0] == "K")
        {
          const auto it(fac.find(p[1]));
          if (it == fac.end()) throw std::runtime_error("unknown class " + p[1]);
          s = it->second(cats(p[2]));
        }
        else if (p[0] == "D")
          s = new constant<double>(vv::double_of(std::stoull(p[1], nullptr, 16)),
                                   static_cast<category_t>(std::stoul(p[2])));
        else if (p[0] == "I")
          s = new constant<int>(std::stoi(p[1]), static_cast<category_t>(std::stoul(p[2])));
        else if (p[0] == "Q")
          s = new constant<std::string>(unhex(p[1]), static_cast<category_t>(std::stoul(p[2])));
        else if (p[0] == "V")
          s = new variable(unhex(p[1]), nvars++, static_cast<category_t>(std::stoul(p[2])));
        else if (p[0] == "U" && p.size() == 4)
          s = new user_function(unhex(p[1]), static_cast<category_t>(std::stoul(p[2])), cats(p[3]));
        else if (p[0] == "T" && p.size() == 4)
          s = new user_terminal(unhex(p[1]), static_cast<category_t>(std::stoul(p[2])), p[3] == "1");
        else
          throw std::runtime_error("bad symbol " + sd);
        syms.emplace_back(s);
      }

      std::vector<gene> gv;
      std::vector<std::size_t> rows;
      for (const auto &gd : split_on(w[3], ';'))
      {
        const auto p(split_on(gd, ':'));
        if (p.size() != 3 && p.size() != 4) throw std::runtime_error("bad gene " + gd);
        rows.push_back(p.size() == 4 ? std::stoul(p[3]) : rows.size());
        symbol *s(syms.at(std::stoul(p[0])).get());
        std::vector<index_t> args;
        if (!p[2].empty())
          for (const auto &a : split_on(p[2], ','))
            args.push_back(static_cast<index_t>(std::stoul(a)));
        gene g(std::pair<symbol *, std::vector<index_t>>{s, args});
        if (p[1] != "-")
          g.par = vv::double_of(std::stoull(p[1], nullptr, 16));
        gv.push_back(g);
      }

      bool plain(true);
      for (std::size_t k(0); k < rows.size(); ++k)
        if (rows[k] != k) plain = false;
      i_mep prg0(plain ? gv : std::vector<gene>{gv[0]});
      if (!plain)
      {
        std::size_t nrows(0), ncats(0);
        for (std::size_t k(0); k < gv.size(); ++k)
        {
          nrows = std::max(nrows, rows[k] + 1);
          ncats = std::max<std::size_t>(ncats, gv[k].sym->category() + 1);
        }
        matrix<gene> m(nrows, ncats);
        for (std::size_t k(0); k < gv.size(); ++k)
          m(rows[k], gv[k].sym->category()) = gv[k];
        prg0.genome_ = m;
      }
      const i_mep &prg(prg0);
      {
        std::ostringstream o;
        o << out::c_language << prg;
        std::cout << "c:" << hex(o.str());
      }
      {
        std::ostringstream o;
        o << out::cpp_language << prg;
        std::cout << " cpp:" << hex(o.str());
      }
      {
        std::ostringstream o;
        o << out::mql_language << prg;
        std::cout << " mql:" << hex(o.str());
      }
      {
        std::ostringstream o;
        o << out::python_language << prg;
        std::cout << " py:" << hex(o.str());
      }
      if (w.size() >= 6 && w[4] == "X")
      {
        std::cout << " R";
        for (const auto &vec : split_on(w[5], ';'))
        {
          std::vector<value_t> ex;
          if (!vec.empty())
            for (const auto &x : split_on(vec, ','))
              ex.push_back(vv::double_of(std::stoull(x, nullptr, 16)));
          try
          {
            src_interpreter<i_mep> it(&prg);
            std::cout << ' ' << vv::show(it.run(ex));
          }
          catch (const std::bad_variant_access &)
          {
            std::cout << " THROW";
          }
        }
      }
      std::cout << '\n';
    }
    catch (const std::exception &e)
    {
      std::cout << "EXC " << e.what() << '\n';
    }
  }
}
